"""
C06 -- Nonlinear simulations satisfy the equations; match first order when linear.

Implementation: irispie.Simultaneous.simulate(method = stacked_time | period_by_period | first_order) and the
anchored internals (stacked_time._evaluators.create_evaluator, fords.terminators.Terminator, frames.split_into_frames,
the frame loop of simultaneous/_simulate.py driven by a marking simulator module).

Correspondence with the Lean model (IrisVerif/Model/Stacked.lean, driver C06):
  spots   (E)  _get_wrt_spots                               vs  wrtSpots
  frames  (E)  break points, stacked / period frames        vs  breakPoints, stackedFrames, periodFrames
  writers (E)  the whole frame loop (prune, write-back) run with a *marking* simulate_frame, every cell of the final
               main data array                                vs  runFrames markSolve
  resid   (T)  evaluator.eval_func(guess, data) of the real evaluator (real equations via their xtring, real terminator)
                                                              vs  System.evalFunc in exact rational arithmetic
  cert    (V)  linear models: the first-order recursion with the implementation's T, K, P, written into the frame and
               continued by the first-order terminal, evaluated exactly in the stacked system: residual <= tol (the
               certificate of theorem `firstOrder_is_unique_zero`), path = implementation's stacked-time frame path
  simlin  (T)  linear models: exact rational zero of the affine stacked system  vs  implementation's Newton result

Oracle (independent of the model; from the property statement): residual of every transition equation, recomputed by an
own evaluator of the equation *text*, at every simulated period of every frame, from the output databoxes with the input
initial conditions / shocks in force / exogenous data / terminal values in force (data, or the first-order continuation
of the frame's last state computed here from the solution matrices); write-back of the frames into the returned databox;
shocks, exogenous and measurement variables returned as they came in; linear models: agreement with method="first_order".
"""
from __future__ import annotations
import ast, contextlib, io, json, math, os, re, glob

import numpy as np
import irispie as ir
from irispie import equations as _eq, quantities as _qu, frames as _fr
from irispie.simultaneous import _simulate as _sim
from irispie.stacked_time import simulators as _st, _evaluators as _ev
from irispie.period_by_period import simulators as _pp
from irispie.fords.terminators import Terminator
from irispie.dataslates.main import Dataslate
import neqs as _nq

from .common import Ctx, rat_of_float, VERIF

DRIVERS = ["C06"]
LEVEL = "proof"
MANIFEST = {
    "category": "proof",
    "text": ("Lean 4 theorems about an executable model of the stacked-time / period-by-period simulators (stacked_time/_evaluators.py, "
             "simulators.py, equators/plain.py, fords/terminators.py, frames.py, period_by_period/simulators.py, the frame loop of "
             "simultaneous/_simulate.py), for every model, span length and lag/lead structure: (equation, column) <-> row of the stacked "
             "residual vector is a bijection (injective and surjective, all sizes); the entry of row (e,k) IS equation e evaluated at the "
             "k-th simulated column on the candidate array, which holds the guess at the unknown cells, the untouched input (initial "
             "conditions, shocks, exogenous data, parameters) everywhere else and the terminal values in force beyond the frame; hence "
             "||F||_inf < tol at exit implies every transition equation holds to tol in every simulated period; an equation reads only the "
             "cells of its incidence; the first-order terminal formula cum_T@xi+cum_K equals the recursion xi=T xi+K; frames tile the base "
             "span (concatenated slices = the span, for any break-point pattern), period-by-period frames are the single periods, and after "
             "the frame loop every base column holds the result of the frame that owns it (last writer = intended frame), later frames "
             "never touching it; for a linear (affine) stacked system with injective Jacobian the zero is unique, so when the first-order "
             "path passes the equation-residual certificate the stacked-time result coincides with it (with an explicit error identity "
             "x - x* = L (F x - F x*) for approximate zeros). Deepening: `_catch_missing` touches solved-for cells only; the converse of the exit test (a norm "
             "not below tol means some equation is violated by at least tol); one frame end to end (exit test => equations hold on an array whose "
             "parameter rows are the object's current values and whose other cells are the input); variant pairing (`exhaust_then_last` zip: exactly "
             "num_variants outputs, output k = data variant min(k,last) with parameter variant min(k,last)); histories of assign/copy/simulate on a "
             "heap of model objects refine the stateless specification (every simulate sees the parameters in force); the terminal condition with "
             "log-variables over an abstract log/exp (a window of columns is equivalent to all columns iff no log-variable of the state vector lies "
             "outside it); the executable QMat terminator refines the Mathlib-matrix recursion (no ring-law hypothesis left); the known finding is "
             "machine-checked on the model of the current first-order code (`finding_*`). Last round: the terminal values are pinned for EVERY terminal "
             "column (k-fold iterate of xi -> T xi + K, also for the executable QMat terminator); frames computed from any data tile the span "
             "(input-level corollary); frames per data variant are local to that variant; an initial guess (either mode) writes only current-dated "
             "transition rows inside the base span, so terminal columns keep the input; method spellings resolve to one simulator and a run depends "
             "on the string only through it; pruning never leaks into the main array; rejection branches (non-finite entry <=> undefined norm, "
             "division by zero, missing cell, unknown method string, no model variant). Hypotheses that remain per-run validated, not proved: the "
             "affine form and injectivity of the stacked Jacobian, the first-order certificate. PARTIAL: Newton iteration, sparse LU, convergence and floating point are "
             "runtime and outside the theorems; log-variables are outside the model. Tie: exact/tolerance correspondence of the model with "
             "the real evaluator, terminator, frame splitter and frame loop on every run (model input = the implementation's own compiled "
             "equations), certificate validation in exact rationals for linear models, plus an independent residual oracle on the output "
             "of Simultaneous.simulate for random linear and small nonlinear models, all methods, terminal and initial_guess options."),
    "design": "7/C06",
    "note": ("partial: solver convergence, LU and rounding are validated per run, not proved; measurement variables are not simulated by the "
             "nonlinear methods (they are returned as they came in) and the check demands exactly that reading of 'left consistent with their inputs'"),
    "technique": "Lean 4 proof over executable model + differential correspondence + exact-rational certificate validation + independent residual oracle",
}
ASSUMPTIONS = [
    "the theorems are about the Lean model; model = code is established per run by correspondence on generated cases (class E for spots/frames/frame loop, class T 1e-9 for residual vectors)",
    "Newton convergence, sparse LU and IEEE rounding are runtime: only runs whose every frame reports success are judged, as the property says",
    "log-variables are outside the Lean model (exp/log are not rational); they are covered by the Python oracle only",
    "the first-order solution (T, K, P) is taken from the implementation (property C01); linear agreement is demanded only on generator-controlled contraction models (row sums of |coefficients| < 1), where the bounded solution is unique and the stacked Jacobian is diagonally dominant",
    "'measurement variables are left consistent with their inputs' is read as: stacked_time / period_by_period return measurement variables exactly as they came in",
]

TOL = 1e-8          # residual / agreement tolerance relative to max(1, scale); solver func_tolerance is 1e-12
TOL_MODEL = 1e-9    # model vs implementation residual vectors
MAX_ITER = 60

_QUIET = io.StringIO()


@contextlib.contextmanager
def quiet():
    with contextlib.redirect_stdout(io.StringIO()):
        yield


# ---------------------------------------------------------------------------------------
# generators: model programs
# ---------------------------------------------------------------------------------------

def dy(rng, lo, hi, bits=3):
    return rng.randint(int(lo * (1 << bits)), int(hi * (1 << bits))) / float(1 << bits)


def fmt(x: float) -> str:
    s = repr(float(x))
    assert "e" not in s and "E" not in s, s
    return s


def gen_linear(rng, forward: bool):
    """contraction model  x_i = sum a_ij x_j{-1} [+ a2 x_j{-2}] + sum b_ij x_j{+1} + sum_{j!=i} c_ij x_j + d_i + shock_i  (+ exogenous)"""
    n = rng.randint(1, 3)
    names = ["x", "y", "z"][:n]
    shocks = [f"e{v}" for v in names]
    use_exo = rng.chance(0.3)
    eqs = []
    for i, v in enumerate(names):
        terms = []
        budget = 7  # eighths: sum |coef| <= 7/8
        cands = [(w, -1) for w in names] + ([(rng.choice(names), -2)] if rng.chance(0.35) else [])
        if forward:
            cands += [(w, +1) for w in names if rng.chance(0.7)] + ([(rng.choice(names), +2)] if rng.chance(0.2) else [])
        cands += [(w, 0) for w in names if w != v and rng.chance(0.5)]
        rng.shuffle(cands)
        for (w, s) in cands:
            if budget <= 0:
                break
            k = rng.randint(1, min(3, budget))
            budget -= k
            c = k / 8.0 * (1 if rng.chance(0.7) else -1)
            tok = w if s == 0 else f"{w}{{{s:+d}}}"
            terms.append(f"{fmt(c)}*{tok}")
        if rng.chance(0.6):
            terms.append(fmt(dy(rng, -2, 2)))
        if i < len(shocks) and (i == 0 or rng.chance(0.8)):
            terms.append(shocks[i])
        if use_exo and rng.chance(0.6):
            terms.append(f"{fmt(dy(rng, -1, 1, 2))}*w")
        if not terms:
            terms = ["0"]
        eqs.append(f"{v} = " + " + ".join(terms).replace("+ -", "- "))
    lagged_shock = False
    if rng.chance(0.3):      # a moving-average term: a LAGGED shock (valid, structurally unusual)
        i = rng.randint(0, n - 1)
        if re.search(rf"\b{shocks[i]}\b", eqs[i]):
            eqs[i] += f" + {fmt(rng.choice([0.5, -0.25, 0.25]))}*{shocks[i]}{{{-rng.choice([1, 1, 2])}}}"
            lagged_shock = True
    used_shocks = [s for s in shocks if any(re.search(rf"\b{s}\b", e) for e in eqs)]
    has_exo = any(re.search(r"\bw\b", e) for e in eqs)
    meas = None
    if rng.chance(0.6):
        meas = "obs = " + " + ".join(f"{fmt(dy(rng, 0.5, 2, 1))}*{v}" for v in names)
    return dict(kind="linear-fwd" if forward else "linear-bwd", linear=True, tvars=names, shocks=used_shocks, exo=["w"] if has_exo else [],
                params={}, logvars=[], eqs=eqs, meas=meas, assign={"w": dy(rng, -1, 1, 2)} if has_exo else {}, lagged_shock=lagged_shock)


def gen_poly(rng, forward: bool, rational: bool):
    """nonlinear model in deviations from a chosen steady state: linear contraction part + small products / ratios"""
    n = rng.randint(2, 3)
    names = ["x", "y", "z"][:n]
    ss = {v: dy(rng, -2, 2, 2) for v in names}
    use_exo = rng.chance(0.3)
    eqs = []
    def dev(w, s):
        tok = w if s == 0 else f"{w}{{{s:+d}}}"
        return f"({tok}-{w}_ss)"
    for i, v in enumerate(names):
        terms = [f"{v}_ss"]
        budget = 5
        cands = [(w, -1) for w in names]
        if forward:
            cands += [(w, +1) for w in names if rng.chance(0.6)]
        cands += [(w, 0) for w in names if w != v and rng.chance(0.4)]
        rng.shuffle(cands)
        for (w, s) in cands:
            if budget <= 0:
                break
            k = rng.randint(1, min(2, budget)); budget -= k
            c = k / 8.0 * (1 if rng.chance(0.7) else -1)
            terms.append(f"{fmt(c)}*{dev(w, s)}")
        # nonlinear part
        w1, w2 = rng.choice(names), rng.choice(names)
        s1 = -1
        s2 = rng.choice([0, 1] if forward else [0, -1])
        if w2 == v and s2 == 0:
            s2 = -1
        q = rng.choice([0.125, 0.25, -0.125, -0.25])
        form = rng.choice(["prod", "sq", "ratio"] if rational else ["prod", "sq", "cube"])
        if form == "prod":
            terms.append(f"{fmt(q)}*{dev(w1, s1)}*{dev(w2, s2)}")
        elif form == "sq":
            terms.append(f"{fmt(q)}*{dev(w2, s2)}^2")
        elif form == "cube":
            terms.append(f"{fmt(q)}*{dev(w1, s1)}^3")
        else:
            terms.append(f"{fmt(q)}*{dev(w1, s1)}/(1+{dev(w2, s2)}^2)")
        terms.append(f"e{v}")
        if use_exo and (i == 0 or rng.chance(0.4)):
            terms.append(f"{fmt(rng.choice([0.25, -0.25, 0.5]))}*w")
        eqs.append(f"{v} = " + " + ".join(terms).replace("+ -", "- "))
    if rng.chance(0.4):      # a lagged shock in one equation
        i = rng.randint(0, n - 1)
        eqs[i] += f" + {fmt(rng.choice([0.5, -0.25, 0.25]))}*e{names[i]}{{{-rng.choice([1, 1, 2])}}}"
    params = {f"{v}_ss": ss[v] for v in names}
    meas = "obs = " + " + ".join(f"{fmt(dy(rng, 0.5, 2, 1))}*{v}" for v in names) if rng.chance(0.5) else None
    return dict(kind=("poly" if not rational else "rational") + ("-fwd" if forward else "-bwd"), linear=False, tvars=names,
                shocks=[f"e{v}" for v in names], exo=["w"] if use_exo else [], params=params, logvars=[], eqs=eqs, meas=meas,
                assign=dict(ss, **({"w": 0.0} if use_exo else {})))


def gen_solow(rng):
    alpha = rng.choice([0.25, 0.375, 0.5]); delta = rng.choice([0.0625, 0.125]); s = rng.choice([0.125, 0.25]); rho = rng.choice([0.5, 0.75, 0.875])
    k = (s / delta) ** (1 / (1 - alpha))
    logv = rng.choice([[], ["y", "k", "z"], ["z"]])
    return dict(kind="solow-bwd", linear=False, tvars=["y", "k", "z"], shocks=["ez", "ek"], exo=[], logvars=logv,
                params=dict(alpha=alpha, delta=delta, s=s, rho=rho),
                eqs=["y = z*k{-1}^alpha", "k = (1-delta)*k{-1} + s*y + ek", "log(z) = rho*log(z{-1}) + ez"],
                meas="obs = 100*log(y)" if rng.chance(0.5) else None, assign=dict(z=1.0, k=k, y=k ** alpha))


def gen_rbc(rng):
    alpha = rng.choice([0.25, 0.375]); delta = rng.choice([0.0625, 0.125]); beta = rng.choice([0.9375, 0.96875]); rho = rng.choice([0.5, 0.75])
    k = ((1 / beta - 1 + delta) / alpha) ** (1 / (alpha - 1))
    c = k ** alpha - delta * k
    logv = rng.choice([[], ["c", "k", "z"]])
    return dict(kind="rbc-fwd", linear=False, tvars=["c", "k", "z"], shocks=["ez", "ec"], exo=[], logvars=logv,
                params=dict(alpha=alpha, delta=delta, beta=beta, rho=rho),
                eqs=["1/c = beta*(1/c{+1})*(alpha*z{+1}*k^(alpha-1) + 1 - delta)*exp(ec)",
                     "k = z*k{-1}^alpha + (1-delta)*k{-1} - c",
                     "log(z) = rho*log(z{-1}) + ez" + rng.choice(["", " + 0.125*log(z{-2})", " - 0.125*log(z{-2}) + 0.0625*log(z{-3})"])],
                **rng.choice([dict(meas=None), dict(meas="obs = 2*c", log_obs=True), dict(meas="obs = 100*log(c)")]), assign=dict(z=1.0, k=k, c=c))


def gen_loglin(rng, forward=True):
    """log-linear model, every variable a LOG-variable, lags up to 3 (the first-order state vector then holds lagged auxiliary entries
    of log-variables) and, when forward, leads: contraction in logs"""
    n = rng.randint(2, 3)
    names = ["x", "y", "z"][:n]
    eqs = []
    long_lag_done = False
    for i, v in enumerate(names):
        terms = []
        budget = 6
        cands = [(v, -1)] + [(w, -1) for w in names if w != v and rng.chance(0.5)]
        # a lag of 2 or 3 of some log-variable: always at least once per model
        if not long_lag_done or rng.chance(0.4):
            cands.append((rng.choice(names), -rng.choice([2, 2, 3])))
            long_lag_done = True
        if forward:
            cands += [(w, +1) for w in names if rng.chance(0.6)] or [(rng.choice(names), +1)]
        cands += [(w, 0) for w in names if w != v and rng.chance(0.4)]
        rng.shuffle(cands)
        long = [c_ for c_ in cands if c_[1] <= -2]
        cands = long + [c_ for c_ in cands if c_[1] > -2]      # the long lag always gets its share of the budget
        for (w, sh) in cands:
            if budget <= 0:
                break
            k = rng.randint(1, min(2, budget)); budget -= k
            c = k / 8.0 * (1 if rng.chance(0.7) else -1)
            tok = w if sh == 0 else f"{w}{{{sh:+d}}}"
            terms.append(f"{fmt(c)}*log({tok})")
        if rng.chance(0.5):
            terms.append(fmt(rng.choice([0.125, -0.125, 0.25])))
        terms.append(f"e{v}")
        eqs.append(f"log({v}) = " + " + ".join(terms).replace("+ -", "- "))
    if forward and not any("{+" in e for e in eqs):
        eqs[0] += f" + 0.125*log({names[-1]}{{+1}})"
    return dict(kind="loglin-fwd" if forward else "loglin-bwd", linear=False, tvars=names, shocks=[f"e{v}" for v in names], exo=[], params={},
                logvars=list(names), eqs=eqs, **rng.choice([dict(meas=None), dict(meas="obs = 100*log(x)"), dict(meas="obs = 2*x*y", log_obs=True),
                                                            dict(meas="obs = 2*x*y", log_obs=True)]), assign={v: 1.0 for v in names})


def source_of(spec) -> str:
    out = ["!transition-variables", "    " + ", ".join(spec["tvars"])]
    if spec["logvars"]:
        out += ["!log-variables", "    " + ", ".join(spec["logvars"])]
    if spec["exo"]:
        out += ["!exogenous-variables", "    " + ", ".join(spec["exo"])]
    if spec["shocks"]:
        out += ["!transition-shocks", "    " + ", ".join(spec["shocks"])]
    if spec["params"]:
        out += ["!parameters", "    " + ", ".join(spec["params"])]
    out += ["!transition-equations"] + [f"    {e};" for e in spec["eqs"]]
    if spec["meas"]:
        out += ["!measurement-variables", "    obs"]
        if spec.get("log_obs"):
            out += ["!log-variables", "    obs"]
        out += ["!measurement-equations", f"    {spec['meas']};"]
    return "\n".join(out) + "\n"


def build_model(spec):
    """-> model or None (rejected by the generator's own sanity conditions)"""
    with quiet():
        m = ir.Simultaneous.from_string(source_of(spec), linear=bool(spec["linear"]))
        m.assign(**spec["params"])
        m.assign(**spec["assign"])
        m.steady()
        m.solve()
    sol = m._gets_solution(deviation=False)
    T = np.asarray(sol.T, dtype=float)
    if not np.isfinite(T).all() or (T.size and max(abs(np.linalg.eigvals(T))) > 0.98):
        return None
    st = m.get_steady()
    for v in spec["tvars"]:
        lvl = st[v][0] if isinstance(st[v], (tuple, list)) else st[v]
        chg = st[v][1] if isinstance(st[v], (tuple, list)) else 0
        if not np.isfinite(lvl):
            return None
        ref = 1.0 if v in spec["logvars"] else 0.0
        if chg is not None and abs(chg - ref) > 1e-9:
            return None    # only flat steady states
    return m


# ---------------------------------------------------------------------------------------
# generators: scenarios
# ---------------------------------------------------------------------------------------

def make_period(freq: str, serial: int):
    return {"Q": ir.dates.QuarterlyPeriod, "Y": ir.dates.YearlyPeriod, "I": ir.dates.IntegerPeriod, "M": ir.dates.MonthlyPeriod}[freq](serial)


def gen_scenario(rng, spec, m, nonlinear: bool):
    freq = rng.choice(["Q", "Q", "Y", "M", "I"])
    start = {"Q": 8080, "Y": 2020, "M": 24240, "I": 5}[freq] + rng.randint(-3, 3)
    n = rng.weighted([(1, 1), (2, 2), (3, 2), (4, 2), (6, 2), (9, 1), (12, 1)])
    size = 0.0625 if nonlinear else 1.0
    unant, ant, init, exo = {}, {}, {}, {}
    n_un = rng.weighted([(0, 2), (1, 3), (2, 3), (3, 1)])
    for _ in range(n_un):
        s = rng.choice(spec["shocks"]) if spec["shocks"] else None
        if s:
            unant.setdefault(s, {})[rng.weighted([(0, 2)] + [(i, 1) for i in range(n)])] = size * rng.choice([1, -1, 0.5, 2, -0.25])
    if n >= 2 and rng.chance(0.7):
        # a lagged shock in the program: unanticipated shocks of THAT shock at two dates inside its lag window (a later frame starts there)
        lag_names = sorted(set(mo.group(1) for e in spec["eqs"] for mo in re.finditer(r"\b(e\w+)\{-\d\}", e)))
        if lag_names:
            sname = rng.choice(lag_names); i0 = rng.randint(0, n - 2)
            unant.setdefault(sname, {})[i0] = size * rng.choice([1, -1, 0.5])
            unant[sname][i0 + 1] = size * rng.choice([0.5, -0.5, 1])
    n_an = rng.weighted([(0, 3), (1, 2), (2, 1)])
    for _ in range(n_an):
        s = rng.choice(spec["shocks"]) if spec["shocks"] else None
        if s:
            ant.setdefault(s, {})[rng.randint(0, n - 1)] = size * rng.choice([1, -1, 0.5, -0.5])
    if rng.chance(0.6):
        for v in spec["tvars"]:
            for lag in range(1, -m.max_lag + 1):
                if rng.chance(0.7):
                    init.setdefault(v, {})[-lag] = size * rng.choice([0.5, -0.5, 0.25, 1, -1])   # deviation (multiplicative-ish for logs below)
    for w in spec["exo"]:
        for i in range(-2, n + 3):
            if rng.chance(0.4):
                exo.setdefault(w, {})[i] = dy(rng, -1, 1, 2) * (0.25 if nonlinear else 1.0)
    # values MISSING in the input at cells that are not solved for: measurement variable absent / partly absent, exogenous value
    # missing beyond the span, (rarely) a missing initial condition that some equation really reads
    r2 = rng.fork("missing")
    missing = {}
    if spec["meas"] and r2.chance(0.5):
        missing["obs"] = "absent" if r2.chance(0.4) else sorted(r2.sample(range(n), r2.randint(1, n)))
    if spec["exo"] and r2.chance(0.4):
        missing["exo_beyond"] = True
    if r2.chance(0.12):
        lagged = sorted(set((nm, sh) for e in spec["eqs"] for (nm, sh) in compile_equation(e)[1] if sh < 0 and nm in spec["tvars"]))
        if lagged:
            missing["init"] = list(r2.choice(lagged))
    if spec.get("log_obs"):      # a log-flagged measurement variable is given input data in every period (that is what is being watched)
        missing.pop("obs", None); missing.pop("init", None)
    return dict(freq=freq, start=start, n=n, unant=unant, ant=ant, init=init, exo=exo,
                term_data=rng.chance(0.5), missing=missing)


def build_db(spec, m, sc):
    start = make_period(sc["freq"], sc["start"])
    span = start >> (start + sc["n"] - 1)
    db = ir.Databox.steady(m, span)
    for s, d in sc["unant"].items():
        for i, v in d.items():
            db[s][start + int(i)] = float(v)
    for s, d in sc["ant"].items():
        for i, v in d.items():
            db["ant_" + s][start + int(i)] = float(v)
    for v, d in sc["init"].items():
        for i, dev in d.items():
            p = start + int(i)
            old = float(db[v].get_data(p).ravel()[0])
            db[v][p] = old * (1 + dev / 4) if v in spec["logvars"] else old + dev
    for w, d in sc["exo"].items():
        for i, v in d.items():
            db[w][start + int(i)] = float(v)
    if sc.get("term_data"):
        # terminal columns that differ from the steady state, so that terminal="data" is visible
        for v in spec["tvars"]:
            for k in range(1, m.max_lead + 1):
                p = start + sc["n"] - 1 + k
                old = float(db[v].get_data(p).ravel()[0])
                db[v][p] = old * 1.0625 if v in spec["logvars"] else old + 0.125 * k
    apply_missing(db, spec, sc, start)
    return db, span


def apply_missing(db, spec, sc, start):
    mis = sc.get("missing") or {}
    if mis.get("obs") == "absent":
        del db["obs"]
    elif mis.get("obs"):
        for i in mis["obs"]:
            db["obs"][start + int(i)] = float("nan")
    if mis.get("exo_beyond"):
        for w in spec["exo"]:
            db[w][start + sc["n"]] = float("nan")       # first period after the span: read by no equation of the span
    if mis.get("init"):
        nm, sh = mis["init"]
        db[nm][start + int(sh)] = float("nan")


def build_model_variants(spec, nv):
    """the same program with `nv` parameter variants (equal parameters; the variants differ in their input data)"""
    with quiet():
        m = ir.Simultaneous.from_string(source_of(spec), linear=bool(spec["linear"]))
        m.alter_num_variants(nv)
        m.assign(**spec["params"])
        m.assign(**spec["assign"])
        m.steady()
        m.solve()
    return m


def build_db_multi(spec, m, m1, scs):
    """one databox with len(scs) variants; scenario v gives the data of variant v (`exovals`: data of exogenized points)"""
    sc0 = scs[0]
    nv = len(scs)
    start = make_period(sc0["freq"], sc0["start"])
    span = start >> (start + sc0["n"] - 1)
    db = ir.Databox.steady(m, span)
    cells = {}      # (name, index) -> [value per variant or None]

    def put(v, name, i, fn):
        cells.setdefault((name, int(i)), [None] * nv)[v] = fn

    for v, sc in enumerate(scs):
        for sname, d in sc["unant"].items():
            for i, x in d.items():
                put(v, sname, i, lambda old, x=x: float(x))
        for sname, d in sc["ant"].items():
            for i, x in d.items():
                put(v, "ant_" + sname, i, lambda old, x=x: float(x))
        for name, d in list(sc["init"].items()) + list(sc.get("exovals", {}).items()):
            for i, dev in d.items():
                put(v, name, i, (lambda old, dev=dev: old * (1 + dev / 4)) if name in spec["logvars"] else (lambda old, dev=dev: old + dev))
        for w, d in sc["exo"].items():
            for i, x in d.items():
                put(v, w, i, lambda old, x=x: float(x))
    for (name, i), fns in sorted(cells.items()):
        per = start + i
        old = np.asarray(db[name].get_data(per), dtype=float).ravel()
        old = [float(old[min(v, len(old) - 1)]) for v in range(nv)]
        db[name][per] = [fns[v](old[v]) if fns[v] is not None else old[v] for v in range(nv)]
    mis = dict(sc0.get("missing") or {})
    mis.pop("init", None)
    apply_missing(db, spec, dict(sc0, missing=mis), start)
    return db, span


def gen_plan(rng, spec, n):
    """swap pairs (variable, shock of its own equation): anticipated over 1-2 periods, unanticipated at one period"""
    if spec["kind"].startswith("solow"):
        pairs = [("z", "ez"), ("k", "ek")]
    elif spec["kind"].startswith("rbc"):
        pairs = [("z", "ez"), ("c", "ec")]
    else:
        pairs = [(v, "e" + v) for v in spec["tvars"] if ("e" + v) in spec["shocks"]]
    if not pairs:
        return None
    plan = {"ant": [], "un": []}
    used = set()
    if rng.chance(0.8):
        v, e = rng.choice(pairs)
        i0 = rng.randint(0, n - 1)
        idx = [i for i in range(i0, min(n, i0 + rng.randint(1, 2)))]
        plan["ant"].append([v, e, idx])
        used |= {(v, i) for i in idx}
    if rng.chance(0.6) or not plan["ant"]:
        v, e = rng.choice(pairs)
        i = rng.randint(0, n - 1)
        if (v, i) not in used:
            plan["un"].append([v, e, i])
    if not plan["ant"] and not plan["un"]:
        return None
    return plan


def make_plan(m, span, plan):
    p = ir.PlanSimulate(m, span)
    for v, e, idx in plan["ant"]:
        p.swap_anticipated(tuple(span[0] + int(i) for i in idx), (v, "ant_" + e))
    for v, e, i in plan["un"]:
        p.swap_unanticipated(span[0] + int(i), (v, e))
    return p


# ---------------------------------------------------------------------------------------
# the independent oracle
# ---------------------------------------------------------------------------------------

_TOK = re.compile(r"([A-Za-z_]\w*)(?:\{([+-]?\d+)\})?")
_FUNCS = {"log": math.log, "exp": math.exp, "sqrt": math.sqrt}


def compile_equation(text: str):
    """own reading of the equation text: `lhs = rhs` -> python source of rhs-(lhs) over V(name, shift)"""
    lhs, rhs = text.split("=")
    def repl(mo):
        name, sh = mo.group(1), mo.group(2)
        if name in _FUNCS:
            return name
        return f'V("{name}",{int(sh) if sh else 0})'
    src = _TOK.sub(repl, f"({rhs})-({lhs})").replace("^", "**")
    return compile(src, "<eq>", "eval"), sorted(set((mo.group(1), int(mo.group(2) or 0)) for mo in _TOK.finditer(text) if mo.group(1) not in _FUNCS))


class Values:
    """name -> {serial: value} tables with layered lookup"""
    def __init__(self):
        self.layers = []       # list of (lo, hi, table) : table[name][serial]
    def add(self, lo, hi, table):
        self.layers.append((lo, hi, table))
    def get(self, name, serial):
        for lo, hi, table in self.layers:
            if lo <= serial <= hi and name in table and serial in table[name]:
                return table[name][serial]
        return float("nan")


def table_of(db, names, lo_p, hi_p, v=0):
    """{name: {serial: float}} over lo_p..hi_p (missing -> nan) for variant `v` of the databox"""
    out = {}
    span = lo_p >> hi_p
    ser = [p.serial for p in span]
    vid = v
    for n in names:
        if n not in db.keys():
            continue
        v = db[n]
        if hasattr(v, "get_data"):
            arr = np.asarray(v.get_data(span), dtype=float).reshape(len(ser), -1)
            arr = arr[:, min(vid, arr.shape[1] - 1)]
        else:
            arr = np.full(len(ser), float(v))
        out[n] = dict(zip(ser, (float(a) for a in arr)))
    return out


def first_order_terminal(m, spec, lookup, last_serial, nlead):
    """the first-order continuation xi_{T+k} = T xi_{T+k-1} + K of the state at the frame's last column (own computation)"""
    sol = m._gets_solution(deviation=False)
    vec = m._get_dynamic_solution_vectors()
    qid_to_name = m.create_qid_to_name()
    T = np.asarray(sol.T, dtype=float); K = np.asarray(sol.K, dtype=float).ravel()
    toks = [(qid_to_name[t.qid], t.shift) for t in vec.transition_variables]
    def tr(name, x):
        return math.log(x) if name in spec["logvars"] else x
    xi = np.array([tr(nm, lookup(nm, last_serial + sh)) for nm, sh in toks], dtype=float)
    out = {}
    for k in range(1, nlead + 1):
        xi = T @ xi + K
        for j, (nm, sh) in enumerate(toks):
            if sh == 0:
                out.setdefault(nm, {})[last_serial + k] = math.exp(xi[j]) if nm in spec["logvars"] else float(xi[j])
    return out


def oracle_frames(in_tab, spec, base_lo, base_hi, extra_starts=()):
    """frames as the property's semantics of unanticipated shocks demands: a new frame starts in the first period and in every
    period with a non-zero unanticipated shock"""
    starts = [base_lo] + [s for s in range(base_lo + 1, base_hi + 1)
                          if s in extra_starts or any((lambda x: math.isfinite(x) and x != 0)(in_tab.get(sh, {}).get(s, 0.0)) for sh in spec["shocks"])]
    return [(a, (starts[i + 1] - 1 if i + 1 < len(starts) else base_hi)) for i, a in enumerate(starts)]


def judge_run(ctx: Ctx, case, m, spec, db, span, method, terminal, out, info, fo_out=None, vid=0, plan=None, func_tol=0.0):
    """the property on one successful simulate() call (variant `vid` of the databoxes; `m` is a single-variant model with that
    variant's parameters; `plan` = swap points of a simulation plan); records failures with ctx.fail"""
    base_lo, base_hi = span[0].serial, span[-1].serial
    start = span[0]
    lo_p, hi_p = start + m.max_lag - 1, start + (base_hi - base_lo) + m.max_lead + 1
    all_names = spec["tvars"] + spec["shocks"] + ["ant_" + s for s in spec["shocks"]] + spec["exo"] + (["obs"] if spec["meas"] else [])
    in_tab = table_of(db, all_names, lo_p, hi_p, vid)
    out_tab = table_of(out, all_names, lo_p, hi_p, vid)
    # points of a simulation plan: exogenized (variable, serial) hold input data, endogenized (shock, serial) are outputs
    exo_pts, endo_pts = set(), set()
    if plan:
        for v_, e_, idx in plan["ant"]:
            for i in idx:
                exo_pts.add((v_, base_lo + int(i))); endo_pts.add(("ant_" + e_, base_lo + int(i)))
        for v_, e_, i in plan["un"]:
            exo_pts.add((v_, base_lo + int(i))); endo_pts.add((e_, base_lo + int(i)))
    params = dict(spec["params"])
    compiled = [compile_equation(e) for e in spec["eqs"]]
    scale = max([1.0] + [abs(v) for n in spec["tvars"] for v in out_tab.get(n, {}).values() if math.isfinite(v)])
    tol = TOL * scale + 1.000001 * func_tol     # `func_tol`: the func_tolerance THIS call asked for, when it is not the default 1e-12
    n_checked = 0

    def same(a, b):
        return (a == b) or (a != a and b != b)

    # (1) inputs returned as they came in: shocks, exogenous, measurement variables over the base span; initial conditions before it
    for nm in spec["shocks"] + ["ant_" + s for s in spec["shocks"]] + spec["exo"] + (["obs"] if spec["meas"] else []):
        for s in range(base_lo, base_hi + m.max_lead + 1):      # the terminal columns are returned too (remove_terminal=False)
            a, b = in_tab.get(nm, {}).get(s, float("nan")), out_tab.get(nm, {}).get(s, float("nan"))
            if (nm, s) in endo_pts:
                continue
            if not same(a, b):
                site = "measurement-untouched" if nm == "obs" else "inputs-altered"
                ctx.fail(site, case, f"{method}: {nm}[{s - base_lo}] came in as {a!r} and is returned as {b!r}")
                return n_checked
    for nm in spec["tvars"]:
        for s in range(base_lo + m.max_lag, base_lo):
            a, b = in_tab.get(nm, {}).get(s, float("nan")), out_tab.get(nm, {}).get(s, float("nan"))
            if not same(a, b):
                ctx.fail("inputs-altered", case, f"{method}: initial condition {nm}[{s - base_lo}] came in as {a!r} and is returned as {b!r}")
                return n_checked

    # (1b) exogenized points of the plan hold this variant's own input data
    for (nm, s_) in sorted(exo_pts):
        a, b = in_tab.get(nm, {}).get(s_, float("nan")), out_tab.get(nm, {}).get(s_, float("nan"))
        if not (abs(a - b) <= 1e-9 * max(1.0, abs(a))):
            ctx.fail("exogenized-input-not-honoured", case, f"{method} variant {vid}: {nm}[{s_ - base_lo}] is exogenized with input {a!r} but is returned as {b!r}")
            return n_checked

    # (2) frames
    if method == "stacked_time":
        frames = oracle_frames(in_tab, spec, base_lo, base_hi, [s_ for (nm, s_) in endo_pts if not nm.startswith("ant_")])
        sim_last = {f: base_hi for f in frames}
    else:
        frames = [(s, s) for s in range(base_lo, base_hi + 1)]
        sim_last = {f: f[1] for f in frames}
    impl_frames = [(f.start.serial, f.end.serial) for f in info["frames"]]
    if impl_frames != frames:
        ctx.fail("frames-tiling", case, f"{method}: frames {impl_frames} but unanticipated shocks start frames at {frames}")
        return n_checked
    covered = [s for a, b in impl_frames for s in range(a, b + 1)]
    if covered != list(range(base_lo, base_hi + 1)):
        ctx.fail("frames-tiling", case, f"{method}: frame slices {impl_frames} do not tile the span")
        return n_checked

    # (3) per frame: equations hold at every simulated period with the values in force; write-back into the returned databox
    un_names = spec["shocks"]
    for k, (fa, fb) in enumerate(frames):
        fdb = info["frame_databoxes"][k]
        f_tab = table_of(fdb, spec["tvars"], start, span[-1])
        f_sh = table_of(fdb, spec["shocks"] + ["ant_" + s_ for s_ in spec["shocks"]], start, span[-1]) if endo_pts else {}
        V = Values()
        last = sim_last[(fa, fb)]
        # shocks in force in this frame: anticipated as they came in; unanticipated at the frame start only (none expected later)
        sh_tab = {}
        for sname in spec["shocks"]:
            sh_tab[sname] = {}
            for s in range(base_lo, base_hi + 1):
                u = in_tab.get(sname, {}).get(s, 0.0)
                if (sname, s) in endo_pts and s == fa:
                    u = f_sh.get(sname, {}).get(s, float("nan"))          # endogenized: an output of this frame
                if (sname, s) in endo_pts and s < fa:
                    u = out_tab.get(sname, {}).get(s, float("nan"))       # endogenized by an earlier frame (read through a lagged shock)
                if method == "stacked_time" and s > fa:
                    u = 0.0      # not known when the frame's expectations are formed
                a = in_tab.get("ant_" + sname, {}).get(s, 0.0)
                if ("ant_" + sname, s) in endo_pts and s >= fa:
                    a = f_sh.get("ant_" + sname, {}).get(s, float("nan"))  # endogenized: an output of this frame
                if ("ant_" + sname, s) in endo_pts and s < fa:
                    a = out_tab.get("ant_" + sname, {}).get(s, float("nan"))
                sh_tab[sname][s] = (0.0 if u != u else u) + (0.0 if a != a else a)
        V.add(base_lo, base_hi, sh_tab)
        V.add(base_lo, base_hi, {w: in_tab.get(w, {}) for w in spec["exo"]})
        V.add(-10**9, 10**9, {w: in_tab.get(w, {}) for w in spec["exo"]})
        V.add(base_lo, base_hi, f_tab)                       # the frame's path
        V.add(-10**9, base_lo - 1, in_tab)                    # initial conditions
        # terminal values in force
        nlead = m.max_lead
        if nlead:
            if terminal == "first_order":
                t_tab = first_order_terminal(m, spec, lambda nm, s: V.get(nm, s), last, nlead)
            else:
                t_tab = {nm: {s: (in_tab.get(nm, {}).get(s, float("nan")) if s > base_hi else f_tab_or_main(method, out_tab, f_tab, nm, s))
                              for s in range(last + 1, last + nlead + 1)} for nm in spec["tvars"]}
            V.add(last + 1, last + nlead, t_tab)
        for s in range(fa, last + 1):
            env = dict(_FUNCS)
            env["V"] = lambda nm, sh, _s=s: params[nm] if nm in params else V.get(nm, _s + sh)
            for ei, (code, toks) in enumerate(compiled):
                try:
                    r = eval(code, {"__builtins__": {}}, env)
                except (ValueError, ZeroDivisionError, OverflowError):
                    r = float("nan")
                n_checked += 1
                if not (abs(r) <= tol):
                    ctx.fail("stacked-residual" if method == "stacked_time" else "pbp-residual", case,
                             f"{method} terminal={terminal} frame {k} ({fa - base_lo}..{fb - base_lo}), period index {s - base_lo}: equation `{spec['eqs'][ei]}` "
                             f"has residual {r!r} (tolerance {tol:.3g}) on the returned path")
                    return n_checked
        # write-back: the returned databox holds this frame's path on the frame's own slice
        for nm in spec["tvars"]:
            for s in range(fa, fb + 1):
                a, b = f_tab.get(nm, {}).get(s, float("nan")), out_tab.get(nm, {}).get(s, float("nan"))
                if not same(a, b):
                    ctx.fail("frame-writeback", case, f"{method}: {nm}[{s - base_lo}] is {b!r} in the returned databox but frame {k}, which owns the period, computed {a!r}")
                    return n_checked

    # (4) linear model: coincide with the first-order simulation
    if spec["linear"] and spec.get("lagged_shock"):
        ctx.count("linear-agreement:not-demanded:lagged-shock")      # candidate finding on the first-order side, see notes/C06.md
    elif spec["linear"] and fo_out is not None and (terminal == "first_order" or m.max_lead == 0):
        fo_tab = table_of(fo_out, spec["tvars"], start, span[-1], vid)
        for nm in spec["tvars"]:
            for s in range(base_lo, base_hi + 1):
                a, b = fo_tab[nm][s], out_tab[nm][s]
                n_checked += 1
                if not (abs(a - b) <= tol):
                    exo_active = any(math.isfinite(v) and v != 0 for w in spec["exo"] for v in in_tab.get(w, {}).values())
                    # FINDING (see notes/C06.md): the first-order machinery leaves exogenous variables out of the linearised system
                    # altogether (steady state, solution and simulate_flat ignore them), the nonlinear methods honour their paths
                    site = "linear-agreement-exogenous-ignored-by-first-order" if exo_active else "linear-agreement"
                    ctx.fail(site, case, f"{method}: {nm}[{s - base_lo}] = {b!r} but first_order gives {a!r}"
                             + (" (the model has an exogenous variable with a non-zero path)" if exo_active else ""))
                    return n_checked
    return n_checked


def f_tab_or_main(method, out_tab, f_tab, nm, s):
    # terminal="data" inside the base span (period-by-period with leads is outside the quantifier; kept for completeness)
    return f_tab.get(nm, {}).get(s, float("nan"))


# ---------------------------------------------------------------------------------------
# running the implementation
# ---------------------------------------------------------------------------------------

CONFIGS_ST = [
    dict(terminal="first_order", initial_guess="first_order"),
    dict(terminal="first_order", initial_guess="data"),
    dict(terminal="data", initial_guess="first_order"),
    dict(terminal="data", initial_guess="data"),
]


# the documented spellings of each method (keys of `_SIMULATOR_MODULE`): a run is made through one of them, the oracle judges it as the
# method it names, and the spellings of one method must return identical results
SPELLINGS = {"stacked_time": ["stacked_time", "stacked"], "period_by_period": ["period_by_period", "period"], "first_order": ["first_order"]}


def other_spelling(method, spelling):
    alts = [x for x in SPELLINGS[method] if x != spelling]
    return alts[0] if alts else None


def same_databox_paths(a, b, names, span_full):
    """first difference between two returned databoxes on `names` (NaN-equal, bitwise otherwise), or None"""
    for nm in names:
        if (nm in a.keys()) != (nm in b.keys()):
            return f"{nm} is returned by one spelling only"
        if nm not in a.keys():
            continue
        x = np.asarray(a[nm].get_data(span_full), dtype=float)
        y = np.asarray(b[nm].get_data(span_full), dtype=float)
        if x.shape != y.shape:
            return f"{nm}: shapes {x.shape} and {y.shape}"
        bad = ~((x == y) | (np.isnan(x) & np.isnan(y)))
        if bad.any():
            i = int(np.argwhere(bad)[0][0])
            return f"{nm}[{i}] = {x.ravel()[np.flatnonzero(bad.ravel())[0]]!r} vs {y.ravel()[np.flatnonzero(bad.ravel())[0]]!r}"
    return None


# the distinct `solver_settings` of the nonlinear calls made so far in this process, in order: part of every failure payload, because a
# failure may depend on what EARLIER calls in the process asked for (cross-call state); a replay makes these calls first
PRIOR_SETTINGS: list = []


def note_settings(kw):
    st = kw.get("solver_settings")
    if st is not None:
        js = {k: (v if v != float("inf") else "inf") for k, v in st.items()}
        if js not in PRIOR_SETTINGS:
            PRIOR_SETTINGS.append(js)


def replay_prior_calls(ctx, spec, sc, prior):
    """the calls with other solver settings that preceded the failing one in its process (same process-wide state on replay)"""
    m = build_model(spec)
    if m is None or not prior:
        return
    db, span = build_db(spec, m, dict(sc, missing={}))
    for js in prior:
        st = {k: (float("inf") if v == "inf" else v) for k, v in js.items()}
        try:
            with quiet():
                m.simulate(db, span, method="stacked_time", when_fails="silent", solver_settings=st)
        except Exception as e:
            ctx.count(f"replay:prior-call-raised:{type(e).__name__}")


def attach_prior(ctx):
    for f in ctx.failures:
        if isinstance(f.get("case"), dict) and "prior_solver_settings" not in f["case"]:
            f["case"]["prior_solver_settings"] = list(PRIOR_SETTINGS)


def run_simulate(m, db, span, method, **kw):
    note_settings(kw)
    with quiet():
        out, info = m.simulate(db, span, method=method, return_info=True, remove_terminal=False, when_fails="silent", **kw)
    ok = all(s.is_success for s in info["exit_status"])
    return out, info, ok


def case_payload(spec, sc, cfg):
    return {"spec": spec, "scenario": sc, "config": cfg}


def run_case(ctx: Ctx, spec, sc, lines_out=None, only_cfg=None):
    """all configurations of one (model, scenario); returns number of judged runs"""
    m = build_model(spec)
    if m is None:
        ctx.count("gen:model-rejected")
        return 0
    db, span = build_db(spec, m, sc)
    judged = 0
    fo_out = None
    if spec["linear"]:
        fo_out, _, _ = run_simulate(m, db, span, "first_order")
    cfgs = []
    for c in CONFIGS_ST:
        for tolset in ("default", "func-only"):
            cfgs.append(dict(method="stacked_time", **c, solver=tolset))
    if m.max_lead == 0:
        for ig in ("data", "first_order"):
            for tolset in ("default", "func-only"):
                cfgs.append(dict(method="period_by_period", initial_guess=ig, solver=tolset))
    # every configuration is run through one of the documented spellings of its method (alternating), see SPELLINGS
    for j, cfg in enumerate(cfgs):
        cfg["spelling"] = SPELLINGS[cfg["method"]][(j // 2 + j) % 2]
    if only_cfg is not None:
        cfgs = [only_cfg]
    all_names = spec["tvars"] + spec["shocks"] + ["ant_" + s_ for s_ in spec["shocks"]] + spec["exo"] + (["obs"] if spec["meas"] else [])
    span_full = (span[0] + m.max_lag) >> (span[-1] + m.max_lead)
    loose_done = False
    first_run = {}      # determinism: (configuration index) -> returned databox of its first run
    if only_cfg is None:
        cfgs = cfgs[:3] + [dict(loose=True)] + cfgs[3:] + [dict(cfgs[1], repeat_of=1), dict(cfgs[0], repeat_of=0)]
    for cj, cfg in enumerate(cfgs):
        if cfg.get("loose"):
            # a call with NON-DEFAULT solver settings in the middle of the sequence (loose tolerance, hardly any iterations); judged at ITS
            # tolerance if it reports success; every later call is judged at the default tolerance again
            loose_done = True
            ft = [0.5, 0.125, 1e-3][len(spec["eqs"]) % 3]
            try:
                out, info, ok = run_simulate(m, db, span, "stacked", terminal="first_order", initial_guess="data",
                                             solver_settings={"func_tolerance": ft, "step_tolerance": float("inf"), "max_iterations": 2, "norm_order": float("inf")})
                ctx.count("settings:loose-call")
                if ok:
                    judge_run(ctx, case_payload(spec, sc, dict(method="stacked_time", terminal="first_order", initial_guess="data", solver="loose", func_tolerance=ft)),
                              m, spec, db, span, "stacked_time", "first_order", out, info, None, func_tol=ft)
            except Exception as e:
                ctx.count(f"run:loose:raised:{type(e).__name__}")
            continue
        if loose_done:
            cfg["after_loose"] = True      # a replay of this configuration re-runs the whole sequence of calls of the case
        kw = {}
        spelling = cfg.get("spelling", cfg["method"])
        if cfg["method"] == "stacked_time":
            kw["terminal"] = cfg["terminal"]
        kw["initial_guess"] = cfg["initial_guess"]
        # max_iterations bounds the run time when Newton does not converge (default 5000); converging runs need < 20
        kw["solver_settings"] = {"max_iterations": MAX_ITER}
        if cfg["solver"] == "func-only":
            kw["solver_settings"]["step_tolerance"] = float("inf")
        try:
            out, info, ok = run_simulate(m, db, span, spelling, **kw)
        except Exception as e:
            ctx.count(f"run:{cfg['method']}:raised:{type(e).__name__}")
            continue
        ctx.count(f"spelling:{spelling}")
        # determinism across calls: the same call later in the sequence (after calls with other settings) returns the same databox
        if "repeat_of" in cfg:
            prev = first_run.get(cfg["repeat_of"])
            if prev is not None:
                ctx.count("settings:repeat-call-compared")
                diff = None if prev[1] != ok else same_databox_paths(prev[0], out, all_names, span_full)
                if prev[1] != ok or diff:
                    ctx.fail("repeat-call-differs", case_payload(spec, sc, {k_: v_ for k_, v_ in cfg.items() if k_ != "repeat_of"}),
                             f"the same simulate() call made twice in one process (other calls with other solver_settings in between) "
                             + ("reports success once and failure once" if prev[1] != ok else f"returns different paths: {diff}"))
                    continue
        else:
            first_run[cj if cj < 3 else cj - 1] = (out, ok)
        terminal = cfg.get("terminal", "data")
        key = f"{cfg['method']}:{terminal}:{cfg['initial_guess']}:{cfg['solver']}"
        # spelling equivalence: the same call through the other documented name of the method returns the same databox
        alt = other_spelling(cfg["method"], spelling)
        if alt and cfg["solver"] == "func-only":
            try:
                out2, info2, ok2 = run_simulate(m, db, span, alt, **kw)
                diff = same_databox_paths(out, out2, all_names, span_full)
                ctx.count("spelling:equivalence-checked")
                if ok != ok2 or diff:
                    ctx.fail("method-spelling-differs", case_payload(spec, sc, cfg),
                             f"method={spelling!r} and method={alt!r} are documented as the same method but "
                             + (f"one reports success and the other does not" if ok != ok2 else f"return different paths: {diff}"))
                    continue
            except Exception as e:
                ctx.count(f"run:{alt}:raised:{type(e).__name__}")
        if not ok:
            ctx.count(f"not-success:{cfg['method']}:{cfg['solver']}")
            continue
        ctx.count("judged:" + key)
        ctx.count(f"frames:{cfg['method']}:{min(len(info['frames']), 4)}{'+' if len(info['frames']) > 4 else ''}")
        case = case_payload(spec, sc, cfg)
        nf = len(ctx.failures)
        k = judge_run(ctx, case, m, spec, db, span, cfg["method"], terminal, out, info, fo_out)
        ctx.evaluations += 1
        judged += 1
        ctx.count("oracle:residuals-recomputed", k)
        if len(ctx.failures) == nf:
            nfr = len(info["frames"])
            ctx.nontriv((spec["kind"], cfg["method"], terminal, cfg["initial_guess"], min(nfr, 3), m.max_lead > 0, -m.max_lag > 1,
                         bool(sc["ant"]), bool(sc["init"]), sc["n"]))
    return judged



def run_variant_case(ctx: Ctx, spec, scs, plan, only_cfg=None, model_nv=None):
    """several data variants with different input data, simulated together, with a simulation plan (swap points) or without:
    every variant is judged against ITS OWN inputs. `model_nv` = number of parameter variants of the model object (default: as many
    as data variants); with fewer, `simulate(..., num_variants=len(scs))` has to reuse the last model variant for the remaining data"""
    m1 = build_model(spec)
    if m1 is None:
        ctx.count("gen:model-rejected")
        return 0
    nv = len(scs)
    m_data = build_model_variants(spec, nv)
    db, span = build_db_multi(spec, m_data, m1, scs)
    model_nv = nv if model_nv is None else int(model_nv)
    m = m_data if model_nv == nv else (m1 if model_nv == 1 else build_model_variants(spec, model_nv))
    judged = 0
    cfgs = [dict(method="stacked_time", terminal="first_order", initial_guess=ig, solver="func-only") for ig in ("first_order", "data")]
    if m1.max_lead == 0:
        cfgs.append(dict(method="period_by_period", initial_guess="data", solver="func-only"))
    if only_cfg is not None:
        cfgs = [only_cfg]
    fo_out = None
    # agreement with first_order is demanded without a plan only: the property's linear clause is about shocks; with a plan that mixes
    # anticipated and unanticipated swaps the two methods give the earlier frames different information (see notes/C06.md)
    if spec["linear"] and not plan:
        try:
            with quiet():
                fo_out = m.simulate(db, span, method="first_order", when_fails="silent", num_variants=nv)
        except Exception as e:
            ctx.count(f"variants:first-order-raised:{type(e).__name__}")
    for cfg in cfgs:
        kw = {"initial_guess": cfg["initial_guess"], "solver_settings": {"max_iterations": MAX_ITER, "step_tolerance": float("inf")}}
        if cfg["method"] == "stacked_time":
            kw["terminal"] = cfg["terminal"]
        spelling = cfg.setdefault("spelling", SPELLINGS[cfg["method"]][(nv + len(scs[0]["unant"])) % 2])
        note_settings(kw)
        try:
            with quiet():
                out, info = m.simulate(db, span, method=spelling, plan=make_plan(m, span, plan) if plan else None,
                                       return_info=True, remove_terminal=False, when_fails="silent", unpack_singleton=False,
                                       num_variants=nv, **kw)
        except Exception as e:
            ctx.count(f"variants:{cfg['method']}:raised:{type(e).__name__}")
            continue
        terminal = cfg.get("terminal", "data")
        case = {"spec": spec, "scenarios": scs, "plan": plan, "config": cfg, "model_variants": model_nv}
        ctx.count(f"variants:model-variants-{model_nv}-of-{nv}")
        if len(info) != nv:
            # every requested data variant is a returned path the property speaks about: one that was never simulated is reported here
            # (its output columns are the untouched input, which the residual oracle would reject as well)
            ctx.fail("data-variant-not-simulated", case, f"{cfg['method']}: simulate(..., num_variants={nv}) on a model with {model_nv} parameter variant(s) "
                     f"returned info for {len(info)} variant(s) only: data variants {list(range(len(info), nv))} were never simulated")
            continue
        for v in range(nv):
            if not all(st.is_success for st in info[v]["exit_status"]):
                ctx.count(f"not-success:variants:{cfg['method']}")
                continue
            nf = len(ctx.failures)
            k = judge_run(ctx, case, m1, spec, db, span, cfg["method"], terminal, out, info[v], fo_out, vid=v, plan=plan)
            ctx.evaluations += 1
            judged += 1
            ctx.count("oracle:residuals-recomputed", k)
            ctx.count(f"judged:variants:{cfg['method']}:{'plan' if plan else 'no-plan'}")
            if len(ctx.failures) == nf:
                ctx.nontriv((spec["kind"], "variants", cfg["method"], cfg["initial_guess"], v, bool(plan and plan["ant"]), bool(plan and plan["un"]),
                             min(len(info[v]["frames"]), 3), m1.max_lead > 0, scs[0]["n"]))
    return judged


def gen_variant_case(rng, spec, m1):
    nonlinear = not spec["linear"]
    sc0 = gen_scenario(rng, spec, m1, nonlinear)
    sc0["term_data"] = False
    nv = rng.choice([2, 2, 3])
    scs = [sc0]
    for v in range(1, nv):
        sc = gen_scenario(rng.fork(f"variant{v}"), spec, m1, nonlinear)
        sc.update(freq=sc0["freq"], start=sc0["start"], n=sc0["n"], term_data=False)
        for key in ("unant", "ant"):
            sc[key] = {s_: {i: x for i, x in d.items() if int(i) < sc0["n"]} for s_, d in sc[key].items()}
        scs.append(sc)
    plan = gen_plan(rng, spec, sc0["n"]) if rng.chance(0.8) else None
    if plan:
        size = 0.0625 if nonlinear else 1.0
        for v, sc in enumerate(scs):
            ev = {}
            for var, _, idx in plan["ant"]:
                for i in idx:
                    ev.setdefault(var, {})[i] = size * (0.5 + 0.75 * v) * rng.choice([1, -1])
            for var, _, i in plan["un"]:
                ev.setdefault(var, {})[i] = size * (0.25 + 0.5 * v) * rng.choice([1, -1])
            sc["exovals"] = ev
    return scs, plan


# ---------------------------------------------------------------------------------------
# histories on one model object: simulate, re-parameterise (+ steady + solve), simulate again; copies
# ---------------------------------------------------------------------------------------

HISTORY_KINDS = ["poly-f", "poly-b", "rat-f", "rat-b", "solow", "rbc"]      # programs that have parameters


def reparam(rng, spec):
    """the same program with other parameter values (and the matching steady-state assignment)"""
    import copy as _copy
    new = _copy.deepcopy(spec)
    if spec["kind"].startswith("solow") or spec["kind"].startswith("rbc"):
        for _ in range(8):
            other = gen_solow(rng) if spec["kind"].startswith("solow") else gen_rbc(rng)
            if other["params"] != spec["params"]:
                break
        new["params"], new["assign"] = other["params"], other["assign"]
    else:
        for v in spec["tvars"]:
            d = rng.choice([0.5, -0.5, 0.75, 1.0, -1.25])
            new["params"][f"{v}_ss"] = spec["params"][f"{v}_ss"] + d
            new["assign"][v] = spec["assign"][v] + d
    return new


def apply_params(m, spec):
    with quiet():
        m.assign(**spec["params"])
        m.assign(**spec["assign"])
        m.steady()
        m.solve()
    sol = m._gets_solution(deviation=False)
    T = np.asarray(sol.T, dtype=float)
    return bool(np.isfinite(T).all() and (not T.size or max(abs(np.linalg.eigvals(T))) <= 0.98))


def run_history_case(ctx: Ctx, specs, sc, steps, only_cfg=None):
    """`specs` = the same program under successive parameterisations; `steps` = list of (index into specs, "same" | "copy", method):
    every simulate() of the history is judged with the parameters in force at that moment"""
    m = build_model(specs[0])
    if m is None:
        ctx.count("gen:model-rejected")
        return 0
    judged = 0
    current = 0
    for si, (pi, how, method) in enumerate(steps):
        spec = specs[pi]
        if how == "copy":
            m = m.copy()
        if pi != current:
            if not apply_params(m, spec):
                ctx.count("history:reparam-rejected")
                return judged
            current = pi
        if method == "period_by_period" and m.max_lead:
            method = "stacked_time"
        db, span = build_db(spec, m, sc)
        if si in (1, 3):     # a call with loose solver settings between the steps; the steps themselves stay at the default tolerance
            try:
                run_simulate(m, db, span, method, initial_guess="data",
                             solver_settings={"func_tolerance": 0.25, "step_tolerance": float("inf"), "max_iterations": 1})
                ctx.count("settings:loose-call")
            except Exception as e:
                ctx.count(f"history:loose:raised:{type(e).__name__}")
        cfg = dict(method=method, terminal="first_order", initial_guess="first_order" if method == "stacked_time" else "data", solver="func-only")
        kw = {"initial_guess": cfg["initial_guess"], "solver_settings": {"max_iterations": MAX_ITER, "step_tolerance": float("inf")}}
        if method == "stacked_time":
            kw["terminal"] = "first_order"
        try:
            out, info, ok = run_simulate(m, db, span, SPELLINGS[method][si % 2], **kw)
        except Exception as e:
            ctx.count(f"history:{method}:raised:{type(e).__name__}")
            continue
        if not ok:
            ctx.count(f"not-success:history:{method}")
            continue
        case = {"history": specs, "scenario": sc, "steps": steps, "failing_step": si}
        nf = len(ctx.failures)
        k = judge_run(ctx, case, m, spec, db, span, method, "first_order" if method == "stacked_time" else "data", out, info)
        ctx.evaluations += 1
        judged += 1
        ctx.count("oracle:residuals-recomputed", k)
        ctx.count(f"judged:history:step{si}:{how}:{method}")
        if len(ctx.failures) == nf:
            ctx.nontriv((spec["kind"], "history", si, how, method, pi, sc["n"]))
        else:
            return judged
    return judged


def gen_history_case(rng, kind=None):
    spec0 = gen_spec(rng, kind or rng.choice(HISTORY_KINDS))
    spec1 = reparam(rng.fork("p1"), spec0)
    spec2 = reparam(rng.fork("p2"), spec0)
    methods = ["stacked_time", "period_by_period"]
    steps = [[0, "same", rng.choice(methods)], [1, "same", rng.choice(methods)], [1, "same", rng.choice(methods)],
             [2, "copy", rng.choice(methods)], [0, "same", rng.choice(methods)]]
    return [spec0, spec1, spec2], steps


# ---------------------------------------------------------------------------------------
# a call that RETURNS NORMALLY (default when_fails) must have succeeded in every frame
# ---------------------------------------------------------------------------------------

def gen_failure_case(rng, kind):
    """several frames, a large unanticipated shock early and a tiny one in the last period, a cap on Newton's iterations: the early frame
    tends to stop unconverged while the last one converges"""
    spec = gen_spec(rng, kind)
    m = build_model(spec)
    if m is None or not spec["shocks"]:
        return None
    sc = gen_scenario(rng, spec, m, True)
    sc.update(n=rng.choice([3, 4, 6]), ant={}, init={}, missing={}, term_data=False)
    big = rng.choice([1.0, 1.5, -1.0, 2.0]) * (0.5 if kind in ("solow", "rbc") else 1.0)
    sc["unant"] = {spec["shocks"][0]: {0: big, sc["n"] - 1: 0.0009765625}}
    return spec, sc


def run_failure_case(ctx: Ctx, spec, sc, only_cfg=None):
    m = build_model(spec)
    if m is None:
        return 0
    db, span = build_db(spec, m, sc)
    cfgs = [dict(method=meth, max_iterations=k) for meth in (["stacked_time", "period_by_period"] if not m.max_lead else ["stacked_time"]) for k in (1, 2, 3)]
    if only_cfg is not None:
        cfgs = [only_cfg]
    judged = 0
    for cfg in cfgs:
        kw = {"solver_settings": {"max_iterations": cfg["max_iterations"], "step_tolerance": float("inf")}}
        note_settings(kw)
        case = {"spec": spec, "scenario": sc, "failure_config": cfg}
        try:
            with quiet():      # default when_fails: the call has to raise when any frame fails
                out, info = m.simulate(db, span, method=cfg["method"], return_info=True, remove_terminal=False, **kw)
        except Exception as e:
            ctx.count(f"failure-stream:reported:{type(e).__name__}")
            continue
        statuses = [st.is_success for st in info["exit_status"]]
        ctx.count("failure-stream:returned-normally")
        if not all(statuses):
            ctx.fail("failure-not-reported", case, f"{cfg['method']} with max_iterations={cfg['max_iterations']} returned normally (default when_fails) although frame(s) "
                     f"{[i for i, ok in enumerate(statuses) if not ok]} of {len(statuses)} ended with {[str(st) for st in info['exit_status'] if not st.is_success][:2]}: "
                     "the returned path has unconverged periods")
            continue
        k = judge_run(ctx, case, m, spec, db, span, cfg["method"], "first_order" if cfg["method"] == "stacked_time" else "data", out, info)
        ctx.evaluations += 1
        judged += 1
        ctx.count("oracle:residuals-recomputed", k)
    # how often the interesting pattern occurs (measured with when_fails="silent")
    try:
        _, info, _ = run_simulate(m, db, span, "stacked_time", solver_settings={"max_iterations": 2, "step_tolerance": float("inf")})
        st = [x.is_success for x in info["exit_status"]]
        if len(st) > 1 and st[-1] and not all(st):
            ctx.count("failure-stream:early-frame-fails-last-succeeds")
            ctx.nontriv((spec["kind"], "early-fail", len(st)))
    except Exception:
        pass
    return judged


# ---------------------------------------------------------------------------------------
# correspondence with the Lean model
# ---------------------------------------------------------------------------------------

class Unsupported(Exception):
    pass


def prefix_of_xtring(xtring: str) -> str:
    """the implementation's compiled equation (python source over x[(qid, t+shift)]) -> prefix text of the Lean `Expr`"""
    tree = ast.parse(xtring, mode="eval").body

    def num(c):
        if isinstance(c, bool) or not isinstance(c, (int, float)):
            raise Unsupported("constant")
        return "c " + rat_of_float(c)

    def go(n):
        if isinstance(n, ast.Constant):
            return num(n.value)
        if isinstance(n, ast.UnaryOp) and isinstance(n.op, ast.USub):
            return "n " + go(n.operand)
        if isinstance(n, ast.UnaryOp) and isinstance(n.op, ast.UAdd):
            return go(n.operand)
        if isinstance(n, ast.BinOp):
            if isinstance(n.op, ast.Pow):
                if isinstance(n.right, ast.Constant) and isinstance(n.right.value, int) and n.right.value >= 0:
                    return f"^ {n.right.value} " + go(n.left)
                raise Unsupported("power")
            op = {ast.Add: "+", ast.Sub: "-", ast.Mult: "*", ast.Div: "/"}.get(type(n.op))
            if op is None:
                raise Unsupported("binop")
            return f"{op} {go(n.left)} {go(n.right)}"
        if isinstance(n, ast.Subscript) and isinstance(n.value, ast.Name) and n.value.id == "x":
            tup = n.slice
            if not (isinstance(tup, ast.Tuple) and len(tup.elts) == 2 and isinstance(tup.elts[0], ast.Constant)):
                raise Unsupported("subscript")
            q = tup.elts[0].value
            t = tup.elts[1]
            if isinstance(t, ast.Name) and t.id == "t":
                s = 0
            elif isinstance(t, ast.BinOp) and isinstance(t.left, ast.Name) and t.left.id == "t" and isinstance(t.right, ast.Constant):
                s = t.right.value if isinstance(t.op, ast.Add) else -t.right.value
            else:
                raise Unsupported("shift")
            return f"v {q} {s}"
        raise Unsupported(type(n).__name__)

    return go(tree)


def data_text(a: np.ndarray) -> str:
    r, c = a.shape
    return f"D {r} {c} " + " ".join(rat_of_float(x) if math.isfinite(x) else "nan" for x in a.ravel())


def qmat_text(a: np.ndarray) -> str:
    a = np.atleast_2d(np.asarray(a, dtype=float))
    return f"{a.shape[0]} {a.shape[1]} " + " ".join(rat_of_float(x) for x in a.ravel())


def parse_cells(s: str):
    return [float("nan") if w == "nan" else (lambda fr: fr.numerator / fr.denominator)(__import__("fractions").Fraction(w)) for w in s.split()]


def system_text(m, eqs_prefix, endo, first, sim_last, terminal):
    t = "data"
    if terminal == "first_order" and m.max_lead:
        sol = m._gets_solution(deviation=False)
        vec = m._get_dynamic_solution_vectors()
        T = np.asarray(sol.T, dtype=float); K = np.asarray(sol.K, dtype=float).reshape(-1, 1)
        toks = [(tk.qid, tk.shift) for tk in vec.transition_variables]
        cq, ci = vec.get_curr_transition_indexes()
        t = (f"ford {m.max_lead} {qmat_text(T)} {qmat_text(K)} {len(toks)} " + " ".join(f"{q} {s}" for q, s in toks)
             + f" {len(cq)} " + " ".join(f"{q} {i}" for q, i in zip(cq, ci)))
    return f"S {len(eqs_prefix)} " + " ".join(eqs_prefix) + f" {len(endo)} " + " ".join(map(str, endo)) + f" {first} {sim_last} {t}"


class Marker:
    """a simulator module for `_SIMULATOR_MODULE`: real frames, a simulate_frame that only marks the cells it may touch"""
    METHOD_NAME = "marker"

    def __init__(self, base, unant_qids=()):
        self.base = base
        self.regular = None
        self.unant = set(unant_qids)
        self.initial = None
        self.main = None
        self.seen = []

    def create_frames(self, model_v, dataslate_v, plan, **kw):
        return self.base.create_frames(model_v, dataslate_v, plan, **kw)

    def simulate_initial_guess(self, model_v, dataslate_v, plan, **kw):
        self.main = dataslate_v
        self.initial = dataslate_v.get_data_variant().copy()

    def simulate_frame(self, model_v, frame_ds, *, frame, **kw):
        data = frame_ds.get_data_variant()
        self.seen.append(data.copy())
        regular = [q for q in range(data.shape[0]) if q not in self.unant]
        for c in range(frame.first, frame.simulation_last + 1):
            data[regular, c] = 100 * frame.first + c      # unanticipated-shock rows stay as the frame sees them (pruned)
        return _nq.ExitStatus.SUCCESS


def lean_lines_for_case(ctx: Ctx, spec, sc, rng, want_resid=True):
    """request lines + what the implementation answers; returns list of (stream, request, impl_reply, meta)"""
    items = []
    m = build_model(spec)
    if m is None:
        return items
    db, span = build_db(spec, m, sc)
    slatable = m.slatable_for_simulate(shocks_from_data=True, stds_from_data=True, parameters_from_data=False, output_parameters=False)
    ds = Dataslate.from_databox_for_slatable(slatable, db, tuple(span), num_variants=1)
    name_to_qid = m.create_name_to_qid()
    unant_qids = list(_sim._get_unanticipated_shock_qids(m))
    base_cols = ds.base_columns
    base_first, n = base_cols[0], len(base_cols)
    main0 = ds.get_data_variant().copy()

    # --- frames ---------------------------------------------------------------------
    st_frames = _st.create_frames(m, ds, None)
    pp_frames = _pp.create_frames(m, ds, None)
    breaks = _fr._populate_base_break_points(m, ds, None)
    impl = (" ".join("T" if b else "F" for b in breaks) + " | " + " ".join(f"{f.first}:{f.last}:{f.simulation_last}" for f in st_frames)
            + " | " + " ".join(f"{f.first}:{f.last}:{f.simulation_last}" for f in pp_frames))
    items.append(("frames", f"frames {base_first} {n} {len(unant_qids)} " + " ".join(map(str, unant_qids)) + " " + data_text(main0), impl, None))

    # --- the frame loop with a marking simulator --------------------------------------
    for tag, base in (("st", _st), ("pp", _pp)):
        mk = Marker(base, unant_qids)
        _sim._SIMULATOR_MODULE["__c06_marker"] = mk
        try:
            with quiet():
                m.simulate(db, span, method="__c06_marker", remove_terminal=False, remove_initial=False)
        finally:
            _sim._SIMULATOR_MODULE.pop("__c06_marker", None)
        final = mk.main.get_data_variant()
        impl = " ".join(rat_of_float(x) if math.isfinite(x) else "nan" for x in final.ravel())
        items.append(("writers", f"writers {tag} {base_first} {n} {len(unant_qids)} " + " ".join(map(str, unant_qids)) + " " + data_text(mk.initial), impl, None))

    # --- spots ----------------------------------------------------------------------------
    endo = [q.id for q in m.get_quantities(kind=_qu.TRANSITION_VARIABLE)]
    for f in list(st_frames)[:2] + list(pp_frames)[:1]:
        cols = tuple(range(f.first, f.simulation_last + 1))
        spots, _ = _st._get_wrt_spots(plan=None, endogenous_qids=tuple(endo), columns_to_run=cols,
                                      periods_to_run=tuple(ds.periods[i] for i in cols), name_to_qid=name_to_qid)
        items.append(("spots", f"spots {len(endo)} " + " ".join(map(str, endo)) + f" {f.first} {f.simulation_last}",
                      " ".join(f"{t.qid}:{t.shift}" for t in spots), None))

    # --- _catch_missing on arrays with missing values at solved-for and at other cells ---------
    from irispie import wrongdoings as _wd
    qid_to_name = m.create_qid_to_name()
    for f in list(st_frames)[:1] + list(pp_frames)[-1:]:
        cols = tuple(range(f.first, f.simulation_last + 1))
        spots, _ = _st._get_wrt_spots(plan=None, endogenous_qids=tuple(endo), columns_to_run=cols,
                                      periods_to_run=tuple(ds.periods[i] for i in cols), name_to_qid=name_to_qid)
        data = np.array(main0, dtype=float)
        for _ in range(rng.randint(1, 6)):
            data[rng.randint(0, data.shape[0] - 1), rng.randint(0, data.shape[1] - 1)] = float("nan")
        before = data.copy()
        class _Rec(_wd.Stream):          # records what `_catch_missing` reports, never raises
            def add(self, message):
                self.messages += (message, )
        stream = _Rec("missing")
        try:
            _st._catch_missing(data=data, wrt_spots=spots, frame=f, qid_to_name=qid_to_name, fallback_value=0.125,
                               when_missing_stream=stream, periods=ds.periods)
        except Exception as e:
            ctx.count(f"catch:impl-raised:{type(e).__name__}")
            continue
        label = {f"{qid_to_name[t.qid]}[{ds.periods[t.shift]}]": f"{t.qid}:{t.shift}" for t in spots}
        impl = (" ".join(label.get(msg, "?" + msg) for msg in stream.messages) + " | "
                + " ".join(rat_of_float(x) if math.isfinite(x) else "nan" for x in data.ravel()))
        items.append(("catch", f"catch {len(endo)} " + " ".join(map(str, endo)) + f" {f.first} {f.simulation_last} 1/8 " + data_text(before), impl, None))

    if spec["logvars"] or not want_resid:
        return items
    # --- residual vectors of the real evaluator -------------------------------------------
    wrt_equations = m.get_dynamic_equation_objects(kind=_eq.TRANSITION_EQUATION)
    try:
        eqs_prefix = [prefix_of_xtring(e.xtring) for e in wrt_equations]
    except Unsupported:
        ctx.count("resid:unsupported-expression")
        return items
    frames_to_do = [(f, "st") for f in st_frames][:3] + [(f, "pp") for f in list(pp_frames)[:: max(1, len(pp_frames) // 2)][:2]]
    for f, tag in frames_to_do:
        for terminal in (("first_order", "data") if tag == "st" else ("data",)):
            frame_ds = ds.copy()
            f.prune_frame_data(frame_ds, unant_qids)
            cols = tuple(range(f.first, f.simulation_last + 1))
            spots, _ = _st._get_wrt_spots(plan=None, endogenous_qids=tuple(endo), columns_to_run=cols,
                                          periods_to_run=tuple(ds.periods[i] for i in cols), name_to_qid=name_to_qid)
            terminator = None
            if terminal == "first_order" and m.max_lead:
                terminator = Terminator(m, cols, wrt_equations)
                terminator.create_terminal_jacobian_map(spots)
            evaluator = _ev.create_evaluator(wrt_spots=spots, columns_to_eval=cols, wrt_equations=wrt_equations,
                                             all_quantities=m.get_quantities(), terminator=terminator, context=m.get_context())
            data = frame_ds.get_data_variant()
            data = np.where(np.isnan(data), 1 / 9, data) if rng.chance(0.8) else data
            before = data.copy()
            use_none = rng.chance(0.2)
            guess = None if use_none else np.array([dy(rng, -2, 2, 3) for _ in spots])
            try:
                fvec = evaluator.eval_func(None if use_none else guess.copy(), data)
            except Exception as e:
                ctx.count(f"resid:impl-raised:{type(e).__name__}")
                continue
            sysT = system_text(m, eqs_prefix, endo, f.first, f.simulation_last, terminal)
            g = "G none" if use_none else f"G {len(guess)} " + " ".join(rat_of_float(x) for x in guess)
            items.append(("resid", f"resid {sysT} {data_text(before)} {g}", [float(x) for x in np.asarray(fvec).ravel()],
                          dict(kind=spec["kind"], terminal=terminal, tag=tag, nE=len(eqs_prefix), nT=len(cols))))

    # --- linear models: certificate and exact solve ----------------------------------------
    if spec["linear"] and not sc["ant"] and m.max_lead:
        try:
            out, info, ok = run_simulate(m, db, span, "stacked_time", terminal="first_order", solver_settings={"step_tolerance": float("inf"), "max_iterations": MAX_ITER})
        except Exception:
            ok = False
        if ok:
            sol = m._gets_solution(deviation=False)
            vec = m._get_dynamic_solution_vectors()
            P = np.asarray(sol.P, dtype=float)
            u_qids = [t.qid for t in vec.transition_shocks]
            main = ds.copy()
            for k, f in enumerate(st_frames):
                frame_ds = main.copy()
                f.prune_frame_data(frame_ds, unant_qids)
                data = frame_ds.get_data_variant().copy()
                cols = list(range(f.first, f.simulation_last + 1))
                if len(cols) * len(endo) > (18 if ctx.quick else 30):
                    break
                gs = [P @ np.nan_to_num(data[u_qids, c]) for c in cols]
                sysT = system_text(m, eqs_prefix, endo, f.first, f.simulation_last, "first_order")
                fdb = info["frame_databoxes"][k]
                names = [m.create_qid_to_name()[q] for q in endo]
                path = []
                for c in cols:
                    for nm in names:
                        path.append(float(np.asarray(fdb[nm].get_data(ds.periods[c])).ravel()[0]))
                ok_data = not np.isnan(data[endo][:, :f.first]).any()
                # no certificate for models with exogenous variables: the first-order solution ignores them (see the finding in notes/C06.md),
                # so the hypothesis of `firstOrder_is_unique_zero` is not met there; the exact solve below still has to agree
                # (nor for programs with a lagged shock: the first-order side is off there, see the candidate finding in notes/C06.md)
                if ok_data and not spec["exo"] and not spec.get("lagged_shock"):
                    items.append(("cert", f"cert {sysT} {data_text(np.nan_to_num(data, nan=1 / 9))} {len(gs)} " + " ".join(qmat_text(g.reshape(-1, 1)) for g in gs),
                                  path, dict(frame=k)))
                if ok_data:
                    items.append(("simlin", f"simlin {sysT} {data_text(np.nan_to_num(data, nan=1 / 9))}", path, dict(frame=k)))
                # advance the main array as the implementation does (its own result for this frame)
                md = main.get_data_variant()
                for c in range(f.first, f.last + 1):
                    for nm, q in zip(names, endo):
                        md[q, c] = float(np.asarray(fdb[nm].get_data(ds.periods[c])).ravel()[0])
    return items


def compare_items(ctx: Ctx, items, replies):
    if replies is None:
        return
    for (stream, req, impl, meta), rep in zip(items, replies):
        ctx.streams_compared[stream] = ctx.streams_compared.get(stream, 0) + 1
        short = req if len(req) < 1500 else req[:1500] + " ..."
        if stream == "termlog":
            if rep == "bad-op":
                ctx.disagree(stream, {"request": short}, "bits expected", rep); continue
            import struct
            mod = [struct.unpack("<d", struct.pack("<Q", int(w)))[0] for w in rep.split()]
            if len(mod) != len(impl) or not all((a != a and b != b) or abs(a - b) <= 1e-9 * max(1.0, abs(a)) for a, b in zip(impl, mod)):
                ctx.disagree(stream, {"request": short}, repr(impl[:6]), repr(mod[:6]))
            else:
                ctx.count(f"termlog:log-variable-reaches-back-{meta['loglag']}-columns")
            continue
        if stream == "settings":
            canon = lambda line: ",".join(f"{kv.split('=')[0]}={float(kv.split('=')[1])!r}" for kv in line.strip().split(",") if kv)
            got = " | ".join(canon(x) for x in rep.split("|")) if rep != "bad-op" else rep
            if got != impl:
                ctx.disagree(stream, {"request": req}, impl, got)
            continue
        if stream == "iguess":
            if rep == "bad-op":
                ctx.disagree(stream, {"request": short}, "array expected", rep); continue
            mod = parse_cells(rep)
            sc_ = max([1.0] + [abs(x) for x in impl if math.isfinite(x)])
            bad = len(mod) != len(impl) or any((math.isnan(a) != math.isnan(b)) or (math.isfinite(a) and abs(a - b) > TOL_MODEL * sc_) for a, b in zip(impl, mod))
            if bad:
                k = next((i for i, (a, b) in enumerate(zip(impl, mod)) if (math.isnan(a) != math.isnan(b)) or (math.isfinite(a) and abs(a - b) > TOL_MODEL * sc_)), -1)
                ctx.disagree(stream, {"request": short, "cell": k}, repr(impl[k]) if k >= 0 else f"{len(impl)} cells", repr(mod[k]) if k >= 0 else f"{len(mod)} cells")
            else:
                ctx.count(f"iguess:{meta['mode']}:{'missing-initial' if meta['nan'] else 'finite'}")
            continue
        if stream == "finding":
            parts = [parse_cells(x) for x in rep.split("|")] if "|" in rep else []
            if len(parts) != 3 or any(len(a) != len(b) or any(abs(x - y) > 1e-9 for x, y in zip(a, b)) for a, b in zip(impl, parts)):
                ctx.disagree(stream, {"request": req}, repr(impl), rep)
            continue
        if stream == "frames-per-variant":
            got = rep.split("|")[1].strip() if rep.count("|") == 2 else rep        # the stacked-time frames of the model's `frames` reply
            if got != impl:
                ctx.disagree(stream, {"request": short}, impl, got)
            continue
        if stream in ("frames", "writers", "spots", "catch", "pair", "hist", "method"):
            if rep != impl:
                ctx.disagree(stream, {"request": req}, impl[:400], rep[:400])
            continue
        if rep == "bad-op" or (stream != "resid" and rep in ("nan", "singular")):    # a one-row residual vector may legitimately be `nan`
            ctx.disagree(stream, {"request": req}, "numeric reply expected", rep)
            continue
        if stream == "resid":
            mod = parse_cells(rep)
            if len(mod) != len(impl):
                ctx.disagree(stream, {"request": req}, f"{len(impl)} rows", f"{len(mod)} rows")
                continue
            sc = max([1.0] + [abs(x) for x in impl if math.isfinite(x)])
            for r, (a, b) in enumerate(zip(impl, mod)):
                if (math.isnan(a) != math.isnan(b)) or (math.isfinite(a) and abs(a - b) > TOL_MODEL * sc) or (math.isinf(a) and not math.isnan(b)):
                    ctx.disagree(stream, {"request": req, "row": r}, repr(a), repr(b))
                    break
            else:
                ctx.count(f"resid:{meta['kind']}:{meta['tag']}:{meta['terminal']}")
        elif stream == "cert":
            res, path = rep.split("|")
            res, path = parse_cells(res), parse_cells(path)
            sc = max([1.0] + [abs(x) for x in impl])
            if not all(abs(x) <= TOL_MODEL * sc for x in res):
                ctx.disagree("cert-residual", {"request": req}, "first-order path zeroes the stacked system (certificate)", f"max |residual| = {max(abs(x) for x in res)!r}")
            elif len(path) != len(impl) or not all(abs(a - b) <= TOL * sc for a, b in zip(impl, path)):
                ctx.disagree("cert-path", {"request": req}, repr(impl[:6]), repr(path[:6]))
            else:
                ctx.count("cert:validated")
        elif stream == "simlin":
            x = parse_cells(rep)
            sc = max([1.0] + [abs(v) for v in impl])
            if len(x) != len(impl) or not all(abs(a - b) <= TOL * sc for a, b in zip(impl, x)):
                ctx.disagree(stream, {"request": req}, repr(impl[:6]), repr(x[:6]))
            else:
                ctx.count("simlin:agrees")


# ---------------------------------------------------------------------------------------
# correspondence for the glue model (IrisVerif/Model/StackedGlue.lean): variant pairing, parameters in force over histories,
# the terminal condition with log-variables, the known finding
# ---------------------------------------------------------------------------------------

class PairMarker(Marker):
    """records which parameter variant and which data variant meet in each pass of the loop over variants"""
    def __init__(self, base, model, cell):
        super().__init__(base)
        self.model, self.cell, self.pairs, self.frames_seen = model, cell, [], []

    def simulate_frame(self, model_v, frame_ds, *, frame, **kw):
        # the frames each pass of the loop over variants REALLY runs (whoever computed them, whenever)
        self.frames_seen[-1][0].append(f"{frame.first}:{frame.last}:{frame.simulation_last}")
        return super().simulate_frame(model_v, frame_ds, frame=frame, **kw)

    def simulate_initial_guess(self, model_v, dataslate_v, plan, **kw):
        super().simulate_initial_guess(model_v, dataslate_v, plan, **kw)
        self.frames_seen.append(([], dataslate_v.get_data_variant().copy(), dataslate_v.base_columns))
        mi = next((j for j, v in enumerate(self.model._variants) if model_v._variants[0] is v), None)
        x = dataslate_v.get_data_variant()[self.cell[0], dataslate_v.base_columns[0]]
        self.pairs.append((mi, int(round(x)) - 10 if math.isfinite(x) else None))


def with_marker(mk, fn):
    _sim._SIMULATOR_MODULE["__c06_marker"] = mk
    try:
        with quiet():
            return fn()
    finally:
        _sim._SIMULATOR_MODULE.pop("__c06_marker", None)


def glue_pair_item(ctx: Ctx, rng, spec):
    if not spec["shocks"]:
        return []
    nM = rng.choice([1, 1, 2, 3])
    N = max(nM, rng.choice([1, 2, 3, 4]))      # fewer requested variants than model variants is rejected by the code
    nD = rng.choice([1, N, N])                  # a databox series broadcasts from a single variant only ("Cannot broadcast" otherwise)
    m = build_model(spec) if nM == 1 else build_model_variants(spec, nM)
    mD = build_model(spec) if nD == 1 else build_model_variants(spec, nD)
    if m is None or mD is None:
        return []
    start = make_period("Q", 8080)
    span = start >> (start + 2)
    db = ir.Databox.steady(mD, span)
    sh = spec["shocks"][0]
    db[sh][start] = [float(10 + v) for v in range(nD)] if nD > 1 else 10.0
    if nD > 1:      # unanticipated shocks at different dates in different data variants: every variant has its own frames
        db[sh][start + 1] = [float(v % 2) for v in range(nD)]
        db[sh][start + 2] = [float((v + 1) % 2) * 0.5 for v in range(nD)]
    mk = PairMarker(_st, m, (m.create_name_to_qid()[sh], None))
    try:
        with_marker(mk, lambda: m.simulate(db, span, method="__c06_marker", num_variants=N, remove_terminal=False, remove_initial=False))
    except Exception as e:
        ctx.count(f"pair:impl-raised:{type(e).__name__}")
        return []
    show = lambda x: "-" if x is None else str(x)
    impl = " ".join(f"{k}:{show(a)}:{show(b)}" for k, (a, b) in enumerate(mk.pairs))
    items = [("pair", f"pair {N} {nM} {nD}", impl, None)]
    unant_qids = list(_sim._get_unanticipated_shock_qids(m))
    for used, arr, base_cols in mk.frames_seen:      # the frames every pass of the loop over variants really ran, vs the model on that variant's data
        items.append(("frames-per-variant", f"frames {base_cols[0]} {len(base_cols)} {len(unant_qids)} " + " ".join(map(str, unant_qids)) + " " + data_text(arr),
                      " ".join(used), None))
    return items


def glue_hist_item(ctx: Ctx, rng, spec):
    """assign / copy / simulate on real model objects; observation = the parameter rows of the array a real simulate() call works on"""
    m = build_model(spec)
    if m is None or not spec["params"]:
        return []
    n2q = m.create_name_to_qid()
    pnames = sorted(spec["params"], key=lambda nm: n2q[nm])
    pq = [n2q[nm] for nm in pnames]
    start = make_period("Q", 8080)
    span = start >> (start + 1)
    db = ir.Databox.steady(m, span)
    objs = [m]
    init = " ".join(f"{q} {rat_of_float(spec['params'][nm])}" for nm, q in zip(pnames, pq))
    ops, obs = [], []
    for _ in range(rng.randint(5, 10)):
        kind = rng.weighted([("a", 4), ("s", 4), ("c", 2)])
        i = rng.randint(0, len(objs) - 1)
        if kind == "a":
            nm = rng.choice(pnames); v = dy(rng, -2, 2, 3)
            with quiet():
                objs[i].assign(**{nm: v})
            ops.append(f"a {i} {n2q[nm]} {rat_of_float(v)}"); obs.append("-")
        elif kind == "c":
            objs.append(objs[i].copy())
            ops.append(f"c {i}"); obs.append("-")
        else:
            mk = Marker(_st)
            try:
                with_marker(mk, lambda: objs[i].simulate(db, span, method="__c06_marker", remove_terminal=False, remove_initial=False))
            except Exception as e:
                ctx.count(f"hist:impl-raised:{type(e).__name__}")
                return []
            col = mk.initial.shape[1] - 1
            ops.append(f"s {i}")
            obs.append(",".join(f"{q}={rat_of_float(mk.initial[q, col])}" for q in pq))
    req = f"hist {len(pq)} " + " ".join(map(str, pq)) + f" {len(pq)} {init} {len(ops)} " + " ".join(ops)
    return [("hist", req, " | ".join(obs), None)]


def glue_termlog_item(ctx: Ctx, rng, spec, sc):
    m = build_model(spec)
    if m is None or not spec["logvars"] or not m.max_lead:
        return []
    from .common import float_bits
    db, span = build_db(spec, m, dict(sc, missing={}))
    slatable = m.slatable_for_simulate(shocks_from_data=True, stds_from_data=True, parameters_from_data=False, output_parameters=False)
    ds = Dataslate.from_databox_for_slatable(slatable, db, tuple(span), num_variants=1)
    f = _st.create_frames(m, ds, None)[0]
    cols = tuple(range(f.first, f.simulation_last + 1))
    wrt_equations = m.get_dynamic_equation_objects(kind=_eq.TRANSITION_EQUATION)
    terminator = Terminator(m, cols, wrt_equations)
    data = ds.get_data_variant().copy()
    data = np.where(np.isnan(data), 0.5, data)
    q2l = m.create_qid_to_logly()
    for q in range(data.shape[0]):
        if q2l.get(q):
            data[q, :] = np.abs(data[q, :]) * np.array([1 + 0.125 * rng.randint(-3, 3) for _ in range(data.shape[1])]) + 1e-3
    before = data.copy()
    terminator.terminate_simulation(data)
    sol = m._gets_solution(deviation=False); vec = m._get_dynamic_solution_vectors()
    T = np.asarray(sol.T, dtype=float); K = np.asarray(sol.K, dtype=float).ravel()
    toks = [(t.qid, t.shift) for t in vec.transition_variables]
    cq, ci = vec.get_curr_transition_indexes()
    last, L, n = cols[-1], m.max_lead, T.shape[0]
    impl = [float(data[q, last + k]) for q in cq for k in range(1, L + 1)]
    bits = lambda a: " ".join(str(float_bits(x)) for x in np.asarray(a, dtype=float).ravel())
    req = (f"termlog {data.shape[0]} " + " ".join("1" if q2l.get(q) else "0" for q in range(data.shape[0]))
           + f" {len(toks)} " + " ".join(f"{q} {s_}" for q, s_ in toks) + f" {len(cq)} " + " ".join(f"{q} {i}" for q, i in zip(cq, ci))
           + f" {L} {last} {n} {bits(T)} {bits(K)} {before.shape[0]} {before.shape[1]} {bits(before)}")
    maxlag = max([-s_ for q, s_ in toks if q2l.get(q)] + [0])
    return [("termlog", req, impl, dict(loglag=maxlag + 1))]


def termspec_text(m):
    sol = m._gets_solution(deviation=False)
    vec = m._get_dynamic_solution_vectors()
    T = np.asarray(sol.T, dtype=float); K = np.asarray(sol.K, dtype=float).reshape(-1, 1)
    toks = [(tk.qid, tk.shift) for tk in vec.transition_variables]
    cq, ci = vec.get_curr_transition_indexes()
    return (f"{m.max_lead} {qmat_text(T)} {qmat_text(K)} {len(toks)} " + " ".join(f"{q} {s_}" for q, s_ in toks)
            + f" {len(cq)} " + " ".join(f"{q} {i}" for q, i in zip(cq, ci)))


def glue_iguess_items(ctx: Ctx, rng, spec, sc):
    """the real `simulate_initial_guess` of both modes on the real main dataslate (terminal columns off the steady state) vs `initialGuess`"""
    m = build_model(spec)
    if m is None or spec["logvars"]:
        return []
    db, span = build_db(spec, m, dict(sc, missing={}, term_data=True))
    slatable = m.slatable_for_simulate(shocks_from_data=True, stds_from_data=True, parameters_from_data=False, output_parameters=False)
    items = []
    for mode in ("first_order", "data"):
        ds = Dataslate.from_databox_for_slatable(slatable, db, tuple(span), num_variants=1)
        data = ds.get_data_variant()
        vec = m._get_dynamic_solution_vectors()
        if mode == "first_order" and rng.chance(0.3):     # rejection branch: a missing initial condition that the recursion reads
            true_toks = [t for t, flag in zip(vec.transition_variables, vec.true_initials) if flag]
            if true_toks:
                t = rng.choice(true_toks)
                data[t.qid, ds.base_columns[0] - 1 + t.shift] = float("nan")
        for t, flag in zip(vec.transition_variables, vec.true_initials):       # cells the code zeroes anyway must be finite for the model
            if not flag and math.isnan(data[t.qid, ds.base_columns[0] - 1 + t.shift]):
                data[t.qid, ds.base_columns[0] - 1 + t.shift] = 0.0
        before = data.copy()
        try:
            with quiet():
                _st.simulate_initial_guess(m, ds, None, initial_guess=mode)
        except Exception as e:
            ctx.count(f"iguess:impl-raised:{type(e).__name__}")
            continue
        after = ds.get_data_variant()
        req = f"iguess {mode} {termspec_text(m)} {ds.base_columns[0]} {len(ds.base_columns)} {data_text(before)}"
        items.append(("iguess", req, [float(x) for x in after.ravel()], dict(mode=mode, nan=bool(np.isnan(before).any()))))
    return items


def glue_settings_item(ctx: Ctx, rng, spec, sc):
    """a history of real simulate() calls with various `solver_settings`; observation = the settings `simulate_frame` hands to the solver
    (the solver itself is replaced by a recorder for the duration of the history)"""
    m = build_model(spec)
    if m is None:
        return []
    db, span = build_db(spec, m, dict(sc, missing={}, unant={}))
    pool = [("func_tolerance", ["0.5", "1e-06", "0.125"]), ("step_tolerance", ["inf", "1e-09"]), ("max_iterations", ["7", "60", "1"]), ("norm_order", ["2", "inf", "1"])]
    calls, seen = [], []

    def recorder(*, eval_func, eval_jacob, init_guess, iter_printer, args, **settings):
        seen.append(",".join(f"{k}={v}" for k, v in settings.items()))
        return init_guess, _nq.ExitStatus.SUCCESS

    real = _st._nq.damped_newton
    _st._nq.damped_newton = recorder
    try:
        for _ in range(rng.randint(3, 6)):
            if rng.chance(0.35):
                custom = None
            else:
                custom = {k: rng.choice(vs) for k, vs in rng.sample(pool, rng.randint(1, 3))}
            calls.append(custom)
            n0 = len(seen)
            with quiet():
                m.simulate(db, span, method=rng.choice(["stacked_time", "stacked", "period_by_period"]) if not m.max_lead else rng.choice(["stacked_time", "stacked"]),
                           when_fails="silent", **({} if custom is None else {"solver_settings": {k: float(v) if k != "max_iterations" else int(v) for k, v in custom.items()}}))
            seen[n0:] = seen[n0:n0 + 1]         # one observation per call (every frame of a call gets the same settings)
    except Exception as e:
        ctx.count(f"settings:impl-raised:{type(e).__name__}")
        return []
    finally:
        _st._nq.damped_newton = real
    def norm(v):
        return repr(float(v)) if v not in ("7", "60", "1") else v
    txt = lambda v: "inf" if v == "inf" else v
    req = f"settings {len(calls)} " + " ".join("none" if c is None else f"{len(c)} " + " ".join(f"{k} {txt(v)}" for k, v in c.items()) for c in calls)
    # canonical value text on both sides: the implementation's floats are printed by Python, the request carries the generator's text
    canon = lambda line: ",".join(f"{kv.split('=')[0]}={float(kv.split('=')[1])!r}" for kv in line.split(",") if kv)
    return [("settings", req, " | ".join(canon(x) for x in seen), None)]


FINDING_PREFIX = "+ + + n v 0 0 * c 1/2 v 0 -1 v 3 0 + v 1 0 v 2 0"


def glue_finding_item(ctx: Ctx):
    """the corpus input of the known finding on the current code: T, K of the implementation, its first_order path, the residual of the
    equation on it, its stacked_time path -- against the Lean theorems `finding_*` (same fixed input)"""
    path = os.path.join(VERIF, "corpus", "C06", "linear-exogenous-path-ignored-by-first-order.json")
    case = json.load(open(path))["case"]
    spec, sc = case["spec"], case["scenario"]
    m = build_model(spec)
    db, span = build_db(spec, m, sc)
    eqs = m.get_dynamic_equation_objects(kind=_eq.TRANSITION_EQUATION)
    got = prefix_of_xtring(eqs[0].xtring)
    if got != FINDING_PREFIX:
        return [("finding-equation", "the compiled equation of the corpus model", got, None, FINDING_PREFIX)]
    sol = m._gets_solution(deviation=False)
    fo, _, _ = run_simulate(m, db, span, "first_order")
    st, _, ok = run_simulate(m, db, span, "stacked_time", solver_settings={"step_tolerance": float("inf"), "max_iterations": MAX_ITER})
    x_fo = [float(v) for v in np.asarray(fo["x"].get_data(span)).ravel()]
    x_st = [float(v) for v in np.asarray(st["x"].get_data(span)).ravel()]
    w = [float(v) for v in np.asarray(db["w"].get_data(span)).ravel()]
    res = [0.5 * (x_fo[t - 1] if t else 0.0) + w[t] - x_fo[t] for t in range(len(x_fo))]
    req = f"finding {qmat_text(np.asarray(sol.T, dtype=float))} {qmat_text(np.asarray(sol.K, dtype=float).reshape(-1, 1))}"
    return [("finding", req, [x_fo, res, x_st], None)]


# ---------------------------------------------------------------------------------------
# entry points
# ---------------------------------------------------------------------------------------

def has_lagged_shock(spec):
    return any(re.search(r"\be\w+\{-\d\}", e) for e in spec["eqs"])


KINDS = ["lin-f", "lin-b", "poly-f", "poly-b", "rat-f", "rat-b", "solow", "rbc", "loglin-f", "loglin-b", "loglin-fm", "poly-ls", "lin-ls", "poly-f-ls"]


def gen_spec(rng, kind=None):
    if kind is None:
        kind = rng.weighted([("lin-f", 4), ("lin-b", 3), ("poly-f", 2), ("poly-b", 1), ("rat-f", 1), ("rat-b", 1), ("solow", 1), ("rbc", 1),
                             ("loglin-f", 2), ("loglin-b", 1), ("loglin-fm", 1)])
    if kind == "lin-f": return gen_linear(rng, True)
    if kind == "lin-b": return gen_linear(rng, False)
    if kind == "poly-f": return gen_poly(rng, True, False)
    if kind == "poly-b": return gen_poly(rng, False, False)
    if kind == "rat-f": return gen_poly(rng, True, True)
    if kind == "rat-b": return gen_poly(rng, False, True)
    if kind == "solow": return gen_solow(rng)
    if kind in ("poly-ls", "lin-ls", "poly-f-ls"):      # a program with a LAGGED shock (moving-average term), guaranteed
        for _ in range(12):
            spec = gen_poly(rng, kind == "poly-f-ls", False) if kind.startswith("poly") else gen_linear(rng, False)
            if has_lagged_shock(spec):
                break
        return spec
    if kind == "loglin-fm":      # forward-looking, and the MEASUREMENT variable is a log-variable too
        spec = gen_loglin(rng, True)
        spec.update(meas="obs = 2*x*y", log_obs=True)
        return spec
    if kind == "loglin-f": return gen_loglin(rng, True)
    if kind == "loglin-b": return gen_loglin(rng, False)
    return gen_rbc(rng)


def replay_corpus(ctx: Ctx):
    for path in sorted(glob.glob(os.path.join(VERIF, "corpus", "C06", "*.json"))):
        payload = json.load(open(path))
        case = payload.get("case", payload)
        try:
            if "failure_config" in case:
                run_failure_case(ctx, case["spec"], case["scenario"], only_cfg=case["failure_config"])
            elif "history" in case:
                run_history_case(ctx, case["history"], case["scenario"], case["steps"])
            elif "scenarios" in case:
                run_variant_case(ctx, case["spec"], case["scenarios"], case.get("plan"), only_cfg=case.get("config"), model_nv=case.get("model_variants"))
            else:
                run_case(ctx, case["spec"], case["scenario"], only_cfg=None if (case.get("config") or {}).get("after_loose") else case.get("config"))
            ctx.count("corpus:replayed")
        except Exception as e:
            ctx.count(f"corpus:raised:{type(e).__name__}")


def run(ctx: Ctx):
    ctx.rule = ("random model programs (linear contraction models with lags <= 2 and leads <= 2, exogenous variables, measurement block; polynomial / "
                "rational models in deviations from a chosen steady state; Solow and RBC models with and without log-variables) x random scenarios "
                "(frequency, span length 1..12, unanticipated shocks -> several frames, anticipated shocks, perturbed initial conditions, exogenous paths, "
                "off-steady terminal data) x every configuration (stacked_time x terminal x initial_guess x solver tolerances; period_by_period on backward-looking "
                "models). evaluations = simulate() calls that reported success and were judged by the oracle. distinct_nontrivial = distinct tuples (model kind, "
                "method, terminal, initial_guess, min(#frames,3), has leads, lag>1, anticipated shocks, perturbed initial condition, span length) judged without failure; "
                "plus log-linear programs with lags 2-3 of log-variables, several data variants (with as many, fewer or one model variant(s), with and without a plan) "
                "and histories on one model object (simulate, re-parameterise + steady + solve, simulate again, copy), each judged with the inputs / parameters in force")
    replay_corpus(ctx)
    n_cases = ctx.n(24, 500)
    n_lean = ctx.n(14, 200)
    items = []
    for i in range(n_cases):
        rng = ctx.rng.fork(f"case{i}")
        spec = gen_spec(rng, KINDS[i] if i < len(KINDS) else None)     # every kind of program at least once, then at random
        try:
            m = build_model(spec)
        except Exception as e:
            ctx.count(f"gen:build-raised:{type(e).__name__}")
            continue
        if m is None:
            ctx.count("gen:model-rejected")
            continue
        ctx.count("model:" + spec["kind"])
        sc = gen_scenario(rng, spec, m, not spec["linear"])
        ctx.count(f"span-length:{sc['n']}")
        run_case(ctx, spec, sc)
        if i < 2:
            ctx.sample({"source": source_of(spec), "scenario": sc})
        if i < n_lean:
            try:
                items += lean_lines_for_case(ctx, spec, sc, rng.fork("lean"))
            except Exception as e:
                ctx.count(f"lean-lines:raised:{type(e).__name__}")
    # several variants with different data, with and without a simulation plan (swap points)
    for i in range(ctx.n(10, 120)):
        rng = ctx.rng.fork(f"variants{i}")
        spec = gen_spec(rng)
        try:
            m1 = build_model(spec)
            if m1 is None:
                ctx.count("gen:model-rejected")
                continue
            scs, plan = gen_variant_case(rng, spec, m1)
            ctx.count(f"variants:model:{spec['kind']}:{len(scs)}v:{'plan' if plan else 'no-plan'}")
            # as many model variants as data variants / a single-variant model over several data variants / one model variant fewer
            model_nv = [len(scs), 1, max(1, len(scs) - 1)][i % 3]
            run_variant_case(ctx, spec, scs, plan, model_nv=model_nv)
            if i == 0:
                ctx.sample({"source": source_of(spec), "variant_scenarios": scs, "plan": plan})
        except Exception as e:
            ctx.count(f"variants:raised:{type(e).__name__}")
    # calls that must REPORT their failure: several frames, an early frame that cannot converge within the iteration cap
    for i in range(ctx.n(8, 60)):
        rng = ctx.rng.fork(f"failure{i}")
        try:
            got = gen_failure_case(rng, ["poly-b", "rat-b", "poly-f", "solow", "rat-f", "rbc"][i % 6])
            if got is not None:
                run_failure_case(ctx, *got)
        except Exception as e:
            ctx.count(f"failure-stream:raised:{type(e).__name__}")
    # histories on one model object: simulate, re-parameterise, simulate again, copy, ...
    for i in range(ctx.n(6, 60)):
        rng = ctx.rng.fork(f"history{i}")
        try:
            specs, steps = gen_history_case(rng, HISTORY_KINDS[i % len(HISTORY_KINDS)])
            m0 = build_model(specs[0])
            if m0 is None:
                ctx.count("gen:model-rejected")
                continue
            sc = gen_scenario(rng, specs[0], m0, True)
            sc["missing"] = {k_: v_ for k_, v_ in (sc.get("missing") or {}).items() if k_ != "init"}
            ctx.count(f"history:model:{specs[0]['kind']}")
            run_history_case(ctx, specs, sc, steps)
            if i == 0:
                ctx.sample({"source": source_of(specs[0]), "parameterisations": [sp["params"] for sp in specs], "steps": steps})
        except Exception as e:
            ctx.count(f"history:raised:{type(e).__name__}")
    # glue model: variant pairing, parameters in force over histories, terminal condition with log-variables, the known finding
    for i in range(ctx.n(12, 120)):
        rng = ctx.rng.fork(f"glue{i}")
        try:
            items += glue_pair_item(ctx, rng.fork("pair"), gen_spec(rng, ["lin-b", "poly-b", "solow"][i % 3]))
            if i % 3 == 0:
                sp_ = gen_spec(rng, ["lin-b", "poly-f", "solow"][(i // 3) % 3])
                m_ = build_model(sp_)
                if m_ is not None:
                    items += glue_settings_item(ctx, rng.fork("settings"), sp_, gen_scenario(rng, sp_, m_, not sp_["linear"]))
            if i % 2 == 1:
                sp_ = gen_spec(rng, ["lin-f", "lin-b", "poly-f"][(i // 2) % 3])
                m_ = build_model(sp_)
                if m_ is not None:
                    items += glue_iguess_items(ctx, rng.fork("iguess"), sp_, gen_scenario(rng, sp_, m_, not sp_["linear"]))
            if i % 2 == 0:
                items += glue_hist_item(ctx, rng.fork("hist"), gen_spec(rng, HISTORY_KINDS[(i // 2) % len(HISTORY_KINDS)]))
                spec = gen_spec(rng, ["loglin-f", "rbc"][(i // 2) % 2])
                if not spec["logvars"]:
                    spec = gen_spec(rng, "loglin-f")
                m_ = build_model(spec)
                if m_ is not None:
                    items += glue_termlog_item(ctx, rng.fork("termlog"), spec, gen_scenario(rng, spec, m_, True))
        except Exception as e:
            ctx.count(f"glue:raised:{type(e).__name__}")
    # the `method` option: every key of the real table, plus strings that are not methods
    for w in sorted(k for k in _sim._SIMULATOR_MODULE if not k.startswith("__")) + ["stack", "newton", "Stacked", "period_by_period_", "first-order"]:
        mod = _sim._SIMULATOR_MODULE.get(w)
        items.append(("method", f"method {w}", mod.METHOD_NAME if mod is not None else "KeyError", None))
    try:
        fitems = glue_finding_item(ctx)
        for it in fitems:
            if it[0] == "finding-equation":
                ctx.disagree("finding-equation", {"request": it[1]}, it[2], it[4])
            else:
                items.append(it)
    except Exception as e:
        ctx.count(f"glue:finding-raised:{type(e).__name__}")
    attach_prior(ctx)
    replies = ctx.model("C06", [it[1] for it in items])
    compare_items(ctx, items, replies)
    ctx.extra["programs"] = sum(v for k, v in ctx.counts.items() if k.startswith("model:"))


def search(ctx: Ctx, seeds):
    """failing-input search on the real code when a tie broke: the oracle alone with a bigger budget"""
    for i in range(60 if ctx.quick else 300):
        rng = ctx.rng.fork(f"search{i}")
        spec = gen_spec(rng)
        try:
            m = build_model(spec)
            if m is None:
                continue
            sc = gen_scenario(rng, spec, m, not spec["linear"])
            run_case(ctx, spec, sc)
            scs, plan = gen_variant_case(rng.fork("variants"), spec, m)
            run_variant_case(ctx, spec, scs, plan, model_nv=[len(scs), 1, max(1, len(scs) - 1)][i % 3])
            got = gen_failure_case(rng.fork("failure"), ["poly-b", "rat-b", "poly-f", "solow", "rat-f", "rbc"][i % 6])
            if got is not None:
                run_failure_case(ctx, *got)
            specs, steps = gen_history_case(rng.fork("history"))
            m0 = build_model(specs[0])
            if m0 is not None:
                run_history_case(ctx, specs, gen_scenario(rng.fork("hsc"), specs[0], m0, True), steps)
        except Exception as e:
            ctx.count(f"search:raised:{type(e).__name__}")
        if ctx.failures:
            attach_prior(ctx)
            return


def replay(ctx: Ctx, payload):
    case = payload.get("case", payload)
    if isinstance(case, dict) and case.get("prior_solver_settings"):
        spec0 = case["history"][0] if "history" in case else case.get("spec")
        sc0 = case.get("scenario") or (case.get("scenarios") or [None])[0]
        if spec0 and sc0:
            replay_prior_calls(ctx, spec0, sc0, case["prior_solver_settings"])
    if isinstance(case, dict) and "failure_config" in case:
        run_failure_case(ctx, case["spec"], case["scenario"], only_cfg=case["failure_config"])
    elif isinstance(case, dict) and "history" in case:
        run_history_case(ctx, case["history"], case["scenario"], case["steps"])
    elif isinstance(case, dict) and "scenarios" in case:
        run_variant_case(ctx, case["spec"], case["scenarios"], case.get("plan"), only_cfg=case.get("config"), model_nv=case.get("model_variants"))
    elif isinstance(case, dict) and "spec" in case:
        run_case(ctx, case["spec"], case["scenario"], only_cfg=None if (case.get("config") or {}).get("after_loose") else case.get("config"))
        rng = ctx.rng.fork("replay")
        items = lean_lines_for_case(ctx, case["spec"], case["scenario"], rng)
        compare_items(ctx, items, ctx.model("C06", [it[1] for it in items]))
    elif isinstance(case, dict) and "request" in case:
        ctx.log("replay of a model/implementation disagreement: the request line is in the payload; re-running the generator streams")
        run(ctx)
