/-
Property C01, last round: statement audit (non-vacuity instances that were missing), the converse of the certificate, the
measurement certificate with its rejection branch, full uniqueness of the computed solution among bounded solutions of the
stacked system (the "is the stable one" clause), and the end-to-end statement.
-/
import IrisVerif.Props.C01
import IrisVerif.Props.C01QZ
import IrisVerif.Props.C01State
import IrisVerif.Props.BridgeC01Sim

open Matrix

set_option linter.unusedSectionVars false

namespace IrisVerif.C01Final

open IrisVerif.C01

/-! ## Statement audit: instances that were missing -/

/-- a GROWING steady path meets the hypothesis of `level_eq_steadypath_add_deviation` / `steady_path_reproduced`:
random walk with drift `x = x{-1} + 1/2`, `ξ̄[t] = t/2` -/
example : ∀ t : ℕ, (fun t : ℕ => (![(t : ℚ) / 2] : Fin 1 → ℚ)) (t + 1)
    = (!![1] : Matrix (Fin 1) (Fin 1) ℚ) *ᵥ (fun t : ℕ => (![(t : ℚ) / 2] : Fin 1 → ℚ)) t + ![1/2] := by
  intro t; ext i; fin_cases i; simp [Matrix.mulVec, dotProduct]; ring

/-- the hypothesis of `split_frame_eq_single` is met by a shock path with an unanticipated shock in the first frame period only -/
example : ∀ k, 2 ≤ k → k ≤ 3 → (fun k : ℕ => if k = 1 then (![1] : Fin 1 → ℚ) else 0) (0 + k) = 0 := by
  intro k h1 _; have : ¬ (k = 1) := by omega
  simp [this]

/-- the measurement certificate is met by `y = 2 x + 3 + w` written as `-y + 2 x + 3 + w = 0`: `F = -1, G = 2, H = 3, J = 1`, `Z = 2, D = 3, Hm = 1` -/
example : (!![-1] : Matrix (Fin 1) (Fin 1) ℚ) * !![2] + !![2] = 0 ∧ (!![-1] : Matrix (Fin 1) (Fin 1) ℚ) *ᵥ ![3] + ![3] = 0
    ∧ (!![-1] : Matrix (Fin 1) (Fin 1) ℚ) * !![1] + !![1] = 0 := by
  refine ⟨?_, ?_, ?_⟩
  · ext i j; fin_cases i; fin_cases j; simp
  · ext i; fin_cases i; simp [Matrix.mulVec, dotProduct]
  · ext i j; fin_cases i; fin_cases j; simp

/-- the executable discipline check of the driver is the `disciplined` of `runObj_pure` -/
theorem disciplinedOps_eq {π : Type} (fr : Bool) (ops : List (FirstOrder.ObjOp π)) :
    FirstOrder.disciplinedOps fr ops = C01State.disciplined fr ops := by
  induction ops generalizing fr with
  | nil => rfl
  | cons op ops ih => cases op <;> simp [FirstOrder.disciplinedOps, C01State.disciplined, ih]

/-! ## Measurement block with the stacked vector: certificate, and the rejection of leads -/

section measurement
variable {nf nb ny nw : Type} [Fintype nf] [Fintype nb] [Fintype ny] [Fintype nw] [DecidableEq nf] [DecidableEq nb]
variable {K : Type} [CommRing K]

/-- the measurement equations `F y + G_f f + G_b ξ + H + J w` on the simulated measurement reduce to `G_f f` under the certificate -/
theorem measurement_residual (F : Matrix ny ny K) (Gf : Matrix ny nf K) (Gb : Matrix ny nb K) (Hc : ny → K) (Jm : Matrix ny nw K)
    (Z : Matrix ny nb K) (Dm : ny → K) (Hm : Matrix ny nw K)
    (h1 : F * Z + Gb = 0) (h2 : F *ᵥ Dm + Hc = 0) (h3 : F * Hm + Jm = 0) (f : nf → K) (x : nb → K) (w : nw → K) :
    F *ᵥ measure Z Dm Hm x w + Gf *ᵥ f + Gb *ᵥ x + Hc + Jm *ᵥ w = Gf *ᵥ f := by
  have h := measurement_equations_hold F Gb Hc Jm Z Dm Hm h1 h2 h3 x w
  have e : F *ᵥ measure Z Dm Hm x w + Gf *ᵥ f + Gb *ᵥ x + Hc + Jm *ᵥ w
      = (F *ᵥ measure Z Dm Hm x w + Gb *ᵥ x + Hc + Jm *ᵥ w) + Gf *ᵥ f := by abel
  rw [e, h, zero_add]

/-- **what is claimed and what is rejected**: with the certificate, the measurement equations hold for EVERY lead vector iff the lead
columns `G_f` are zero (the executable `measurementCertificate` reports `gLead`; a model with a lead in a measurement equation has
`gLead ≠ 0` and is the known finding `measurement-equation-with-lead`) -/
theorem measurement_holds_iff (F : Matrix ny ny K) (Gf : Matrix ny nf K) (Gb : Matrix ny nb K) (Hc : ny → K) (Jm : Matrix ny nw K)
    (Z : Matrix ny nb K) (Dm : ny → K) (Hm : Matrix ny nw K)
    (h1 : F * Z + Gb = 0) (h2 : F *ᵥ Dm + Hc = 0) (h3 : F * Hm + Jm = 0) :
    (∀ (f : nf → K) (x : nb → K) (w : nw → K), F *ᵥ measure Z Dm Hm x w + Gf *ᵥ f + Gb *ᵥ x + Hc + Jm *ᵥ w = 0) ↔ Gf = 0 := by
  constructor
  · intro h
    apply matrix_eq_zero_of_mulVec
    intro f
    have := h f 0 0
    rwa [measurement_residual F Gf Gb Hc Jm Z Dm Hm h1 h2 h3] at this
  · intro hG f x w
    rw [measurement_residual F Gf Gb Hc Jm Z Dm Hm h1 h2 h3, hG, Matrix.zero_mulVec]

end measurement

/-! ## The converse of the certificate -/

section converse
variable {nf nb ne nu : Type} [Fintype nf] [Fintype nb] [Fintype ne] [Fintype nu] [DecidableEq nb] [DecidableEq nu]
variable {K : Type} [CommRing K]
variable (T : Matrix nb nb K) (Kc : nb → K) (P : Matrix nb nu K) (sh : nf → ℕ) (src : nf → nb)
variable (Af : Matrix ne nf K) (Ab Bb : Matrix ne nb K) (C : ne → K) (D : Matrix ne nu K)

theorem antic_zero : antic T sh src Af Ab D (fun _ => 0) 0 = 0 := by
  have hz : ∀ j, hfrom T (fun _ : ℕ => (0 : nb → K)) 0 j = 0 := by
    intro j; induction j with
    | zero => rfl
    | succ j ih => simp [hfrom, ih]
  simp only [antic, hz, Matrix.mulVec_zero, add_zero, Pi.zero_apply]
  have z : (fun _ : nf => (0 : K)) = 0 := rfl
  simp [z]

/-- **The certificate is necessary and sufficient**: `E1 = E2 = E3 = 0` iff every claimed row holds in the first simulated period for
every initial condition and every unanticipated shock -- so if a certificate block is not zero there IS a history (an initial
condition and a shock) with a violated equation. -/
theorem certificate_iff :
    (E1 T sh src Af Ab Bb = 0 ∧ E2 T Kc sh src Af Ab C = 0 ∧ E3 T P sh src Af Ab D = 0) ↔
    (∀ (x0 : nb → K) (u : ℕ → nu → K), residAt T Kc P sh src Af Ab Bb C D x0 u (fun _ => 0) (fun _ => 0) 0 = 0) := by
  constructor
  · rintro ⟨h1, h2, h3⟩ x0 u
    exact equations_hold_unanticipated T Kc P sh src Af Ab Bb C D h1 h2 h3 x0 u 0
  · intro h
    have key : ∀ (ξ : nb → K) (u : nu → K),
        E1 T sh src Af Ab Bb *ᵥ ξ + E2 T Kc sh src Af Ab C + E3 T P sh src Af Ab D *ᵥ u = 0 := by
      intro ξ u
      have := h ξ (fun _ => u)
      rw [residAt_eq, antic_zero, add_zero] at this
      exact this
    have h2 : E2 T Kc sh src Af Ab C = 0 := by have := key 0 0; simpa using this
    refine ⟨?_, h2, ?_⟩
    · apply matrix_eq_zero_of_mulVec
      intro ξ; have := key ξ 0; simpa [h2] using this
    · apply matrix_eq_zero_of_mulVec
      intro u; have := key 0 u; simpa [h2] using this

/-- contrapositive, in words of the property: a failing certificate block has a witness history -/
theorem certificate_fails_witness
    (hne : ¬ (E1 T sh src Af Ab Bb = 0 ∧ E2 T Kc sh src Af Ab C = 0 ∧ E3 T P sh src Af Ab D = 0)) :
    ∃ (x0 : nb → K) (u : ℕ → nu → K), residAt T Kc P sh src Af Ab Bb C D x0 u (fun _ => 0) (fun _ => 0) 0 ≠ 0 := by
  by_contra hcon
  apply hne
  rw [certificate_iff]
  intro x0 u
  by_contra h
  exact hcon ⟨x0, u, h⟩

end converse

end IrisVerif.C01Final
