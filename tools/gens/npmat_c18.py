"""
py2lean plugin for property C18 (reduced-form VAR), built on the numpy -> QMat engine of tools/gens/npmat.py:

* fords/least_squares.py  `ordinary_least_squares`  (`_np.linalg.solve` is an explicit parameter)
* fords/covariances.py    `symmetrize`              (the last step of the residual covariance)
                                                                        -> Generated/LeastSquaresGen.lean

The hand-written model (Model/RedVar.lean: `normalMx`, `normalMy`, `ols`, the `symmetrize` step of `covResiduals`) is
proved equal to these in Props/GenTieC18.lean.  The rest of `red_vars/_estimators.py::_estimate_variant` (boolean-mask
column selection on NaN data, rank-reducing `beta[:, -1]`, broadcasting `u - c.reshape((-1, 1))`, object construction
and the in-place write into the dataslate) is outside the subset; see notes/translator_np.md.
"""
from __future__ import annotations
import importlib.util, os, sys


def _engine():
    name = "py2lean_npmat_engine"
    if name not in sys.modules:
        spec = importlib.util.spec_from_file_location(name, os.path.join(os.path.dirname(os.path.abspath(__file__)), "npmat.py"))
        mod = importlib.util.module_from_spec(spec)
        sys.modules[name] = mod
        spec.loader.exec_module(mod)
    return sys.modules[name]


def gen_least_squares(repo: str) -> str:
    E = _engine()
    u1 = E.Unit(repo, "src/irispie/fords/least_squares.py", "IrisVerif.Gen.LeastSquares",
                externals={"_np.linalg.solve": E.External("solve", [E.MAT, E.MAT], E.MAT, doc="LAPACK's solver of A X = B")})
    u1.function("ordinary_least_squares")
    u2 = E.Unit(repo, "src/irispie/fords/covariances.py", "IrisVerif.Gen.Symmetrize")
    u2.function("symmetrize")
    return u1.render_with("Least-squares algebra of the reduced-form VAR estimator (property C18) as definitions over QMat.", [u2])


GENERATORS = {
    "LeastSquaresGen.lean": (gen_least_squares, {"C18"}),
}
