/-
The model object as a state machine refines its stateless specification (`Model/KalmanObject.lean`): for every history of
operations, every observation is the pure function of the parameters in force and of the solution; the memo invariant
("cache entry k is term k") is stated separately and preserved by every operation, in particular when a cache is EXTENDED.
Core Lean only.
-/
import IrisVerif.Model.KalmanObject

namespace IrisVerif.KalmanObject

/-- memo invariant of one cache -/
def CacheOk (X J Ru : QMat) (cache : List QMat) : Prop := cache = (List.range cache.length).map (term X J Ru)

/-- extending a correct cache gives a correct cache of length `max len fwd` … -/
theorem extend_eq (X J Ru : QMat) (cache : List QMat) (fwd : Nat) (h : CacheOk X J Ru cache) :
    extend X J Ru cache fwd = (List.range (cache.length + (fwd - cache.length))).map (term X J Ru) := by
  unfold extend
  conv => lhs; rw [h]
  rw [List.length_map, List.length_range, ← List.map_append, List.range_eq_range', List.range_eq_range']
  congr 1
  have := List.range'_append (s := 0) (m := cache.length) (n := fwd - cache.length) (step := 1)
  simpa using this

theorem extend_ok (X J Ru : QMat) (cache : List QMat) (fwd : Nat) (h : CacheOk X J Ru cache) :
    CacheOk X J Ru (extend X J Ru cache fwd) := by
  unfold CacheOk
  rw [extend_eq X J Ru cache fwd h, List.length_map, List.length_range]

/-- … and its first `fwd` entries are exactly the terms `0 … fwd-1`, whatever was cached before -/
theorem extend_take (X J Ru : QMat) (cache : List QMat) (fwd : Nat) (h : CacheOk X J Ru cache) :
    (extend X J Ru cache fwd).take fwd = (List.range fwd).map (term X J Ru) := by
  rw [extend_eq X J Ru cache fwd h, ← List.map_take, List.take_range]
  congr 2
  omega

/-- invariant of the object: both memos are correct for their own system (`X` resp. `Xa`) -/
def Inv (o : Obj) : Prop := CacheOk o.X o.J o.Ru o.cacheSq ∧ CacheOk o.Xa o.J o.Ru o.cacheTri

theorem step_inv (o : Obj) (op : Op) (h : Inv o) :
    Inv (step o op).1 ∧ (step o op).1.X = o.X ∧ (step o op).1.Xa = o.Xa ∧ (step o op).1.J = o.J ∧ (step o op).1.Ru = o.Ru
      ∧ (step o op).1.params = paramsStep o.params op := by
  cases op <;> refine ⟨?_, rfl, rfl, rfl, rfl, rfl⟩
  all_goals first
    | exact h
    | exact ⟨extend_ok _ _ _ _ _ h.1, h.2⟩
    | exact ⟨h.1, extend_ok _ _ _ _ _ h.2⟩

/-- **refinement to the stateless specification**: for every history, every observation of the state machine (stds used by a
filter run; expansion matrices returned to the simulator / the filter) is the pure function of the parameters in force and of the
solution — independent of which calls were made before, of how far the memos had been filled, and of `copy` -/
theorem run_refines_spec : ∀ (ops : List Op) (o : Obj), Inv o → run o ops = spec o.X o.Xa o.J o.Ru o.params ops := by
  intro ops
  induction ops with
  | nil => intro o _; rfl
  | cons op rest ih =>
    intro o h
    obtain ⟨hi, hX, hXa, hJ, hRu, hp⟩ := step_inv o op h
    show (step o op).2 :: run (step o op).1 rest = _ :: spec o.X o.Xa o.J o.Ru (paramsStep o.params op) rest
    rw [ih _ hi, hX, hXa, hJ, hRu, hp]
    congr 1
    cases op <;> simp only [step]
    · exact congrArg Out.mats (extend_take _ _ _ _ _ h.1)
    · exact congrArg Out.mats (extend_take _ _ _ _ _ h.2)

/-- a freshly solved object (empty memos) satisfies the invariant -/
theorem fresh_inv (p : Params) (X Xa J Ru : QMat) : Inv ⟨p, X, Xa, J, Ru, [], []⟩ := ⟨rfl, rfl⟩

/-- non-vacuity: a history that extends a memo (2 then 4) and changes stds in between, on a concrete object -/
example : run ⟨⟨[1], [1]⟩, QMat.identity 1, QMat.identity 1, QMat.identity 1, QMat.identity 1, [], []⟩
      [.expandTri 2, .rescale 2, .filter, .expandTri 4]
    = spec (QMat.identity 1) (QMat.identity 1) (QMat.identity 1) (QMat.identity 1) ⟨[1], [1]⟩
      [.expandTri 2, .rescale 2, .filter, .expandTri 4] :=
  run_refines_spec _ _ (fresh_inv _ _ _ _ _)

end IrisVerif.KalmanObject
