/-
Exact rational matrices for the executable models (no Mathlib): `QMat = Array (Array Rat)`
in row-major order, with the handful of operations the linear-algebraic models need.
`solve` (Gauss-Jordan with the first non-zero pivot) is NOT proved correct: every use in a
model re-checks `A * X = B` exactly (`QMat.solveChecked`) and the theorems take that equation
as a hypothesis.
-/
namespace IrisVerif

abbrev QVec := Array Rat

structure QMat where
  rows : Nat
  cols : Nat
  data : Array (Array Rat)     -- `rows` arrays of length `cols`
  deriving Repr, Inhabited, BEq

namespace QMat

def get (a : QMat) (i j : Nat) : Rat := (a.data.getD i #[]).getD j 0

def ofFn (r c : Nat) (f : Nat → Nat → Rat) : QMat :=
  ⟨r, c, (Array.range r).map (fun i => (Array.range c).map (fun j => f i j))⟩

def zero (r c : Nat) : QMat := ofFn r c (fun _ _ => 0)
def identity (n : Nat) : QMat := ofFn n n (fun i j => if i = j then 1 else 0)
def diag (v : QVec) : QMat := ofFn v.size v.size (fun i j => if i = j then v.getD i 0 else 0)

def ofRows (l : List (List Rat)) : QMat :=
  ⟨l.length, (l.head?.map List.length).getD 0, (l.map List.toArray).toArray⟩

def wellShaped (a : QMat) : Bool :=
  a.data.size == a.rows && a.data.all (fun r => r.size == a.cols)

def transpose (a : QMat) : QMat := ofFn a.cols a.rows (fun i j => a.get j i)
def add (a b : QMat) : QMat := ofFn a.rows a.cols (fun i j => a.get i j + b.get i j)
def sub (a b : QMat) : QMat := ofFn a.rows a.cols (fun i j => a.get i j - b.get i j)
def neg (a : QMat) : QMat := ofFn a.rows a.cols (fun i j => - a.get i j)
def smul (k : Rat) (a : QMat) : QMat := ofFn a.rows a.cols (fun i j => k * a.get i j)

def mul (a b : QMat) : QMat :=
  ofFn a.rows b.cols (fun i j => (List.range a.cols).foldl (fun acc k => acc + a.get i k * b.get k j) 0)

instance : Add QMat := ⟨add⟩
instance : Sub QMat := ⟨sub⟩
instance : Mul QMat := ⟨mul⟩
instance : Neg QMat := ⟨neg⟩

def col (v : QVec) : QMat := ofFn v.size 1 (fun i _ => v.getD i 0)
def toVec (a : QMat) : QVec := (Array.range a.rows).map (fun i => a.get i 0)
def mulVec (a : QMat) (v : QVec) : QVec := (a * col v).toVec

def hstack (a b : QMat) : QMat := ofFn a.rows (a.cols + b.cols) (fun i j => if j < a.cols then a.get i j else b.get i (j - a.cols))
def vstack (a b : QMat) : QMat := ofFn (a.rows + b.rows) a.cols (fun i j => if i < a.rows then a.get i j else b.get (i - a.rows) j)
def selectRows (a : QMat) (idx : List Nat) : QMat := ofFn idx.length a.cols (fun i j => a.get (idx.getD i 0) j)
def selectCols (a : QMat) (idx : List Nat) : QMat := ofFn a.rows idx.length (fun i j => a.get i (idx.getD j 0))
def block (a : QMat) (r0 r1 c0 c1 : Nat) : QMat := ofFn (r1 - r0) (c1 - c0) (fun i j => a.get (r0 + i) (c0 + j))

def isZero (a : QMat) : Bool := a.data.all (fun r => r.all (· == 0))
def eqv (a b : QMat) : Bool := a.rows == b.rows && a.cols == b.cols && (a - b).isZero
def isSymmetric (a : QMat) : Bool := a.rows == a.cols && eqv a a.transpose

def maxAbs (a : QMat) : Rat :=
  a.data.foldl (fun m r => r.foldl (fun m x => if m < (if x < 0 then -x else x) then (if x < 0 then -x else x) else m) m) 0

def trace (a : QMat) : Rat := (List.range a.rows).foldl (fun acc i => acc + a.get i i) 0

def pow (a : QMat) : Nat → QMat
  | 0 => identity a.rows
  | n + 1 => pow a n * a

/-- Kronecker product -/
def kron (a b : QMat) : QMat :=
  ofFn (a.rows * b.rows) (a.cols * b.cols) (fun i j => a.get (i / b.rows) (j / b.cols) * b.get (i % b.rows) (j % b.cols))

/-- column-major vectorisation -/
def vec (a : QMat) : QVec := (Array.range (a.rows * a.cols)).map (fun k => a.get (k % a.rows) (k / a.rows))
def unvec (r c : Nat) (v : QVec) : QMat := ofFn r c (fun i j => v.getD (j * r + i) 0)

/-! ### Gauss-Jordan elimination on the augmented matrix `[A | B]` -/

private def swapRows (d : Array (Array Rat)) (i j : Nat) : Array (Array Rat) :=
  if i = j then d else
    let ri := d.getD i #[]; let rj := d.getD j #[]
    (d.setIfInBounds i rj).setIfInBounds j ri

private def findPivot (d : Array (Array Rat)) (c : Nat) (from_ n : Nat) : Option Nat :=
  (List.range (n - from_)).map (· + from_) |>.find? (fun i => (d.getD i #[]).getD c 0 != 0)

/-- reduce the first `n` columns of `d` (n × w) to the identity; `none` when singular -/
private def gaussJordan (n : Nat) (d : Array (Array Rat)) : Option (Array (Array Rat)) :=
  (List.range n).foldlM (init := d) fun d c => do
    let p ← findPivot d c c n
    let d := swapRows d c p
    let prow := d.getD c #[]
    let pv := prow.getD c 0
    let prow := prow.map (· / pv)
    let d := d.setIfInBounds c prow
    pure <| d.mapIdx fun i r =>
      if i = c then r else
        let f := r.getD c 0
        if f == 0 then r else (Array.range r.size).map (fun j => r.getD j 0 - f * prow.getD j 0)

/-- `some X` with `A * X = B` for square non-singular `A`; `none` when `A` is singular or not square. -/
def solve (a b : QMat) : Option QMat :=
  if a.rows != a.cols || a.rows != b.rows then none else
  match gaussJordan a.rows (hstack a b).data with
  | none => none
  | some d => some (block ⟨a.rows, a.cols + b.cols, d⟩ 0 a.rows a.cols (a.cols + b.cols))

/-- `solve` followed by the exact re-check `A * X = B` (the only form in which models use `solve`). -/
def solveChecked (a b : QMat) : Option QMat :=
  match solve a b with
  | some x => if eqv (a * x) b then some x else none
  | none => none

def inverse (a : QMat) : Option QMat := solveChecked a (identity a.rows)

/-- determinant by fraction elimination (used for likelihoods; not proved, cross-checked by the harness) -/
def det (a : QMat) : Rat := Id.run do
  if a.rows != a.cols then return 0
  let n := a.rows
  let mut d := a.data
  let mut acc : Rat := 1
  for c in [0:n] do
    match findPivot d c c n with
    | none => return 0
    | some p =>
      if p != c then
        d := swapRows d c p
        acc := -acc
      let prow := d.getD c #[]
      let pv := prow.getD c 0
      acc := acc * pv
      d := d.mapIdx fun i r =>
        if i ≤ c then r else
          let f := r.getD c 0 / pv
          if f == 0 then r else (Array.range r.size).map (fun j => r.getD j 0 - f * prow.getD j 0)
  return acc

/-! ### text form for the line protocol: `r c x11 x12 … xrc` with `num/den` entries -/

def showRat (q : Rat) : String := if q.den = 1 then toString q.num else toString q.num ++ "/" ++ toString q.den

def parseRat? (s : String) : Option Rat :=
  match s.splitOn "/" with
  | [n] => n.toInt?.map (fun (i : Int) => (i : Rat))
  | [n, d] => do
    let n ← n.toInt?
    let d ← d.toInt?
    if d = 0 then none else some ((n : Rat) / (d : Rat))
  | _ => none

def toText (a : QMat) : String :=
  " ".intercalate (toString a.rows :: toString a.cols :: (a.data.toList.flatMap (fun r => r.toList.map showRat)))

/-- parse one matrix from the front of a word list, returning the rest -/
def parse? (ws : List String) : Option (QMat × List String) :=
  match ws with
  | r :: c :: rest => do
    let r ← r.toNat?
    let c ← c.toNat?
    if rest.length < r * c then none
    let vals ← (rest.take (r * c)).mapM parseRat?
    let arr := vals.toArray
    pure (ofFn r c (fun i j => arr.getD (i * c + j) 0), rest.drop (r * c))
  | _ => none

end QMat
end IrisVerif
