#!/usr/bin/env python3
"""Print a python file with docstrings, decorator-doc and blank lines removed (reading aid)."""
import ast, sys, io, tokenize
src = open(sys.argv[1]).read()
tree = ast.parse(src)
drop = set()
for node in ast.walk(tree):
    if isinstance(node, (ast.FunctionDef, ast.ClassDef, ast.AsyncFunctionDef, ast.Module)):
        b = node.body
        if b and isinstance(b[0], ast.Expr) and isinstance(b[0].value, ast.Constant) and isinstance(b[0].value.value, str):
            for l in range(b[0].lineno, b[0].end_lineno + 1): drop.add(l)
    if isinstance(node, ast.Assign) and isinstance(node.value, ast.Constant) and isinstance(node.value.value, str) and node.end_lineno - node.lineno > 3:
        for l in range(node.lineno, node.end_lineno + 1): drop.add(l)
lines = src.split("\n")
lo = int(sys.argv[2]) if len(sys.argv) > 2 else 1
hi = int(sys.argv[3]) if len(sys.argv) > 3 else len(lines)
skip_dm = False
for i, l in enumerate(lines, 1):
    if i < lo or i > hi or i in drop: continue
    s = l.strip()
    if not s or s in ("#[", "#]"): continue
    if s.startswith("@_dm.reference("):
        if not s.endswith(")"):
            skip_dm = True
        continue
    if skip_dm:
        if s == ")": skip_dm = False
        continue
    print(f"{i}:{l}")
