/-
Token-level model of irispie's model-language pipeline (property C04).

What is modelled (anchors in /repo/src/irispie):
* expression trees over names with time shifts, constants, `+ - * / ^`, unary minus, function calls
  (what `Equation.xtring` denotes), and their evaluation over any carrier       -- equations.py, incidences/main.py
* `shiftAllNames e k`                                                           -- parsers/_pseudofunctions.py `_shift_all_names`
* the twelve pseudofunction spellings, their default shifts and expanders       -- parsers/_pseudofunctions.py
* substitutions `$name$` (looked up after pseudofunction expansion)            -- parsers/_substitutions.py
* `lhs = rhs -> -(lhs)+rhs`, `!!` steady variant selection                      -- equations.py `_postprocess_xtring`, sources.py
* anticipated-shock insertion into dynamic transition equations                 -- simultaneous/_invariants.py
* the preparser directive machine over a token stream                           -- parsers/preparser.py
* lists (``name`type``, ``!list(`type)``)                                       -- parsers/_lists.py
* declaration blocks with keyword aliases, `_populate_logly` with `!all-but`,
  quantity ordering by kind, generated `ant_` / `std_` names                    -- parsers/models.py, sources.py, quantities.py

What is NOT modelled here (tied by the differential run only): the character-level regexes, Jinja2,
the parsimonious PEG grammars, comment removal, line continuation, bracket styles, parentheses.
No Mathlib import: the driver is interpreted.
-/
namespace IrisVerif.ModelLang

/-! ## Expression trees and evaluation -/

inductive BinOp
  | add | sub | mul | div | pow
  deriving DecidableEq, Repr, Inhabited

/-- an expanded equation side: what the `xtring` of an equation denotes -/
inductive Expr
  | num (q : Rat)
  | name (n : String) (k : Int)          -- `n[k]`, i.e. `x[(qid, t+k)]`
  | neg (e : Expr)
  | bin (op : BinOp) (a b : Expr)
  | call1 (f : String) (a : Expr)
  | call2 (f : String) (a b : Expr)
  deriving Repr, Inhabited, DecidableEq

/-- interpretation of the operation symbols in a carrier `α` (floats in the code; `Rat`, `Float`
or an abstract field in the model) -/
structure Alg (α : Type) where
  const : Rat → α
  neg : α → α
  bin : BinOp → α → α → α
  call1 : String → α → α
  call2 : String → α → α → α

/-- `data n s` = value of quantity `n` in period `s` (a row of the data array) -/
abbrev Data (α : Type) := String → Int → α

def eval {α : Type} (A : Alg α) (data : Data α) (t : Int) : Expr → α
  | .num q => A.const q
  | .name n k => data n (t + k)
  | .neg e => A.neg (eval A data t e)
  | .bin op a b => A.bin op (eval A data t a) (eval A data t b)
  | .call1 f a => A.call1 f (eval A data t a)
  | .call2 f a b => A.call2 f (eval A data t a) (eval A data t b)

/-- `_shift_all_names(source, by)`: every name (not followed by `(`) gets its shift increased by `k`;
function names are untouched -/
def shiftAllNames (k : Int) : Expr → Expr
  | .num q => .num q
  | .name n j => .name n (j + k)
  | .neg e => .neg (shiftAllNames k e)
  | .bin op a b => .bin op (shiftAllNames k a) (shiftAllNames k b)
  | .call1 f a => .call1 f (shiftAllNames k a)
  | .call2 f a b => .call2 f (shiftAllNames k a) (shiftAllNames k b)

/-! ## Pseudofunctions -/

inductive PF
  | shift | diff | diffLog | pct | roc | movSum | movAvg | movProd
  deriving DecidableEq, Repr, Inhabited

/-- `_PSEUDOFUNC_RESOLUTION` keys -/
def PF.ofName? : String → Option PF
  | "shift" => some .shift
  | "diff" => some .diff
  | "diff_log" => some .diffLog
  | "difflog" => some .diffLog
  | "pct" => some .pct
  | "roc" => some .roc
  | "mov_sum" => some .movSum
  | "movsum" => some .movSum
  | "mov_avg" => some .movAvg
  | "movavg" => some .movAvg
  | "mov_prod" => some .movProd
  | "movprod" => some .movProd
  | _ => none

/-- `_PSEUDOFUNC_RESOLUTION` default shifts -/
def PF.defaultShift : PF → Int
  | .shift | .diff | .diffLog | .pct | .roc => -1
  | .movSum | .movAvg | .movProd => -4

/-- `_resolve_shift` -/
def resolveShift (pf : PF) (s : Option Int) : Int := s.getD pf.defaultShift

/-- the shifts enumerated by `range(0, shift, step)` of `_pseudo_mov` -/
def movShifts (k : Int) : List Int :=
  (List.range k.natAbs).map (fun (i : Nat) => if k > 0 then (i : Int) else -(i : Int))

/-- `_pseudo_mov`: the list of terms -/
def movTerms (e : Expr) (k : Int) : List Expr :=
  if k = 0 then [.num 0]
  else if k = 1 ∨ k = -1 then [e]
  else (movShifts k).map (fun s => shiftAllNames s e)

/-- `_pseudo_mov`: the divisor `total` -/
def movTotal (k : Int) : Nat := k.natAbs

/-- `"+".join(terms)` / `"*".join(terms)` as Python parses it: left-associated -/
def joinOp (op : BinOp) : List Expr → Expr
  | [] => .num 0
  | x :: xs => xs.foldl (fun acc y => .bin op acc y) x

def expandPF (pf : PF) (e : Expr) (k : Int) : Expr :=
  match pf with
  | .shift => shiftAllNames k e
  | .diff => .bin .sub e (shiftAllNames k e)
  | .diffLog => .bin .sub (.call1 "log" e) (.call1 "log" (shiftAllNames k e))
  | .pct => .bin .sub (.bin .div (.bin .mul (.num 100) e) (shiftAllNames k e)) (.num 100)
  | .roc => .bin .div e (shiftAllNames k e)
  | .movSum => joinOp .add (movTerms e k)
  | .movAvg => .bin .div (joinOp .add (movTerms e k)) (.num (movTotal k : Nat))
  | .movProd => joinOp .mul (movTerms e k)

/-- an equation side as written: pseudofunction calls (their argument is pseudofunction-free and
substitution-free: the regex of the code supports neither) and substitution references -/
inductive PExpr
  | num (q : Rat)
  | name (n : String) (k : Int)
  | neg (e : PExpr)
  | bin (op : BinOp) (a b : PExpr)
  | call1 (f : String) (a : PExpr)
  | call2 (f : String) (a b : PExpr)
  | pseudo (pf : PF) (arg : Expr) (shift : Option Int)
  | subs (s : String)
  deriving Repr, Inhabited

/-- macro expansion: pseudofunctions (preparser) then substitutions (`parsers/models.py`);
`defs` are the already expanded substitution bodies; an undefined `$s$` is an error (`none`) -/
def expand (defs : String → Option Expr) : PExpr → Option Expr
  | .num q => some (.num q)
  | .name n k => some (.name n k)
  | .neg e => (expand defs e).map .neg
  | .bin op a b => do
    let a' ← expand defs a
    let b' ← expand defs b
    pure (.bin op a' b')
  | .call1 f a => (expand defs a).map (.call1 f)
  | .call2 f a b => do
    let a' ← expand defs a
    let b' ← expand defs b
    pure (.call2 f a' b')
  | .pseudo pf arg s => some (expandPF pf arg (resolveShift pf s))
  | .subs s => defs s

/-! ## Equations -/

/-- `_postprocess_xtring`: `lhs = rhs` becomes `-(lhs)+rhs` -/
def translate (lhs rhs : Expr) : Expr := .bin .add (.neg lhs) rhs

/-- one version of an equation: with `=` / `:=`, or a bare expression -/
inductive Eqn (ε : Type)
  | eq (lhs rhs : ε)
  | bare (e : ε)
  deriving Repr, Inhabited

def Eqn.xtring : Eqn Expr → Expr
  | .eq l r => translate l r
  | .bare e => e

def Eqn.mapM {ε δ : Type} (f : ε → Option δ) : Eqn ε → Option (Eqn δ)
  | .eq l r => do
    let l' ← f l
    let r' ← f r
    pure (.eq l' r')
  | .bare e => (f e).map .bare

def Eqn.map {ε δ : Type} (f : ε → δ) : Eqn ε → Eqn δ
  | .eq l r => .eq (f l) (f r)
  | .bare e => .bare (f e)

inductive EqKind
  | transition | measurement
  deriving DecidableEq, Repr, Inhabited

structure Equation where
  kind : EqKind
  descr : String
  dynamic : Eqn PExpr
  steady : Option (Eqn PExpr)        -- the part after `!!`, when present
  deriving Repr, Inhabited

/-- `_human_func_steady`: the steady version is the text after `!!` when there is one -/
def Equation.steadyVersion (e : Equation) : Eqn PExpr := e.steady.getD e.dynamic

def antName (shock : String) : String := "ant_" ++ shock
def stdName (shock : String) : String := "std_" ++ shock

/-- `_introduce_anticipated_shocks_for_transition_shocks`: every occurrence of a transition shock `e`
(with its shift) becomes `(e+ant_e)` -/
def addAnticipated (shocks : List String) : Expr → Expr
  | .num q => .num q
  | .name n k => if n ∈ shocks then .bin .add (.name n k) (.name (antName n) k) else .name n k
  | .neg e => .neg (addAnticipated shocks e)
  | .bin op a b => .bin op (addAnticipated shocks a) (addAnticipated shocks b)
  | .call1 f a => .call1 f (addAnticipated shocks a)
  | .call2 f a b => .call2 f (addAnticipated shocks a) (addAnticipated shocks b)

/-- the expression evaluated by `_plain_dynamic_equator` for one equation -/
def dynamicXtring (defs : String → Option Expr) (tshocks : List String) (e : Equation) : Option Expr := do
  let v ← e.dynamic.mapM (expand defs)
  match e.kind with
  | .transition => pure (v.map (addAnticipated tshocks)).xtring
  | .measurement => pure v.xtring

/-- the expression evaluated by `_plain_steady_equator` for one equation -/
def steadyXtring (defs : String → Option Expr) (e : Equation) : Option Expr := do
  let v ← e.steadyVersion.mapM (expand defs)
  pure v.xtring

/-! ## Declarations, log status, ordering by kind -/

/-- `QuantityKind`, in the order of the enum values (which is the sort key of `reorder_by_kind`) -/
inductive QKind
  | tv | mv | ts | ant | ms | par | exo | tstd | mstd
  deriving DecidableEq, Repr, Inhabited

def QKind.all : List QKind := [.tv, .mv, .ts, .ant, .ms, .par, .exo, .tstd, .mstd]

def QKind.loggable : QKind → Bool
  | .tv | .mv | .exo => true
  | _ => false

/-- block keywords of `parsers/models.py` with the aliases (`_SHORTCUT_KEYWORDS`, `_` for `-`) -/
def QKind.ofKeyword? (kw : String) : Option QKind :=
  match kw.replace "_" "-" with
  | "!transition-variables" | "!variables" => some .tv
  | "!transition-shocks" | "!shocks" => some .ts
  | "!measurement-variables" => some .mv
  | "!measurement-shocks" => some .ms
  | "!parameters" => some .par
  | "!exogenous-variables" => some .exo
  | _ => none

def EqKind.ofKeyword? (kw : String) : Option EqKind :=
  match kw.replace "_" "-" with
  | "!transition-equations" | "!equations" => some .transition
  | "!measurement-equations" => some .measurement
  | _ => none

structure Decl where
  kind : QKind
  name : String
  descr : String
  deriving Repr, Inhabited, DecidableEq

structure Quantity where
  name : String
  kind : QKind
  logly : Option Bool
  descr : String
  deriving Repr, Inhabited, DecidableEq

/-- `_populate_logly.is_logly` -/
def isLogly (allBut : Bool) (listed : List String) (name : String) : Bool :=
  if name ∈ listed then !allBut else allBut

def loglyOf (allBut : Bool) (listed : List String) (d : Decl) : Option Bool :=
  if d.kind.loggable then some (isLogly allBut listed d.name) else none

def antDescr (d : Decl) : String := "(Anticipated value) " ++ (if d.descr = "" then d.name else d.descr)
def stdDescr (d : Decl) : String := "(Std) " ++ (if d.descr = "" then d.name else d.descr)

/-- declared quantities followed by the generated ones, in `entry` order -/
def allDecls (decls : List Decl) : List Decl :=
  decls
  ++ (decls.filter (·.kind = .ts)).map (fun d => ⟨.ant, antName d.name, antDescr d⟩)
  ++ (decls.filter (·.kind = .ts)).map (fun d => ⟨.tstd, stdName d.name, stdDescr d⟩)
  ++ (decls.filter (·.kind = .ms)).map (fun d => ⟨.mstd, stdName d.name, stdDescr d⟩)

/-- `reorder_by_kind` (sort by `(kind.value, entry)`) -/
def reorderByKind (ds : List Decl) : List Decl :=
  QKind.all.flatMap (fun k => ds.filter (·.kind = k))

/-- `_verify_log_variables`: listed names must be declared loggable variables -/
def logListOk (decls : List Decl) (listed : List String) : Bool :=
  listed.all (fun n => decls.any (fun d => d.name = n && d.kind.loggable))

def quantities (decls : List Decl) (allBut : Bool) (listed : List String) : List Quantity :=
  (reorderByKind (allDecls decls)).map (fun d => ⟨d.name, d.kind, loglyOf allBut listed d, d.descr⟩)

def namesOfKind (qs : List Quantity) (k : QKind) : List String :=
  (qs.filter (·.kind = k)).map (·.name)

/-! ## Lists -/

/-- a word of the source as the list machinery sees it -/
inductive LWord
  | plain (s : String)
  | typed (name ty : String)        -- ``name`ty``
  | list (ty : String)              -- ``!list(`ty)``
  deriving Repr, Inhabited

def typedNames (ws : List LWord) (ty : String) : List String :=
  ws.filterMap (fun w => match w with
    | .typed n t => if t = ty then some n else none
    | _ => none)

def hasTyped (ws : List LWord) : Bool :=
  ws.any (fun w => match w with | .typed _ _ => true | _ => false)

/-- `resolve_lists`: a list reference becomes the names carrying that type (the code joins a *set*:
the order is unspecified, the model gives them deduplicated in order of first appearance), tags are removed;
when no name carries any type the source is left alone (`if type_to_names:`) -/
def resolveLists (ws : List LWord) : List String :=
  ws.flatMap (fun w => match w with
    | .plain s => [s]
    | .typed n _ => [n]
    | .list ty => if hasTyped ws then (typedNames ws ty).eraseDups else ["¡list(`" ++ ty ++ ")"])

/-! ## The preparser directive machine -/

inductive Mode
  | plain | upper | lower
  deriving DecidableEq, Repr, Inhabited

/-- a piece of a word: literal text or a reference to a loop control name
(`?x`, `?(x)`; `?{x}` / `?(x)|upper` = upper, `?[x]` / `?(x)|lower` = lower) -/
inductive Piece
  | lit (s : String)
  | ctl (name : String) (m : Mode)
  deriving DecidableEq, Repr, Inhabited

abbrev Word := List Piece

def Mode.apply : Mode → String → String
  | .plain, s => s
  | .upper, s => s.toUpper
  | .lower, s => s.toLower

/-- `replace_control_by_token` on one piece -/
def Piece.subst (c tok : String) : Piece → Piece
  | .lit s => .lit s
  | .ctl n m => if n = c then .lit (m.apply tok) else .ctl n m

def Word.subst (c tok : String) (w : Word) : Word := w.map (Piece.subst c tok)

def Piece.render : Piece → String
  | .lit s => s
  | .ctl n .plain => "?" ++ n
  | .ctl n .upper => "?" ++ n ++ "|upper"
  | .ctl n .lower => "?" ++ n ++ "|lower"

def Word.render (w : Word) : String := String.join (w.map Piece.render)

/-- the tokens of a `!for`: written out, or a `<key>` expression evaluated in the context -/
inductive Toks
  | words (ws : List Word)
  | ctx (key : Word)
  deriving Repr, Inhabited

/-- the condition of an `!if`: a comparison of two (substituted) words, or a context flag -/
inductive Cond
  | eq (a b : Word)
  | flag (key : Word)
  deriving Repr, Inhabited

def Toks.subst (c tok : String) : Toks → Toks
  | .words ws => .words (ws.map (Word.subst c tok))
  | .ctx k => .ctx (Word.subst c tok k)

def Cond.subst (c tok : String) : Cond → Cond
  | .eq a b => .eq (Word.subst c tok a) (Word.subst c tok b)
  | .flag k => .flag (Word.subst c tok k)

/-- the flat sequence produced by the preparser grammar (`_Text _For _If _Else _End`) -/
inductive Item
  | text (ws : List Word)
  | for (ctl : String) (toks : Toks)
  | if (c : Cond)
  | else
  | end
  deriving Repr, Inhabited

/-- `.replace(pattern, replacement)` of each directive class: `_For` replaces in its tokens (not in
its own control name), `_If` in its condition, `_Else`/`_End` are unchanged -/
def Item.subst (c tok : String) : Item → Item
  | .text ws => .text (ws.map (Word.subst c tok))
  | .for ctl toks => .for ctl (toks.subst c tok)
  | .if cond => .if (cond.subst c tok)
  | .else => .else
  | .end => .end

/-- the preparser context as far as the directives use it: `<key>` gives a list of tokens or a truth value -/
structure Ctx where
  lists : String → Option (List String)
  flags : String → Option Bool

inductive Err
  | bad        -- the code raises (misplaced `!end`/`!else`, no matching `!end`, failing `<...>`)
  | depth      -- recursion budget of the model exhausted (proved impossible for well-nested sequences with budget >= depth:
               -- `resolveSeq_flatten`; for malformed sequences only observed: never reported with budget = length)
  deriving DecidableEq, Repr, Inhabited

/-- `_prepare_tokens` -/
def Toks.eval (ctx : Ctx) : Toks → Except Err (List String)
  | .words ws => .ok (ws.map Word.render)
  | .ctx k => match ctx.lists k.render with
    | some l => .ok l
    | none => .error .bad

/-- `_If._evaluate_condition` -/
def Cond.eval (ctx : Ctx) : Cond → Except Err Bool
  | .eq a b => .ok (a.render == b.render)
  | .flag k => match ctx.flags k.render with
    | some b => .ok b
    | none => .error .bad

/-- `_find_matching_end`: split `l` (the items after an opening directive, `lvl` = current cumulative
level >= 1) at the first item where the cumulative level reaches 0: (body, items after the `!end`) -/
def splitEnd : List Item → Nat → Option (List Item × List Item)
  | [], _ => none
  | it :: rest, lvl =>
    match it with
    | .end =>
      if lvl ≤ 1 then some ([], rest)
      else (splitEnd rest (lvl - 1)).map (fun p => (it :: p.1, p.2))
    | .for _ _ | .if _ => (splitEnd rest (lvl + 1)).map (fun p => (it :: p.1, p.2))
    | .text _ | .else => (splitEnd rest lvl).map (fun p => (it :: p.1, p.2))

/-- `_find_matching_else` restricted to the body of the `!if` (the items strictly before its matching
`!end`): the first `!else` at cumulative level 1: (then-part, else-part) -/
def splitElse : List Item → Nat → Option (List Item × List Item)
  | [], _ => none
  | it :: rest, lvl =>
    match it with
    | .else =>
      if lvl = 1 then some ([], rest)
      else (splitElse rest lvl).map (fun p => (it :: p.1, p.2))
    | .end => (splitElse rest (lvl - 1)).map (fun p => (it :: p.1, p.2))
    | .for _ _ | .if _ => (splitElse rest (lvl + 1)).map (fun p => (it :: p.1, p.2))
    | .text _ => (splitElse rest lvl).map (fun p => (it :: p.1, p.2))

theorem splitEnd_length : ∀ (l : List Item) (lvl : Nat) (b a : List Item),
    splitEnd l lvl = some (b, a) → a.length < l.length
  | [], _, _, _, h => by simp [splitEnd] at h
  | it :: rest, lvl, b, a, h => by
    cases it <;> simp only [splitEnd] at h
    case «end» =>
      split at h
      · simp at h; simp [← h.2]
      · simp only [Option.map_eq_some_iff] at h
        obtain ⟨p, hp, hq⟩ := h
        have := splitEnd_length rest (lvl - 1) p.1 p.2 hp
        simp at hq; simp [← hq.2]; omega
    all_goals
      simp only [Option.map_eq_some_iff] at h
      obtain ⟨p, hp, hq⟩ := h
      have := splitEnd_length rest _ p.1 p.2 hp
      simp at hq; simp [← hq.2]; omega

/-- `_For._expand_tokens`: the body, once per token, with the control name replaced -/
def expandFor (ctl : String) (toks : List String) (body : List Item) : List Item :=
  toks.flatMap (fun t => body.map (Item.subst ctl t))

/-- `_resolve_sequence`: the output words, in order. `d` bounds the nesting depth (recursion into a
body costs one); `d >= length` always suffices. -/
def resolveSeq (ctx : Ctx) : Nat → List Item → Except Err (List String)
  | _, [] => .ok []
  | d, .text ws :: rest => do
    let r ← resolveSeq ctx d rest
    pure (ws.map Word.render ++ r)
  | _, .else :: _ => .error .bad
  | _, .end :: _ => .error .bad
  | 0, .for _ _ :: _ => .error .depth
  | 0, .if _ :: _ => .error .depth
  | d + 1, .for ctl toks :: rest =>
    match _h : splitEnd rest 1 with
    | none => .error .bad
    | some (body, after) => do
      let ts ← toks.eval ctx
      let a ← resolveSeq ctx d (expandFor ctl ts body)
      let b ← resolveSeq ctx (d + 1) after
      pure (a ++ b)
  | d + 1, .if c :: rest =>
    match _h : splitEnd rest 1 with
    | none => .error .bad
    | some (body, after) => do
      let v ← c.eval ctx
      let (th, el) := (splitElse body 1).getD (body, [])
      let a ← resolveSeq ctx d (if v then th else el)
      let b ← resolveSeq ctx (d + 1) after
      pure (a ++ b)
termination_by d l => (d, l.length)
decreasing_by
  all_goals simp_wf
  · exact Prod.Lex.right _ (by simp)
  · exact Prod.Lex.left _ _ (by omega)
  · exact Prod.Lex.right _ (by have := splitEnd_length _ _ _ _ _h; simp; omega)
  · exact Prod.Lex.left _ _ (by omega)
  · exact Prod.Lex.right _ (by have := splitEnd_length _ _ _ _ _h; simp; omega)

/-- the whole directive stage: budget = length of the sequence -/
def resolve (ctx : Ctx) (seq : List Item) : Except Err (List String) :=
  resolveSeq ctx seq.length seq

/-! ### Well-nested directive trees and their meaning -/

/-- a forest of directives (a plain inductive type: `rest` is the continuation at the same level;
`elseB` is ignored when `hasElse = false`) -/
inductive Forest
  | nil
  | text (ws : List Word) (rest : Forest)
  | for (ctl : String) (toks : Toks) (body : Forest) (rest : Forest)
  | ite (c : Cond) (thenB : Forest) (hasElse : Bool) (elseB : Forest) (rest : Forest)
  deriving Repr, Inhabited

def Forest.flatten : Forest → List Item
  | .nil => []
  | .text ws rest => .text ws :: rest.flatten
  | .for ctl toks body rest => .for ctl toks :: (body.flatten ++ .end :: rest.flatten)
  | .ite c th false _ rest => .if c :: (th.flatten ++ .end :: rest.flatten)
  | .ite c th true el rest => .if c :: (th.flatten ++ .else :: (el.flatten ++ .end :: rest.flatten))

def Forest.depth : Forest → Nat
  | .nil => 0
  | .text _ rest => rest.depth
  | .for _ _ body rest => max (body.depth + 1) rest.depth
  | .ite _ th false _ rest => max (th.depth + 1) rest.depth
  | .ite _ th true el rest => max (max (th.depth + 1) (el.depth + 1)) rest.depth

/-- a pending substitution: control names with their tokens, outermost loop first -/
abbrev Subst := List (String × String)

def Word.substAll (σ : Subst) (w : Word) : Word := σ.foldl (fun w ct => Word.subst ct.1 ct.2 w) w
def Toks.substAll (σ : Subst) (t : Toks) : Toks := σ.foldl (fun t ct => t.subst ct.1 ct.2) t
def Cond.substAll (σ : Subst) (c : Cond) : Cond := σ.foldl (fun c ct => c.subst ct.1 ct.2) c
def Item.substAll (σ : Subst) (it : Item) : Item := σ.foldl (fun it ct => it.subst ct.1 ct.2) it

/-- the meaning of a directive forest under the substitution `σ` of the enclosing loops:
a for-loop is the concatenation, in token order, of its body with the control name replaced;
an if/else selects a branch by its condition; errors are the failing `<...>` evaluations -/
def Forest.denote (ctx : Ctx) : Subst → Forest → Except Err (List String)
  | _, .nil => .ok []
  | σ, .text ws rest => do
    let r ← rest.denote ctx σ
    pure ((ws.map (fun w => (Word.substAll σ w).render)) ++ r)
  | σ, .for ctl toks body rest => do
    let ts ← (toks.substAll σ).eval ctx
    let a ← ts.mapM (fun t => body.denote ctx (σ ++ [(ctl, t)]))
    let b ← rest.denote ctx σ
    pure (a.flatten ++ b)
  | σ, .ite c th hasElse el rest => do
    let v ← (c.substAll σ).eval ctx
    let a ← if v then th.denote ctx σ else if hasElse then el.denote ctx σ else .ok []
    let b ← rest.denote ctx σ
    pure (a ++ b)

end IrisVerif.ModelLang
