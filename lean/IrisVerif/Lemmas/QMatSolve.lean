/-
Correctness of the exact linear solver `QMat.solve` (Gauss-Jordan elimination over ℚ with the first non-zero pivot,
`Model/QMat.lean`): soundness, completeness, and the exact characterisation of `none`.

The elimination functions of the model are `private`; they are re-stated here verbatim (`swapRows'`, `findPivot'`,
`gjStep`, `gaussJordan'`, `solve'`) and `solve_eq_solve' : QMat.solve a b = solve' a b` holds by `rfl`, so every
theorem below is about the executable `QMat.solve` itself.

Proof idea (no elementary matrices, no determinants until the very end): read the array of rows through its entry
function `ent d i j`; one elimination step replaces the rows by invertible combinations of the rows, so the set of
vectors annihilated by all rows (`Null`) is unchanged (`step_null`); the columns already processed are unit vectors
(`UC`).  After `n` steps the matrix is `[I | X]`, whose null space contains `(X e_l ; −e_l)`: hence `A X = B`
(soundness).  If no pivot is found in column `c`, the vector `e_c − Σ_{j<c} E j c e_j` is annihilated by all rows,
hence by `A`: `A` is singular (completeness).  Conversely a vector annihilated by `A` is annihilated by `[I | X]`, so
it is zero: a returned answer certifies that `A` is non-singular.
-/
import IrisVerif.Lemmas.QMatRefines

open Matrix

namespace IrisVerif.QMat

/-! ## the elimination, re-stated (the model's definitions are `private`) -/

def swapRows' (d : Array (Array Rat)) (i j : Nat) : Array (Array Rat) :=
  if i = j then d else
    let ri := d.getD i #[]; let rj := d.getD j #[]
    (d.setIfInBounds i rj).setIfInBounds j ri

def findPivot' (d : Array (Array Rat)) (c : Nat) (from_ n : Nat) : Option Nat :=
  (List.range (n - from_)).map (· + from_) |>.find? (fun i => (d.getD i #[]).getD c 0 != 0)

def gjStep (n : Nat) (d : Array (Array Rat)) (c : Nat) : Option (Array (Array Rat)) := do
    let p ← findPivot' d c c n
    let d := swapRows' d c p
    let prow := d.getD c #[]
    let pv := prow.getD c 0
    let prow := prow.map (· / pv)
    let d := d.setIfInBounds c prow
    pure <| d.mapIdx fun i r =>
      if i = c then r else
        let f := r.getD c 0
        if f == 0 then r else (Array.range r.size).map (fun j => r.getD j 0 - f * prow.getD j 0)

def gaussJordan' (n : Nat) (d : Array (Array Rat)) : Option (Array (Array Rat)) :=
  (List.range n).foldlM (init := d) (gjStep n)

def solve' (a b : QMat) : Option QMat :=
  if a.rows != a.cols || a.rows != b.rows then none else
  match gaussJordan' a.rows (hstack a b).data with
  | none => none
  | some d => some (block ⟨a.rows, a.cols + b.cols, d⟩ 0 a.rows a.cols (a.cols + b.cols))

/-- the re-stated solver *is* the executable one -/
theorem solve_eq_solve' (a b : QMat) : solve a b = solve' a b := rfl

/-! ## arrays of rows, read through their entries -/

/-- entry `(i, j)` of an array of rows (0 outside) -/
def ent (d : Array (Array Rat)) (i j : Nat) : Rat := (d.getD i #[]).getD j 0

/-- `n` rows of length `w` -/
def Shaped (n w : Nat) (d : Array (Array Rat)) : Prop := d.size = n ∧ ∀ i, i < n → (d.getD i #[]).size = w

theorem getD_set (d : Array (Array Rat)) (i k : Nat) (r : Array Rat) (hi : i < d.size) :
    (d.setIfInBounds i r).getD k #[] = if k = i then r else d.getD k #[] := by
  simp only [Array.getD_eq_getD_getElem?, Array.getElem?_setIfInBounds]
  by_cases h : k = i
  · subst h; simp [hi]
  · have : ¬ i = k := fun h' => h h'.symm
    simp [h, this]

theorem getD_mapIdx (d : Array (Array Rat)) (f : Nat → Array Rat → Array Rat) (k : Nat) (hk : k < d.size) :
    (d.mapIdx f).getD k #[] = f k (d.getD k #[]) := by
  simp [Array.getD_eq_getD_getElem?, hk]

theorem getD_map_div (r : Array Rat) (pv : Rat) (j : Nat) : (r.map (· / pv)).getD j 0 = r.getD j 0 / pv := by
  simp only [Array.getD_eq_getD_getElem?, Array.getElem?_map]
  by_cases h : j < r.size
  · simp [h]
  · simp [h]

theorem getD_range_map (n : Nat) (g : Nat → Rat) (j : Nat) (hj : j < n) : ((Array.range n).map g).getD j 0 = g j := by
  simp [Array.getD_eq_getD_getElem?, hj]

/-! ## the pivot search -/

theorem findPivot'_some (d : Array (Array Rat)) (c n p : Nat) (h : findPivot' d c c n = some p) :
    c ≤ p ∧ p < n ∧ ent d p c ≠ 0 := by
  unfold findPivot' at h
  have hp := List.find?_some h
  have hm := List.mem_of_find?_eq_some h
  rw [List.mem_map] at hm
  obtain ⟨k, hk, rfl⟩ := hm
  rw [List.mem_range] at hk
  refine ⟨by omega, by omega, ?_⟩
  simpa [ent] using hp

theorem findPivot'_none (d : Array (Array Rat)) (c n : Nat) (h : findPivot' d c c n = none) :
    ∀ i, c ≤ i → i < n → ent d i c = 0 := by
  unfold findPivot' at h
  rw [List.find?_eq_none] at h
  intro i h1 h2
  have := h i (by rw [List.mem_map]; exact ⟨i - c, List.mem_range.2 (by omega), by omega⟩)
  simpa [ent] using this

/-! ## one elimination step, entry by entry -/

/-- rows `c` and `p` exchanged -/
def swapE (E : Nat → Nat → Rat) (c p : Nat) : Nat → Nat → Rat :=
  fun i j => if i = c then E p j else if i = p then E c j else E i j

theorem swapRows'_spec (n w : Nat) (d : Array (Array Rat)) (hd : Shaped n w d) (c p : Nat) (hc : c < n) (hp : p < n) :
    Shaped n w (swapRows' d c p) ∧ ∀ i j, ent (swapRows' d c p) i j = swapE (ent d) c p i j := by
  obtain ⟨h1, h2⟩ := hd
  unfold swapRows'
  by_cases hcp : c = p
  · subst hcp
    simp only [if_true]
    refine ⟨⟨h1, h2⟩, fun i j => ?_⟩
    unfold swapE
    by_cases hi : i = c
    · subst hi; simp
    · simp [hi]
  · simp only [hcp, if_false]
    have hs1 : (d.setIfInBounds c (d.getD p #[])).size = d.size := by simp
    have hrow : ∀ k, ((d.setIfInBounds c (d.getD p #[])).setIfInBounds p (d.getD c #[])).getD k #[]
        = if k = p then d.getD c #[] else if k = c then d.getD p #[] else d.getD k #[] := by
      intro k
      rw [getD_set _ _ _ _ (by rw [hs1, h1]; exact hp), getD_set _ _ _ _ (by rw [h1]; exact hc)]
    refine ⟨⟨by simp [h1], fun i hi => ?_⟩, fun i j => ?_⟩
    · rw [hrow]
      split
      · exact h2 c hc
      · split
        · exact h2 p hp
        · exact h2 i hi
    · unfold ent swapE
      rw [hrow]
      by_cases hic : i = c
      · subst hic
        simp [hcp]
      · by_cases hip : i = p
        · subst hip; simp [hic]
        · simp [hic, hip]

/-- the result of one step on the entries: row `c` of the swapped matrix divided by the pivot, every other row minus
its column-`c` entry times the new row `c` -/
def stepE (E : Nat → Nat → Rat) (c p : Nat) : Nat → Nat → Rat :=
  fun i j =>
    if i = c then swapE E c p c j / E p c
    else swapE E c p i j - swapE E c p i c * (swapE E c p c j / E p c)

theorem gjStep_spec (n w : Nat) (d d' : Array (Array Rat)) (hd : Shaped n w d) (c : Nat) (hc : c < n)
    (h : gjStep n d c = some d') :
    ∃ p, c ≤ p ∧ p < n ∧ ent d p c ≠ 0 ∧ Shaped n w d' ∧
      ∀ i j, i < n → j < w → ent d' i j = stepE (ent d) c p i j := by
  unfold gjStep at h
  simp only [bind, Option.bind, pure] at h
  split at h
  · cases h
  · rename_i p hp
    obtain ⟨hcp, hpn, hne⟩ := findPivot'_some d c n p hp
    obtain ⟨hs, hent⟩ := swapRows'_spec n w d hd c p hc hpn
    injection h with h
    refine ⟨p, hcp, hpn, hne, ?_⟩
    set d1 := swapRows' d c p with hd1
    set pv := (d1.getD c #[]).getD c 0 with hpv
    set prow := (d1.getD c #[]).map (· / pv) with hprow
    have hpvE : pv = ent d p c := by
      have := hent c c
      unfold swapE at this
      simp only [if_true] at this
      exact this
    have hsz2 : (d1.setIfInBounds c prow).size = n := by simp [hs.1]
    have hrow2 : ∀ k, (d1.setIfInBounds c prow).getD k #[] = if k = c then prow else d1.getD k #[] := by
      intro k; exact getD_set _ _ _ _ (by rw [hs.1]; exact hc)
    have hprowsz : prow.size = w := by rw [hprow, Array.size_map]; exact hs.2 c hc
    have hrow3 : ∀ k, k < n → d'.getD k #[] =
        if k = c then prow else
          if (d1.getD k #[]).getD c 0 == 0 then d1.getD k #[]
          else (Array.range (d1.getD k #[]).size).map
            (fun j => (d1.getD k #[]).getD j 0 - (d1.getD k #[]).getD c 0 * prow.getD j 0) := by
      intro k hk
      rw [← h, getD_mapIdx _ _ _ (by rw [hsz2]; exact hk), hrow2]
      by_cases hkc : k = c
      · simp [hkc]
      · simp [hkc]
    refine ⟨⟨by rw [← h]; simp [hs.1], fun i hi => ?_⟩, fun i j hi hj => ?_⟩
    · rw [hrow3 i hi]
      split
      · exact hprowsz
      · split
        · exact hs.2 i hi
        · rw [Array.size_map, Array.size_range]; exact hs.2 i hi
    · show (d'.getD i #[]).getD j 0 = stepE (ent d) c p i j
      unfold stepE
      rw [hrow3 i hi]
      have hprowj : ∀ j, prow.getD j 0 = swapE (ent d) c p c j / ent d p c := by
        intro j
        rw [hprow, getD_map_div, ← hpvE]
        congr 1
        exact hent c j
      by_cases hic : i = c
      · simp only [hic, if_true]
        exact hprowj j
      · simp only [hic, if_false]
        have e1 : ∀ j, (d1.getD i #[]).getD j 0 = swapE (ent d) c p i j := fun j => hent i j
        by_cases hf : (d1.getD i #[]).getD c 0 = 0
        · simp only [hf, beq_self_eq_true, if_true]
          rw [← e1 j, ← e1 c, hf]; ring
        · have : ((d1.getD i #[]).getD c 0 == 0) = false := by simpa using hf
          simp only [this, Bool.false_eq_true, if_false]
          rw [getD_range_map _ _ _ (by rw [hs.2 i hi]; exact hj), hprowj j, e1 j, e1 c]

/-! ## the two invariants: the null space of the rows, and the unit columns -/

/-- row `i` applied to the vector `x` (`w` columns) -/
def dotRow (w : Nat) (E : Nat → Nat → Rat) (i : Nat) (x : Nat → Rat) : Rat := ∑ j ∈ Finset.range w, E i j * x j

/-- `x` is annihilated by the first `n` rows -/
def Null (n w : Nat) (E : Nat → Nat → Rat) (x : Nat → Rat) : Prop := ∀ i, i < n → dotRow w E i x = 0

/-- the first `k` columns are the unit vectors `e_0 … e_{k-1}` (on the first `n` rows) -/
def UC (n k : Nat) (E : Nat → Nat → Rat) : Prop := ∀ i j, i < n → j < k → E i j = if i = j then 1 else 0

theorem dotRow_congr (w : Nat) (E E' : Nat → Nat → Rat) (i : Nat) (x : Nat → Rat) (h : ∀ j, j < w → E i j = E' i j) :
    dotRow w E i x = dotRow w E' i x :=
  Finset.sum_congr rfl (fun j hj => by rw [h j (Finset.mem_range.1 hj)])

theorem null_congr (n w : Nat) (E E' : Nat → Nat → Rat) (x : Nat → Rat) (h : ∀ i j, i < n → j < w → E i j = E' i j) :
    Null n w E x ↔ Null n w E' x := by
  unfold Null
  exact forall_congr' fun i => forall_congr' fun hi => by rw [dotRow_congr w E E' i x (fun j hj => h i j hi hj)]

theorem swap_null (n w : Nat) (E : Nat → Nat → Rat) (c p : Nat) (hc : c < n) (hp : p < n) (x : Nat → Rat) :
    Null n w (swapE E c p) x ↔ Null n w E x := by
  have hrow : ∀ i, dotRow w (swapE E c p) i x =
      if i = c then dotRow w E p x else if i = p then dotRow w E c x else dotRow w E i x := by
    intro i
    unfold dotRow
    by_cases h1 : i = c
    · rw [if_pos h1]
      exact Finset.sum_congr rfl (fun j _ => by simp [swapE, h1])
    · rw [if_neg h1]
      by_cases h2 : i = p
      · rw [if_pos h2]
        have h3 : ¬ p = c := fun h => h1 (h2.trans h)
        exact Finset.sum_congr rfl (fun j _ => by simp [swapE, h2, h3])
      · rw [if_neg h2]
        exact Finset.sum_congr rfl (fun j _ => by simp [swapE, h1, h2])
  constructor
  · intro h i hi
    by_cases h1 : i = c
    · have := h p hp
      rw [hrow] at this
      by_cases hpc : p = c
      · rw [if_pos hpc] at this; rw [h1, ← hpc]; exact this
      · rw [if_neg hpc, if_pos rfl] at this; rw [h1]; exact this
    · by_cases h2 : i = p
      · have := h c hc
        rw [hrow, if_pos rfl] at this
        rw [h2]; exact this
      · have := h i hi
        rw [hrow, if_neg h1, if_neg h2] at this
        exact this
  · intro h i hi
    rw [hrow]
    split
    · exact h p hp
    · split
      · exact h c hc
      · exact h i hi

theorem dotRow_step_c (w : Nat) (E : Nat → Nat → Rat) (c p : Nat) (x : Nat → Rat) :
    dotRow w (stepE E c p) c x = dotRow w (swapE E c p) c x / E p c := by
  unfold dotRow stepE
  simp only [if_true]
  rw [div_eq_mul_inv, Finset.sum_mul]
  exact Finset.sum_congr rfl (fun j _ => by ring)

theorem dotRow_step_i (w : Nat) (E : Nat → Nat → Rat) (c p i : Nat) (hi : i ≠ c) (x : Nat → Rat) :
    dotRow w (stepE E c p) i x =
      dotRow w (swapE E c p) i x - swapE E c p i c * (dotRow w (swapE E c p) c x / E p c) := by
  unfold dotRow stepE
  simp only [hi, if_false]
  rw [div_eq_mul_inv, Finset.sum_mul, Finset.mul_sum, ← Finset.sum_sub_distrib]
  exact Finset.sum_congr rfl (fun j _ => by ring)

/-- **one step leaves the null space of the rows unchanged** -/
theorem step_null (n w : Nat) (E : Nat → Nat → Rat) (c p : Nat) (hc : c < n) (hp : p < n) (hne : E p c ≠ 0)
    (x : Nat → Rat) : Null n w (stepE E c p) x ↔ Null n w E x := by
  rw [← swap_null n w E c p hc hp x]
  constructor
  · intro h
    have hcz : dotRow w (swapE E c p) c x = 0 := by
      have := h c hc
      rw [dotRow_step_c] at this
      exact (div_eq_zero_iff.1 this).resolve_right hne
    intro i hi
    by_cases hic : i = c
    · rw [hic]; exact hcz
    · have := h i hi
      rw [dotRow_step_i w E c p i hic, hcz] at this
      simpa using this
  · intro h i hi
    by_cases hic : i = c
    · rw [hic, dotRow_step_c, h c hc, zero_div]
    · rw [dotRow_step_i w E c p i hic, h i hi, h c hc]; simp

/-- **one step makes column `c` the unit vector `e_c` and keeps the earlier unit columns** -/
theorem step_UC (n : Nat) (E : Nat → Nat → Rat) (c p : Nat) (hc : c < n) (hcp : c ≤ p) (hp : p < n) (hne : E p c ≠ 0)
    (h : UC n c E) : UC n (c + 1) (stepE E c p) := by
  intro i j hi hj
  have hS : ∀ i j, i < n → j < c → swapE E c p i j = if i = j then 1 else 0 := by
    intro i j hi hj
    unfold swapE
    by_cases h1 : i = c
    · rw [if_pos h1, h p j hp hj, if_neg (by omega), if_neg (by omega)]
    · rw [if_neg h1]
      by_cases h2 : i = p
      · rw [if_pos h2, h c j hc hj, if_neg (by omega), if_neg (by omega)]
      · rw [if_neg h2, h i j hi hj]
  have hScc : swapE E c p c c = E p c := by unfold swapE; simp
  unfold stepE
  by_cases hjc : j = c
  · subst hjc
    by_cases hij : i = j
    · rw [if_pos hij, if_pos hij, hScc, div_self hne]
    · rw [if_neg hij, if_neg hij, hScc, div_self hne]; ring
  · have hj' : j < c := by omega
    by_cases hic : i = c
    · rw [if_pos hic, hS c j hc hj', if_neg (by omega), if_neg (by omega), zero_div]
    · rw [if_neg hic, hS c j hc hj', if_neg (by omega), zero_div, mul_zero, sub_zero, hS i j hi hj']

/-! ## sums against the special vectors -/

theorem sum_ite_lt (w k : Nat) (hk : k ≤ w) (g : Nat → Rat) :
    ∑ j ∈ Finset.range w, (if j < k then g j else 0) = ∑ j ∈ Finset.range k, g j := by
  rw [← Finset.sum_subset (Finset.range_mono hk)
    (fun j _ hj => by rw [if_neg (by simpa using hj)])]
  exact Finset.sum_congr rfl (fun j hj => by rw [if_pos (Finset.mem_range.1 hj)])

theorem sum_ite_eq_range (w k : Nat) (hk : k < w) (g : Nat → Rat) :
    ∑ j ∈ Finset.range w, (if j = k then g j else 0) = g k := by
  rw [Finset.sum_ite_eq' (Finset.range w) k g, if_pos (Finset.mem_range.2 hk)]

theorem sum_UC (n k : Nat) (E : Nat → Nat → Rat) (h : UC n k E) (i : Nat) (hi : i < n) (g : Nat → Rat) :
    ∑ j ∈ Finset.range k, E i j * g j = if i < k then g i else 0 := by
  have : ∀ j ∈ Finset.range k, E i j * g j = if j = i then g j else 0 := by
    intro j hj
    rw [h i j hi (Finset.mem_range.1 hj)]
    by_cases hij : i = j
    · rw [if_pos hij, if_pos hij.symm, one_mul]
    · rw [if_neg hij, if_neg (fun h' => hij h'.symm), zero_mul]
  rw [Finset.sum_congr rfl this, Finset.sum_ite_eq' (Finset.range k) i g]
  simp

/-- a vector that vanishes from index `n` on only sees the left `n × n` block -/
theorem dotRow_left (n w : Nat) (hnw : n ≤ w) (E : Nat → Nat → Rat) (i : Nat) (x : Nat → Rat)
    (hx : ∀ j, n ≤ j → x j = 0) : dotRow w E i x = ∑ j ∈ Finset.range n, E i j * x j := by
  unfold dotRow
  exact (Finset.sum_subset (Finset.range_mono hnw)
    (fun j _ hj => by rw [hx j (by simpa using hj), mul_zero])).symm

/-! ## the fold -/

/-- the first `k` elimination steps -/
def gjPrefix (n k : Nat) (d : Array (Array Rat)) : Option (Array (Array Rat)) := (List.range k).foldlM (gjStep n) d

theorem gaussJordan'_eq (n : Nat) (d : Array (Array Rat)) : gaussJordan' n d = gjPrefix n n d := rfl

theorem gjPrefix_zero (n : Nat) (d : Array (Array Rat)) : gjPrefix n 0 d = some d := rfl

theorem gjPrefix_succ (n k : Nat) (d : Array (Array Rat)) :
    gjPrefix n (k + 1) d = (gjPrefix n k d).bind (fun dk => gjStep n dk k) := by
  unfold gjPrefix
  rw [List.range_succ, List.foldlM_append]
  cases (List.range k).foldlM (gjStep n) d with
  | none => rfl
  | some dk => simp [List.foldlM]

/-- **the invariant of the elimination** after `k` steps: shape, unit columns `0 … k-1`, unchanged null space -/
theorem gjPrefix_inv (n w : Nat) (hnw : n ≤ w) (d : Array (Array Rat)) (hd : Shaped n w d) (k : Nat) (hk : k ≤ n)
    (dk : Array (Array Rat)) (h : gjPrefix n k d = some dk) :
    Shaped n w dk ∧ UC n k (ent dk) ∧ ∀ x, Null n w (ent dk) x ↔ Null n w (ent d) x := by
  induction k generalizing dk with
  | zero =>
    rw [gjPrefix_zero] at h
    injection h with h
    subst h
    exact ⟨hd, fun i j _ hj => absurd hj (Nat.not_lt_zero _), fun x => Iff.rfl⟩
  | succ k ih =>
    rw [gjPrefix_succ] at h
    cases hprev : gjPrefix n k d with
    | none => rw [hprev] at h; cases h
    | some dprev =>
      rw [hprev] at h
      simp only [Option.bind_some] at h
      obtain ⟨hs, huc, hnull⟩ := ih (by omega) dprev hprev
      obtain ⟨p, hcp, hpn, hne, hs', hent⟩ := gjStep_spec n w dprev dk hs k (by omega) h
      refine ⟨hs', ?_, fun x => ?_⟩
      · intro i j hi hj
        rw [hent i j hi (by omega)]
        exact step_UC n (ent dprev) k p (by omega) hcp hpn hne huc i j hi hj
      · rw [null_congr n w (ent dk) (stepE (ent dprev) k p) x hent,
          step_null n w (ent dprev) k p (by omega) hpn hne x]
        exact hnull x

theorem gjStep_none (n : Nat) (d : Array (Array Rat)) (c : Nat) (h : gjStep n d c = none) :
    findPivot' d c c n = none := by
  unfold gjStep at h
  cases hp : findPivot' d c c n with
  | none => rfl
  | some p => rw [hp] at h; simp [bind, Option.bind, pure] at h

/-- **progress**: if the left block of the original matrix has a trivial kernel, every step finds a pivot -/
theorem gjPrefix_progress (n w : Nat) (hnw : n ≤ w) (d : Array (Array Rat)) (hd : Shaped n w d)
    (hns : ∀ x : Nat → Rat, (∀ j, n ≤ j → x j = 0) → Null n w (ent d) x → ∀ j, j < n → x j = 0)
    (k : Nat) (hk : k ≤ n) : ∃ dk, gjPrefix n k d = some dk := by
  induction k with
  | zero => exact ⟨d, rfl⟩
  | succ k ih =>
    obtain ⟨dprev, hprev⟩ := ih (by omega)
    obtain ⟨hs, huc, hnull⟩ := gjPrefix_inv n w hnw d hd k (by omega) dprev hprev
    rw [gjPrefix_succ, hprev]
    simp only [Option.bind_some]
    cases hstep : gjStep n dprev k with
    | some dk => exact ⟨dk, rfl⟩
    | none =>
      exfalso
      have hz := findPivot'_none dprev k n (gjStep_none n dprev k hstep)
      -- the vector `e_k − Σ_{j<k} E j k e_j`
      let x : Nat → Rat := fun j => if j = k then 1 else if j < k then - ent dprev j k else 0
      have hxv : ∀ j, n ≤ j → x j = 0 := by
        intro j hj
        show (if j = k then 1 else if j < k then - ent dprev j k else 0) = 0
        rw [if_neg (by omega), if_neg (by omega)]
      have hxn : Null n w (ent dprev) x := by
        intro i hi
        unfold dotRow
        have hterm : ∀ j ∈ Finset.range w, ent dprev i j * x j
            = (if j = k then ent dprev i j else 0) + (if j < k then ent dprev i j * (- ent dprev j k) else 0) := by
          intro j _
          show ent dprev i j * (if j = k then 1 else if j < k then - ent dprev j k else 0) = _
          by_cases h1 : j = k
          · rw [if_pos h1, if_pos h1, if_neg (by omega)]; ring
          · rw [if_neg h1, if_neg h1]
            by_cases h2 : j < k
            · rw [if_pos h2, if_pos h2]; ring
            · rw [if_neg h2, if_neg h2]; ring
        rw [Finset.sum_congr rfl hterm, Finset.sum_add_distrib, sum_ite_eq_range w k (by omega),
          sum_ite_lt w k (by omega), sum_UC n k (ent dprev) huc i hi]
        by_cases hik : i < k
        · rw [if_pos hik]; ring
        · rw [if_neg hik, hz i (by omega) hi]; ring
      have := hns x hxv ((hnull x).1 hxn) k (by omega)
      have hx1 : x k = 1 := by
        show (if k = k then 1 else if k < k then - ent dprev k k else 0) = (1 : Rat)
        rw [if_pos rfl]
      rw [hx1] at this
      exact one_ne_zero this

/-! ## the solver on `QMat` -/

theorem dot_special (n m : Nat) (E : Nat → Nat → Rat) (v : Nat → Rat) (i l : Nat) (hl : l < m) :
    dotRow (n + m) E i (fun j => if j < n then v j else if j = n + l then -1 else 0)
      = ∑ j ∈ Finset.range n, E i j * v j - E i (n + l) := by
  unfold dotRow
  have hterm : ∀ j ∈ Finset.range (n + m),
      E i j * (if j < n then v j else if j = n + l then -1 else 0)
        = (if j < n then E i j * v j else 0) + (if j = n + l then - E i j else 0) := by
    intro j _
    by_cases h1 : j < n
    · rw [if_pos h1, if_pos h1, if_neg (by omega)]; ring
    · rw [if_neg h1, if_neg h1]
      by_cases h2 : j = n + l
      · rw [if_pos h2, if_pos h2]; ring
      · rw [if_neg h2, if_neg h2]; ring
  rw [Finset.sum_congr rfl hterm, Finset.sum_add_distrib, sum_ite_lt (n + m) n (by omega),
    sum_ite_eq_range (n + m) (n + l) (by omega) (fun j => - E i j)]
  ring

theorem shaped_hstack (a b : QMat) : Shaped a.rows (a.cols + b.cols) (hstack a b).data := by
  obtain ⟨h1, h2⟩ := (wellShaped_iff (hstack a b)).1 (wellShaped_hstack a b)
  refine ⟨h1, fun i hi => ?_⟩
  have hi' : i < (hstack a b).data.size := by rw [h1]; exact hi
  have := h2 i hi'
  simpa [Array.getD, hi'] using this

theorem ent_hstack (a b : QMat) (i j : Nat) (hi : i < a.rows) (hj : j < a.cols + b.cols) :
    ent (hstack a b).data i j = if j < a.cols then a.get i j else b.get i (j - a.cols) := by
  show (hstack a b).get i j = _
  rw [get_hstack, if_pos ⟨hi, hj⟩]

/-- what `solve` returning `some` means, in terms of the elimination -/
theorem solve_some (a b x : QMat) (h : solve a b = some x) :
    a.cols = a.rows ∧ b.rows = a.rows ∧ ∃ d, gjPrefix a.rows a.rows (hstack a b).data = some d ∧
      ∀ i l, i < a.rows → l < b.cols → x.get i l = ent d i (a.rows + l) := by
  rw [solve_eq_solve'] at h
  unfold solve' at h
  split at h
  · cases h
  · rename_i hcond
    simp only [Bool.or_eq_true, bne_iff_ne, ne_eq, not_or, Decidable.not_not] at hcond
    split at h
    · cases h
    · rename_i d hd
      injection h with h
      refine ⟨hcond.1.symm, hcond.2.symm, d, hd, fun i l hi hl => ?_⟩
      rw [← h, get_block, if_pos ⟨by omega, by omega⟩, Nat.zero_add, ← hcond.1]
      rfl

/-- **Soundness of the executable `QMat.solve`** (no re-check needed): a returned `x` satisfies `A X = B` exactly. -/
theorem solve_sound (a b x : QMat) (h : solve a b = some x) :
    a.cols = a.rows ∧ b.rows = a.rows ∧ x.rows = a.rows ∧ x.cols = b.cols ∧ x.wellShaped = true ∧
      a.toMat a.rows a.rows * x.toMat a.rows b.cols = b.toMat a.rows b.cols := by
  obtain ⟨_, _, h3, h4, h5⟩ := solve_dims a b x h
  obtain ⟨hsq, hbr, d, hd, hx⟩ := solve_some a b x h
  refine ⟨hsq, hbr, h3, h4, h5, ?_⟩
  obtain ⟨_, huc, hnull⟩ := gjPrefix_inv a.rows (a.cols + b.cols) (by omega) _ (shaped_hstack a b) a.rows
    (Nat.le_refl _) d hd
  ext i l
  rw [Matrix.mul_apply]
  simp only [toMat_apply]
  -- the vector `(X e_l ; −e_l)` is annihilated by `[I | X]`, hence by `[A | B]`
  let y : Nat → Rat := fun j => if j < a.rows then ent d j (a.rows + l) else if j = a.rows + l then -1 else 0
  have hy : Null a.rows (a.cols + b.cols) (ent d) y := by
    intro r hr
    rw [hsq]
    rw [dot_special a.rows b.cols (ent d) (fun j => ent d j (a.rows + l)) r l l.isLt,
      sum_UC a.rows a.rows (ent d) huc r hr, if_pos hr]
    ring
  have h0 := (hnull y).1 hy i i.isLt
  rw [hsq, dot_special a.rows b.cols _ (fun j => ent d j (a.rows + l)) i l l.isLt] at h0
  rw [Fin.sum_univ_eq_sum_range (fun k => a.get i k * x.get k l) a.rows]
  have e1 : ∑ j ∈ Finset.range a.rows, ent (hstack a b).data i j * ent d j (a.rows + l)
      = ∑ k ∈ Finset.range a.rows, a.get i k * x.get k l := by
    refine Finset.sum_congr rfl (fun k hk => ?_)
    have hk' := Finset.mem_range.1 hk
    rw [ent_hstack a b i k i.isLt (by omega), if_pos (by omega), hx k l hk' l.isLt]
  have e2 : ent (hstack a b).data i (a.rows + l) = b.get i l := by
    rw [ent_hstack a b i _ i.isLt (by omega), if_neg (by omega), hsq, Nat.add_sub_cancel_left]
  rw [e1, e2] at h0
  exact sub_eq_zero.1 h0

/-- the system vector restricted to the left block: for `y` vanishing from `n` on, `[A | B] y = A y` -/
theorem null_hstack_left (a b : QMat) (hsq : a.cols = a.rows) (y : Nat → Rat) (hy : ∀ j, a.rows ≤ j → y j = 0) :
    Null a.rows (a.cols + b.cols) (ent (hstack a b).data) y ↔
      a.toMat a.rows a.rows *ᵥ (fun j : Fin a.rows => y j) = 0 := by
  have hrow : ∀ i : Fin a.rows, dotRow (a.cols + b.cols) (ent (hstack a b).data) i y
      = (a.toMat a.rows a.rows *ᵥ (fun j : Fin a.rows => y j)) i := by
    intro i
    rw [dotRow_left a.rows _ (by omega) _ _ _ hy]
    simp only [Matrix.mulVec, dotProduct, toMat_apply]
    rw [Fin.sum_univ_eq_sum_range (fun k => a.get i k * y k) a.rows]
    refine Finset.sum_congr rfl (fun k hk => ?_)
    rw [ent_hstack a b i k i.isLt (by have := Finset.mem_range.1 hk; omega),
      if_pos (by have := Finset.mem_range.1 hk; omega)]
  constructor
  · intro h
    funext i
    rw [← hrow i]
    exact h i i.isLt
  · intro h i hi
    rw [hrow ⟨i, hi⟩, h]
    rfl

/-- **a returned answer certifies non-singularity**: `solve` answers only for non-singular `A` -/
theorem solve_isUnit_det (a b x : QMat) (h : solve a b = some x) : IsUnit (a.toMat a.rows a.rows).det := by
  obtain ⟨hsq, _, d, hd, _⟩ := solve_some a b x h
  obtain ⟨_, huc, hnull⟩ := gjPrefix_inv a.rows (a.cols + b.cols) (by omega) _ (shaped_hstack a b) a.rows
    (Nat.le_refl _) d hd
  rw [← Matrix.isUnit_iff_isUnit_det, ← Matrix.mulVec_injective_iff_isUnit]
  have hker : ∀ v : Fin a.rows → ℚ, a.toMat a.rows a.rows *ᵥ v = 0 → v = 0 := by
    intro v hv
    let y : Nat → Rat := fun j => if hj : j < a.rows then v ⟨j, hj⟩ else 0
    have hyv : (fun j : Fin a.rows => y j) = v := by
      funext j
      show (if hj : (j : Nat) < a.rows then v ⟨j, hj⟩ else 0) = v j
      rw [dif_pos j.isLt]
    have hy0 : ∀ j, a.rows ≤ j → y j = 0 := by
      intro j hj
      show (if hj : j < a.rows then v ⟨j, hj⟩ else 0) = 0
      rw [dif_neg (by omega)]
    have hn0 : Null a.rows (a.cols + b.cols) (ent (hstack a b).data) y := by
      rw [null_hstack_left a b hsq y hy0, hyv]; exact hv
    have hn1 := (hnull y).2 hn0
    funext i
    have := hn1 i i.isLt
    rw [dotRow_left a.rows _ (by omega) _ _ _ hy0, sum_UC a.rows a.rows (ent d) huc i i.isLt, if_pos i.isLt] at this
    rw [← hyv]
    exact this
  intro v w hvw
  have := hker (v - w) (by rw [Matrix.mulVec_sub, hvw, sub_self])
  exact sub_eq_zero.1 this

/-- **Completeness of the executable `QMat.solve`**: for a square non-singular `A` and a right-hand side with as many
rows, `solve` returns an answer -- and it is `A⁻¹ B`. -/
theorem solve_complete (a b : QMat) (hsq : a.cols = a.rows) (hbr : b.rows = a.rows)
    (hdet : IsUnit (a.toMat a.rows a.rows).det) :
    ∃ x, solve a b = some x ∧ x.toMat a.rows b.cols = (a.toMat a.rows a.rows)⁻¹ * b.toMat a.rows b.cols := by
  have hns : ∀ y : Nat → Rat, (∀ j, a.rows ≤ j → y j = 0) →
      Null a.rows (a.cols + b.cols) (ent (hstack a b).data) y → ∀ j, j < a.rows → y j = 0 := by
    intro y hy0 hn j hj
    have hv := (null_hstack_left a b hsq y hy0).1 hn
    have := congrArg (fun u => (a.toMat a.rows a.rows)⁻¹ *ᵥ u) hv
    simp only [Matrix.mulVec_mulVec, Matrix.nonsing_inv_mul _ hdet, Matrix.one_mulVec, Matrix.mulVec_zero] at this
    exact congrFun this ⟨j, hj⟩
  obtain ⟨d, hd⟩ := gjPrefix_progress a.rows (a.cols + b.cols) (by omega) _ (shaped_hstack a b) hns a.rows
    (Nat.le_refl _)
  have hsolve : solve a b = some (block ⟨a.rows, a.cols + b.cols, d⟩ 0 a.rows a.cols (a.cols + b.cols)) := by
    rw [solve_eq_solve']
    unfold solve'
    rw [if_neg (by simp [hsq, hbr]), gaussJordan'_eq, hd]
  refine ⟨_, hsolve, ?_⟩
  have h6 := (solve_sound a b _ hsolve).2.2.2.2.2
  rw [← h6, ← Matrix.mul_assoc, Matrix.nonsing_inv_mul _ hdet, Matrix.one_mul]

/-- **exact characterisation**: `solve` answers iff the shapes fit and `A` is non-singular;
`none` (the models' `err:singular`) means exactly "not square / wrong right-hand side / singular" -/
theorem solve_isSome_iff (a b : QMat) :
    (solve a b).isSome = true ↔ a.cols = a.rows ∧ b.rows = a.rows ∧ IsUnit (a.toMat a.rows a.rows).det := by
  constructor
  · intro h
    obtain ⟨x, hx⟩ := Option.isSome_iff_exists.1 h
    obtain ⟨h1, h2, _⟩ := solve_some a b x hx
    exact ⟨h1, h2, solve_isUnit_det a b x hx⟩
  · rintro ⟨h1, h2, h3⟩
    obtain ⟨x, hx, _⟩ := solve_complete a b h1 h2 h3
    rw [hx]; rfl

theorem solve_eq_none_iff (a b : QMat) (hsq : a.cols = a.rows) (hbr : b.rows = a.rows) :
    solve a b = none ↔ (a.toMat a.rows a.rows).det = 0 := by
  rw [← Option.not_isSome_iff_eq_none, solve_isSome_iff]
  simp [hsq, hbr, isUnit_iff_ne_zero]

/-- the exact re-check of `solveChecked` never fails: **`solveChecked` is `solve`** -/
theorem solveChecked_eq_solve (a b : QMat) : solveChecked a b = solve a b := by
  unfold solveChecked
  cases h : solve a b with
  | none => rfl
  | some x =>
    obtain ⟨h1, h2, h3, h4, _, h6⟩ := solve_sound a b x h
    have : eqv (a * x) b = true := by
      rw [eqv_iff_get]
      refine ⟨h2.symm, h4, fun i j hi hj => ?_⟩
      have hj' : j < b.cols := by rw [← h4]; exact hj
      have := congrFun (congrFun h6 ⟨i, hi⟩) ⟨j, hj'⟩
      rw [Matrix.mul_apply] at this
      simp only [toMat_apply] at this
      rw [get_mul, if_pos ⟨hi, hj⟩, h1, ← this, Fin.sum_univ_eq_sum_range (fun k => a.get i k * x.get k j) a.rows]
    simp [this]

theorem solveChecked_complete (a b : QMat) (hsq : a.cols = a.rows) (hbr : b.rows = a.rows)
    (hdet : IsUnit (a.toMat a.rows a.rows).det) :
    ∃ x, solveChecked a b = some x ∧
      x.toMat a.rows b.cols = (a.toMat a.rows a.rows)⁻¹ * b.toMat a.rows b.cols := by
  rw [solveChecked_eq_solve]; exact solve_complete a b hsq hbr hdet

theorem solveChecked_isSome_iff (a b : QMat) :
    (solveChecked a b).isSome = true ↔ a.cols = a.rows ∧ b.rows = a.rows ∧ IsUnit (a.toMat a.rows a.rows).det := by
  rw [solveChecked_eq_solve]; exact solve_isSome_iff a b

theorem inverse_complete (a : QMat) (hsq : a.cols = a.rows) (hdet : IsUnit (a.toMat a.rows a.rows).det) :
    ∃ x, inverse a = some x ∧ x.toMat a.rows a.rows = (a.toMat a.rows a.rows)⁻¹ := by
  unfold inverse
  obtain ⟨x, hx, he⟩ := solveChecked_complete a (identity a.rows) hsq rfl hdet
  refine ⟨x, hx, ?_⟩
  rw [identity_cols, toMat_identity, Matrix.mul_one] at he
  exact he

theorem inverse_isSome_iff (a : QMat) :
    (inverse a).isSome = true ↔ a.cols = a.rows ∧ IsUnit (a.toMat a.rows a.rows).det := by
  unfold inverse
  rw [solveChecked_isSome_iff]
  simp

/-! ## non-vacuity -/

example : (solve (ofRows [[2, 1], [1, 3]]) (ofRows [[1, 0, 4], [2, 5, 0]])).isSome = true := by decide +kernel
-- a 3 × 3 system needing a row swap: the answer is `(-1, -1, 1)`
example : (solve (ofRows [[0, 1, 2], [1, 0, 3], [4, -3, 8]]) (ofRows [[1], [2], [7]])).map
    (fun x => decide (x.get 0 0 = -1 ∧ x.get 1 0 = -1 ∧ x.get 2 0 = 1)) = some true := by decide +kernel
example : (solve (ofRows [[1, 2], [2, 4]]) (ofRows [[1], [2]])).isSome = false := by decide +kernel   -- singular
example : IsUnit ((ofRows [[2, 1], [1, 3]]).toMat 2 2).det := by
  rw [isUnit_iff_ne_zero, Matrix.det_fin_two]
  simp only [toMat_apply]
  decide +kernel

end IrisVerif.QMat
