/-
Character-level lemmas for the SDMX / ISO string round trips (C11).
-/
import IrisVerif.Model.DateFormats

set_option linter.unusedSimpArgs false

namespace IrisVerif.Dates
open IrisVerif.Gen.Dates

theorem digit_facts : ∀ d : Nat, d < 10 →
    isDigit (digitChar d) = true ∧ digitVal (digitChar d) = d ∧ isBlank (digitChar d) = false ∧
    (digitChar d == '-') = false ∧ (digitChar d == '(') = false ∧ (digitChar d == ')') = false ∧
    (digitChar d == '+') = false ∧ (digitChar d == 'H') = false ∧ (digitChar d == 'Q') = false := by
  decide

/-- the generated patterns of `SDMX_REXP_FORMATS`, compiled by the model's regex reader. The left-hand side is
computed from the generated table, so a changed pattern in dates.py breaks this lemma and everything below it. -/
theorem compiled_formats :
    sdmxFormats.map (fun (v, l, p) => (v, l, compileRe (p.length + 1) p.toList)) =
    [ (1, some 4, some [(.digit, .one), (.digit, .one), (.digit, .one), (.digit, .one)]),
      (2, some 7, some [(.digit, .one), (.digit, .one), (.digit, .one), (.digit, .one), (.lit '-', .one), (.lit 'H', .one), (.digit, .one)]),
      (4, some 7, some [(.digit, .one), (.digit, .one), (.digit, .one), (.digit, .one), (.lit '-', .one), (.lit 'Q', .one), (.digit, .one)]),
      (12, some 7, some [(.digit, .one), (.digit, .one), (.digit, .one), (.digit, .one), (.lit '-', .one), (.digit, .one), (.digit, .one)]),
      (52, some 8, some [(.digit, .one), (.digit, .one), (.digit, .one), (.digit, .one), (.lit '-', .one), (.lit 'W', .one), (.digit, .one), (.digit, .one)]),
      (365, some 10, some [(.digit, .one), (.digit, .one), (.digit, .one), (.digit, .one), (.lit '-', .one), (.digit, .one), (.digit, .one), (.lit '-', .one), (.digit, .one), (.digit, .one)]),
      (0, none, some [(.lit '(', .one), (.cls ['-', '+'], .opt), (.digit, .plus), (.lit ')', .one)]) ] := by
  decide

/-- a character that is the decimal digit `d` -/
structure IsDig (c : Char) (d : Nat) : Prop where
  eq : c = digitChar d
  lt : d < 10

theorem IsDig.facts {c : Char} {d : Nat} (h : IsDig c d) :
    isDigit c = true ∧ digitVal c = d ∧ isBlank c = false ∧ (c == '-') = false ∧ (c == '(') = false ∧
    (c == ')') = false ∧ (c == '+') = false ∧ (c == 'H') = false ∧ (c == 'Q') = false := by
  rw [h.eq]; exact digit_facts d h.lt

theorem isDig_mk (d : Nat) (h : d < 10) : IsDig (digitChar d) d := ⟨rfl, h⟩

theorem parseNat4 (a b c d : Char) (na nb nc nd : Nat) (ha : IsDig a na) (hb : IsDig b nb) (hc : IsDig c nc) (hd : IsDig d nd) :
    parseNat [a, b, c, d] = some (((na * 10 + nb) * 10 + nc) * 10 + nd) := by
  obtain ⟨a1, a2, _⟩ := ha.facts; obtain ⟨b1, b2, _⟩ := hb.facts
  obtain ⟨c1, c2, _⟩ := hc.facts; obtain ⟨d1, d2, _⟩ := hd.facts
  simp [parseNat, parseStep, a1, a2, b1, b2, c1, c2, d1, d2]

theorem parseNat2 (a b : Char) (na nb : Nat) (ha : IsDig a na) (hb : IsDig b nb) :
    parseNat [a, b] = some (na * 10 + nb) := by
  obtain ⟨a1, a2, _⟩ := ha.facts; obtain ⟨b1, b2, _⟩ := hb.facts
  simp [parseNat, parseStep, a1, a2, b1, b2]

theorem parseNat1 (a : Char) (na : Nat) (ha : IsDig a na) : parseNat [a] = some na := by
  obtain ⟨a1, a2, _⟩ := ha.facts
  simp [parseNat, parseStep, a1, a2]

theorem parseInt_of_digit_head (a : Char) (na : Nat) (ha : IsDig a na) (rest : Str) :
    parseInt (a :: rest) = (parseNat (a :: rest)).map (fun n => (n : Int)) := by
  obtain ⟨_, _, _, h1, _, _, h2, _⟩ := ha.facts
  have e1 : a ≠ '-' := by intro h; simp [h] at h1
  have e2 : a ≠ '+' := by intro h; simp [h] at h2
  unfold parseInt
  split
  · rename_i heq; injection heq with h _; exact absurd h e1
  · rename_i heq; injection heq with h _; exact absurd h e2
  · rfl

theorem pad4_digits (y : Nat) (h : y < 10000) :
    IsDig (digitChar (y / 1000 % 10)) (y / 1000 % 10) ∧ IsDig (digitChar (y / 100 % 10)) (y / 100 % 10) ∧
    IsDig (digitChar (y / 10 % 10)) (y / 10 % 10) ∧ IsDig (digitChar (y % 10)) (y % 10) ∧
    (((y / 1000 % 10) * 10 + y / 100 % 10) * 10 + y / 10 % 10) * 10 + y % 10 = y := by
  refine ⟨isDig_mk _ (by omega), isDig_mk _ (by omega), isDig_mk _ (by omega), isDig_mk _ (by omega), by omega⟩

theorem pad2_digits (m : Nat) (h : m < 100) :
    IsDig (digitChar (m / 10 % 10)) (m / 10 % 10) ∧ IsDig (digitChar (m % 10)) (m % 10) ∧ (m / 10 % 10) * 10 + m % 10 = m := by
  refine ⟨isDig_mk _ (by omega), isDig_mk _ (by omega), by omega⟩

def detectCompiled : List (Int × Option Nat × Option (List (Atom × Quant))) → Str → R (Option Freq)
  | [], _ => throw .badInput
  | (_, _, none) :: _, _ => throw .badInput
  | (v, len, some items) :: rest, s =>
    if (match len with | none => true | some n => s.length == n) && matchItems items s then pure (freqOfValue? v)
    else detectCompiled rest s

theorem detectFreqIn_eq (tbl : List (Int × Option Nat × String)) (s : Str) :
    detectFreqIn tbl s = detectCompiled (tbl.map (fun (v, l, p) => (v, l, compileRe (p.length + 1) p.toList))) s := by
  induction tbl with
  | nil => rfl
  | cons row rest ih =>
    obtain ⟨v, len, pat⟩ := row
    simp only [detectFreqIn, List.map_cons, fullmatch]
    cases h : compileRe (pat.length + 1) pat.toList with
    | none => simp [detectCompiled]
    | some items => simp [detectCompiled, ih]; rfl

theorem detectFreq_eq (s : Str) :
    detectFreq s = detectCompiled
    [ (1, some 4, some [(.digit, .one), (.digit, .one), (.digit, .one), (.digit, .one)]),
      (2, some 7, some [(.digit, .one), (.digit, .one), (.digit, .one), (.digit, .one), (.lit '-', .one), (.lit 'H', .one), (.digit, .one)]),
      (4, some 7, some [(.digit, .one), (.digit, .one), (.digit, .one), (.digit, .one), (.lit '-', .one), (.lit 'Q', .one), (.digit, .one)]),
      (12, some 7, some [(.digit, .one), (.digit, .one), (.digit, .one), (.digit, .one), (.lit '-', .one), (.digit, .one), (.digit, .one)]),
      (52, some 8, some [(.digit, .one), (.digit, .one), (.digit, .one), (.digit, .one), (.lit '-', .one), (.lit 'W', .one), (.digit, .one), (.digit, .one)]),
      (365, some 10, some [(.digit, .one), (.digit, .one), (.digit, .one), (.digit, .one), (.lit '-', .one), (.digit, .one), (.digit, .one), (.lit '-', .one), (.digit, .one), (.digit, .one)]),
      (0, none, some [(.lit '(', .one), (.cls ['-', '+'], .opt), (.digit, .plus), (.lit ')', .one)]) ] (strip s) := by
  unfold detectFreq
  rw [detectFreqIn_eq, compiled_formats]

theorem strip_of_nonblank_ends (a : Char) (mid : Str) (e : Char) (ha : isBlank a = false) (he : isBlank e = false) :
    strip (a :: (mid ++ [e])) = a :: (mid ++ [e]) := by
  unfold strip
  simp [List.dropWhile, ha, he]

/-- the Q string shape -/
theorem sdmx_Q_shape (a b c d e : Char) (na nb nc nd ne : Nat)
    (ha : IsDig a na) (hb : IsDig b nb) (hc : IsDig c nc) (hd : IsDig d nd) (he : IsDig e ne) :
    fromSdmx [a, b, c, d, '-', 'Q', e] =
      .ok (fromYearSegment .Q ((((na * 10 + nb) * 10 + nc) * 10 + nd : Nat) : Int) (ne : Int)) := by
  obtain ⟨a1, a2, a3, a4, a5, a6, a7, a8, a9⟩ := ha.facts
  obtain ⟨b1, b2, b3, b4, b5, b6, b7, b8, b9⟩ := hb.facts
  obtain ⟨c1, c2, c3, c4, c5, c6, c7, c8, c9⟩ := hc.facts
  obtain ⟨d1, d2, d3, d4, d5, d6, d7, d8, d9⟩ := hd.facts
  obtain ⟨e1, e2, e3, e4, e5, e6, e7, e8, e9⟩ := he.facts
  have hstrip : strip [a, b, c, d, '-', 'Q', e] = [a, b, c, d, '-', 'Q', e] :=
    strip_of_nonblank_ends a [b, c, d, '-', 'Q'] e a3 e3
  have hdet : detectFreq [a, b, c, d, '-', 'Q', e] = .ok (some .Q) := by
    rw [detectFreq_eq, hstrip]
    simp [detectCompiled, matchItems, Atom.accepts, a1, b1, c1, d1, e1, freqOfValue?, freqInteger, freqYearly,
      freqHalfyearly, freqQuarterly, freqMonthly, freqDaily, pure, Except.pure]
  have hsplit : split2 '-' 'Q' [a, b, c, d, '-', 'Q', e] [] = [[a, b, c, d], [e]] := by
    simp [split2, a4, b4, c4, d4, e4]
  simp only [fromSdmx, hdet, bind, Except.bind, fromSdmxAs, hstrip, hsplit]
  rw [parseInt_of_digit_head a na ha, parseInt_of_digit_head e ne he, parseNat4 a b c d na nb nc nd ha hb hc hd,
    parseNat1 e ne he]
  rfl

theorem sdmx_H_shape (a b c d e : Char) (na nb nc nd ne : Nat)
    (ha : IsDig a na) (hb : IsDig b nb) (hc : IsDig c nc) (hd : IsDig d nd) (he : IsDig e ne) :
    fromSdmx [a, b, c, d, '-', 'H', e] =
      .ok (fromYearSegment .H ((((na * 10 + nb) * 10 + nc) * 10 + nd : Nat) : Int) (ne : Int)) := by
  obtain ⟨a1, a2, a3, a4, a5, a6, a7, a8, a9⟩ := ha.facts
  obtain ⟨b1, b2, b3, b4, b5, b6, b7, b8, b9⟩ := hb.facts
  obtain ⟨c1, c2, c3, c4, c5, c6, c7, c8, c9⟩ := hc.facts
  obtain ⟨d1, d2, d3, d4, d5, d6, d7, d8, d9⟩ := hd.facts
  obtain ⟨e1, e2, e3, e4, e5, e6, e7, e8, e9⟩ := he.facts
  have hstrip : strip [a, b, c, d, '-', 'H', e] = [a, b, c, d, '-', 'H', e] :=
    strip_of_nonblank_ends a [b, c, d, '-', 'H'] e a3 e3
  have hdet : detectFreq [a, b, c, d, '-', 'H', e] = .ok (some .H) := by
    rw [detectFreq_eq, hstrip]
    simp [detectCompiled, matchItems, Atom.accepts, a1, b1, c1, d1, e1, freqOfValue?, freqInteger, freqYearly,
      freqHalfyearly, freqQuarterly, freqMonthly, freqDaily, pure, Except.pure]
  have hsplit : split2 '-' 'H' [a, b, c, d, '-', 'H', e] [] = [[a, b, c, d], [e]] := by
    simp [split2, a4, b4, c4, d4, e4]
  simp only [fromSdmx, hdet, bind, Except.bind, fromSdmxAs, hstrip, hsplit]
  rw [parseInt_of_digit_head a na ha, parseInt_of_digit_head e ne he, parseNat4 a b c d na nb nc nd ha hb hc hd,
    parseNat1 e ne he]
  rfl

theorem sdmx_Y_shape (a b c d : Char) (na nb nc nd : Nat)
    (ha : IsDig a na) (hb : IsDig b nb) (hc : IsDig c nc) (hd : IsDig d nd) :
    fromSdmx [a, b, c, d] = .ok ⟨.Y, ((((na * 10 + nb) * 10 + nc) * 10 + nd : Nat) : Int)⟩ := by
  obtain ⟨a1, a2, a3, a4, a5, a6, a7, a8, a9⟩ := ha.facts
  obtain ⟨b1, b2, b3, b4, b5, b6, b7, b8, b9⟩ := hb.facts
  obtain ⟨c1, c2, c3, c4, c5, c6, c7, c8, c9⟩ := hc.facts
  obtain ⟨d1, d2, d3, d4, d5, d6, d7, d8, d9⟩ := hd.facts
  have hstrip : strip [a, b, c, d] = [a, b, c, d] := strip_of_nonblank_ends a [b, c] d a3 d3
  have hdet : detectFreq [a, b, c, d] = .ok (some .Y) := by
    rw [detectFreq_eq, hstrip]
    simp [detectCompiled, matchItems, Atom.accepts, a1, b1, c1, d1, freqOfValue?, freqInteger, freqYearly,
      freqHalfyearly, freqQuarterly, freqMonthly, freqDaily, pure, Except.pure]
  simp only [fromSdmx, hdet, bind, Except.bind, fromSdmxAs, hstrip]
  rw [parseInt_of_digit_head a na ha, parseNat4 a b c d na nb nc nd ha hb hc hd]
  rfl

theorem sdmx_M_shape (a b c d e g : Char) (na nb nc nd ne ng : Nat)
    (ha : IsDig a na) (hb : IsDig b nb) (hc : IsDig c nc) (hd : IsDig d nd) (he : IsDig e ne) (hg : IsDig g ng) :
    fromSdmx [a, b, c, d, '-', e, g] =
      .ok (fromYearSegment .M ((((na * 10 + nb) * 10 + nc) * 10 + nd : Nat) : Int) ((ne * 10 + ng : Nat) : Int)) := by
  obtain ⟨a1, a2, a3, a4, a5, a6, a7, a8, a9⟩ := ha.facts
  obtain ⟨b1, b2, b3, b4, b5, b6, b7, b8, b9⟩ := hb.facts
  obtain ⟨c1, c2, c3, c4, c5, c6, c7, c8, c9⟩ := hc.facts
  obtain ⟨d1, d2, d3, d4, d5, d6, d7, d8, d9⟩ := hd.facts
  obtain ⟨e1, e2, e3, e4, e5, e6, e7, e8, e9⟩ := he.facts
  obtain ⟨g1, g2, g3, g4, g5, g6, g7, g8, g9⟩ := hg.facts
  have hstrip : strip [a, b, c, d, '-', e, g] = [a, b, c, d, '-', e, g] :=
    strip_of_nonblank_ends a [b, c, d, '-', e] g a3 g3
  have hdet : detectFreq [a, b, c, d, '-', e, g] = .ok (some .M) := by
    rw [detectFreq_eq, hstrip]
    simp [detectCompiled, matchItems, Atom.accepts, a1, b1, c1, d1, e1, g1, e8, e9, freqOfValue?, freqInteger, freqYearly,
      freqHalfyearly, freqQuarterly, freqMonthly, freqDaily, pure, Except.pure, BEq.comm (a := 'H'), BEq.comm (a := 'Q')]
  have hsplit : split1 '-' [a, b, c, d, '-', e, g] [] = [[a, b, c, d], [e, g]] := by
    simp [split1, a4, b4, c4, d4, e4, g4]
  simp only [fromSdmx, hdet, bind, Except.bind, fromSdmxAs, hstrip, hsplit]
  rw [parseInt_of_digit_head a na ha, parseInt_of_digit_head e ne he, parseNat4 a b c d na nb nc nd ha hb hc hd,
    parseNat2 e g ne ng he hg]
  rfl

/-- a ten-character `dddd-dd-dd` string is detected as daily and split into its three numbers
(the same shape serves the ISO strings) -/
theorem ymd_string_shape (a b c d e g i j : Char) (na nb nc nd ne ng ni nj : Nat)
    (ha : IsDig a na) (hb : IsDig b nb) (hc : IsDig c nc) (hd : IsDig d nd) (he : IsDig e ne) (hg : IsDig g ng)
    (hi : IsDig i ni) (hj : IsDig j nj) :
    detectFreq [a, b, c, d, '-', e, g, '-', i, j] = .ok (some .D) ∧
    (∀ f, fromIso f [a, b, c, d, '-', e, g, '-', i, j] =
      fromYmd f ((((na * 10 + nb) * 10 + nc) * 10 + nd : Nat) : Int) ((ne * 10 + ng : Nat) : Int) ((ni * 10 + nj : Nat) : Int)) ∧
    fromSdmxAs .D [a, b, c, d, '-', e, g, '-', i, j] =
      fromYmd .D ((((na * 10 + nb) * 10 + nc) * 10 + nd : Nat) : Int) ((ne * 10 + ng : Nat) : Int) ((ni * 10 + nj : Nat) : Int) := by
  obtain ⟨a1, a2, a3, a4, a5, a6, a7, a8, a9⟩ := ha.facts
  obtain ⟨b1, b2, b3, b4, b5, b6, b7, b8, b9⟩ := hb.facts
  obtain ⟨c1, c2, c3, c4, c5, c6, c7, c8, c9⟩ := hc.facts
  obtain ⟨d1, d2, d3, d4, d5, d6, d7, d8, d9⟩ := hd.facts
  obtain ⟨e1, e2, e3, e4, e5, e6, e7, e8, e9⟩ := he.facts
  obtain ⟨g1, g2, g3, g4, g5, g6, g7, g8, g9⟩ := hg.facts
  obtain ⟨i1, i2, i3, i4, i5, i6, i7, i8, i9⟩ := hi.facts
  obtain ⟨j1, j2, j3, j4, j5, j6, j7, j8, j9⟩ := hj.facts
  have hstrip : strip [a, b, c, d, '-', e, g, '-', i, j] = [a, b, c, d, '-', e, g, '-', i, j] :=
    strip_of_nonblank_ends a [b, c, d, '-', e, g, '-', i] j a3 j3
  have hsplit : split1 '-' [a, b, c, d, '-', e, g, '-', i, j] [] = [[a, b, c, d], [e, g], [i, j]] := by
    simp [split1, a4, b4, c4, d4, e4, g4, i4, j4]
  have s4 : strip [a, b, c, d] = [a, b, c, d] := strip_of_nonblank_ends a [b, c] d a3 d3
  have s2 : strip [e, g] = [e, g] := strip_of_nonblank_ends e [] g e3 g3
  have s2' : strip [i, j] = [i, j] := strip_of_nonblank_ends i [] j i3 j3
  have p4 : parseInt [a, b, c, d] = some ((((na * 10 + nb) * 10 + nc) * 10 + nd : Nat) : Int) := by
    rw [parseInt_of_digit_head a na ha, parseNat4 a b c d na nb nc nd ha hb hc hd]; rfl
  have p2 : parseInt [e, g] = some ((ne * 10 + ng : Nat) : Int) := by
    rw [parseInt_of_digit_head e ne he, parseNat2 e g ne ng he hg]; rfl
  have p2' : parseInt [i, j] = some ((ni * 10 + nj : Nat) : Int) := by
    rw [parseInt_of_digit_head i ni hi, parseNat2 i j ni nj hi hj]; rfl
  refine ⟨?_, ?_, ?_⟩
  · rw [detectFreq_eq, hstrip]
    simp [detectCompiled, matchItems, Atom.accepts, a1, b1, c1, d1, e1, g1, i1, j1, freqOfValue?, freqInteger, freqYearly,
      freqHalfyearly, freqQuarterly, freqMonthly, freqDaily, pure, Except.pure]
  · intro f
    simp only [fromIso, hsplit, s4, s2, s2', p4, p2, p2', needSome, bind, Except.bind, pure, Except.pure]
  · simp only [fromSdmxAs, hsplit, s4, s2, s2', p4, p2, p2', needSome, bind, Except.bind, pure, Except.pure]


/-! ### `int(str(n)) = n`: the digit list of a natural number reads back as that number -/

def valOf (s : Str) : Nat := s.foldl (fun a c => a * 10 + digitVal c) 0

theorem foldl_val (s : Str) (a : Nat) :
    s.foldl (fun a c => a * 10 + digitVal c) a = a * 10 ^ s.length + valOf s := by
  induction s generalizing a with
  | nil => simp [valOf]
  | cons c cs ih =>
    simp only [List.foldl_cons, List.length_cons, valOf]
    rw [ih, ih (0 * 10 + digitVal c)]
    simp only [Nat.zero_mul, Nat.zero_add, Nat.pow_succ]
    rw [Nat.add_mul, Nat.mul_assoc, Nat.mul_comm 10, Nat.add_assoc]

theorem parseNat_of_digits (s : Str) (hne : s ≠ []) (hd : ∀ c ∈ s, isDigit c = true) :
    parseNat s = some (valOf s) := by
  have key : ∀ (t : Str) (a : Nat), (∀ c ∈ t, isDigit c = true) →
      t.foldl parseStep (some a) = some (t.foldl (fun a c => a * 10 + digitVal c) a) := by
    intro t
    induction t with
    | nil => intro a _; rfl
    | cons c cs ih =>
      intro a h
      have hc : isDigit c = true := h c (by simp)
      simp only [List.foldl_cons, parseStep, hc, if_true]
      exact ih _ (fun x hx => h x (by simp [hx]))
  unfold parseNat
  have : s.isEmpty = false := by cases s <;> simp_all
  simp only [this, Bool.false_eq_true, if_false]
  rw [key s 0 hd]; rfl

theorem digitsFuel_spec (fuel n : Nat) (acc : Str) (h : n ≤ fuel) (hacc : ∀ c ∈ acc, isDigit c = true) :
    (∀ c ∈ digitsFuel fuel n acc, isDigit c = true) ∧ digitsFuel fuel n acc ≠ [] ∧
    valOf (digitsFuel fuel n acc) = n * 10 ^ acc.length + valOf acc ∧
    (digitsFuel fuel n acc).length ≥ acc.length + 1 := by
  induction fuel generalizing n acc with
  | zero =>
    have hn : n = 0 := by omega
    subst hn
    have d0 := (digit_facts 0 (by omega))
    refine ⟨?_, by simp [digitsFuel], ?_, by simp [digitsFuel]⟩
    · intro c hc; simp [digitsFuel] at hc; rcases hc with rfl | hc
      · exact d0.1
      · exact hacc c hc
    · simp only [digitsFuel, valOf, List.foldl_cons, Nat.zero_mul, Nat.zero_add, Nat.zero_mod]
      rw [foldl_val, d0.2.1]; simp [valOf]
  | succ fuel ih =>
    unfold digitsFuel
    split
    · rename_i hlt
      have dn := digit_facts n hlt
      refine ⟨?_, by simp, ?_, by simp⟩
      · intro c hc; simp at hc; rcases hc with rfl | hc
        · exact dn.1
        · exact hacc c hc
      · simp only [valOf, List.foldl_cons, Nat.zero_mul, Nat.zero_add]
        rw [foldl_val, dn.2.1]; simp [valOf]
    · rename_i hge
      have dm := digit_facts (n % 10) (by omega)
      have hacc' : ∀ c ∈ digitChar (n % 10) :: acc, isDigit c = true := by
        intro c hc; simp at hc; rcases hc with rfl | hc
        · exact dm.1
        · exact hacc c hc
      obtain ⟨h1, h2, h3, h4⟩ := ih (n / 10) (digitChar (n % 10) :: acc) (by omega) hacc'
      refine ⟨h1, h2, ?_, by simp at h4; omega⟩
      rw [h3]
      simp only [List.length_cons, valOf, List.foldl_cons, Nat.zero_mul, Nat.zero_add]
      rw [foldl_val, dm.2.1]
      simp only [valOf, Nat.pow_succ]
      have : n = n / 10 * 10 + n % 10 := by omega
      generalize 10 ^ acc.length = P at *
      generalize List.foldl (fun a c => a * 10 + digitVal c) 0 acc = V at *
      rw [← Nat.mul_assoc, Nat.mul_comm (n / 10) P]
      calc P * (n / 10) * 10 + (n % 10 * P + V)
          = P * (n / 10 * 10 + n % 10) + V := by
            rw [Nat.mul_add, Nat.mul_assoc, Nat.mul_comm (n % 10) P, Nat.add_assoc]
        _ = n * P + V := by rw [← this, Nat.mul_comm]

/-- the digit string of `n` is a non-empty digit string whose value is `n` -/
theorem natDigits_spec (n : Nat) :
    (∀ c ∈ natDigits n, isDigit c = true) ∧ natDigits n ≠ [] ∧ parseNat (natDigits n) = some n := by
  obtain ⟨h1, h2, h3, _⟩ := digitsFuel_spec n n [] (Nat.le_refl n) (by simp)
  refine ⟨h1, h2, ?_⟩
  rw [natDigits, parseNat_of_digits _ h2 h1, h3]; simp [valOf]

end IrisVerif.Dates
