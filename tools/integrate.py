#!/usr/bin/env python3
"""integrate.py Cxx [Cyy ...]: claim the properties in tools/mkmanifest.py, import their Props/Driver modules in
lean/IrisVerif.lean, regenerate MANIFEST.json and validate manifest + evidence."""
import sys, os, re, json, subprocess
HERE = os.path.dirname(os.path.dirname(os.path.abspath(__file__)))
ids = sys.argv[1:]
p = os.path.join(HERE, "tools", "mkmanifest.py")
s = open(p).read()
m = re.search(r"CLAIMED = \[(.*?)\]", s)
cur = [x.strip().strip('"') for x in m.group(1).split(",") if x.strip()]
for i in ids:
    if i not in cur:
        cur.append(i)
cur.sort()
s = s[:m.start()] + "CLAIMED = [" + ", ".join(f'"{x}"' for x in cur) + "]" + s[m.end():]
open(p, "w").write(s)
root = os.path.join(HERE, "lean", "IrisVerif.lean")
r = open(root).read()
for i in ids:
    src = open(os.path.join(HERE, "harness", i.lower() + ".py")).read()
    dm = re.search(r"DRIVERS\s*=\s*\[(.*?)\]", src)
    drivers = [x.strip().strip('"').strip("'") for x in dm.group(1).split(",") if x.strip()] if dm else [i]
    # drivers each define `main`, so they cannot be imported together: they are separate targets of setup_cmd
    for line in [f"import IrisVerif.Props.{i}"]:
        if line not in r:
            r += line + "\n"
open(root, "w").write(r)
subprocess.check_call([sys.executable, os.path.join(HERE, "tools", "mkmanifest.py")])
chk = """
import json, jsonschema, sys
jsonschema.validate(json.load(open('/verif/MANIFEST.json')), json.load(open('/root/.vp/MANIFEST.schema.json')))
for p in sys.argv[1:]:
    jsonschema.validate(json.load(open(f'/verif/evidence/{p}.json')), json.load(open('/root/.vp/EVIDENCE.schema.json')))
print('manifest and evidence valid for', sys.argv[1:])
"""
subprocess.check_call(["python3-vt", "-c", chk] + cur)
