"""
py2lean plugin for property C03 (Kalman filter), built on the numpy -> QMat engine of tools/gens/npmat.py:

* fords/kalmans.py  the loop body of `predict` as two fragments
    `predict_mse`     from the `if P is not None:` block to `F = symmetrize(F)`          (MSE prediction)
    `predict_update`  from `Fi = inv(F) ...` to `a1 = a0 + G @ pe`   (median prediction, MSE and median updating)
  (+ `symmetrize` of fords/covariances.py)                                     -> Generated/KalmanStepGen.lean

Between the two fragments the code only selects the inverse function (`inv = _INVERSE_FUNCTION["regular"]`, replaced by
`_check_singularity(...)` on request): `inv` is an explicit parameter of the second fragment, `create_empty()`
(`_np.empty((0, 0))`) of both.  The hand-written model (Model/Kalman.lean `predictStep`) is tied to these in
Props/GenTieC03.lean.
"""
from __future__ import annotations
import ast, importlib.util, os, sys


def _engine():
    name = "py2lean_npmat_engine"
    if name not in sys.modules:
        spec = importlib.util.spec_from_file_location(name, os.path.join(os.path.dirname(os.path.abspath(__file__)), "npmat.py"))
        mod = importlib.util.module_from_spec(spec)
        sys.modules[name] = mod
        spec.loader.exec_module(mod)
    return sys.modules[name]


def _is_callback(st) -> bool:
    """`if store_xxx: store_xxx(...)`"""
    return (isinstance(st, ast.If) and isinstance(st.test, ast.Name) and st.test.id.startswith("store_") and not st.orelse
            and len(st.body) == 1 and isinstance(st.body[0], ast.Expr) and isinstance(st.body[0].value, ast.Call)
            and isinstance(st.body[0].value.func, ast.Name) and st.body[0].value.func.id == st.test.id)


def gen_kalman_step(repo: str) -> str:
    E = _engine()
    cov = E.Unit(repo, "src/irispie/fords/covariances.py", "IrisVerif.Gen.KalmanSymmetrize")
    unit = E.Unit(repo, "src/irispie/fords/kalmans.py", "IrisVerif.Gen.KalmanStep",
                  externals={"create_empty": E.External("create_empty", [], E.MAT, doc="`_np.empty((0, 0))`, the placeholder of a period without observations"),
                             "inv": E.External("inv", [E.MAT], E.MAT, doc="the matrix inverse selected for the period (`_np.linalg.inv` or the function returned by `_check_singularity`)")})
    unit.imports["_covariances.symmetrize"] = (cov, "symmetrize")
    M, OM, B = E.MAT, E.TOpt(E.MAT), E.BOOL
    unit.fragment("predict", "predict_mse", "P_u0", "F",
                  {"T": M, "P": OM, "Z": M, "H": M, "cov_u": M, "cov_w": M, "u0": M, "Q1_prev": M, "any_y": B},
                  ["P_u0", "P_cov_u", "Q0", "H_cov_w", "F"])
    unit.fragment("predict", "predict_update", "Fi", "a1",
                  {"T": M, "K": M, "Z": M, "H": M, "D": M, "v_impact": OM, "a1_prev": M, "P_u0": M, "w0": M, "y1": M, "Q0": M, "F": M, "any_y": B},
                  ["Fi", "a0", "y0", "Zt_Fi", "G", "Q1", "pe", "a1"], droppable=_is_callback)
    return cov.render_with("One pass of the loop body of `predict` (fords/kalmans.py, property C03) as definitions over QMat.", [unit])


GENERATORS = {
    "KalmanStepGen.lean": (gen_kalman_step, {"C03"}),
}
