/-
Model of irispie's stacked-time / period-by-period simulators (property C06):

* `stacked_time/simulators.py`   : `columns_to_run`, `_get_wrt_spots` (plan = None), `simulate_frame`
* `stacked_time/_evaluators.py`  : `update`, `eval_func` (update → terminate → equator → vstack/flatten "F")
* `equators/plain.py`            : one residual per (equation, column), lags/leads read neighbouring columns
* `fords/terminators.py`         : first-order terminal condition `curr_TT @ xi + curr_KK`
* `frames.py`                    : break points, `split_into_frames_by_breakpoints`, pruning, write-back
* `period_by_period/simulators.py`: every base period is a frame of its own, terminal = data
* `simultaneous/_simulate.py`    : the loop over frames

A cell of a data array is `Option Rat`: `none` stands for a non-finite float (NaN / ±inf) or an
out-of-range read; every partial operation is an explicit `none` branch. Logarithmic ("logly")
variables are NOT modelled (exp/log are not rational): the correspondence runs use models
without log-variables, the Python oracle covers the others.
-/
import IrisVerif.Model.QMat

namespace IrisVerif.Stacked

/-! ## data arrays (names × columns) -/

structure Data where
  rows : Nat
  cols : Nat
  cell : Array (Array (Option Rat))
  deriving Repr, Inhabited

namespace Data

/-- read cell `(q, c)`; `none` outside the array (the code never reads there: the dataslate is
extended by `max_lag` initial and `max_lead` terminal columns) -/
def get (d : Data) (q : Nat) (c : Int) : Option Rat :=
  if 0 ≤ c ∧ q < d.rows ∧ c.toNat < d.cols then (d.cell.getD q #[]).getD c.toNat none else none

def tabulate (r c : Nat) (f : Nat → Nat → Option Rat) : Data :=
  ⟨r, c, (Array.range r).map (fun i => (Array.range c).map (fun j => f i j))⟩

/-- a copy with the cells selected by `p` replaced by `v` -/
def modify (d : Data) (v : Nat → Nat → Option (Option Rat)) : Data :=
  tabulate d.rows d.cols (fun q c => (v q c).getD (d.get q c))

end Data

/-! ## expressions: residual form `-(lhs) + rhs` of an equation, tokens `(qid, shift)` -/

inductive Expr where
  | const (c : Rat)
  | var (qid : Nat) (shift : Int)
  | neg (a : Expr)
  | add (a b : Expr)
  | sub (a b : Expr)
  | mul (a b : Expr)
  | div (a b : Expr)
  | pow (a : Expr) (n : Nat)
  deriving Repr, Inhabited

namespace Expr

/-- evaluation at column `t` with reader `rd qid column`; `x[(qid, t+shift)]` of the xtring -/
def evalWith (rd : Nat → Int → Option Rat) (t : Int) : Expr → Option Rat
  | const c => some c
  | var q s => rd q (t + s)
  | neg a => (evalWith rd t a).map (fun x => -x)
  | add a b => do let x ← evalWith rd t a; let y ← evalWith rd t b; pure (x + y)
  | sub a b => do let x ← evalWith rd t a; let y ← evalWith rd t b; pure (x - y)
  | mul a b => do let x ← evalWith rd t a; let y ← evalWith rd t b; pure (x * y)
  | div a b => do
      let x ← evalWith rd t a; let y ← evalWith rd t b
      if y = 0 then none else pure (x / y)
  | pow a n => (evalWith rd t a).map (fun x => x ^ n)

/-- the incidence of an expression -/
def tokens : Expr → List (Nat × Int)
  | const _ => []
  | var q s => [(q, s)]
  | neg a => tokens a
  | add a b => tokens a ++ tokens b
  | sub a b => tokens a ++ tokens b
  | mul a b => tokens a ++ tokens b
  | div a b => tokens a ++ tokens b
  | pow a _ => tokens a

def eval (d : Data) (t : Nat) (e : Expr) : Option Rat := e.evalWith d.get (t : Int)

end Expr

/-! ## stacking: unknown cells and the (equation, column) ↔ row numbering -/

/-- `columns_to_run = range(frame.first, frame.simulation_last + 1)` -/
def columnsToRun (first simLast : Nat) : List Nat := List.range' first (simLast + 1 - first)

/-- `_get_wrt_spots` without a plan: `Token(qid, column) for column, qid in product(columns, qids)` -/
def wrtSpots (endo : List Nat) (cols : List Nat) : List (Nat × Nat) :=
  cols.flatMap (fun c => endo.map (fun q => (q, c)))

/-- row of equation number `e` (position in `wrt_equations`) at the `k`-th column to run:
`np.vstack(outcome).flatten(order="F")`, and `lhs_row = eqn_enum + num_eids*rhs_column` of the Jacobian -/
def rowOf (nE : Nat) (e k : Nat) : Nat := e + nE * k

/-- inverse numbering: row ↦ (equation, column index) -/
def unrow (nE : Nat) (r : Nat) : Nat × Nat := (r % nE, r / nE)

/-- The equator: one list per equation, entry `k` = the equation at the `k`-th column. -/
def equatorEval (eqs : List Expr) (cols : List Nat) (d : Data) : List (List (Option Rat)) :=
  eqs.map (fun e => cols.map (fun t => e.eval d t))

/-- `np.vstack(m).flatten(order="F")` for an `nE × nT` list of rows -/
def flattenF (nE nT : Nat) (m : List (List (Option Rat))) : List (Option Rat) :=
  (List.range (nE * nT)).map (fun r => ((m.getD (r % nE) []).getD (r / nE) none))

def stackedResidual (eqs : List Expr) (cols : List Nat) (d : Data) : List (Option Rat) :=
  flattenF eqs.length cols.length (equatorEval eqs cols d)

/-- `evaluator.update` (no log-variables): `data[spot_i] = guess_i` -/
def update (spots : List (Nat × Nat)) (guess : List Rat) (d : Data) : Data :=
  d.modify (fun q c =>
    let i := spots.idxOf (q, c)
    if i < spots.length then some ((guess[i]?).map id) else none)

/-- `_catch_missing`: a non-finite value at an UNKNOWN cell is replaced by the fallback value (and reported);
every other cell — measurement variables, exogenous data, initial and terminal conditions — is left alone,
missing or not -/
def catchMissing (spots : List (Nat × Nat)) (fallback : Rat) (d : Data) : Data :=
  d.modify (fun q c => if (q, c) ∈ spots ∧ d.get q (c : Int) = none then some (some fallback) else none)

/-- the cells `_catch_missing` reports through `when_missing` -/
def missingSpots (spots : List (Nat × Nat)) (d : Data) : List (Nat × Nat) :=
  spots.filter (fun s => d.get s.1 (s.2 : Int) == none)

/-- `evaluator.get_init_guess`: the data at the spots (`none` if any is non-finite) -/
def initGuess (spots : List (Nat × Nat)) (d : Data) : Option (List Rat) :=
  spots.mapM (fun s => d.get s.1 s.2)

/-! ## first-order terminal condition (`fords/terminators.py`) -/

/-- the linear operations the terminator uses, passed explicitly so that the *same* definitions
run over `QMat` in the driver and are reasoned about over Mathlib matrices in `Props/C06.lean` -/
structure LinOps (M V : Type) where
  mulMM : M → M → M
  mulMV : M → V → V
  addV : V → V → V
  one : M
  zeroV : V

/-- `cum_T` after `k` passes of the loop `cum_T = T @ cum_T` (start: identity) -/
def cumT {M V} (o : LinOps M V) (T : M) : Nat → M
  | 0 => o.one
  | k + 1 => o.mulMM T (cumT o T k)

/-- `cum_K` after `k` passes of the loop `cum_K = T @ cum_K + K` (start: zero) -/
def cumK {M V} (o : LinOps M V) (T : M) (K : V) : Nat → V
  | 0 => o.zeroV
  | k + 1 => o.addV (o.mulMV T (cumK o T K k)) K

/-- the state the terminator writes into terminal column `last_simulation + k`:
`curr_TT[k-1] @ terminit_xi + curr_KK[k-1]` (all rows; the code keeps the current-dated ones) -/
def terminalXi {M V} (o : LinOps M V) (T : M) (K : V) (x0 : V) (k : Nat) : V :=
  o.addV (o.mulMV (cumT o T k) x0) (cumK o T K k)

/-- one step of the first-order recursion `xi = T @ xi + K (+ g)` of `simulate_flat` -/
def fordStep {M V} (o : LinOps M V) (T : M) (K : V) (g : V) (x : V) : V :=
  o.addV (o.addV (o.mulMV T x) K) g

/-- `xi` after the columns `g₁ … gₙ` (impacts `P u_t` + anticipated-shock impacts) -/
def fordPath {M V} (o : LinOps M V) (T : M) (K : V) (x0 : V) : List V → List V
  | [] => []
  | g :: gs => let x := fordStep o T K g x0; x :: fordPath o T K x gs

def qOps (n : Nat) : LinOps QMat QVec :=
  { mulMM := QMat.mul, mulMV := QMat.mulVec, addV := fun a b => (Array.range n).map (fun i => a.getD i 0 + b.getD i 0),
    one := QMat.identity n, zeroV := (Array.range n).map (fun _ => 0) }

structure TermSpec where
  T : QMat
  K : QVec
  /-- the transition solution vector: `(qid, shift)`, shift ≤ 0 -/
  xiTokens : List (Nat × Int)
  /-- `(qid, position in xi)` of the current-dated elements (`get_curr_transition_indexes`) -/
  curr : List (Nat × Nat)
  maxLead : Nat
  deriving Repr, Inhabited

inductive Terminal where
  | data
  | firstOrder (s : TermSpec)
  deriving Repr, Inhabited

/-- `get_init_xi(data, transition_vector, first_column)`: cells `(qid, first_column - 1 + shift)` -/
def initXi (toks : List (Nat × Int)) (d : Data) (firstColumn : Nat) : Option QVec :=
  (toks.mapM (fun (q, s) => d.get q ((firstColumn : Int) - 1 + s))).map List.toArray

/-- `Terminator.terminate_simulation` (no log-variables): columns `last+1 … last+max_lead` of the
current-dated transition variables are overwritten by the first-order continuation of the state
at `last`; a non-finite cell in that state makes every terminal cell non-finite (NaN propagates
through the matrix product). -/
def terminate (s : TermSpec) (lastSim : Nat) (d : Data) : Data :=
  let n := s.xiTokens.length
  let x0 := initXi s.xiTokens d (lastSim + 1)
  d.modify (fun q c =>
    if lastSim < c ∧ c ≤ lastSim + s.maxLead then
      match s.curr.find? (fun qi => qi.1 == q) with
      | some (_, i) =>
        some (x0.map (fun x0 => (terminalXi (qOps n) s.T s.K x0 (c - lastSim)).getD i 0))
      | none => none
    else none)

def applyTerminal (term : Terminal) (lastSim : Nat) (d : Data) : Data :=
  match term with
  | .data => d
  | .firstOrder s => terminate s lastSim d

/-! ## the stacked system of one frame -/

structure System where
  eqs : List Expr
  endo : List Nat
  first : Nat
  simLast : Nat
  term : Terminal
  deriving Repr, Inhabited

def System.cols (s : System) : List Nat := columnsToRun s.first s.simLast
def System.spots (s : System) : List (Nat × Nat) := wrtSpots s.endo s.cols

/-- the data array on which the equations are evaluated for a candidate `guess` -/
def System.candidate (s : System) (guess : Option (List Rat)) (d : Data) : Data :=
  let d1 := match guess with | some g => update s.spots g d | none => d
  applyTerminal s.term s.simLast d1

/-- `eval_func(maybelog_guess, data_array)` -/
def System.evalFunc (s : System) (guess : Option (List Rat)) (d : Data) : List (Option Rat) :=
  stackedResidual s.eqs s.cols (s.candidate guess d)

def absR (x : Rat) : Rat := if x < 0 then -x else x

/-- `‖F‖_∞` (`none` when an entry is non-finite) -/
def normInf : List (Option Rat) → Option Rat
  | [] => some 0
  | none :: _ => none
  | some x :: rest => (normInf rest).map (fun m => if m < absR x then absR x else m)

/-! ### exact solution of an affine stacked system (linear models): one Newton step in `Rat` -/

def unitVec (n i : Nat) : List Rat := (List.range n).map (fun j => if j = i then 1 else 0)

/-- `F(0)` and the matrix of `F(e_i) - F(0)`; `none` when some entry is non-finite -/
def System.affineParts (s : System) (d : Data) : Option (QVec × QMat) := do
  let n := s.spots.length
  let f0 ← (s.evalFunc (some ((List.range n).map (fun _ => 0))) d).mapM id
  let colsJ ← (List.range n).mapM (fun i => (s.evalFunc (some (unitVec n i)) d).mapM id)
  let f0a := f0.toArray
  let cj := colsJ.toArray.map List.toArray
  pure (f0a, QMat.ofFn f0.length n (fun r c => (cj.getD c #[]).getD r 0 - f0a.getD r 0))

/-- the zero of the affine system, re-checked exactly (`solveChecked`) -/
def System.solveAffine (s : System) (d : Data) : Option (List Rat) := do
  let (f0, j) ← s.affineParts d
  let x ← QMat.solveChecked j (QMat.neg (QMat.col f0))
  pure x.toVec.toList

/-! ## frames (`frames.py`) -/

structure Frame where
  first : Nat
  last : Nat
  simLast : Nat
  deriving Repr, Inhabited, DecidableEq

/-- `_populate_base_break_points` without a plan: the first base period, and every base period in
which some unanticipated shock is finite and non-zero -/
def breakPoints (d : Data) (unantRows : List Nat) (baseFirst n : Nat) : List Bool :=
  (List.range n).map (fun i =>
    i == 0 || unantRows.any (fun q => match d.get q ((baseFirst + i : Nat) : Int) with
      | some v => v != 0
      | none => false))

/-- positions (0-based within the base span) flagged as break points -/
def breakPositions (breaks : List Bool) : List Nat :=
  (List.range breaks.length).filter (fun i => breaks.getD i false)

/-- `zip(break_periods, break_periods[1:] + (base_end + 1,))` as `(first, last)` pairs -/
def framesFrom : List Nat → Nat → List (Nat × Nat)
  | [], _ => []
  | [p], endExcl => [(p, endExcl - 1)]
  | p :: q :: rest, endExcl => (p, q - 1) :: framesFrom (q :: rest) endExcl

/-- `split_into_frames_by_breakpoints`; `simEnd first last` is `get_simulation_end` -/
def splitFrames (baseFirst n : Nat) (breaks : List Bool) (simEnd : Nat → Nat → Nat) : List Frame :=
  (framesFrom ((breakPositions breaks).map (· + baseFirst)) (baseFirst + n)).map
    (fun (a, b) => ⟨a, b, simEnd a b⟩)

/-- stacked time: break at unanticipated shocks, every frame simulated to the end of the base span -/
def stackedFrames (baseFirst n : Nat) (breaks : List Bool) : List Frame :=
  splitFrames baseFirst n breaks (fun _ _ => baseFirst + n - 1)

/-- period by period: every base period is a break point; a frame is simulated over its own period only -/
def periodFrames (baseFirst n : Nat) : List Frame :=
  splitFrames baseFirst n (List.replicate n true) (fun _ b => b)

/-- `SplitFrame.prune_frame_data`: unanticipated shocks after the frame's first column are zeroed
(nothing is done in a single-period frame) -/
def prune (f : Frame) (unantRows : List Nat) (d : Data) : Data :=
  if f.first = f.simLast then d else
  d.modify (fun q c => if unantRows.contains q ∧ f.first + 1 ≤ c then some (some 0) else none)

/-- `SplitFrame.write_frame_data_to_main_dataslate`: regular rows over the frame's own slice
`first … last`, unanticipated-shock rows at `first` only -/
def writeBack (f : Frame) (unantRows : List Nat) (main frame : Data) : Data :=
  main.modify (fun q c =>
    if unantRows.contains q then (if c = f.first then some (frame.get q c) else none)
    else (if f.first ≤ c ∧ c ≤ f.last then some (frame.get q c) else none))

/-- the loop over frames of `Inlay.simulate`; `solve` stands for `simulate_frame` (Newton) -/
def runFrames (solve : Frame → Data → Data) (unantRows : List Nat) (frames : List Frame) (main : Data) : Data :=
  frames.foldl (fun m f => writeBack f unantRows m (solve f (prune f unantRows m))) main

/-- the frame that owns base column `c` (the one whose slice contains it), if any -/
def ownerOf (frames : List Frame) (c : Nat) : Option Frame :=
  frames.find? (fun f => f.first ≤ c ∧ c ≤ f.last)

/-! ## first-order simulation of one frame in the data array (`simulate_flat`, linear model, no logs) -/

/-- write the current-dated rows of the states `xs` into columns `first, first+1, …` -/
def storeCurr (curr : List (Nat × Nat)) (first : Nat) (xs : List QVec) (d : Data) : Data :=
  d.modify (fun q c =>
    if first ≤ c ∧ c < first + xs.length then
      match curr.find? (fun qi => qi.1 == q) with
      | some (_, i) => some (some ((xs.getD (c - first) #[]).getD i 0))
      | none => none
    else none)

/-- `simulate_flat` over columns `first … first + gs.length - 1` with per-column impacts `gs` -/
def simulateFlat (s : TermSpec) (first : Nat) (gs : List QVec) (d : Data) : Option Data := do
  let x0 ← initXi s.xiTokens d first
  let xs := fordPath (qOps s.xiTokens.length) s.T s.K x0 gs
  pure (storeCurr s.curr first xs d)

end IrisVerif.Stacked
