#!/usr/bin/env python3
"""Prints the markdown tables of DESIGN.md sections 9 and 11 from known_findings.json, pending_fixes/*.msg and seeded/*/verdict.json."""
import json, os, glob, re, subprocess, sys, io
HERE = os.path.dirname(os.path.dirname(os.path.abspath(__file__)))
kf = json.load(open(os.path.join(HERE, "known_findings.json")))
_real_stdout = sys.stdout
sys.stdout = buf1 = io.StringIO()
print("### Repaired defects (`fix:` commits in /repo, one each; pinned suite still 254 passed)\n")
print("| property | commit | what failed | patch |")
print("|---|---|---|---|")
for e in sorted(kf["fixed"], key=lambda e: re.search(r"property=(C\d+)", e).group(1)):
    m = re.match(r"fixed: property=(C\d+) (\w+) (.*?)(?: \((?:patch|replays?): ([^)]*)\))?$", e)
    prop, commit, what, ref = m.group(1), m.group(2), m.group(3), m.group(4) or ""
    what = re.split(r"(?<=[a-z0-9\)`'\"])\. ", what)[0][:260]
    print(f"| {prop} | `{commit}` | {what} | {ref} |")
print("\n### Known findings (genuine defects recorded, not repaired)\n")
print("| property | site | what fails |")
print("|---|---|---|")
for f in kf["findings"]:
    print(f"| {f['property']} | `{f['site']}` | {f['what'][:600]} |")
sys.stdout = buf2 = io.StringIO()
print("### Seeded changes and the verdict of the checks\n")
print("| id | property | what the change does | needs | check outcome |")
print("|---|---|---|---|---|")
for vf in sorted(glob.glob(os.path.join(HERE, "seeded", "*", "verdict.json"))):
    d = os.path.dirname(vf)
    v = json.load(open(vf)); meta = json.load(open(os.path.join(d, "meta.json")))
    outs = []
    for p, c in v.get("checks", {}).items():
        r = c.get("replay") or {}
        if c["rc"] == 1 and r:
            outs.append(f"{p}: caught ({'no-failing-input-found; ' if r.get('no_failing_input') else ''}{r.get('kind')}, site `{r.get('site')}`)")
        else:
            outs.append(f"{p}: rc={c['rc']} (missed)" if c["rc"] == 0 else f"{p}: rc={c['rc']}")
    print(f"| {os.path.basename(d)} | {meta['property']} | {meta['what'][:220]} | {meta['needs'][:160]} | {'; '.join(outs)} |")

sys.stdout = _real_stdout
if "--inplace" in sys.argv:
    dp = os.path.join(HERE, "DESIGN.md")
    d = open(dp).read()
    for tag, txt in (("defect-tables", buf1.getvalue()), ("seeded-table", buf2.getvalue())):
        a = d.index(f"<!-- AUTO:{tag} -->") + len(f"<!-- AUTO:{tag} -->")
        b = d.index(f"<!-- /AUTO:{tag} -->")
        d = d[:a] + "\n" + txt + "\n" + d[b:]
    open(dp, "w").write(d)
    print("DESIGN.md tables updated")
else:
    print(buf1.getvalue()); print(buf2.getvalue())
