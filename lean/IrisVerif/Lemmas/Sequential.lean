/-
Helper lemmas for C17: the carrier of the theorems (a field with abstract partial unary functions), arithmetic of
NaN-or-finite values, the frame lemma for expression evaluation, and what one statement of `simulate`/`exogenize` changes.
-/
import IrisVerif.Model.Sequential
import Mathlib.Algebra.Field.Basic
import Mathlib.Algebra.CharZero.Defs
import Mathlib.Tactic.FieldSimp
import Mathlib.Tactic.Ring

set_option linter.unusedSectionVars false

namespace IrisVerif.Seq
open IrisVerif.Gen

/-- abstract partial unary functions on a field: code 0 = exp, 1 = log, the others arbitrary -/
class UnaryFns (K : Type) where
  fn? : Nat → K → Option K

/-- the carrier of the theorems: any field; division by zero is undefined (NaN) -/
instance fieldCarrier {K : Type} [Field K] [DecidableEq K] [UnaryFns K] : Carrier K where
  add := (· + ·)
  sub := (· - ·)
  mul := (· * ·)
  neg := (- ·)
  div? := fun x y => if y = 0 then none else some (x / y)
  fn? := UnaryFns.fn?
  ofNat := fun n => (n : K)

/-- `log` inverts `exp`, and `log` of a product is the sum of the logs, wherever they are defined -/
class LawfulExpLog (K : Type) [Field K] [UnaryFns K] : Prop where
  log_exp : ∀ x y : K, UnaryFns.fn? 0 x = some y → UnaryFns.fn? 1 y = some x
  log_mul : ∀ a b la lb : K, UnaryFns.fn? 1 a = some la → UnaryFns.fn? 1 b = some lb → UnaryFns.fn? 1 (a * b) = some (la + lb)

section carrier
variable {β : Type} [Carrier β]

@[simp] theorem V.nan_add (a : V β) : V.nan + a = V.nan := rfl
@[simp] theorem V.add_nan (a : V β) : a + V.nan = V.nan := by cases a <;> rfl
@[simp] theorem V.nan_sub (a : V β) : V.nan - a = V.nan := rfl
@[simp] theorem V.sub_nan (a : V β) : a - V.nan = V.nan := by cases a <;> rfl
@[simp] theorem V.nan_mul (a : V β) : V.nan * a = V.nan := rfl
@[simp] theorem V.mul_nan (a : V β) : a * V.nan = V.nan := by cases a <;> rfl
@[simp] theorem V.nan_div (a : V β) : V.nan / a = V.nan := rfl
@[simp] theorem V.div_nan (a : V β) : a / V.nan = V.nan := by cases a <;> rfl
@[simp] theorem V.exp_nan : V.exp (V.nan : V β) = V.nan := rfl
@[simp] theorem V.log_nan : V.log (V.nan : V β) = V.nan := rfl
@[simp] theorem V.fn_nan (k : Nat) : V.fn k (V.nan : V β) = V.nan := rfl
@[simp] theorem V.neg_nan : - (V.nan : V β) = V.nan := rfl

theorem V.add_eq_fin {a b : V β} {c : β} (h : a + b = V.fin c) : ∃ x y, a = V.fin x ∧ b = V.fin y := by
  cases a <;> cases b <;> simp_all
theorem V.sub_eq_fin {a b : V β} {c : β} (h : a - b = V.fin c) : ∃ x y, a = V.fin x ∧ b = V.fin y := by
  cases a <;> cases b <;> simp_all
theorem V.mul_eq_fin {a b : V β} {c : β} (h : a * b = V.fin c) : ∃ x y, a = V.fin x ∧ b = V.fin y := by
  cases a <;> cases b <;> simp_all
theorem V.div_eq_fin {a b : V β} {c : β} (h : a / b = V.fin c) : ∃ x y, a = V.fin x ∧ b = V.fin y := by
  cases a <;> cases b <;> simp_all
theorem V.exp_eq_fin {a : V β} {c : β} (h : V.exp a = V.fin c) : ∃ x, a = V.fin x := by
  cases a <;> simp_all
theorem V.log_eq_fin {a : V β} {c : β} (h : V.log a = V.fin c) : ∃ x, a = V.fin x := by
  cases a <;> simp_all

/-! ### tables -/

@[simp] theorem Table.set_same (tbl : Table β) (r : Nat) (c : Int) (v : V β) : (tbl.set r c v) r c = v := by
  simp [Table.set]

theorem Table.set_other (tbl : Table β) (r r' : Nat) (c c' : Int) (v : V β) (h : (r', c') ≠ (r, c)) :
    (tbl.set r c v) r' c' = tbl r' c' := by
  simp only [Table.set]
  split
  · rename_i h'; exact absurd (Prod.ext h'.1 h'.2) h
  · rfl

theorem Table.set_comm (tbl : Table β) (r r' : Nat) (c c' : Int) (v v' : V β) (h : (r, c) ≠ (r', c')) :
    (tbl.set r c v).set r' c' v' = (tbl.set r' c' v').set r c v := by
  funext a b
  simp only [Table.set]
  by_cases h1 : a = r' ∧ b = c' <;> by_cases h2 : a = r ∧ b = c <;> simp [h1, h2]
  all_goals first
    | (exfalso; apply h; rw [← h2.1, ← h2.2, ← h1.1, ← h1.2])
    | (intro e1 e2; exfalso; apply h; simp [e1, e2])

/-- frame lemma: an expression depends only on the cells it reads -/
theorem Expr.eval_congr (e : Expr β) (t : Int) (tbl tbl' : Table β)
    (h : ∀ c ∈ e.reads t, tbl' c.1 c.2 = tbl c.1 c.2) : e.eval tbl' t = e.eval tbl t := by
  induction e with
  | const c => rfl
  | var r s => simpa [Expr.eval, Expr.reads] using h
  | neg a ih => simp only [Expr.eval]; rw [ih (by simpa [Expr.reads] using h)]
  | add a b iha ihb =>
    simp only [Expr.eval]
    rw [iha (fun c hc => h c (by simp [Expr.reads, hc])), ihb (fun c hc => h c (by simp [Expr.reads, hc]))]
  | sub a b iha ihb =>
    simp only [Expr.eval]
    rw [iha (fun c hc => h c (by simp [Expr.reads, hc])), ihb (fun c hc => h c (by simp [Expr.reads, hc]))]
  | mul a b iha ihb =>
    simp only [Expr.eval]
    rw [iha (fun c hc => h c (by simp [Expr.reads, hc])), ihb (fun c hc => h c (by simp [Expr.reads, hc]))]
  | div a b iha ihb =>
    simp only [Expr.eval]
    rw [iha (fun c hc => h c (by simp [Expr.reads, hc])), ihb (fun c hc => h c (by simp [Expr.reads, hc]))]
  | fn k a ih => simp only [Expr.eval]; rw [ih (by simpa [Expr.reads] using h)]

theorem Equation.lagVal_congr (eq : Equation β) (t : Int) (tbl tbl' : Table β)
    (h : ∀ c ∈ eq.lagCells t, tbl' c.1 c.2 = tbl c.1 c.2) : eq.lagVal tbl' t = eq.lagVal tbl t := by
  unfold Equation.lagVal Equation.lagCells at *
  cases hs : eq.tr.lagShift with
  | none => rfl
  | some s => simp only [hs] at h ⊢; exact h (eq.lhs, t + s) (by simp)

/-- the right-hand side (with residual) depends only on `deps` -/
theorem Equation.rhsFull_congr (eq : Equation β) (t : Int) (tbl tbl' : Table β)
    (h : ∀ c ∈ eq.deps t, tbl' c.1 c.2 = tbl c.1 c.2) : eq.rhsFull tbl' t = eq.rhsFull tbl t := by
  unfold Equation.rhsFull
  have h1 : eq.rhs.eval tbl' t = eq.rhs.eval tbl t :=
    Expr.eval_congr _ _ _ _ (fun c hc => h c (by simp [Equation.deps, hc]))
  by_cases hi : eq.identity
  · simp [hi, h1]
  · have h2 : tbl' eq.res t = tbl eq.res t := h (eq.res, t) (by simp [Equation.deps, hi])
    simp [hi, h1, h2]

/-- the truth of the equation depends only on the LHS cell and `deps` -/
theorem Equation.holds_congr (eq : Equation β) (t : Int) (tbl tbl' : Table β)
    (hl : tbl' eq.lhs t = tbl eq.lhs t)
    (h : ∀ c ∈ eq.deps t, tbl' c.1 c.2 = tbl c.1 c.2) : eq.Holds tbl' t ↔ eq.Holds tbl t := by
  unfold Equation.Holds Equation.lhsValue
  rw [eq.rhsFull_congr t tbl tbl' h,
    eq.lagVal_congr t tbl tbl' (fun c hc => h c (by simp [Equation.deps, hc])), hl]

end carrier

section field
variable {K : Type} [Field K] [DecidableEq K] [UnaryFns K]

@[simp] theorem V.fin_add (a b : K) : (V.fin a + V.fin b) = V.fin (a + b) := rfl
@[simp] theorem V.fin_sub (a b : K) : (V.fin a - V.fin b) = V.fin (a - b) := rfl
@[simp] theorem V.fin_mul (a b : K) : (V.fin a * V.fin b) = V.fin (a * b) := rfl
@[simp] theorem V.fin_div (a b : K) : (V.fin a / V.fin b) = (if b = 0 then V.nan else V.fin (a / b)) := by
  show V.vdiv _ _ = _
  simp only [V.vdiv, Carrier.div?]
  split <;> rfl
@[simp] theorem V.ofNat_eq (n : Nat) : (OfNat.ofNat n : V K) = V.fin (n : K) := rfl
@[simp] theorem V.exp_fin (a : K) : V.exp (V.fin a) = V.ofOption (UnaryFns.fn? 0 a) := rfl
@[simp] theorem V.log_fin (a : K) : V.log (V.fin a) = V.ofOption (UnaryFns.fn? 1 a) := rfl
@[simp] theorem V.ofOption_some (a : K) : V.ofOption (some a) = V.fin a := rfl
@[simp] theorem V.ofOption_none : V.ofOption (none : Option K) = V.nan := rfl

theorem V.ofOption_eq_fin {o : Option K} {c : K} (h : V.ofOption o = V.fin c) : o = some c := by
  cases o with
  | none => simp at h
  | some x => simp at h; simp [h]

end field


/-! ### the statement lists of `Explanatory.exogenize` and what a step / a schedule can change -/

section steps
variable {K : Type} [Field K] [DecidableEq K] [UnaryFns K]

/-- statement list of the pinned `Explanatory.exogenize`: LHS := value; residual := eval_residual -/
def stepsAsIs : List Nat := [0, 2]
/-- repaired statement list: LHS := value; residual := 0; residual := eval_residual -/
def stepsRepaired : List Nat := [0, 1, 2]

theorem runSteps_simulate (eq : Equation K) (t : Int) (v : V K) (tbl : Table K) :
    runSteps [3] eq t v tbl = .ok (tbl.set eq.lhs t (eq.evalLevel tbl t)) := rfl

theorem runSteps_asIs (eq : Equation K) (t : Int) (v : V K) (tbl : Table K) :
    runSteps stepsAsIs eq t v tbl
      = .ok ((tbl.set eq.lhs t v).set eq.res t (eq.evalResidual (tbl.set eq.lhs t v) t)) := rfl

theorem runSteps_repaired (eq : Equation K) (t : Int) (v : V K) (tbl : Table K) :
    runSteps stepsRepaired eq t v tbl
      = .ok ((((tbl.set eq.lhs t v).set eq.res t (V.fin 0))).set eq.res t
          (eq.evalResidual ((tbl.set eq.lhs t v).set eq.res t (V.fin 0)) t)) := by
  show Except.ok _ = _
  simp [Carrier.ofNat]

theorem selfOK_unpack (eqs : List (Equation K)) (s : Int × Nat) (eq : Equation K) (heq : eqs[s.2]? = some eq)
    (h : selfOK eqs s = true) :
    (eq.lhs, s.1) ∉ eq.deps s.1 ∧ (eq.identity = false → (eq.res, s.1) ∉ eq.depsNoRes s.1) := by
  unfold selfOK at h
  rw [heq] at h
  simp only [Bool.and_eq_true, Bool.or_eq_true] at h
  refine ⟨by simpa using h.1, ?_⟩
  intro hid
  rcases h.2 with h2 | h2
  · rw [hid] at h2; exact absurd h2 (by simp)
  · simpa using h2.1

/-- `runSteps` of either exogenize list changes only the LHS cell and the residual cell -/
theorem runSteps_exo_frame (exo : List Nat) (hexo : exo = stepsAsIs ∨ exo = stepsRepaired)
    (eq : Equation K) (tbl tbl2 : Table K) (t : Int) (v : V K)
    (hrun : runSteps exo eq t v tbl = .ok tbl2) (c : Cell) (h1 : c ≠ (eq.lhs, t)) (h2 : c ≠ (eq.res, t)) :
    tbl2 c.1 c.2 = tbl c.1 c.2 := by
  rcases hexo with h | h
  · rw [h, runSteps_asIs] at hrun
    injection hrun with hrun
    subst hrun
    rw [Table.set_other _ _ _ _ _ _ h2, Table.set_other _ _ _ _ _ _ h1]
  · rw [h, runSteps_repaired] at hrun
    injection hrun with hrun
    subst hrun
    rw [Table.set_other _ _ _ _ _ _ h2, Table.set_other _ _ _ _ _ _ h2, Table.set_other _ _ _ _ _ _ h1]

theorem branchOf_some_isSome (plan : Plan) (eq : Equation K) (tbl : Table K) (t : Int) (v : V K)
    (h : branchOf plan eq tbl t = .ok (some v)) : eq.identity = false ∧ (plan eq.lhs t).isSome = true := by
  unfold branchOf getTransform at h
  by_cases hid : eq.identity
  · simp [hid] at h
    cases h
  · cases hp : plan eq.lhs t with
    | none => simp [hid, hp] at h; cases h
    | some p => simp [hid]

/-- one step changes only the cells in `stepWrites` -/
theorem stepWith_frame (exo : List Nat) (hexo : exo = stepsAsIs ∨ exo = stepsRepaired)
    (eqs : List (Equation K)) (plan : Plan) (tbl tbl' : Table K) (s : Int × Nat)
    (hstep : stepWith [3] exo eqs plan tbl s = .ok tbl') (c : Cell) (hc : c ∉ stepWrites eqs plan s) :
    tbl' c.1 c.2 = tbl c.1 c.2 := by
  unfold stepWith at hstep
  unfold stepWrites at hc
  cases heq : eqs[s.2]? with
  | none => simp [heq] at hstep
  | some eq =>
    simp only [heq] at hstep hc
    cases hb : branchOf plan eq tbl s.1 with
    | error e => simp [hb, bind, Except.bind] at hstep
    | ok o =>
      cases o with
      | none =>
        simp only [hb, bind, Except.bind, runSteps_simulate] at hstep
        injection hstep with hstep
        subst hstep
        exact Table.set_other _ _ _ _ _ _ (fun h => hc (by simp [← h]))
      | some v =>
        simp only [hb, bind, Except.bind] at hstep
        obtain ⟨hid, hp⟩ := branchOf_some_isSome plan eq tbl s.1 v hb
        simp only [hid, hp, Bool.not_false, Bool.and_self, if_true, List.mem_cons, List.not_mem_nil, or_false,
          not_or] at hc
        exact runSteps_exo_frame exo hexo eq tbl tbl' s.1 v hstep c hc.1 hc.2

/-- running a schedule changes only cells written by one of its steps -/
theorem simulateWith_frame (exo : List Nat) (hexo : exo = stepsAsIs ∨ exo = stepsRepaired)
    (eqs : List (Equation K)) (plan : Plan) (sched : List (Int × Nat)) (tbl tblF : Table K)
    (hrun : simulateWith [3] exo eqs plan tbl sched = .ok tblF) (c : Cell)
    (hc : ∀ s ∈ sched, c ∉ stepWrites eqs plan s) : tblF c.1 c.2 = tbl c.1 c.2 := by
  induction sched generalizing tbl with
  | nil =>
    simp only [simulateWith, List.foldlM_nil, pure, Except.pure] at hrun
    injection hrun with hrun
    rw [hrun]
  | cons s rest ih =>
    simp only [simulateWith, List.foldlM_cons, bind, Except.bind] at hrun
    cases hs : stepWith [3] exo eqs plan tbl s with
    | error e => simp [hs] at hrun
    | ok tbl' =>
      simp only [hs] at hrun
      rw [ih tbl' hrun (fun s' hs' => hc s' (List.mem_cons_of_mem _ hs')),
        stepWith_frame exo hexo eqs plan tbl tbl' s hs c (hc s (List.mem_cons_self))]


theorem admissible_split (eqs : List (Equation K)) (plan : Plan) (pre post : List (Int × Nat)) (s : Int × Nat)
    (h : admissible eqs plan (pre ++ s :: post) = true) :
    stepOK eqs plan s post = true ∧ ∀ s' ∈ pre, ∀ c ∈ stepWrites eqs plan s, c ∉ stepWrites eqs plan s' := by
  induction pre with
  | nil =>
    simp only [List.nil_append, admissible, Bool.and_eq_true] at h
    exact ⟨h.1, by simp⟩
  | cons a pre ih =>
    simp only [List.cons_append, admissible, Bool.and_eq_true] at h
    obtain ⟨h1, h2⟩ := ih h.2
    refine ⟨h1, ?_⟩
    intro s' hs' c hc
    rcases List.mem_cons.mp hs' with rfl | hs'
    · have := h.1
      simp only [stepOK, laterOK, Bool.and_eq_true, List.all_eq_true] at this
      have := (this.2 s (by simp) c hc).2
      simpa using this
    · exact h2 s' hs' c hc

end steps

end IrisVerif.Seq
