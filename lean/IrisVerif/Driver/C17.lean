/-
Line-protocol driver for the sequential-simulation model (property C17).

request:  sim <R|F> <de|ed> <nPre> <nPer> <nCols> [<parameters_from_data -|0|1> <shocks_from_data -|0|1>] ; <section> ; ...
  sections   E <lhsRow> <None|Log|Diff|DiffLog|Roc|Pct> <identity 0|1> <resRow> <prefix expression>
             P <lhsRow> <column> <None|Log|Diff|DiffLog|Roc|Pct|Flat> <when_data 0|1> <shift> <targetRow|->
             D <row> <v0> ... <v_{nCols-1}>          (values `num/den`, `nan`)
             Dp <row> <model value> <v0> ...          (parameter row: the model's value and the databox item of that name)
             Dr <row> <v0> ...                        (residual row: the databox item; the model applies the two options)
             O <row> <row> ...                        (rows to print)
  prefix expression tokens:  c <num/den> | v <row> <shift> | n e | + e e | - e e | * e e | / e e | f <k> e
  mode R = exact rationals, F = IEEE doubles (replies are the 64 bits of each double)
reply:    ok <admissible flag per step, T/F> <branch per step: S simulate, W when_data fallback, X exogenized> <C|N: closed-form order condition holds> P<nPre>/<nPost> ; <row>: v ... ; ...
          (values for the base columns nPre .. nPre+nPer-1)   |  err:bad | err:unsupported | bad-op
request:  reorder <n> | <perm> | <perm> ...     reply:  the order of the n equations after the re-orderings
request:  merge <target keys> | <out keys>        reply:  key=t|o ... (the returned databox `target_db | out_db`, in order)
-/
import IrisVerif.Model.Sequential
import IrisVerif.Driver.Util

open IrisVerif.Seq IrisVerif.Driver

namespace IrisVerif.Driver.C17

structure Codec (β : Type) where
  parse : String → Option (V β)      -- `nan` or a number
  show_ : V β → String

def ratCodec : Codec Rat where
  parse s := if s = "nan" then some V.nan else (parseRat? s).map V.fin
  show_ v := match v with | .nan => "nan" | .fin q => if q.den = 1 then toString q.num else showRat q

def floatOfRat (q : Rat) : Float := Float.ofInt q.num / Float.ofNat q.den

def floatCodec : Codec Float where
  parse s := if s = "nan" then some V.nan else (parseRat? s).map (fun q => V.fin (floatOfRat q))
  show_ v := match v with | .nan => "nan" | .fin x => "b" ++ toString x.toBits

def lhsT? : String → Option LhsT
  | "None" => some .none | "Log" => some .log | "Diff" => some .diff | "DiffLog" => some .diffLog
  | "Roc" => some .roc | "Pct" => some .pct | _ => none

/-- a plan transform given by class name, or as `@<keyword>` by the keyword passed to `exogenize(transform=...)` (`@` = None),
resolved by the model's `PlanT.ofSpelling?` -/
def planT? (s : String) : Option PlanT :=
  if s.startsWith "@" then PlanT.ofSpelling? (s.drop 1).toString else planClass? s
where planClass? : String → Option PlanT
  | "None" => some .none | "Log" => some .log | "Diff" => some .diff | "DiffLog" => some .diffLog
  | "Roc" => some .roc | "Pct" => some .pct | "Flat" => some .flat | _ => none

/-- prefix expression parser, structurally recursive on the fuel -/
def parseExpr {β : Type} (cd : Codec β) : Nat → List String → Option (Expr β × List String)
  | 0, _ => none
  | fuel + 1, toks =>
    match toks with
    | "c" :: x :: rest => match cd.parse x with
      | some (.fin c) => some (.const c, rest)
      | _ => none
    | "v" :: r :: s :: rest => match r.toNat?, s.toInt? with
      | some r, some s => some (.var r s, rest)
      | _, _ => none
    | "n" :: rest => (parseExpr cd fuel rest).map fun (a, rest) => (.neg a, rest)
    | "f" :: k :: rest => match k.toNat? with
      | some k => (parseExpr cd fuel rest).map fun (a, rest) => (.fn k a, rest)
      | none => none
    | op :: rest =>
      if op = "+" ∨ op = "-" ∨ op = "*" ∨ op = "/" then
        match parseExpr cd fuel rest with
        | some (a, rest) => match parseExpr cd fuel rest with
          | some (b, rest) =>
            some ((if op = "+" then Expr.add a b else if op = "-" then Expr.sub a b
                   else if op = "*" then Expr.mul a b else Expr.div a b), rest)
          | none => none
        | none => none
      else none
    | [] => none

structure Case (β : Type) where
  eqs : List (Equation β) := []
  points : List (Nat × Int × PlanPoint) := []
  data : List (Nat × Array (V β)) := []
  out : List Nat := []

def flag? : String → Option (Option Bool)
  | "-" => some none | "0" => some (some false) | "1" => some (some true) | _ => none

def parseSection {β : Type} [Carrier β] (cd : Codec β) (nCols : Nat) (pfd sfd : Option Bool) (c : Case β) (ws : List String) :
    Option (Case β) :=
  match ws with
  | "E" :: lhs :: tr :: ident :: res :: toks =>
    match lhs.toNat?, lhsT? tr, res.toNat?, parseExpr cd (toks.length + 1) toks with
    | some lhs, some tr, some res, some (e, []) =>
      if ident = "0" ∨ ident = "1" then
        some { c with eqs := c.eqs ++ [{ lhs := lhs, tr := tr, identity := ident = "1", rhs := e, res := res }] }
      else none
    | _, _, _, _ => none
  | ["P", lhs, col, kind, wd, shift, target] =>
    match lhs.toNat?, col.toInt?, planT? kind, shift.toInt? with
    | some lhs, some col, some kind, some shift =>
      let tgt : Option (Option Nat) := if target = "-" then some none else target.toNat?.map some
      match tgt with
      | some tgt =>
        if wd = "0" ∨ wd = "1" then
          some { c with points := c.points ++ [(lhs, col, { kind := kind, whenData := wd = "1", shift := shift, target := tgt })] }
        else none
      | none => none
    | _, _, _, _ => none
  | "D" :: row :: vals =>
    match row.toNat?, vals.mapM cd.parse with
    | some row, some vs => if vs.length = nCols then some { c with data := c.data ++ [(row, vs.toArray)] } else none
    | _, _ => none
  | "Dp" :: row :: mv :: vals =>       -- a parameter row: the model's value, then what the databox holds under that name
    match row.toNat?, cd.parse mv, vals.mapM cd.parse with
    | some row, some mv, some vs =>
      if vs.length = nCols then
        some { c with data := c.data ++ [(row, (vs.map (initialCell .parameter pfd sfd mv)).toArray)] }
      else none
    | _, _, _ => none
  | "Dr" :: row :: vals =>             -- a residual row: what the databox holds under the residual's name
    match row.toNat?, vals.mapM cd.parse with
    | some row, some vs =>
      if vs.length = nCols then
        some { c with data := c.data ++ [(row, (vs.map (initialCell .residual pfd sfd V.nan)).toArray)] }
      else none
    | _, _ => none
  | "O" :: rows =>
    match rows.mapM (fun (s : String) => s.toNat?) with
    | some rs => some { c with out := c.out ++ rs }
    | none => none
  | _ => none

def mkTable {β : Type} (data : List (Nat × Array (V β))) : Table β :=
  let maxRow := data.foldl (fun m p => max m p.1) 0
  let arr : Array (Array (V β)) := data.foldl (fun a p => a.set! p.1 p.2) (Array.replicate (maxRow + 1) #[])
  fun r c =>
    if c < 0 then V.nan
    else match arr[r]? with
      | some row => (match row[c.toNat]? with | some v => v | none => V.nan)
      | none => V.nan

def mkPlan (points : List (Nat × Int × PlanPoint)) : Plan :=
  fun r c => (points.reverse.find? (fun p => p.1 = r ∧ p.2.1 = c)).map (fun p => p.2.2)

def usesFn {β : Type} (c : Case β) : Bool :=
  c.eqs.any (fun e => e.tr.usesFn || e.rhs.usesFn) || c.points.any (fun p => p.2.2.kind.usesFn)

/-- every read of the equations stays inside the columns of the data array (the code would otherwise wrap around) -/
def readsInside {β : Type} (c : Case β) (base : List Int) (nCols : Nat) : Bool :=
  c.eqs.all fun e => base.all fun t => (e.deps t).all fun cell => 0 ≤ cell.2 && cell.2 < (nCols : Int)

/-- branch tags, by re-running the loop body step by step -/
def runTagged {β : Type} [Carrier β] (eqs : List (Equation β)) (plan : Plan) :
    Table β → List (Int × Nat) → Except Err (Table β × List Char)
  | tbl, [] => pure (tbl, [])
  | tbl, s :: rest => do
    let tag ← match eqs[s.2]? with
      | none => throw Err.badEquation
      | some eq => do
        match getTransform plan eq s.1, ← branchOf plan eq tbl s.1 with
        | none, _ => pure 'S'
        | some _, none => pure 'W'
        | some _, some _ => pure 'X'
    let tbl' ← stepV eqs plan tbl s
    let (t, tags) ← runTagged eqs plan tbl' rest
    pure (t, tag :: tags)

def runCase {β : Type} [Carrier β] (cd : Codec β) (exact : Bool) (order : String) (nPre nPer nCols : Nat) (c : Case β) : String :=
  if exact && usesFn c then "err:unsupported" else
  let base : List Int := (List.range nPer).map fun i => ((nPre + i : Nat) : Int)
  if !readsInside c base nCols then "err:bad" else
  let sched := if order = "de" then datesEquations base c.eqs.length else equationsDates base c.eqs.length
  let plan := mkPlan c.points
  let tbl0 := mkTable c.data
  match simulateV c.eqs plan tbl0 sched with
  | .error _ => "err:bad"
  | .ok tbl =>
    let tags := match runTagged c.eqs plan tbl0 sched with
      | .ok (_, tags) => String.ofList tags
      | .error _ => "?"
    let flags := String.ofList ((admissibleFlags c.eqs plan sched).map fun b => if b then 'T' else 'F')
    let rows := c.out.map fun r => toString r ++ ": " ++ " ".intercalate (base.map fun t => cd.show_ (tbl r t))
    -- does the model text meet the hypotheses of the closed-form admissibility theorem for this order and span?
    let closed : Bool := decide (AllSelfOK c.eqs) && decide (DistinctWrites c.eqs) &&
      (if order = "de" then decide (DatesEquationsCond c.eqs base) else decide (EquationsDatesCond c.eqs base))
    -- the extent of the data array the model computes from the equations (Sequential.max_lag / max_lead)
    let extent := "P" ++ toString (nPreOf c.eqs) ++ "/" ++ toString (nPostOf c.eqs)
    "ok " ++ flags ++ " " ++ tags ++ " " ++ (if closed then "C" else "N") ++ " " ++ extent ++ " ; " ++ " ; ".intercalate rows

def runWith {β : Type} [Carrier β] (cd : Codec β) (exact : Bool) (order : String) (nPre nPer nCols : Nat)
    (pfd sfd : Option Bool) (sections : List String) : String :=
  let rec go (c : Case β) : List String → Option (Case β)
    | [] => some c
    | s :: rest => match parseSection cd nCols pfd sfd c (words s) with
      | some c' => go c' rest
      | none => none
  match go {} sections with
  | none => "bad-op"
  | some c => runCase cd exact order nPre nPer nCols c

/-- `merge <target keys ...> | <out keys ...>`: the returned databox `target_db | out_db` as `key=t` / `key=o` in order -/
def mergeLine (rest : List String) : String :=
  let parts := (" ".intercalate rest).splitOn "|"
  match parts with
  | [a, b] =>
    let tk := words a
    let ok := words b
    let target : Dict String String := tk.map fun k => (k, "t")
    let out : Dict String String := ok.map fun k => (k, "o")
    " ".intercalate ((mergeOutput target out).map fun p => p.1 ++ "=" ++ p.2)
  | _ => "bad-op"

/-- `reorder <n> | <perm> | <perm> ...`: the order of the `n` equations after the re-orderings (`reorder_equations`) -/
def reorderLine (rest : List String) : String :=
  match ((" ".intercalate rest).splitOn "|").map words with
  | [n] :: perms =>
    match n.toNat?, perms.mapM (fun ws => ws.mapM (fun (w : String) => w.toNat?)) with
    | some n, some ps => " ".intercalate ((ps.foldl (fun l p => reorderList p l) (List.range n)).map toString)
    | _, _ => "bad-op"
  | _ => "bad-op"

def step (line : String) : String :=
  match words line with
  | "merge" :: rest => mergeLine rest
  | "reorder" :: rest => reorderLine rest
  | _ =>
  match line.splitOn ";" with
  | head :: sections =>
    match words head with
    | "sim" :: mode :: order :: nPre :: nPer :: nCols :: opts =>
      let flags : Option (Option Bool × Option Bool) := match opts with
        | [] => some (none, none)
        | [a, b] => (do let a ← flag? a; let b ← flag? b; pure (a, b))
        | _ => none
      match nPre.toNat?, nPer.toNat?, nCols.toNat?, flags with
      | some nPre, some nPer, some nCols, some (pfd, sfd) =>
        if order ≠ "de" ∧ order ≠ "ed" then "bad-op"
        else if mode = "R" then runWith ratCodec true order nPre nPer nCols pfd sfd sections
        else if mode = "F" then runWith floatCodec false order nPre nPer nCols pfd sfd sections
        else "bad-op"
      | _, _, _, _ => "bad-op"
    | _ => "bad-op"
  | [] => "bad-op"

end IrisVerif.Driver.C17

def main : IO Unit := IrisVerif.Driver.runMain IrisVerif.Driver.C17.step
