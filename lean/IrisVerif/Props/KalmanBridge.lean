/-
Bridge between the executable Kalman model (`Model/Kalman.lean`, `QMat`) and the Mathlib-matrix statements of
Props/C08.lean / Props/C03.lean, through `Lemmas/QMatRefines.lean` (`toMat` homomorphisms, `eqv`, `inverse_sound`).

What is proved here (short bridge):
* the exact runtime checks of the driver are SOUND for the Mathlib views of the executable output: whenever
  `measurementHolds c b = true` / `transitionHolds s b₀ b₁ = true` (flags `mid` / `tid` of every driver reply, compared on every
  harness case), the measurement / transition identity of Props/C08.lean holds between the `toMat` views of the very `QMat`
  values the model returned;
* `predictStep` delivers the hypothesis the theorems take: if `predictStep s a Q p = .ok c` then `c.Fi = symmetrize x` for an
  `x` with `inverse c.F = some x`, hence `toMat c.F * toMat x = 1` and `toMat x * toMat c.F = 1` (`inverse_sound`).
What is NOT proved: the full refinement "`toMat` of every field of `predictStep` / `oneStepBack` = the corresponding expression of
`Lemmas/Kalman.lean`" (about 25 `toMat_*` rewrites with their dimension side conditions per function); with it the C08 identities
would follow for the executable output without the runtime flags.
-/
import IrisVerif.Model.Kalman
import IrisVerif.Lemmas.QMatRefines
import Mathlib.Tactic.NormNum
import Mathlib.Algebra.Order.Field.Rat

open Matrix

namespace IrisVerif.KalmanBridge
open IrisVerif IrisVerif.Kalman IrisVerif.QMat

/-- soundness of the driver's exact measurement check: the identity `Z a₂ + H w₂ + D = y` of `C08.measurement_identity` holds for
the Mathlib views of the executable output (`m` observed rows, `n` states, `nw` measurement shocks) -/
theorem measurementHolds_sound (c : PeriodCache) (b : Back) (h : measurementHolds c b = true) (m n nw : Nat)
    (hZr : c.Z.rows = m) (hZc : c.Z.cols = n) (hHr : c.H.rows = m) (hHc : c.H.cols = nw) (hac : b.a.cols = 1)
    (hwc : b.w.cols = 1) :
    c.Z.toMat m n * b.a.toMat n 1 + c.H.toMat m nw * b.w.toMat nw 1 + c.D.toMat m 1 = c.y.toMat m 1 := by
  unfold measurementHolds at h
  have e := (toMat_eq_of_eqv (c.Z * b.a + c.H * b.w + c.D) c.y h m 1 (by simp [hZr]) (by simp [hac])).1
  rw [← e, toMat_add _ _ m 1 (by simp [hZr]) (by simp [hac]), toMat_add _ _ m 1 (by simp [hZr]) (by simp [hac]),
    toMat_mul c.Z b.a m n 1 hZr hZc hac, toMat_mul c.H b.w m nw 1 hHr hHc hwc]

/-- soundness of the driver's exact transition check: `a₂(t) = T a₂(t-1) + K + P u₂(t)` (`C08.transition_identity`) for the
Mathlib views of the executable output (`n` states, `nu` transition shocks) -/
theorem transitionHolds_sound (s : Sys) (b0 b1 : Back) (h : transitionHolds s b0 b1 = true) (n nu : Nat)
    (har : b1.a.rows = n) (hac : b1.a.cols = 1) (hTr : s.T.rows = n) (hTc : s.T.cols = n) (h0c : b0.a.cols = 1)
    (hPr : s.P.rows = n) (hPc : s.P.cols = nu) (huc : b1.u.cols = 1) :
    b1.a.toMat n 1 = s.T.toMat n n * b0.a.toMat n 1 + s.K.toMat n 1 + s.P.toMat n nu * b1.u.toMat nu 1 := by
  unfold transitionHolds at h
  have e := (toMat_eq_of_eqv b1.a (s.T * b0.a + s.K + s.P * b1.u) h n 1 har hac).1
  rw [e, toMat_add _ _ n 1 (by simp [hTr]) (by simp [h0c]), toMat_add _ _ n 1 (by simp [hTr]) (by simp [h0c]),
    toMat_mul s.T b0.a n n 1 hTr hTc h0c, toMat_mul s.P b1.u n nu 1 hPr hPc huc]

/-- `predictStep` delivers the inverse certificate the theorems take as hypothesis: `c.Fi` is the symmetrised exact inverse of
`c.F`, re-checked by `solveChecked` -/
theorem predictStep_inverse_certificate (s : Sys) (a Q : QMat) (p : PeriodIn) (c : PeriodCache)
    (h : predictStep s a Q p = .ok c) :
    ∃ x, QMat.inverse c.F = some x ∧ c.Fi = symmetrize x
      ∧ c.F.toMat c.F.rows c.F.rows * x.toMat c.F.rows c.F.rows = 1
      ∧ x.toMat c.F.rows c.F.rows * c.F.toMat c.F.rows c.F.rows = 1 := by
  unfold predictStep at h
  simp only [bind, Except.bind, pure, Except.pure] at h
  split at h
  · cases h
  · split at h
    · rename_i x hx
      cases h
      exact ⟨x, hx, rfl, (inverse_sound _ x hx).2.2.2.2, inverse_sound_left _ x hx⟩
    · cases h

theorem symmetrize_toMat (X : QMat) (r : Nat) (hr : X.rows = r) (hc : X.cols = r) :
    (symmetrize X).toMat r r = (1 / 2 : ℚ) • (X.toMat r r + (X.toMat r r)ᵀ) := by
  unfold symmetrize
  rw [toMat_smul _ _ r r (by simp [hr]) (by simp [hc]), toMat_add _ _ r r hr hc, toMat_transpose X r r hr hc]

theorem symmetrize_toMat_symm (X : QMat) (r : Nat) (hr : X.rows = r) (hc : X.cols = r) :
    ((symmetrize X).toMat r r)ᵀ = (symmetrize X).toMat r r := by
  rw [symmetrize_toMat X r hr hc, Matrix.transpose_smul, Matrix.transpose_add, Matrix.transpose_transpose, add_comm]

theorem symmetrize_toMat_of_symm (X : QMat) (r : Nat) (hr : X.rows = r) (hc : X.cols = r)
    (h : (X.toMat r r)ᵀ = X.toMat r r) : (symmetrize X).toMat r r = X.toMat r r := by
  rw [symmetrize_toMat X r hr hc, h, ← two_smul ℚ (X.toMat r r), smul_smul]
  norm_num

theorem predictStep_F_is_symmetrize (s : Sys) (a Q : QMat) (p : PeriodIn) (c : PeriodCache)
    (h : predictStep s a Q p = .ok c) : ∃ X, c.F = symmetrize X ∧ X.cols = (symmetrize X).rows := by
  unfold predictStep at h
  simp only [bind, Except.bind, pure, Except.pure] at h
  split at h
  · cases h
  · split at h
    · cases h
      exact ⟨_, rfl, by simp [symmetrize]⟩
    · cases h

/-- for the executable output of `predictStep`: the views of `c.F` and `c.Fi` satisfy exactly the hypotheses
`F * Fi = 1`, `Fiᵀ = Fi` under which `C08.measurement_identity`, `C03.filter_is_conditioning`, … are proved -/
theorem predictStep_F_mul_Fi (s : Sys) (a Q : QMat) (p : PeriodIn) (c : PeriodCache)
    (h : predictStep s a Q p = .ok c) :
    c.F.toMat c.F.rows c.F.rows * c.Fi.toMat c.F.rows c.F.rows = 1
    ∧ (c.Fi.toMat c.F.rows c.F.rows)ᵀ = c.Fi.toMat c.F.rows c.F.rows := by
  obtain ⟨x, hx, hFi, hr, hl⟩ := predictStep_inverse_certificate s a Q p c h
  obtain ⟨hFc, hxr, hxc, _, _⟩ := inverse_sound c.F x hx
  -- `c.F` is a `symmetrize`, so its view is symmetric
  have hFs : (c.F.toMat c.F.rows c.F.rows)ᵀ = c.F.toMat c.F.rows c.F.rows := by
    obtain ⟨X, hX, hXc⟩ := predictStep_F_is_symmetrize s a Q p c h
    rw [hX]
    exact symmetrize_toMat_symm X _ rfl hXc
  -- the inverse of a symmetric matrix is symmetric
  have hxs : (x.toMat c.F.rows c.F.rows)ᵀ = x.toMat c.F.rows c.F.rows := by
    calc (x.toMat c.F.rows c.F.rows)ᵀ
        = (x.toMat c.F.rows c.F.rows)ᵀ * (c.F.toMat c.F.rows c.F.rows * x.toMat c.F.rows c.F.rows) := by
          rw [hr, Matrix.mul_one]
      _ = (c.F.toMat c.F.rows c.F.rows * x.toMat c.F.rows c.F.rows)ᵀ * x.toMat c.F.rows c.F.rows := by
          rw [Matrix.transpose_mul, hFs, Matrix.mul_assoc]
      _ = x.toMat c.F.rows c.F.rows := by rw [hr, Matrix.transpose_one, Matrix.one_mul]
  have e : c.Fi.toMat c.F.rows c.F.rows = x.toMat c.F.rows c.F.rows := by
    rw [hFi]
    exact symmetrize_toMat_of_symm x _ hxr hxc hxs
  rw [e]
  exact ⟨hr, hxs⟩

end IrisVerif.KalmanBridge
