/-
Tie T for the matrix code of property C01 (first-order simulation): the state recursion inside the hand-written model
`Model/FirstOrder.lean` (`simulateFrame`: `ξ ← T ξ + K`, `+ (P u)[:, t]`, `+ anticipated impact of t`) EQUALS the
fragment that `tools/gens/npmat_c01.py` regenerates on every run from the loop body of
`/repo/src/irispie/fords/simulators.py::simulate_flat` (`Generated/SimulateFlatGen.lean`), for every solution, state,
period and impact list.

Instantiation: `Pu` is present (the model uses a zero matrix when there are no shocks), `all_v_impact` is the model's
list of optional impacts, `exogenous_impact` is `None` (it is only used by the reduced-form VAR simulator).
-/
import IrisVerif.Props.GenTieCore
import IrisVerif.Model.FirstOrder
import IrisVerif.Generated.SimulateFlatGen

namespace IrisVerif.GenTieC01

open IrisVerif IrisVerif.QMat IrisVerif.FirstOrder IrisVerif.GenTie IrisVerif.QMatNp

/-- `Pu[:, t]` for a column inside the array is the model's `colOf` -/
theorem colAt_eq_colOf (a : QMat) (t : Nat) (ht : t < a.cols) : QMatNp.colAt a (t : Int) = colOf a t := by
  unfold QMatNp.colAt colOf
  rw [index?_natCast, if_pos ht]

/-- **the state recursion of `simulate_flat`**: the three updates of `ξ` in the model's frame loop are the generated
fragment, for every period `t` inside the shock array -/
theorem model_eq_generated_state_step (T K Pu xi : QMat) (imp : Array (Option QMat)) (t : Nat) (ht : t < Pu.cols) :
    (match imp.getD t none with
      | some s => T * xi + K + colOf Pu t + s
      | none => T * xi + K + colOf Pu t)
      = Gen.SimulateFlat.state_step T K (some Pu) (some imp.toList) none xi (t : Int) := by
  unfold Gen.SimulateFlat.state_step
  simp only []
  rw [listGet_natCast, colAt_eq_colOf Pu t ht]
  have e : imp.toList.getD t none = imp.getD t none := by
    simp [List.getD_eq_getElem?_getD, Array.getD_eq_getD_getElem?]
  rw [e]
  cases imp.getD t none <;> rfl

/-- `ξ + Pu[:, t]` agrees with the model's `ξ + colOf Pu t` for every `t` when `Pu` is well-shaped (outside the array,
where numpy raises, the model adds a column of zeros) -/
theorem add_colAt (a Pu : QMat) (hw : Pu.wellShaped = true) (t : Nat) :
    a + QMatNp.colAt Pu (t : Int) = a + colOf Pu t := by
  by_cases ht : t < Pu.cols
  · rw [colAt_eq_colOf Pu t ht]
  · show QMat.add _ _ = QMat.add _ _
    unfold QMat.add
    apply ofFn_congr
    intro i j _ _
    unfold QMatNp.colAt colOf
    rw [index?_natCast, if_neg ht, get_zero, get_block]
    split
    · rw [get_of_out Pu hw _ _ (Or.inr (by omega))]
    · rfl

/-- the state recursion, for every period (well-shaped shock array) -/
theorem model_eq_generated_state_step' (T K Pu xi : QMat) (hw : Pu.wellShaped = true) (imp : Array (Option QMat)) (t : Nat) :
    (match imp.getD t none with
      | some s => T * xi + K + colOf Pu t + s
      | none => T * xi + K + colOf Pu t)
      = Gen.SimulateFlat.state_step T K (some Pu) (some imp.toList) none xi (t : Int) := by
  unfold Gen.SimulateFlat.state_step
  simp only []
  rw [listGet_natCast, add_colAt _ Pu hw t]
  have e : imp.toList.getD t none = imp.getD t none := by
    simp [List.getD_eq_getElem?_getD, Array.getD_eq_getD_getElem?]
  rw [e]
  cases imp.getD t none <;> rfl

/-- the shock array of a frame, as `simulateFrame` builds it -/
def framePu (sol : Solution) (deviation : Bool) (d : Data) : QMat :=
  if d.u.rows == 0 then QMat.zero sol.T.rows d.x.cols
  else (if deviation then deviationSolution sol else sol).P * d.u

theorem framePu_ws (sol : Solution) (deviation : Bool) (d : Data) : (framePu sol deviation d).wellShaped = true := by
  unfold framePu
  split
  · exact wellShaped_zero _ _
  · exact wellShaped_mul _ _

/-- the model's frame loop with the state update as a parameter -/
def frameWith (step : QMat → Nat → QMat) (ms : MeasSol) (deviation : Bool) (solvec : List Token)
    (trueInit : List Bool) (d : Data) (first simLast : Nat) : Data :=
  let msT := if deviation then deviationMeas ms else ms
  let curr := currIndexes solvec
  let cols := (List.range (simLast + 1 - first)).map (· + first)
  let r := cols.foldl (fun (st : QMat × QMat × QMat) (t : Nat) =>
      let xi := step st.1 t
      let x := setCol st.2.1 curr t xi
      let yv := msT.Z * xi + (if d.w.rows == 0 then QMat.zero msT.Z.rows 1 else msT.H * colOf d.w t) + msT.D
      let y := setCol st.2.2 ((List.range st.2.2.rows).map (fun r => (r, r))) t yv
      (xi, x, y)) (initXi solvec trueInit d.x first, d.x, d.y)
  { d with x := r.2.1, y := r.2.2 }

/-- `simulateFrame` is `frameWith` its own three-line state update (by unfolding) -/
theorem simulateFrame_eq_frameWith (sol : Solution) (ms : MeasSol) (deviation : Bool) (solvec : List Token)
    (trueInit : List Bool) (d : Data) (first simLast : Nat) :
    simulateFrame sol ms deviation solvec trueInit d first simLast =
      frameWith (fun xi t =>
          match (antImpact sol d.v first simLast d.x.cols).getD t none with
          | some s => (if deviation then deviationSolution sol else sol).T * xi
              + (if deviation then deviationSolution sol else sol).K + colOf (framePu sol deviation d) t + s
          | none => (if deviation then deviationSolution sol else sol).T * xi
              + (if deviation then deviationSolution sol else sol).K + colOf (framePu sol deviation d) t)
        ms deviation solvec trueInit d first simLast := by
  unfold simulateFrame frameWith framePu
  simp only []
  congr 1

/-- **`simulateFrame` runs the regenerated recursion**: the model's frame simulation is its frame loop with the state
update replaced by the generated `state_step` (from `simulate_flat`'s loop body), for every solution, data and frame -/
theorem simulateFrame_eq_generated (sol : Solution) (ms : MeasSol) (deviation : Bool) (solvec : List Token)
    (trueInit : List Bool) (d : Data) (first simLast : Nat) :
    simulateFrame sol ms deviation solvec trueInit d first simLast =
      frameWith (fun xi t => Gen.SimulateFlat.state_step (if deviation then deviationSolution sol else sol).T
          (if deviation then deviationSolution sol else sol).K (some (framePu sol deviation d))
          (some (antImpact sol d.v first simLast d.x.cols).toList) none xi (t : Int))
        ms deviation solvec trueInit d first simLast := by
  rw [simulateFrame_eq_frameWith]
  congr 1
  funext xi t
  exact model_eq_generated_state_step' _ _ _ xi (framePu_ws sol deviation d) _ t

end IrisVerif.GenTieC01
