/-
C02 — the generated AD rules of `Atom` (`Generated/AtomGen.lean`) instantiated at `ℝ`, and one soundness lemma per rule.

`Rep v d f x` says that the Atom `(v, d)` represents the function `f` at the point `x`: `f x = v` and `f` has
derivative `d` at `x`.  Each lemma has the form "if the operands represent `f`, `g` then the generated rule
represents `f ⊕ g`", under the domain guard the mathematics needs.  The proofs unfold the generated definitions, so
a changed rule in `differentiators.py` re-checks (and, when wrong, breaks) exactly its lemma.
-/
import Mathlib.Analysis.SpecialFunctions.Log.Deriv
import Mathlib.Analysis.SpecialFunctions.Pow.Deriv
import Mathlib.Analysis.SpecialFunctions.ExpDeriv
import Mathlib.Analysis.SpecialFunctions.Sqrt
import IrisVerif.Model.Expr

namespace IrisVerif.AD
open IrisVerif.Gen

/-- the real-number meaning of the abstract symbols of the rules -/
noncomputable instance instADFunReal : ADFun ℝ where
  log := Real.log
  exp := Real.exp
  sqrt := Real.sqrt
  expit x := 1 / (1 + Real.exp (-x))
  pw x y := x ^ y
  ltb a b := decide (a < b)
  eqb a b := decide (a = b)

@[simp] theorem adfun_log (x : ℝ) : ADFun.log x = Real.log x := rfl
@[simp] theorem adfun_exp (x : ℝ) : ADFun.exp x = Real.exp x := rfl
@[simp] theorem adfun_sqrt (x : ℝ) : ADFun.sqrt x = Real.sqrt x := rfl
@[simp] theorem adfun_expit (x : ℝ) : ADFun.expit x = 1 / (1 + Real.exp (-x)) := rfl
@[simp] theorem adfun_pw (x y : ℝ) : ADFun.pw x y = x ^ y := rfl
@[simp] theorem adfun_ltb (x y : ℝ) : ADFun.ltb x y = decide (x < y) := rfl
@[simp] theorem adfun_eqb (x y : ℝ) : ADFun.eqb x y = decide (x = y) := rfl

/-- the Atom `(v, d)` represents `f` at `x` -/
structure Rep (v d : ℝ) (f : ℝ → ℝ) (x : ℝ) : Prop where
  val : f x = v
  der : HasDerivAt f d x

variable {f g : ℝ → ℝ} {x sv sd ov od o : ℝ}

theorem Rep.congr_fun {f' : ℝ → ℝ} (h : Rep sv sd f x) (hf : ∀ y, f' y = f y) : Rep sv sd f' x := by
  have : f' = f := funext hf
  rw [this]; exact h

/-- a number is a constant function -/
theorem hasDerivAt_of_const (hg : ∀ y, g y = o) : HasDerivAt g 0 x := by
  have : g = fun _ => o := funext hg
  rw [this]; exact hasDerivAt_const x o

/-! ### one lemma per generated rule -/

theorem pos_sound (hf : Rep sv sd f x) : Rep (Atom.pos_value sv sd) (Atom.pos_diff sv sd) f x := hf

theorem neg_sound (hf : Rep sv sd f x) :
    Rep (Atom.neg_value sv sd) (Atom.neg_diff sv sd) (fun y => -f y) x :=
  ⟨by simp [Atom.neg_value, hf.val], hf.der.neg⟩

theorem add_aa_sound (hf : Rep sv sd f x) (hg : Rep ov od g x) :
    Rep (Atom.add_aa_value sv sd ov od) (Atom.add_aa_diff sv sd ov od) (fun y => f y + g y) x :=
  ⟨by simp [Atom.add_aa_value, hf.val, hg.val], hf.der.add hg.der⟩

theorem add_an_sound (hf : Rep sv sd f x) (hg : ∀ y, g y = o) :
    Rep (Atom.add_an_value sv sd o) (Atom.add_an_diff sv sd o) (fun y => f y + g y) x :=
  ⟨by simp [Atom.add_an_value, hf.val, hg], by
    have e : (fun y => f y + g y) = fun y => f y + o := by funext y; rw [hg]
    rw [e]; exact hf.der.add_const o⟩

theorem sub_aa_sound (hf : Rep sv sd f x) (hg : Rep ov od g x) :
    Rep (Atom.sub_aa_value sv sd ov od) (Atom.sub_aa_diff sv sd ov od) (fun y => f y - g y) x :=
  ⟨by simp [Atom.sub_aa_value, hf.val, hg.val], hf.der.sub hg.der⟩

theorem sub_an_sound (hf : Rep sv sd f x) (hg : ∀ y, g y = o) :
    Rep (Atom.sub_an_value sv sd o) (Atom.sub_an_diff sv sd o) (fun y => f y - g y) x :=
  ⟨by simp [Atom.sub_an_value, hf.val, hg], by
    have e : (fun y => f y - g y) = fun y => f y - o := by funext y; rw [hg]
    rw [e]; exact hf.der.sub_const o⟩

theorem mul_aa_sound (hf : Rep sv sd f x) (hg : Rep ov od g x) :
    Rep (Atom.mul_aa_value sv sd ov od) (Atom.mul_aa_diff sv sd ov od) (fun y => f y * g y) x :=
  ⟨by simp [Atom.mul_aa_value, hf.val, hg.val], by
    have := hf.der.mul hg.der
    rw [hf.val, hg.val] at this
    exact this⟩

theorem mul_an_sound (hf : Rep sv sd f x) (hg : ∀ y, g y = o) :
    Rep (Atom.mul_an_value sv sd o) (Atom.mul_an_diff sv sd o) (fun y => f y * g y) x :=
  ⟨by simp [Atom.mul_an_value, hf.val, hg], by
    have e : (fun y => f y * g y) = fun y => f y * o := by funext y; rw [hg]
    rw [e]; exact hf.der.mul_const o⟩

/-- number * Atom goes through `__rmul__ = __mul__`: the product is commuted -/
theorem rmul_sound (hf : Rep sv sd f x) (hg : ∀ y, g y = o) :
    Rep (Atom.mul_an_value sv sd o) (Atom.mul_an_diff sv sd o) (fun y => g y * f y) x :=
  (mul_an_sound hf hg).congr_fun (fun _ => mul_comm _ _)

/-- number + Atom goes through `__radd__ = __add__` -/
theorem radd_sound (hf : Rep sv sd f x) (hg : ∀ y, g y = o) :
    Rep (Atom.add_an_value sv sd o) (Atom.add_an_diff sv sd o) (fun y => g y + f y) x :=
  (add_an_sound hf hg).congr_fun (fun _ => add_comm _ _)

theorem truediv_aa_sound (hf : Rep sv sd f x) (hg : Rep ov od g x) (h0 : ov ≠ 0) :
    Rep (Atom.truediv_aa_value sv sd ov od) (Atom.truediv_aa_diff sv sd ov od) (fun y => f y / g y) x :=
  ⟨by simp [Atom.truediv_aa_value, hf.val, hg.val], by
    have := hf.der.div hg.der (by rw [hg.val]; exact h0)
    rw [hf.val, hg.val] at this
    refine this.congr_deriv ?_
    simp [Atom.truediv_aa_diff]⟩

theorem truediv_an_sound (hf : Rep sv sd f x) (hg : ∀ y, g y = o) :
    Rep (Atom.truediv_an_value sv sd o) (Atom.truediv_an_diff sv sd o) (fun y => f y / g y) x :=
  ⟨by simp [Atom.truediv_an_value, hf.val, hg], by
    have e : (fun y => f y / g y) = fun y => f y / o := by funext y; rw [hg]
    rw [e]; exact hf.der.div_const o⟩

theorem rtruediv_sound (hf : Rep sv sd f x) (hg : ∀ y, g y = o) (h0 : sv ≠ 0) :
    Rep (Atom.rtruediv_value sv sd o) (Atom.rtruediv_diff sv sd o) (fun y => g y / f y) x :=
  ⟨by simp [Atom.rtruediv_value, hf.val, hg], by
    have := (hasDerivAt_const x o).div hf.der (by rw [hf.val]; exact h0)
    rw [hf.val] at this
    have e : (fun y => g y / f y) = (fun _ => o) / f := by funext y; simp [hg]
    rw [e]
    refine this.congr_deriv ?_
    simp [Atom.rtruediv_diff]⟩

theorem rsub_sound (hf : Rep sv sd f x) (hg : ∀ y, g y = o) :
    Rep (Atom.rsub_value sv sd o) (Atom.rsub_diff sv sd o) (fun y => g y - f y) x :=
  ⟨by simp [Atom.rsub_value, hf.val, hg]; ring, by
    have := hf.der.neg.add_const o
    have e : (fun y => g y - f y) = fun y => -f y + o := by funext y; rw [hg]; ring
    rw [e]
    exact this⟩

/-- `Atom._power`: `self ** number` -/
theorem power_sound (hf : Rep sv sd f x) (hg : ∀ y, g y = o) (h0 : sv ≠ 0 ∨ 1 ≤ o) :
    Rep (Atom.power_value sv sd o) (Atom.power_diff sv sd o) (fun y => f y ^ g y) x :=
  ⟨by simp [Atom.power_value, hf.val, hg], by
    have := hf.der.rpow_const (p := o) (by rw [hf.val]; exact h0)
    rw [hf.val] at this
    have e : (fun y => f y ^ g y) = fun y => f y ^ o := by funext y; rw [hg]
    rw [e]
    refine this.congr_deriv ?_
    simp [Atom.power_diff]; ring⟩

theorem pow_an_sound (hf : Rep sv sd f x) (hg : ∀ y, g y = o) (h0 : sv ≠ 0 ∨ 1 ≤ o) :
    Rep (Atom.pow_an_value sv sd o) (Atom.pow_an_diff sv sd o) (fun y => f y ^ g y) x :=
  power_sound hf hg h0

/-- `Atom._exponential`: `number ** self` (only reached from `__pow__` of two Atoms) -/
theorem exponential_sound (hf : Rep sv sd f x) (hg : ∀ y, g y = o) (h0 : 0 < o) :
    Rep (Atom.exponential_value sv sd o) (Atom.exponential_diff sv sd o) (fun y => g y ^ f y) x :=
  ⟨by simp [Atom.exponential_value, hf.val, hg], by
    have := hf.der.const_rpow h0
    rw [hf.val] at this
    have e : (fun y => g y ^ f y) = fun y => o ^ f y := by funext y; rw [hg]
    rw [e]
    refine this.congr_deriv ?_
    simp [Atom.exponential_diff]; ring⟩

theorem pow_aa_sound (hf : Rep sv sd f x) (hg : Rep ov od g x) (h0 : 0 < sv) :
    Rep (Atom.pow_aa_value sv sd ov od) (Atom.pow_aa_diff sv sd ov od) (fun y => f y ^ g y) x :=
  ⟨by simp [Atom.pow_aa_value, hf.val, hg.val], by
    have := hf.der.rpow hg.der (by rw [hf.val]; exact h0)
    rw [hf.val, hg.val] at this
    refine this.congr_deriv ?_
    simp [Atom.pow_aa_diff]; ring⟩

theorem log_sound (hf : Rep sv sd f x) (h0 : sv ≠ 0) :
    Rep (Atom.log_value sv sd) (Atom.log_diff sv sd) (fun y => Real.log (f y)) x :=
  ⟨by simp [Atom.log_value, hf.val], by
    have := hf.der.log (by rw [hf.val]; exact h0)
    rw [hf.val] at this
    refine this.congr_deriv ?_
    simp [Atom.log_diff]; ring⟩

theorem exp_sound (hf : Rep sv sd f x) :
    Rep (Atom.exp_value sv sd) (Atom.exp_diff sv sd) (fun y => Real.exp (f y)) x :=
  ⟨by simp [Atom.exp_value, hf.val], by
    have := hf.der.exp
    rw [hf.val] at this
    exact this⟩

/-- the logistic function `1/(1+exp(-z))` -/
theorem logistic_sound (hf : Rep sv sd f x) :
    Rep (Atom.logistic_value sv sd) (Atom.logistic_diff sv sd) (fun y => 1 / (1 + Real.exp (-f y))) x :=
  ⟨by simp [Atom.logistic_value, hf.val], by
    have hpos : (1 + Real.exp (-f x)) ≠ 0 := by positivity
    have h1 : HasDerivAt (fun y => 1 + Real.exp (-f y)) (Real.exp (-f x) * -sd) x :=
      (hf.der.neg.exp).const_add 1
    have := (hasDerivAt_const x (1 : ℝ)).div h1 hpos
    have e : (fun y => 1 / (1 + Real.exp (-f y))) = (fun _ => (1 : ℝ)) / fun y => 1 + Real.exp (-f y) := by
      funext y; simp
    rw [e]
    refine this.congr_deriv ?_
    rw [hf.val] at hpos ⊢
    simp only [Atom.logistic_diff, adfun_expit, Nat.cast_one]
    field_simp
    ring⟩

/-! ### `maximum` with a number floor, away from the kink -/

theorem maximum_an_sound (hf : Rep sv sd f x) (hg : ∀ y, g y = o) (hne : sv ≠ o) :
    Rep (Atom.maximum_an_value sv sd o) (Atom.maximum_an_diff sv sd o) (fun y => max (f y) (g y)) x := by
  have hcont : ContinuousAt f x := hf.der.continuousAt
  rcases lt_or_gt_of_ne hne with hlt | hgt
  · -- below the floor: locally constant
    refine ⟨by simp [Atom.maximum_an_value, hf.val, hg, hlt, le_of_lt hlt], ?_⟩
    have hev : ∀ᶠ y in nhds x, f y < o := hcont.eventually_lt continuousAt_const (by rw [hf.val]; exact hlt)
    have : (fun y => max (f y) (g y)) =ᶠ[nhds x] fun _ => o := by
      filter_upwards [hev] with y hy
      rw [hg]; exact max_eq_right (le_of_lt hy)
    have hd : HasDerivAt (fun _ : ℝ => o) 0 x := hasDerivAt_const x o
    refine (hd.congr_of_eventuallyEq this).congr_deriv ?_
    simp [Atom.maximum_an_diff, hlt]
  · refine ⟨by simp [Atom.maximum_an_value, hf.val, hg, not_lt.mpr (le_of_lt hgt), le_of_lt hgt], ?_⟩
    have hev : ∀ᶠ y in nhds x, o < f y := continuousAt_const.eventually_lt hcont (by rw [hf.val]; exact hgt)
    have : (fun y => max (f y) (g y)) =ᶠ[nhds x] f := by
      filter_upwards [hev] with y hy
      rw [hg]; exact max_eq_left (le_of_lt hy)
    refine (hf.der.congr_of_eventuallyEq this).congr_deriv ?_
    simp [Atom.maximum_an_diff, not_lt.mpr (le_of_lt hgt), hgt]

/-- the true derivative of `max f g` away from the kink (what a correct `maximum` rule must return) -/
theorem max_hasDerivAt (hf : Rep sv sd f x) (hg : Rep ov od g x) (hne : sv ≠ ov) :
    HasDerivAt (fun y => max (f y) (g y)) (if sv < ov then od else sd) x := by
  have hcf : ContinuousAt f x := hf.der.continuousAt
  have hcg : ContinuousAt g x := hg.der.continuousAt
  rcases lt_or_gt_of_ne hne with hlt | hgt
  · have hev : ∀ᶠ y in nhds x, f y < g y := hcf.eventually_lt hcg (by rw [hf.val, hg.val]; exact hlt)
    have : (fun y => max (f y) (g y)) =ᶠ[nhds x] g := by
      filter_upwards [hev] with y hy
      exact max_eq_right (le_of_lt hy)
    refine (hg.der.congr_of_eventuallyEq this).congr_deriv ?_
    simp [hlt]
  · have hev : ∀ᶠ y in nhds x, g y < f y := hcg.eventually_lt hcf (by rw [hf.val, hg.val]; exact hgt)
    have : (fun y => max (f y) (g y)) =ᶠ[nhds x] f := by
      filter_upwards [hev] with y hy
      exact max_eq_left (le_of_lt hy)
    refine (hf.der.congr_of_eventuallyEq this).congr_deriv ?_
    simp [not_lt.mpr (le_of_lt hgt)]

/-- the value of `maximum` with an Atom floor is the maximum -/
theorem maximum_aa_value_eq : Atom.maximum_aa_value sv sd ov od = max sv ov := by
  simp only [Atom.maximum_aa_value, adfun_ltb, decide_eq_true_eq]
  split
  · rename_i h; exact (max_eq_right (le_of_lt h)).symm
  · rename_i h; exact (max_eq_left (not_lt.mp h)).symm

/-- the true derivative of `sqrt f` (what a correct `sqrt` rule must return) -/
theorem sqrt_hasDerivAt (hf : Rep sv sd f x) (h0 : 0 < sv) :
    HasDerivAt (fun y => Real.sqrt (f y)) (sd / (2 * Real.sqrt sv)) x := by
  have := hf.der.sqrt (by rw [hf.val]; exact ne_of_gt h0)
  rwa [hf.val] at this

/-- every pair `(v, d)` is represented by some function: the affine one -/
theorem rep_affine (v d x : ℝ) : Rep v d (fun y => v + d * (y - x)) x :=
  ⟨by simp, by
    have := (((hasDerivAt_id x).sub_const x).const_mul d).const_add v
    refine this.congr_deriv ?_
    simp⟩

/-- `finite_differentiators._get_epsilon`: the step `max(|value|, 1) · 1e-6` -/
noncomputable def getEpsilon (v : ℝ) : ℝ := max |v| 1 * (1 / 1000000)

theorem getEpsilon_pos (v : ℝ) : 0 < getEpsilon v := by
  unfold getEpsilon
  have : (0 : ℝ) < max |v| 1 := lt_of_lt_of_le one_pos (le_max_right _ _)
  positivity

/-- a separable quadratic in any number of arguments: `Σ_k (a_k x_k² + b_k x_k)` (coefficients `(a_k, b_k)`) -/
def sepQuad : List (ℝ × ℝ) → List ℝ → ℝ
  | (a, b) :: cs, x :: xs => a * x ^ 2 + b * x + sepQuad cs xs
  | _, _ => 0

/-- its gradient contracted with the inner derivatives: `Σ_k (2 a_k v_k + b_k) d_k` -/
def sepQuadDiff : List (ℝ × ℝ) → List (ℝ × ℝ × ℝ) → ℝ
  | (a, b) :: cs, (v, d, _) :: rest => (2 * a * v + b) * d + sepQuadDiff cs rest
  | _, _ => 0

end IrisVerif.AD
