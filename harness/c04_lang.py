"""
C04 helper: structured models of the irispie model language -- trees, the independent evaluator (oracle),
the encoder for the Lean driver, the random generator and the renderer with all syntactic alternatives.

Trees are JSON-friendly lists:
  ["num", "n/d"]  ["name", n, k]  ["neg", e]  ["bin", op, a, b] (op in + - * / ^)  ["f1", f, a]  ["f2", f, a, b]
  ["pf", spelling, k | None, e]  ["subs", s]
Inside a `!for` template a name may be ["tname", pieces, k] with pieces = [["lit", s] | ["ctl", mode]].
"""
from __future__ import annotations
import math
from fractions import Fraction

PF_SPELLINGS = {
    "shift": ("shift", -1), "diff": ("diff", -1), "diff_log": ("difflog", -1), "difflog": ("difflog", -1),
    "pct": ("pct", -1), "roc": ("roc", -1), "mov_sum": ("movsum", -4), "movsum": ("movsum", -4),
    "mov_avg": ("movavg", -4), "movavg": ("movavg", -4), "mov_prod": ("movprod", -4), "movprod": ("movprod", -4),
}
# the documented meaning, written here from the property statement / user documentation, NOT from the expanders:
#   shift(e,k)(t) = e(t+k); diff = e(t)-e(t+k); difflog = log e(t) - log e(t+k); pct = 100*(e(t)/e(t+k)-1); roc = e(t)/e(t+k)
#   movsum(e,k) = sum_{i<|k|} e(t + sgn(k) i); movavg = movsum/|k|; movprod = product

FUNCS1 = {"log": math.log, "exp": math.exp, "sqrt": math.sqrt, "abs": abs, "dbl": lambda x: x + x, "sq": lambda x: x * x}
FUNCS2 = {"maximum": max, "minimum": min, "avg2": lambda x, y: (x + y) / 2}
EXACT_F1 = {"abs", "dbl", "sq"}
EXACT_F2 = {"maximum", "minimum", "avg2"}


def context_functions():
    """the user functions passed to irispie through `context=`"""
    return {"dbl": lambda x: x + x, "sq": lambda x: x * x, "avg2": lambda x, y: (x + y) / 2,
            "mix3": lambda a, b, c: a * b + c, "wavg": lambda a, b, w=0.5: w * a + (1 - w) * b}


def _norm_z(x, loc=0.0, scale=1.0):
    return (x - loc) / scale


# documented meaning of every function the language offers inside equations (written from the mathematical definitions with
# the `math` module only -- not from numpy/scipy and not from irispie's table), by name -> (allowed arities, callable)
DOCUMENTED_FUNCTIONS = {
    "log": ((1,), lambda x: math.log(x)),
    "exp": ((1,), lambda x: math.exp(x)),
    "sqrt": ((1,), lambda x: math.sqrt(x)),
    "abs": ((1,), lambda x: abs(x)),
    "logistic": ((1,), lambda x: 1.0 / (1.0 + math.exp(-x))),
    "maximum": ((2,), lambda a, b: max(a, b)),
    "minimum": ((2,), lambda a, b: min(a, b)),
    # normal distribution with mean `loc` and standard deviation `scale` (defaults 0 and 1)
    "normal_cdf": ((1, 2, 3), lambda x, loc=0.0, scale=1.0: 0.5 * (1.0 + math.erf(_norm_z(x, loc, scale) / math.sqrt(2.0)))),
    "normal_pdf": ((1, 2, 3), lambda x, loc=0.0, scale=1.0: math.exp(-0.5 * _norm_z(x, loc, scale) ** 2) / (scale * math.sqrt(2.0 * math.pi))),
    # user functions handed over in `context=`
    "dbl": ((1,), lambda x: x + x),
    "sq": ((1,), lambda x: x * x),
    "avg2": ((2,), lambda x, y: (x + y) / 2),
    "mix3": ((3,), lambda a, b, c: a * b + c),
    "wavg": ((2, 3), lambda a, b, w=0.5: w * a + (1 - w) * b),
}
POSITIVE_ARGS = {"log": (0,), "sqrt": (0,), "normal_cdf": (2,), "normal_pdf": (2,)}   # argument positions that must be positive


def frac(s) -> Fraction:
    return Fraction(s)


# ---------------------------------------------------------------------------------------
# independent evaluator of the UNEXPANDED structured equation
# ---------------------------------------------------------------------------------------

class NotExact(Exception):
    pass


def ev(tree, data, t, subs, shocks, exact: bool):
    """value of `tree` in period t. data: name -> {period: Fraction}. `shocks`: names that stand for shock + anticipated
    shock (dynamic transition equations). exact=True: Fractions throughout (raises NotExact when impossible)."""
    k = tree[0]
    if k == "num":
        v = frac(tree[1])
        return v if exact else float(v)
    if k == "name":
        n, s = tree[1], tree[2]
        v = data[n][t + s]
        if n in shocks:
            v = v + data["ant_" + n][t + s]
        return v if exact else float(v)
    if k == "neg":
        return -ev(tree[1], data, t, subs, shocks, exact)
    if k == "bin":
        op = tree[1]
        a = ev(tree[2], data, t, subs, shocks, exact)
        b = ev(tree[3], data, t, subs, shocks, exact)
        if op == "+": return a + b
        if op == "-": return a - b
        if op == "*": return a * b
        if op == "/":
            if exact and b == 0: raise NotExact()
            return a / b
        if op == "^":
            if exact:
                if b.denominator != 1 or (b < 0 and a == 0): raise NotExact()
                return a ** int(b)
            return a ** b
    if k == "f1":
        a = ev(tree[2], data, t, subs, shocks, exact)
        if exact and tree[1] not in EXACT_F1: raise NotExact()
        return FUNCS1[tree[1]](a)
    if k == "f2":
        a = ev(tree[2], data, t, subs, shocks, exact)
        b = ev(tree[3], data, t, subs, shocks, exact)
        return FUNCS2[tree[1]](a, b)
    if k == "subs":
        return ev(subs[tree[1]], data, t, subs, shocks, exact)
    if k == "forsum":
        return ev(tree[4], data, t, subs, shocks, exact)
    if k == "cnum":
        if exact: raise NotExact()
        return float.fromhex(tree[2])
    if k == "fntuple":
        if exact: raise NotExact()
        return DOCUMENTED_FUNCTIONS[tree[1]][1](*[float.fromhex(h) for h in tree[3]])
    if k == "fn":
        if exact: raise NotExact()
        args = [ev(a, data, t, subs, shocks, False) for a in tree[2]]
        return DOCUMENTED_FUNCTIONS[tree[1]][1](*args)
    if k == "pf":
        kind, dflt = PF_SPELLINGS[tree[1]]
        sh = dflt if tree[2] is None else tree[2]
        e = tree[3]
        at = lambda s: ev(e, data, t + s, subs, shocks, exact)
        if kind == "shift": return at(sh)
        if kind == "diff": return at(0) - at(sh)
        if kind == "difflog":
            if exact: raise NotExact()
            return math.log(at(0)) - math.log(at(sh))
        if kind == "pct":
            d = at(sh)
            if exact and d == 0: raise NotExact()
            return 100 * (at(0) / d - 1)
        if kind == "roc":
            d = at(sh)
            if exact and d == 0: raise NotExact()
            return at(0) / d
        sg = 1 if sh > 0 else -1
        terms = [at(sg * i) for i in range(abs(sh))]
        if kind == "movsum" and not terms:
            return Fraction(0) if exact else 0.0          # the empty sum
        if kind == "movsum":
            acc = terms[0]
            for x in terms[1:]: acc = acc + x
            return acc
        if kind == "movavg":
            acc = terms[0]
            for x in terms[1:]: acc = acc + x
            return acc / abs(sh)
        if kind == "movprod":
            acc = terms[0]
            for x in terms[1:]: acc = acc * x
            return acc
    raise ValueError(f"bad tree {tree!r}")


def ev_eqn(eqn, data, t, subs, shocks, exact):
    """rhs minus lhs of an equation version (`["eq", l, r]`), or the value of a bare expression"""
    if eqn[0] == "eq":
        return ev(eqn[2], data, t, subs, shocks, exact) - ev(eqn[1], data, t, subs, shocks, exact)
    return ev(eqn[1], data, t, subs, shocks, exact)


def poly_bound(tree, subs, leaf=(4, 3)):
    """(bound on |value| of every intermediate in any evaluation order, exponent e with 2**e * value integral) for trees made
    of + - * neg, natural powers and exact functions over dyadic data; None when the tree leaves exact double arithmetic"""
    k = tree[0]
    if k == "num":
        v = frac(tree[1])
        d = v.denominator
        if d & (d - 1): return None
        return (abs(v), d.bit_length() - 1)
    if k == "name":
        return (2 * leaf[0], leaf[1])          # shock + anticipated shock
    if k == "neg":
        return poly_bound(tree[1], subs, leaf)
    if k == "subs":
        return poly_bound(subs[tree[1]], subs, leaf)
    if k == "bin":
        a, b = poly_bound(tree[2], subs, leaf), poly_bound(tree[3], subs, leaf)
        op = tree[1]
        if op == "^":
            if a is None or tree[3][0] != "num": return None
            n = frac(tree[3][1])
            if n.denominator != 1 or n < 0 or n > 4: return None
            return (max(a[0], 1) ** int(n), a[1] * int(n))
        if a is None or b is None: return None
        if op in "+-": return (a[0] + b[0], max(a[1], b[1]))
        if op == "*": return (a[0] * b[0], a[1] + b[1])
        if op == "/":
            if tree[3][0] != "num": return None
            d = frac(tree[3][1])
            if d.numerator <= 0 or (d.numerator & (d.numerator - 1)): return None
            return (a[0] * d.denominator, a[1] + d.numerator.bit_length() - 1)
    if k == "f1":
        a = poly_bound(tree[2], subs, leaf)
        if a is None or tree[1] not in EXACT_F1: return None
        if tree[1] == "dbl": return (2 * a[0], a[1])
        if tree[1] == "sq": return (a[0] * a[0], 2 * a[1])
        return a
    if k == "f2":
        a, b = poly_bound(tree[2], subs, leaf), poly_bound(tree[3], subs, leaf)
        if a is None or b is None or tree[1] not in EXACT_F2: return None
        if tree[1] == "avg2": return (a[0] + b[0], max(a[1], b[1]) + 1)
        return (max(a[0], b[0]), max(a[1], b[1]))
    if k == "forsum":
        return poly_bound(tree[4], subs, leaf)
    if k == "pf":
        kind, dflt = PF_SPELLINGS[tree[1]]
        sh = dflt if tree[2] is None else tree[2]
        a = poly_bound(tree[3], subs, leaf)
        if a is None: return None
        n = abs(sh)
        if kind == "shift": return a
        if kind == "diff": return (2 * a[0], a[1])
        if kind == "movsum": return (n * a[0], a[1]) if n else (0, 0)
        if kind == "movprod": return (max(a[0], 1) ** n, a[1] * n) if n else None
        if kind == "movavg":
            if n == 0 or (n & (n - 1)): return None
            return (n * a[0], a[1] + n.bit_length() - 1)
        return None
    return None


def float_exact_tree(tree, subs) -> bool:
    """only operations that IEEE double arithmetic performs identically in irispie's compiled equation and in the plain Python
    evaluator, in the same order: + - * / unary minus, names, any float constant, shift/diff/mov_sum, piecewise-linear functions"""
    k = tree[0]
    if k in ("num", "name", "cnum"): return True
    if k == "neg": return float_exact_tree(tree[1], subs)
    if k == "bin": return tree[1] in "+-*/" and float_exact_tree(tree[2], subs) and float_exact_tree(tree[3], subs)
    if k == "forsum": return float_exact_tree(tree[4], subs)
    if k == "subs": return float_exact_tree(subs[tree[1]], subs)
    if k == "fntuple": return tree[1] in ("maximum", "minimum", "avg2", "mix3")
    if k == "pf": return PF_SPELLINGS[tree[1]][0] in ("shift", "diff", "movsum") and float_exact_tree(tree[3], subs)
    return False


def additive_top(tree) -> bool:
    """`lhs = a + b` is compiled to `-(lhs)+a+b`, i.e. ((-lhs)+a)+b: the same value as (a+b)-lhs in exact arithmetic but not
    necessarily bit for bit in doubles; bit-exact comparison is therefore limited to right-hand sides that are a single term"""
    return (tree[0] == "bin" and tree[1] in "+-") or tree[0] == "forsum"


def int_kind(tree, subs):
    """for a names-free subtree: 'py' when it evaluates with Python integers only, 'np' when a numpy function (abs, maximum,
    minimum) turns it into a numpy integer scalar, None when it is (or may be) a float -- assuming integer literals are spelled
    as integers (whether they are is a choice of the rendering)"""
    k = tree[0]
    if k == "num":
        return "py" if frac(tree[1]).denominator == 1 else None
    if k == "neg":
        return int_kind(tree[1], subs)
    if k == "subs":
        return int_kind(subs[tree[1]], subs)
    if k == "bin":
        a, b = int_kind(tree[2], subs), int_kind(tree[3], subs)
        if a is None or b is None or tree[1] == "/":
            return None
        if tree[1] == "^":
            try:
                e = ev(tree[3], {}, 0, subs, set(), True)
            except Exception:
                return None
            if e < 0:
                return None
        return "np" if "np" in (a, b) else "py"
    if k == "f1" and tree[1] in ("abs", "dbl", "sq"):
        a = int_kind(tree[2], subs)
        return None if a is None else ("np" if tree[1] == "abs" else a)
    if k == "f2" and tree[1] in ("maximum", "minimum"):
        a, b = int_kind(tree[2], subs), int_kind(tree[3], subs)
        return None if (a is None or b is None) else "np"
    return None


def has_int_const_to_negative_power(tree, subs) -> bool:
    """is there a `base ^ exponent` whose base is an integer-valued constant subexpression that goes through a numpy function
    (so that it is a numpy integer scalar) and whose exponent is a constant negative integer? numpy refuses that power."""
    if not isinstance(tree, list) or not tree:
        return False
    if tree[0] == "bin" and tree[1] == "^" and int_kind(tree[2], subs) == "np":
        try:
            e = ev(tree[3], {}, 0, subs, set(), True)
            if e.denominator == 1 and e < 0 and int_kind(tree[3], subs) is not None:
                return True
        except Exception:
            pass
    if tree[0] == "subs":
        return has_int_const_to_negative_power(subs[tree[1]], subs)
    return any(has_int_const_to_negative_power(x, subs) for x in tree[1:] if isinstance(x, list))


def eqn_is_exact(eqn, subs) -> bool:
    parts = eqn[1:]
    tot, ex = 0, 0
    for p in parts:
        b = poly_bound(p, subs)
        if b is None: return False
        tot += b[0]; ex = max(ex, b[1])
    return tot * (1 << ex) < (1 << 50)


def abs_scale(tree, data, t, subs, shocks):
    """sum of absolute values of the leaves' contributions: the scale for the class-T tolerance"""
    k = tree[0]
    if k in ("num", "name"):
        return abs(ev(tree, data, t, subs, shocks, False))
    if k == "neg":
        return abs_scale(tree[1], data, t, subs, shocks)
    if k == "bin" and tree[1] in "+-":
        return abs_scale(tree[2], data, t, subs, shocks) + abs_scale(tree[3], data, t, subs, shocks)
    if k == "bin" and tree[1] == "*":
        return abs_scale(tree[2], data, t, subs, shocks) * abs_scale(tree[3], data, t, subs, shocks)
    if k == "subs":
        return abs_scale(subs[tree[1]], data, t, subs, shocks)
    if k == "forsum":
        return abs_scale(tree[4], data, t, subs, shocks)
    if k == "cnum":
        return abs(float.fromhex(tree[2]))
    if k == "pf":
        kind, dflt = PF_SPELLINGS[tree[1]]
        sh = dflt if tree[2] is None else tree[2]
        n = max(abs(sh), 1)
        sg = 1 if sh > 0 else -1
        if kind in ("shift",):
            return abs_scale(tree[3], data, t + sh, subs, shocks)
        if kind == "diff":
            return abs_scale(tree[3], data, t, subs, shocks) + abs_scale(tree[3], data, t + sh, subs, shocks)
        if kind in ("movsum", "movavg"):
            return sum(abs_scale(tree[3], data, t + sg * i, subs, shocks) for i in range(n))
        if kind == "movprod":
            p = 1.0
            for i in range(n): p *= max(abs_scale(tree[3], data, t + sg * i, subs, shocks), 1.0)
            return p
        if kind == "pct":
            return 100.0 + abs(ev(tree, data, t, subs, shocks, False)) + 100.0
    # division, powers, functions: arguments are cancellation-free by construction (positive subtrees)
    return abs(ev(tree, data, t, subs, shocks, False)) + 1.0


def eqn_scale(eqn, data, t, subs, shocks):
    return 1.0 + sum(abs_scale(p, data, t, subs, shocks) for p in eqn[1:])


# ---------------------------------------------------------------------------------------
# encoding for the Lean driver
# ---------------------------------------------------------------------------------------

def rat_text(q: Fraction) -> str:
    return f"{q.numerator}/{q.denominator}"


def enc_tree(tree) -> str:
    k = tree[0]
    if k == "num": return "#" + rat_text(frac(tree[1]))
    if k == "name": return f"n:{tree[1]}:{tree[2]}"
    if k == "neg": return "~ " + enc_tree(tree[1])
    if k == "bin": return f"{tree[1]} {enc_tree(tree[2])} {enc_tree(tree[3])}"
    if k == "f1": return f"f:{tree[1]} {enc_tree(tree[2])}"
    if k == "f2": return f"g:{tree[1]} {enc_tree(tree[2])} {enc_tree(tree[3])}"
    if k == "pf": return f"p:{tree[1]}:{'_' if tree[2] is None else tree[2]} {enc_tree(tree[3])}"
    if k == "subs": return f"$:{tree[1]}"
    if k == "forsum": return enc_tree(tree[4])
    raise ValueError(tree)


def enc_eqn(eqn) -> str:
    if eqn[0] == "eq": return f"= {enc_tree(eqn[1])} {enc_tree(eqn[2])}"
    return "e " + enc_tree(eqn[1])


def enc_descr(s: str) -> str:
    return "_" + s.replace(" ", "~")


KIND_CODES = ["tv", "mv", "ts", "ms", "par", "exo"]


def enc_model(sm, data, t) -> str:
    """sm: structured model (see gen_model); data: name -> {period: Fraction}"""
    D = " ".join(f"{k}:{n}:{enc_descr(d)}" for k, n, d in sm["decls"])
    L = ("T" if sm["log"]["allbut"] else "F") + "".join(" " + n for n in sm["log"]["listed"])
    S = " ; ".join(f"{n} {enc_tree(e)}" for n, e in sm["subs"])
    E = " ; ".join(f"{e['kind']} {enc_descr(e['descr'])} {enc_eqn(e['dyn'])}" + (f" !! {enc_eqn(e['steady'])}" if e["steady"] else "")
                   for e in sm["eqs"])
    rows = []
    for n in sorted(data):
        ps = sorted(data[n])
        rows.append(f"{n}={ps[0]}:" + ",".join(rat_text(data[n][p]) for p in ps))
    return f"model D {D} | L {L} | S {S} | E {E} | X {t} " + " ".join(rows)


# ---------------------------------------------------------------------------------------
# random structured models
# ---------------------------------------------------------------------------------------

NAME_POOLS = {
    "tv": ["x", "xx", "x_1", "x1", "y", "yy", "xy", "k", "kk", "c", "cx", "X", "Xx", "pi"],
    "mv": ["obs_x", "obs", "o_y"],
    "ts": ["e", "ee", "e_x", "eps"],
    "ms": ["w", "ww"],
    "par": ["a", "aa", "a_1", "b", "rho", "alpha", "al"],
    "exo": ["z", "zz", "z_x"],
}
SECTOR_TOKENS = ["a", "b", "Hh", "s1", "c2", "Q"]
DESCR_WORDS = ["output", "gap", "rate", "of", "inflation", "x", "xx", "100%", "#1", "a=b", "(log)", "level;", "shock,", "real",
               "std", "Phillips", "curve", "rule:", "t-1", "x{-1}".replace("{", "[").replace("}", "]"), "..."]
CONSTS = ["1/2", "2", "1/4", "3", "5/4", "1", "3/2", "7/8", "10", "0"]
POS_CONSTS = ["1/2", "2", "1/4", "3", "5/4", "1", "3/2"]


def gen_descr(rng) -> str:
    if rng.chance(0.45):
        return ""
    return " ".join(rng.choice(DESCR_WORDS) for _ in range(rng.randint(1, 4)))


def tname_concrete(pieces, token):
    out = ""
    for p in pieces:
        if p[0] == "lit": out += p[1]
        else: out += {"plain": token, "upper": token.upper(), "lower": token.lower()}[p[1]]
    return out


def instantiate(tree, token):
    """replace the template names of a `!for` body by the names for one token"""
    if not isinstance(tree, list):
        return tree
    if tree and tree[0] == "tname":
        return ["name", tname_concrete(tree[1], token), tree[2]]
    return [instantiate(x, token) for x in tree]


class TreeGen:
    def __init__(self, rng, pools, subs_names, allow_shifted_shock=False):
        self.rng = rng
        self.pools = pools            # role -> list of leaves makers: each item is ("name", n) or ("tname", pieces)
        self.subs_names = subs_names
        self.allow_shifted_shock = allow_shifted_shock
        self.features = set()

    def shift(self, role):
        r = self.rng
        if role == "par":
            return 0 if r.chance(0.93) else r.choice([-1, 1])
        if role in ("ts", "ms"):
            if self.allow_shifted_shock and role == "ts" and r.chance(0.5):
                self.features.add("shifted_shock")
                return r.choice([-1, -2, 1])
            return 0
        return r.weighted([(0, 5), (-1, 4), (1, 2), (-2, 1), (2, 1), (-3, 1), (3, 0.5)])

    def leaf_name(self, roles, in_pf=False):
        r = self.rng
        cands = [(role, it) for role in roles for it in self.pools.get(role, [])]
        if in_pf:
            cands = [c for c in cands if c[0] not in ("ts", "ms")] or cands
        if not cands:
            return ["num", "1"]
        role, it = r.choice(cands)
        k = self.shift(role)
        if in_pf and role in ("ts", "ms"):
            k = 0
        return [it[0], it[1], k]

    def const(self, pos=False):
        return ["num", self.rng.choice(POS_CONSTS if pos else CONSTS)]

    def pos(self, roles, depth):
        """a tree that is positive on positive data (no subtraction): safe as a denominator / log argument / power base"""
        r = self.rng
        if depth <= 0 or r.chance(0.3):
            return self.leaf_name(roles) if r.chance(0.75) else self.const(True)
        c = r.weighted([("+", 3), ("*", 3), ("/", 2), ("exp", 1), ("f1", 1), ("f2", 1)])
        if c in "+*/":
            return ["bin", c, self.pos(roles, depth - 1), self.pos(roles, depth - 1)]
        if c == "exp":
            return ["f1", "exp", ["bin", "*", self.const(True), self.leaf_name(roles)] if r.chance(0.4) else self.leaf_name(roles)]
        if c == "f1":
            return ["f1", r.choice(["dbl", "abs", "sqrt"]), self.pos(roles, depth - 1)]
        return ["f2", r.choice(["maximum", "avg2", "minimum"]), self.pos(roles, depth - 1), self.pos(roles, depth - 1)]

    def atom(self, roles, pos, in_pf=True):
        return self.leaf_name(roles, in_pf=in_pf) if self.rng.chance(0.8) else self.const(pos)

    def flat(self, roles, pos):
        """argument of a pseudofunction: at most one level of parentheses, no commas (the documented limit of the regex)"""
        r = self.rng
        ops = ["+", "*"] if pos else ["+", "-", "*"]
        A = lambda: self.atom(roles, pos)
        form = r.weighted([("atom", 4), ("bin", 4), ("paren", 3), ("call", 2), ("neg", 0 if pos else 1), ("pow", 1)])
        if form == "atom":
            return self.leaf_name(roles, in_pf=True)
        if form == "bin":
            t = ["bin", r.choice(ops), A(), A()]
            if r.chance(0.4):
                t = ["bin", r.choice(ops), t, A()]
            return t
        if form == "paren":
            return ["bin", r.choice(["*", "/"] if pos else ["*"]), ["bin", r.choice(ops if not pos else ["+"]), A(), A()], A()]
        if form == "call":
            f = r.choice(["dbl", "sq", "abs"] + (["log", "exp", "sqrt"] if pos else []))
            inner = A() if r.chance(0.5) else ["bin", "+" if pos else r.choice(ops), A(), A()]
            if f == "exp":
                inner = self.leaf_name(roles, in_pf=True)
            t = ["f1", f, inner]
            if r.chance(0.4):
                t = ["bin", r.choice(ops), t, A()]
            return t
        if form == "neg":
            return ["neg", A()] if r.chance(0.5) else ["bin", "+", ["neg", A()], A()]
        return ["bin", "^", self.leaf_name(roles, in_pf=True), ["num", r.choice(["2", "3"])]]

    def pseudo(self, roles, want_poly):
        r = self.rng
        if want_poly:
            sp = r.choice(["shift", "diff", "mov_sum", "movsum", "mov_avg", "movavg", "mov_prod", "movprod", "shift", "diff"])
        else:
            sp = r.choice(list(PF_SPELLINGS))
        kind, dflt = PF_SPELLINGS[sp]
        pos = kind in ("difflog", "pct", "roc") or (not want_poly and r.chance(0.3))
        arg = self.flat(roles, pos)
        if r.chance(0.45):
            k = None
        elif kind in ("movsum", "movavg", "movprod"):
            k = r.choice([-4, -2, -3, -1, 2, 3, -5, 4, 1] if kind != "movprod" else [-2, -3, -1, 2, -4, 1])
            if kind == "movsum" and r.chance(0.12):
                k = 0                                   # the empty window
        else:
            k = r.choice([-1, -2, -4, 1, 2, -3, dflt, 0, 0, 1, -1])   # boundary values: an explicit 0 is not "no argument"
        if kind == "shift" and arg[0] not in ("name", "tname", "num"):
            self.features.add("shift_pf_nonatomic")
        return ["pf", sp, k, arg]

    def forsum(self, roles, poly):
        """a distributed-lag sum: sum over k of coef * pf(arg, -k), rendered written out or as `!for ?k = 0, 1, 2 !do + ... !end`"""
        r = self.rng
        toks = r.choice([[0, 1, 2], [0, 1], [1, 0, 2], [0, 2, 3], [0], [1, 2], [0, 1, 2, 3], [2, 0]])
        sign = r.choice(["-", "-", "+"])
        sp = r.choice(["shift", "shift", "diff", "mov_sum", "movsum"] + ([] if poly else ["roc", "pct", "diff_log"]))
        pos = PF_SPELLINGS[sp][0] in ("difflog", "pct", "roc")
        arg = self.flat(roles, pos)
        pfk = ["pfk", sp, sign, arg]
        coef = None if r.chance(0.4) else (self.leaf_name(["par"]) if r.chance(0.6) else self.const(True))
        tmpl = pfk if coef is None else ["bin", "*", coef, pfk]
        def inst(k):
            pf = ["pf", sp, (-k if sign == "-" else k), arg]
            return pf if coef is None else ["bin", "*", coef, pf]
        exp = inst(toks[0])
        for k in toks[1:]:
            exp = ["bin", "+", exp, inst(k)]
        return ["forsum", [str(k) for k in toks], sign, tmpl, exp]

    def tree(self, roles, depth, poly, top=True):
        r = self.rng
        if depth <= 0:
            return self.leaf_name(roles) if r.chance(0.8) else self.const()
        w = [("leaf", 2), ("+", 4), ("-", 3), ("*", 4), ("neg", 1), ("pow", 1), ("f1", 1.5), ("f2", 1), ("pf", 3),
             ("subs", 1.5 if self.subs_names else 0), ("div", 1.5), ("forsum", 0.9)]
        c = r.weighted(w)
        T = lambda: self.tree(roles, depth - 1, poly, False)
        if c == "leaf":
            return self.leaf_name(roles) if r.chance(0.8) else self.const()
        if c in "+-*":
            return ["bin", c, T(), T()]
        if c == "neg":
            return ["neg", T()]
        if c == "pow":
            if poly:
                return ["bin", "^", T(), ["num", r.choice(["2", "3", "2"])]]
            e = r.choice(["2", "1/2", "3/2", "3"])
            ex = ["num", e] if r.chance(0.7) else ["neg", ["num", r.choice(["1", "1/2", "2"])]]
            return ["bin", "^", self.pos(roles, depth - 1), ex]
        if c == "div":
            if poly:
                return ["bin", "/", T(), ["num", r.choice(["2", "4", "8", "1/2"])]]
            return ["bin", "/", T(), self.pos(roles, depth - 1)]
        if c == "f1":
            if poly or r.chance(0.4):
                return ["f1", r.choice(["abs", "dbl", "sq"]), T()]
            f = r.choice(["log", "sqrt", "exp"])
            return ["f1", f, self.leaf_name(roles) if f == "exp" else self.pos(roles, depth - 1)]
        if c == "f2":
            return ["f2", r.choice(["maximum", "minimum", "avg2"]), T(), T()]
        if c == "pf":
            return self.pseudo(roles, poly)
        if c == "forsum":
            return self.forsum(roles, poly)
        return ["subs", r.choice(self.subs_names)]


def gen_model(rng, shifted_shock=False):
    """a structured model: declarations in source order, families of isomorphic variables/equations (candidates for !for),
    equations as unexpanded trees, substitutions, the set of log-variables"""
    r = rng
    n_tv = r.weighted([(1, 2), (2, 3), (3, 3), (4, 1)])
    n_mv = r.weighted([(0, 4), (1, 3), (2, 1)])
    counts = {"tv": n_tv, "mv": n_mv, "ts": r.randint(0, 2), "ms": r.randint(0, 1) if n_mv else 0,
              "par": r.randint(0, 3), "exo": r.randint(0, 2)}
    names = {k: r.sample(NAME_POOLS[k], counts[k]) for k in counts}
    # a family of sector variables (rendered as written-out text or as a !for loop)
    family = None
    if r.chance(0.55) and n_tv <= 3:
        toks = r.sample(SECTOR_TOKENS, r.randint(2, 3))
        stems = {"tv": [["lit", r.choice(["c_", "q", "Inv_"])], ["ctl", "plain"]]}
        if r.chance(0.6):
            stems["par"] = [["lit", r.choice(["rho_", "g"])], ["ctl", "plain"]] + ([["lit", "_p"]] if r.chance(0.3) else [])
        if r.chance(0.4):
            stems["ts"] = [["lit", "u_"], ["ctl", "plain"]]
        if r.chance(0.35):
            stems["exo"] = [["lit", "ZZ_"], ["ctl", r.choice(["upper", "lower"])]]
        # upper/lower variants must not collide
        ok = all(len({tname_concrete(p, t) for t in toks}) == len(toks) for p in stems.values())
        if ok:
            family = {"tokens": toks, "stems": stems}
    decls, decl_groups = [], []
    for kind in ["tv", "ts", "mv", "par", "exo", "ms"]:
        for n in names[kind]:
            decls.append([kind, n, gen_descr(r)])
        if family and kind in family["stems"]:
            idx = []
            d = gen_descr(r) if r.chance(0.3) else ""
            for t in family["tokens"]:
                idx.append(len(decls))
                decls.append([kind, tname_concrete(family["stems"][kind], t), d])
            decl_groups.append({"idx": idx, "pieces": family["stems"][kind], "descr": d, "kind": kind})
    subs_names = [f"s{i}" for i in range(r.weighted([(0, 3), (1, 2), (2, 1)]))]
    poly_model = r.chance(0.5)

    def pools(with_family: bool, meas: bool):
        p = {k: [("name", n) for n in names[k]] for k in names}
        if family:
            for k, pieces in family["stems"].items():
                if with_family:
                    p[k] = p[k] + [("tname", pieces)]
                else:
                    p[k] = p[k] + [("name", tname_concrete(pieces, t)) for t in family["tokens"]]
        return p

    features = set()
    subs = []
    for s in subs_names:
        g = TreeGen(r, pools(False, False), [], False)
        subs.append([s, g.tree(["tv", "par", "exo"], 2, poly_model)])
        features |= g.features

    def gen_equation(kind, lhs_leaf, with_family):
        g = TreeGen(r, pools(with_family, kind == "M"), subs_names, shifted_shock)
        roles = ["tv", "par", "exo", "ts", "tv"] if kind == "T" else ["tv", "mv", "par", "ms", "tv"]
        depth = r.weighted([(1, 2), (2, 4), (3, 2)])

        def version():
            poly = poly_model or r.chance(0.3)
            rhs = g.tree(roles, depth, poly)
            c = r.weighted([("name", 7), ("pf", 1.2), ("expr", 1), ("bare", 0.8)])
            if c == "name":
                return ["eq", lhs_leaf, rhs]
            if c == "pf":
                sp = r.choice(["diff", "difflog", "diff_log", "pct", "roc", "shift"] if not poly else ["diff", "shift"])
                return ["eq", ["pf", sp, None if r.chance(0.5) else r.choice([-1, -2, -4]), lhs_leaf], rhs]
            if c == "expr":
                return ["eq", ["bin", r.choice(["+", "*"]), lhs_leaf, g.tree(roles, 1, poly)], rhs]
            return ["bare", ["bin", "-", lhs_leaf, rhs]]
        dyn = version()
        steady = version() if r.chance(0.25) else None
        return {"kind": kind, "descr": gen_descr(r), "dyn": dyn, "steady": steady}, g.features

    eqs, eq_groups = [], []
    for n in names["tv"]:
        e, f = gen_equation("T", ["name", n, 0], False)
        eqs.append(e); features |= f
    if family:
        tmpl, f = gen_equation("T", ["tname", family["stems"]["tv"], 0], True)
        features |= f
        idx = []
        for t in family["tokens"]:
            idx.append(len(eqs))
            eqs.append({"kind": "T", "descr": tmpl["descr"], "dyn": instantiate(tmpl["dyn"], t),
                        "steady": instantiate(tmpl["steady"], t) if tmpl["steady"] else None})
        eq_groups.append({"idx": idx, "template": tmpl})
    for n in names["mv"]:
        e, f = gen_equation("M", ["name", n, 0], False)
        eqs.append(e); features |= f
    loggable = [d[1] for d in decls if d[0] in ("tv", "mv", "exo")]
    logset = [n for n in loggable if r.chance(r.choice([0.0, 0.3, 0.7]))]
    return {"decls": decls, "decl_groups": decl_groups, "family_tokens": family["tokens"] if family else [],
            "eqs": eqs, "eq_groups": eq_groups, "subs": subs, "logset": logset, "features": sorted(features)}


def gen_data(rng, sm, t0=12, w=11):
    """positive small dyadic data for every quantity of the model (also the generated ant_ names)"""
    data = {}
    names = [d[1] for d in sm["decls"]] + ["ant_" + d[1] for d in sm["decls"] if d[0] == "ts"]
    for n in names:
        data[n] = {p: Fraction(rng.randint(4, 32), 8) for p in range(t0 - w, t0 + w + 1)}
    return data


# ---------------------------------------------------------------------------------------
# rendering a structured model to source text, choosing at random among the syntactic alternatives
# ---------------------------------------------------------------------------------------

COMMENT_TEXTS = ["a comment", "!variables qq", "x = 1;", "TODO: check; sign", "!for ?s = a !do", "50 = 100", "diff(x)", "!log-variables y",
                 "'quoted'", "x{-1} + y[+1]", "$s0$", "!!", ""]
KEYWORDS = {
    "tv": ["!transition-variables", "!variables", "!transition_variables"],
    "ts": ["!transition-shocks", "!shocks", "!transition_shocks"],
    "mv": ["!measurement-variables", "!measurement_variables"],
    "ms": ["!measurement-shocks", "!measurement_shocks"],
    "par": ["!parameters"],
    "exo": ["!exogenous-variables", "!exogenous_variables"],
    "T": ["!transition-equations", "!equations", "!transition_equations"],
    "M": ["!measurement-equations", "!measurement_equations"],
    "log": ["!log-variables", "!log_variables"],
    "allbut": ["!all-but", "!all_but"],
    "subs": ["!substitutions"],
}
PREC = {"+": 1, "-": 1, "*": 2, "/": 2, "neg": 3, "^": 4}


def paren_depth(s: str) -> int:
    import re
    s = re.sub(r"\?\(\w+\)", "", s)      # the parentheses of a control name disappear with the loop
    d = m = 0
    for ch in s:
        if ch == "(":
            d += 1; m = max(m, d)
        elif ch == ")":
            d -= 1
    return m


class Renderer:
    """one rendering of a structured model. `plain=True` switches every optional alternative off (canonical text)."""

    def __init__(self, rng, sm, plain=False):
        self.r, self.sm, self.plain = rng, sm, plain
        self.ctx = {"vals": {}, "strs": {}, "lists": {}, "flags": {"flag_on": True, "flag_off": False}, "ints": {"nsec": 2},
                    "floats": {}, "tuples": {}}
        self.features = set(sm.get("features", []))
        self.used = set()
        self.ctl = None           # inside a !for template: (ctl name e.g. "s" or "(s)")
        self.tag_log = None       # set of names tagged `name`lg` for !list
        self.shocks = {d[1] for d in sm["decls"] if d[0] in ("ts", "ms")}

    def ch(self, p):
        return (not self.plain) and self.r.chance(p)

    # ---- separators, comments -------------------------------------------------------------
    def comment_text(self):
        return self.r.choice(COMMENT_TEXTS)

    def sep(self, must=False):
        """white space between two tokens, possibly with a comment or a line continuation"""
        if self.plain:
            return " "
        c = self.r.weighted([(" ", 10), ("", 0 if must else 6), ("  ", 2), ("\n    ", 2), (" ...\n    ", 1.2), ("cont+text", 0.6),
                             ("%", 0.7), ("#", 0.5), ("block", 0.6), ("\\", 0.2), ("\t", 0.3)])
        if c == "cont+text":
            self.used.add("continuation"); return " ... " + self.comment_text() + "\n   "
        if c == " ...\n    ":
            self.used.add("continuation"); return c
        if c in ("%", "#"):
            self.used.add("line-comment"); return f" {c} " + self.comment_text() + "\n  "
        if c == "\\":
            self.used.add("line-comment"); return " \\ " + self.comment_text() + "\n  "
        if c == "block":
            self.used.add("block-comment")
            m = self.r.choice("%#")
            return f" {m}{{ " + self.comment_text() + ("\n" + self.comment_text() if self.r.chance(0.3) else "") + f" {m}}} "
        return c

    # ---- expressions ------------------------------------------------------------------------
    def num(self, q: Fraction, in_pf):
        f = float(q)
        if q.denominator == 1:
            forms = [str(q.numerator), str(q.numerator) + ".0", str(q.numerator) + "."]
        else:
            s = repr(f)
            forms = [s, s + "0", s.lstrip("0") if s.startswith("0.") else s]
        if not self.plain and q != 0 and self.ch(0.08):
            forms = ["%de-2" % (q * 100) if (q * 100).denominator == 1 else repr(f)]
            self.used.add("sci-number")
        txt = forms[0] if self.plain else self.r.choice(forms)
        if not in_pf and q.denominator in (1, 2, 4) and self.ch(0.1):
            key = f"cval{len(self.ctx['vals'])}"
            self.ctx["vals"][key] = str(q)
            if self.ch(0.5):
                self.used.add("contextual-<>"); return f"<{self.r.choice(['', ' '])}{key}{self.r.choice(['', ' '])}>"
            self.used.add("jinja"); return "{{ " + key + " }}"
        return txt

    def shift_text(self, k, shock=False):
        if k == 0:
            if self.ch(0.05) and (not shock or "shifted_shock" in self.features):
                return self.r.choice(["{0}", "[0]", "{+0}"])
            return ""
        if self.plain:
            return "{%+d}" % k
        body = self.r.choice(["%d" % k, "%+d" % k, " %+d " % k, "%+d " % k] + (["- %d" % -k] if k < 0 else []))
        if self.r.chance(0.5):
            self.used.add("curly-shift"); return "{" + body + "}"
        self.used.add("square-shift"); return "[" + body + "]"

    def name(self, tree):
        if tree[0] == "name":
            return tree[1] + self.shift_text(tree[2], tree[1] in self.shocks)
        # template name inside a !for
        out = ""
        last_ctl_paren = False
        for p in tree[1]:
            if p[0] == "lit":
                out += p[1]; last_ctl_paren = False
            else:
                c = self.ctl
                paren = c.startswith("(")
                bare = c[1:-1] if paren else c
                if p[1] == "plain":
                    out += "?" + c; last_ctl_paren = paren
                elif p[1] == "upper":
                    if self.r.chance(0.5):
                        out += "?{" + bare + "}"; last_ctl_paren = True
                    else:
                        out += "?" + c + "|upper"; last_ctl_paren = False
                else:
                    if self.r.chance(0.5):
                        out += "?[" + bare + "]"; last_ctl_paren = True
                    else:
                        out += "?" + c + "|lower"; last_ctl_paren = False
        is_shock = any(tname_concrete(tree[1], tk) in self.shocks for tk in self.sm["family_tokens"])
        sh = self.shift_text(tree[2], is_shock) if tree[2] is not None else ""
        if last_ctl_paren and sh.startswith("{"):
            self.features.add("curly_after_paren_ctl")
        return out + sh

    def expr(self, tree, prec=0, in_pf=False, right=False):
        """text of a tree; parentheses keep the tree shape exactly (no re-association); redundant ones at random outside
        pseudofunction arguments"""
        k = tree[0]
        s = (lambda: "") if in_pf and self.plain else (lambda: self.sep() if not in_pf else self.r.choice(["", " ", ""]))
        if k == "num":
            txt, p = self.num(frac(tree[1]), in_pf), 5
        elif k in ("name", "tname"):
            txt, p = self.name(tree), 5
        elif k == "subs":
            txt, p = f"${tree[1]}$", 5
        elif k == "neg":
            inner = self.expr(tree[1], 4, in_pf)        # operand: power or atom, never another sign or product
            txt, p = "-" + s() + inner, 3
            if right:
                p = 0                                     # `a - -b`, `a*-b`: always parenthesised here
        elif k == "bin":
            op = tree[1]
            if op == "^":
                base = self.expr(tree[2], 5, in_pf)
                ex = self.expr(tree[3], 5, in_pf)
                sym = "^" if self.plain or self.r.chance(0.6) else "**"
                self.used.add("pow-" + sym)
                txt, p = base + s() + sym + s() + ex, 4
            else:
                q = PREC[op]
                a = self.expr(tree[2], q, in_pf)
                b = self.expr(tree[3], q + 1, in_pf, right=True)
                txt, p = a + s() + op + s() + b, q
        elif k == "f1":
            txt, p = f"{tree[1]}(" + s() + self.expr(tree[2], 0, in_pf) + s() + ")", 5
        elif k == "f2":
            txt, p = f"{tree[1]}(" + s() + self.expr(tree[2], 0, in_pf) + s() + "," + s() + self.expr(tree[3], 0, in_pf) + s() + ")", 5
        elif k == "pf":
            txt, p = self.pseudo(tree), 5
        elif k == "forsum":
            if self.plain or self.ctl is not None or in_pf or self.r.chance(0.35):
                return self.expr(tree[4], prec, in_pf, right)
            self.used.add("for-inside-equation")
            self.ctl = self.r.choice(["k", "(k)", "lag", "(h)"])
            head = self.for_header(tree[1])
            body = self.expr(tree[3], 2, False)
            self.ctl = None
            return "(" + s() + head + " + " + body + " !end" + s() + ")"
        elif k == "pfk":
            txt, p = self.pseudo(["pf", tree[1], 0, tree[3]], ctl_shift=tree[2].replace("+", self.r.choice(["", "+"])) + "?" + self.ctl), 5
        elif k == "cnum":
            self.used.add("contextual-float")
            txt, p = "<" + self.r.choice(["", " "]) + tree[1] + self.r.choice(["", " "]) + ">", 5
        elif k == "fntuple":
            self.used.add("contextual-tuple")
            txt, p = f"{tree[1]}(<{tree[2]}>)", 5
        elif k == "fn":
            txt, p = f"{tree[1]}(" + s() + ("," + s()).join(self.expr(a, 0, in_pf) + s() for a in tree[2]) + ")", 5
        else:
            raise ValueError(tree)
        if p < prec or (not in_pf and k not in ("num", "name", "tname") and self.ch(0.06)):
            txt = "(" + s() + txt + s() + ")"
        return txt

    def pseudo(self, tree, ctl_shift=None):
        sp, k, arg = tree[1], tree[2], tree[3]
        kind, dflt = PF_SPELLINGS[sp]
        self.used.add("pf-" + sp)
        name = sp
        if not self.plain:
            # any spelling of the same pseudofunction is the same thing
            alts = [n for n, (kd, _) in PF_SPELLINGS.items() if kd == kind]
            name = self.r.choice(alts)
            if self.ch(0.12):
                key = f"pf{len(self.ctx['strs'])}"
                self.ctx["strs"][key] = name
                name = "{{" + self.r.choice(["", " "]) + key + self.r.choice(["", " "]) + "}}"
                self.used.add("jinja")
        a = self.expr(arg, 0, in_pf=True)
        assert paren_depth(a) <= 1, a
        shift = k
        if ctl_shift is not None:
            self.used.add("pf-shift-from-control")
            return f"{name}({a},{self.r.choice(['', ' '])}{ctl_shift})"
        if shift is None and self.ch(0.3):
            shift = dflt                                   # the default written out
        elif shift == dflt and self.ch(0.5):
            shift = None                                   # ... or left out
        if shift is None:
            self.used.add("pf-default-shift")
            return f"{name}({a})"
        st = self.r.choice(["%d" % shift, "%+d" % shift, " %d " % shift, " %+d" % shift]) if not self.plain else "%d" % shift
        if shift == 0 and not self.plain:
            st = self.r.choice(["0", "-0", "+0", " 0 "])
        if self.ch(0.2):
            # the shift / window taken from the preparser context: `-<h>` with h >= 0, or `<h>`
            key = f"h{len(self.ctx['ints'])}"
            if shift <= 0 and self.r.chance(0.7):
                self.ctx["ints"][key] = -shift; st = "-<" + key + ">"
            else:
                self.ctx["ints"][key] = shift; st = "<" + key + ">"
            if self.r.chance(0.3):
                st = st.replace("<", "{{ ").replace(">", " }}"); self.used.add("jinja")
            else:
                self.used.add("contextual-<>")
            self.used.add("pf-shift-from-context")
        self.used.add("pf-explicit-shift" + ("-zero" if shift == 0 else ""))
        return f"{name}({a},{st})"

    # ---- equations --------------------------------------------------------------------------
    def eqn(self, e):
        if e[0] == "bare":
            return self.expr(e[1])
        sym = "=" if self.plain or self.r.chance(0.65) else ":="
        self.used.add("eq-" + sym)
        return self.expr(e[1]) + self.sep() + sym + self.sep() + self.expr(e[2])

    def equation(self, e):
        out = ""
        if e["descr"] or self.ch(0.1):
            out += f'"{e["descr"]}"' + self.r.choice([" ", "\n  ", "  "])
        out += self.eqn(e["dyn"])
        if e["steady"]:
            self.used.add("steady-!!")
            out += self.sep() + "!!" + self.sep() + self.eqn(e["steady"])
        elif self.ch(0.04):
            # a steady variant identical to the dynamic one changes nothing
            pass
        return out + self.r.choice(["", " "]) + ";"

    def for_header(self, tokens):
        c = self.ctl
        eq = self.r.choice(["=", " = ", " : ", ":"]) if not self.plain else " = "
        if self.ch(0.3):
            key = f"toks{len(self.ctx['lists'])}"
            self.ctx["lists"][key] = list(tokens)
            self.used.add("contextual-<>")
            toks = f"<{key}>"
        else:
            toks = self.r.choice([", ", " ", ",", " , "]).join(tokens)
        return f"!for ?{c}{eq}{toks} !do"

    def pick_ctl(self):
        if self.plain:
            return "s"
        return self.r.choice(["s", "(s)", "(sec)", "k9", "S"])

    def equations_block(self, idxs, kind):
        """text of a run of equations (indices into sm['eqs']), families either written out or as a !for"""
        out = []
        groups = {tuple(g["idx"]): g for g in self.sm["eq_groups"]}
        i = 0
        idxs = list(idxs)
        while i < len(idxs):
            g = next((g for key, g in groups.items() if key[0] == idxs[i] and list(key) == idxs[i:i + len(key)]), None)
            if g and self.ch(0.65):
                self.ctl = self.pick_ctl()
                needs_paren = self._template_needs_paren(g["template"])
                if needs_paren and not self.ctl.startswith("("):
                    self.ctl = "(s)"
                self.used.add("for-equations")
                body = self.equation(g["template"])
                out.append(self.for_header(self.sm["family_tokens"]) + "\n    " + body + "\n  !end")
                self.ctl = None
                i += len(g["idx"])
            else:
                out.append(self.equation(self.sm["eqs"][idxs[i]]))
                i += 1
        kw = self.r.choice(KEYWORDS[kind]) if not self.plain else KEYWORDS[kind][0]
        attr = "{:main :_x}" if self.ch(0.06) else ""
        return kw + attr + "\n  " + "\n  ".join(out) + "\n"

    def _template_needs_paren(self, tmpl):
        def walk(t):
            if isinstance(t, list):
                if t and t[0] == "tname":
                    return any(p[0] == "ctl" and p[1] != "plain" for p in t[1])
                return any(walk(x) for x in t)
            if isinstance(t, dict):
                return any(walk(v) for v in t.values())
            return False
        return walk(tmpl)

    # ---- declarations -----------------------------------------------------------------------
    def decl_item(self, name_txt, descr, tag):
        out = ""
        if descr or self.ch(0.05):
            out += f'"{descr}" '
        out += name_txt
        if tag:
            out += "`lg"
        return out

    def decl_block(self, kind, idxs):
        out = []
        groups = {tuple(g["idx"]): g for g in self.sm["decl_groups"]}
        idxs = list(idxs)
        i = 0
        while i < len(idxs):
            g = next((g for key, g in groups.items() if key[0] == idxs[i] and list(key) == idxs[i:i + len(key)]), None)
            tagged_all = g and self.tag_log is not None and all(self.sm["decls"][j][1] in self.tag_log for j in g["idx"])
            tagged_none = g and (self.tag_log is None or not any(self.sm["decls"][j][1] in self.tag_log for j in g["idx"]))
            if g and (tagged_all or tagged_none) and self.ch(0.65):
                self.ctl = self.pick_ctl()
                if any(p[0] == "ctl" and p[1] != "plain" for p in g["pieces"]) and not self.ctl.startswith("("):
                    self.ctl = "(s)"
                self.used.add("for-declarations")
                item = self.decl_item(self.name(["tname", g["pieces"], None]), g["descr"], tagged_all)
                out.append(self.for_header(self.sm["family_tokens"]) + " " + item + self.r.choice([" ", ", ", "\n"]) + "!end")
                self.ctl = None
                i += len(g["idx"])
            else:
                k, n, d = self.sm["decls"][idxs[i]]
                out.append(self.decl_item(n, d, self.tag_log is not None and n in self.tag_log))
                i += 1
        kw = self.r.choice(KEYWORDS[kind]) if not self.plain else KEYWORDS[kind][0]
        seps = [", ", "\n  ", " ", "; ", " ,\n  "] if not self.plain else ["\n  "]
        txt = kw + "\n  "
        for j, it in enumerate(out):
            txt += it + (self.r.choice(seps) if j < len(out) - 1 else self.r.choice(["", ";", ","]) if not self.plain else "")
        return txt + "\n"

    # ---- !if wrapping -------------------------------------------------------------------------
    def wrap_if(self, text, garbage):
        c = self.r.weighted([("then", 3), ("else", 3), ("noelse-true", 2), ("before-false", 2)])
        true_c = self.r.choice(["flag_on", "not flag_off", "nsec == 2", "flag_on and not flag_off"])
        false_c = self.r.choice(["flag_off", "not flag_on", "nsec == 3"])
        self.used.add("if-" + c)
        if c == "then":
            return f"!if {true_c} !then\n{text}\n!else\n{garbage}\n!end\n", "ifelse"
        if c == "else":
            return f"!if {false_c} !then\n{garbage}\n!else\n{text}\n!end\n", "ifelse"
        if c == "noelse-true":
            return f"!if {true_c} !then\n{text}\n!end\n", "noelse"
        return f"!if {false_c} !then\n{garbage}\n!end\n{text}", "noelse"

    # ---- the whole source -----------------------------------------------------------------------
    def render(self):
        sm, r = self.sm, self.r
        loggable = [d[1] for d in sm["decls"] if d[0] in ("tv", "mv", "exo")]
        logset = set(sm["logset"])
        # log status: the listed names, or !all-but with the complement -- the same model either way
        allbut = (not self.plain) and r.chance(0.5)
        listed = [n for n in loggable if (n in logset) != allbut]
        if not self.plain:
            r.shuffle(listed)
        use_list = (not self.plain) and bool(listed) and r.chance(0.3)
        self.tag_log = set(listed) if use_list else None
        if use_list:
            self.used.add("list")
        blocks = []   # (order key class, text, garbage)

        def chunks(idxs, groups):
            """1-2 contiguous chunks that do not cut a family"""
            idxs = list(idxs)
            if len(idxs) < 2 or self.plain or r.chance(0.6):
                return [idxs] if idxs else []
            cut = r.randint(1, len(idxs) - 1)
            for g in groups:
                if g["idx"][0] < idxs[cut] <= g["idx"][-1]:
                    return [idxs]
            return [idxs[:cut], idxs[cut:]]

        for kind in ["tv", "ts", "mv", "par", "exo", "ms"]:
            idxs = [i for i, d in enumerate(sm["decls"]) if d[0] == kind]
            for c in chunks(idxs, sm["decl_groups"]):
                blocks.append((kind, self.decl_block(kind, c), "!parameters\n  garbage_q\n!variables\n  garbage_v\n"))
        for kind in ["T", "M"]:
            idxs = [i for i, e in enumerate(sm["eqs"]) if e["kind"] == kind]
            for c in chunks(idxs, sm["eq_groups"]):
                blocks.append((kind, self.equations_block(c, kind), f"{KEYWORDS[kind][0]}\n  garbage_q = 1;\n"))
        if sm["subs"]:
            self.used.add("substitutions")
            txt = KEYWORDS["subs"][0] + "\n"
            for n, e in sm["subs"]:
                txt += f"  {n} {r.choice(['=', ':=']) if not self.plain else '='} (" + self.expr(e) + ");\n"
            blocks.append(("subs", txt, ""))
        if listed or allbut:
            kw = r.choice(KEYWORDS["log"]) if not self.plain else KEYWORDS["log"][0]
            ab = (" " + (r.choice(KEYWORDS["allbut"]) if not self.plain else KEYWORDS["allbut"][0])) if allbut else ""
            if allbut:
                self.used.add("all-but")
            if use_list:
                body = "!list(`lg)"
            else:
                body = (r.choice([", ", " ", "\n  "]) if not self.plain else ", ").join(listed)
            blocks.append(("log", f"{kw}{ab}\n  {body}\n", ""))
        # random merge of the blocks, keeping the order within each class
        order = list(range(len(blocks)))
        if not self.plain:
            classes = {}
            for i, b in enumerate(blocks):
                classes.setdefault(b[0], []).append(i)
            seqs = list(classes.values())
            order = []
            while seqs:
                s = r.choice(seqs)
                order.append(s.pop(0))
                seqs = [x for x in seqs if x]
        out = ""
        prev_if = None
        for i in order:
            cls, text, garbage = blocks[i]
            if garbage and self.ch(0.12):
                text, kind = self.wrap_if(text, garbage)
                # an `!if` without `!else` followed by any later `!if ... !else` at the same level
                if prev_if == "noelse" and kind == "ifelse":
                    self.features.add("if_noelse_then_ifelse")
                if kind == "noelse":
                    prev_if = "noelse"
            out += text + ("\n" if self.plain else r.choice(["\n", "", "\n\n", "  % " + self.comment_text() + "\n"]))
        if not self.plain and r.chance(0.2):
            out = "%{ header\n comment %}\n" + out
            self.used.add("block-comment")
        log_choice = {"allbut": allbut, "listed": listed}
        return out, self.ctx, log_choice, sorted(self.features), sorted(self.used)


def build_context(spec):
    """the `context=` dict passed to irispie for a rendering"""
    ctx = dict(context_functions())
    for k, v in spec["vals"].items():
        q = Fraction(v)
        ctx[k] = int(q) if q.denominator == 1 and (hash(k) % 2 == 0) else float(q)
    ctx.update(spec["strs"])
    ctx.update({k: list(v) for k, v in spec["lists"].items()})
    ctx.update(spec["flags"])
    ctx.update(spec["ints"])
    if spec.get("numpy_scalars"):
        import numpy as _np
        ctx.update({k: _np.float64(float.fromhex(v)) for k, v in spec.get("floats", {}).items()})
    else:
        ctx.update({k: float.fromhex(v) for k, v in spec.get("floats", {}).items()})
    ctx.update({k: (tuple if hash(k) % 2 else list)(float.fromhex(h) for h in v) for k, v in spec.get("tuples", {}).items()})
    return ctx
