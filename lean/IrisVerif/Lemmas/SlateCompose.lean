/-
Helper lemmas for the composed dataslate theorem of property C19.
-/
import IrisVerif.Model.Dataslate
import IrisVerif.Lemmas.GridRoundTrip
namespace IrisVerif.Dataslate
open IrisVerif.Databox
open IrisVerif.Dates (Err R)

theorem mapM_ok_inv {α β : Type} (f : α → R β) (l : List α) (ys : List β) (h : l.mapM f = .ok ys) :
    ys.length = l.length ∧ ∀ (i : Nat) (x : α), l[i]? = some x → ∃ y, ys[i]? = some y ∧ f x = .ok y := by
  induction l generalizing ys with
  | nil =>
    simp [List.mapM_nil, pure, Except.pure] at h
    subst h
    exact ⟨rfl, by intro i x hx; simp at hx⟩
  | cons a l ih =>
    rw [List.mapM_cons] at h
    cases hfa : f a with
    | error e => simp [hfa, bind, Except.bind] at h
    | ok y0 =>
      cases hl : l.mapM f with
      | error e => simp [hfa, hl, bind, Except.bind] at h
      | ok ys' =>
        simp [hfa, hl, bind, Except.bind, pure, Except.pure] at h
        subst h
        obtain ⟨hlen, hget⟩ := ih ys' hl
        refine ⟨by simp [hlen], ?_⟩
        intro i x hx
        cases i with
        | zero => simp at hx; subst hx; exact ⟨y0, by simp, hfa⟩
        | succ j => simp at hx; obtain ⟨y, hy, hf⟩ := hget j x hx; exact ⟨y, by simpa using hy, hf⟩

theorem lookup_zip_range {β : Type} (names : List String) (a : Nat) (G : Nat → β) (n : String) (hn : n ∈ names) :
    ∃ k, names[k]? = some n ∧
      lookup (((List.range' a names.length).zip names).map (fun (qn : Nat × String) => (qn.2, G qn.1))) n = some (G (a + k)) := by
  induction names generalizing a with
  | nil => simp at hn
  | cons m ms ih =>
    simp only [List.length_cons, List.range'_succ, List.zip_cons_cons, List.map_cons, lookup]
    by_cases hm : m = n
    · exact ⟨0, by simp [hm], by simp [hm]⟩
    · have hn' : n ∈ ms := by
        rcases List.mem_cons.mp hn with h | h
        · exact absurd h.symm hm
        · exact h
      obtain ⟨k, hk, hl⟩ := ih (a + 1) hn'
      refine ⟨k + 1, by simpa using hk, ?_⟩
      simp only [hm, if_false]
      rw [hl]
      congr 2
      omega



theorem setKey_map_val {α : Type} (g : α → α) (acc : List (String × α)) (k : String) (v : α) :
    setKey (acc.map (fun p => (p.1, g p.2))) k (g v) = (setKey acc k v).map (fun p => (p.1, g p.2)) := by
  induction acc with
  | nil => rfl
  | cons p rest ih =>
    obtain ⟨k', v'⟩ := p
    simp only [List.map_cons, setKey]
    by_cases h : k' = k
    · simp [h]
    · simp [h, ih]

theorem dictOfList_map_val {α : Type} (g : α → α) (l : List (String × α)) :
    dictOfList (l.map (fun p => (p.1, g p.2))) = (dictOfList l).map (fun p => (p.1, g p.2)) := by
  unfold dictOfList
  have key : ∀ acc : List (String × α),
      (l.map (fun p => (p.1, g p.2))).foldl (fun acc p => setKey acc p.1 p.2) (acc.map (fun p => (p.1, g p.2)))
        = (l.foldl (fun acc p => setKey acc p.1 p.2) acc).map (fun p => (p.1, g p.2)) := by
    induction l with
    | nil => intro acc; rfl
    | cons p rest ih =>
      intro acc
      simp only [List.map_cons, List.foldl_cons]
      rw [setKey_map_val, ih]
  exact key []

section
variable {V : Type}

/-- **`to_databox(trim=True)` is the trimmed full output**: each series of `to_databox(trim=False)` with `Series.trim()` applied -/
theorem toDatabox_trim (sl : Slate V) :
    toDatabox sl true = (toDatabox sl false).map (fun l => l.map (fun p => (p.1, p.2.trim))) := by
  unfold toDatabox
  by_cases h : sl.variants.isEmpty = true
  · simp [h, throw, throwThe, MonadExceptOf.throw, Except.map]
  · simp only [h, Bool.false_eq_true, if_false, if_true, pure, Except.pure, Except.map]
    congr 1
    rw [← dictOfList_map_val]
    congr 1
    rw [List.map_map]
    rfl

/-- a series cut to the base columns `b0 … b1` -/
def restrictSer (b0 b1 : Nat) (s : Ser V) : Ser V :=
  ⟨s.freq, s.start + (b0 : Int), s.nv, (s.rows.drop b0).take (b1 + 1 - b0), s.desc⟩

theorem rowsOf_restrict (len b0 m : Nat) (h : b0 + m ≤ len) (cols : List (List (Option V))) :
    rowsOf m (cols.map (fun c => (c.drop b0).take m)) = ((rowsOf len cols).drop b0).take m := by
  apply List.ext_getElem?
  intro i
  by_cases hi : i < m
  · have h2 : b0 + i < len := by omega
    simp only [rowsOf, List.getElem?_take, hi, if_true, List.getElem?_drop, List.getElem?_map, List.getElem?_range hi,
      List.getElem?_range h2, Option.map_some, List.map_map]
    congr 1
    apply List.map_congr_left
    intro c _
    simp [List.getElem?_take, hi, List.getElem?_drop]
  · simp only [rowsOf, List.getElem?_take, hi, if_false]
    rw [List.getElem?_eq_none (by simp; omega)]

/-- **`to_databox(span="base")` is the full output restricted to the base columns** (first to last base column) -/
theorem toDataboxBase_restrict (sl : Slate V) (b0 b1 : Nat) (h0 : sl.baseCols.head? = some b0) (h1 : sl.baseCols.getLast? = some b1)
    (hle : b0 ≤ b1) (hlt : b1 < sl.len) :
    toDataboxBase sl false = (toDatabox sl false).map (fun l => l.map (fun p => (p.1, restrictSer b0 b1 p.2))) := by
  unfold toDataboxBase toDatabox
  simp only [h0, h1]
  by_cases h : sl.variants.isEmpty = true
  · simp [h, throw, throwThe, MonadExceptOf.throw, Except.map]
  · simp only [h, Bool.false_eq_true, if_false, pure, Except.pure, Except.map]
    congr 1
    rw [← dictOfList_map_val]
    congr 1
    rw [List.map_map]
    apply List.map_congr_left
    intro qn _
    simp only [Function.comp, restrictSer]
    congr 2
    have := rowsOf_restrict sl.len b0 (b1 + 1 - b0) (by omega) (sl.variants.map (fun v => (v[qn.1]?).getD []))
    rw [← this, List.map_map]
    rfl

end

section
variable {V : Type}

/-- the record (name index `k`) of variant `v` -/
def Slate.record (sl : Slate V) (v k : Nat) : List (Option V) := ((sl.variants[v]?).bind (·[k]?)).getD []

/-- the cell of a dataslate at an absolute period: NaN outside its periods -/
def Slate.cellAt (sl : Slate V) (v k : Nat) (t : Int) : Option V :=
  if sl.start ≤ t ∧ t < sl.start + (sl.len : Int) then ((sl.record v k)[(t - sl.start).toNat]?).getD none else none

/-- variant `v` has a record for name index `k`, as long as the dataslate has periods -/
def Slate.hasRecord (sl : Slate V) (v k : Nat) : Prop :=
  ∃ w r, sl.variants[v]? = some w ∧ w[k]? = some r ∧ r.length = sl.len

inductive SlateOp where
  | removeStart (n : Nat) | removeEnd (n : Nat) | addEnd (n : Nat)

def SlateOp.apply (sl : Slate V) : SlateOp → Slate V
  | .removeStart n => sl.removeFromStart n
  | .removeEnd n => sl.removeFromEnd n
  | .addEnd n => sl.addToEnd n

/-- the periods an operation keeps -/
def SlateOp.keeps (sl : Slate V) : SlateOp → Int → Bool
  | .removeStart n, t => decide (sl.start + (n : Int) ≤ t)
  | .removeEnd n, t => decide (t < sl.start + ((sl.len - n : Nat) : Int))
  | .addEnd _, _ => true

def applySlateOps (sl : Slate V) : List SlateOp → Slate V
  | [] => sl
  | op :: rest => applySlateOps (op.apply sl) rest

/-- a period is alive after a sequence iff no operation of the sequence removed it (periods added at the end are new) -/
def aliveAfter (sl : Slate V) : List SlateOp → Int → Bool
  | [], _ => true
  | op :: rest, t => op.keeps sl t && aliveAfter (op.apply sl) rest t

theorem record_map (sl : Slate V) (g : List (Option V) → List (Option V)) (hg : g [] = []) (v k : Nat) :
    (((sl.variants.map (fun w => w.map g))[v]?).bind (·[k]?)).getD [] = g (sl.record v k) := by
  unfold Slate.record
  cases h1 : sl.variants[v]? with
  | none => simp [h1, hg]
  | some w =>
    cases h2 : w[k]? with
    | none => simp [h1, h2, hg]
    | some r => simp [h1, h2]

theorem cellAt_removeFromStart (sl : Slate V) (n : Nat) (v k : Nat) (t : Int) :
    (sl.removeFromStart n).cellAt v k t = if sl.start + (n : Int) ≤ t then sl.cellAt v k t else none := by
  have hrec : (sl.removeFromStart n).record v k = (sl.record v k).drop n := by
    simp only [Slate.record, Slate.removeFromStart]
    exact record_map sl (fun r => r.drop n) (by simp) v k
  simp only [Slate.cellAt, hrec]
  simp only [Slate.removeFromStart]
  by_cases h1 : sl.start + (n : Int) ≤ t
  · simp only [h1, true_and, if_true]
    by_cases h2 : t < sl.start + (sl.len : Int)
    · have h3 : t < sl.start + (n : Int) + ((sl.len - n : Nat) : Int) := by omega
      have h4 : sl.start ≤ t := by omega
      simp only [h2, h3, h4, true_and, if_true, List.getElem?_drop]
      congr 2
      omega
    · have h3 : ¬ t < sl.start + (n : Int) + ((sl.len - n : Nat) : Int) := by omega
      simp [h2, h3]
  · simp [h1]

theorem record_of_has (sl : Slate V) (v k : Nat) (w : List (List (Option V))) (r : List (Option V))
    (h1 : sl.variants[v]? = some w) (h2 : w[k]? = some r) : sl.record v k = r := by
  simp [Slate.record, h1, h2]

theorem cellAt_addToEnd (sl : Slate V) (n : Nat) (v k : Nat) (hw : sl.hasRecord v k) (t : Int) :
    (sl.addToEnd n).cellAt v k t = sl.cellAt v k t := by
  obtain ⟨w, r, h1, h2, hlen⟩ := hw
  have hr := record_of_has sl v k w r h1 h2
  have hrec : (sl.addToEnd n).record v k = r ++ List.replicate n none := by
    simp [Slate.record, Slate.addToEnd, h1, h2]
  simp only [Slate.cellAt, hrec, hr]
  have hs : (sl.addToEnd n).start = sl.start := rfl
  have hl : (sl.addToEnd n).len = sl.len + n := rfl
  rw [hs, hl]
  by_cases h1 : sl.start ≤ t
  · by_cases h2 : t < sl.start + (sl.len : Int)
    · have h3 : t < sl.start + ((sl.len + n : Nat) : Int) := by omega
      simp only [h1, h2, h3, true_and, if_true]
      rw [List.getElem?_append_left (by omega)]
    · simp only [h1, h2, and_false, if_false, true_and]
      split
      · rw [List.getElem?_append_right (by omega)]
        cases hq : (List.replicate n (none : Option V))[(t - sl.start).toNat - r.length]? with
        | none => rfl
        | some x => simp only [Option.getD_some]; exact (List.mem_replicate.mp (List.mem_of_getElem? hq)).2
      · rfl
  · simp [h1]

theorem cellAt_removeFromEnd (sl : Slate V) (n : Nat) (v k : Nat) (hw : sl.hasRecord v k) (t : Int) :
    (sl.removeFromEnd n).cellAt v k t = if t < sl.start + ((sl.len - n : Nat) : Int) then sl.cellAt v k t else none := by
  obtain ⟨w, r, h1, h2, hlen⟩ := hw
  have hr := record_of_has sl v k w r h1 h2
  have hrec : (sl.removeFromEnd n).record v k = r.take (r.length - n) := by
    simp [Slate.record, Slate.removeFromEnd, h1, h2]
  simp only [Slate.cellAt, hrec, hr]
  have hs : (sl.removeFromEnd n).start = sl.start := rfl
  have hl : (sl.removeFromEnd n).len = sl.len - n := rfl
  rw [hs, hl]
  by_cases h1 : sl.start ≤ t
  · by_cases h2 : t < sl.start + ((sl.len - n : Nat) : Int)
    · have h3 : t < sl.start + (sl.len : Int) := by omega
      simp only [h1, h2, h3, true_and, if_true]
      rw [List.getElem?_take, if_pos (by omega)]
    · simp [h2]
  · simp [h1]

theorem hasRecord_apply (sl : Slate V) (v k : Nat) (hw : sl.hasRecord v k) (op : SlateOp) : (op.apply sl).hasRecord v k := by
  obtain ⟨w, r, h1, h2, hlen⟩ := hw
  cases op with
  | removeStart n =>
    exact ⟨w.map (fun r => r.drop n), r.drop n, by simp [SlateOp.apply, Slate.removeFromStart, h1], by simp [h2],
      by simp [SlateOp.apply, Slate.removeFromStart, hlen]⟩
  | removeEnd n =>
    exact ⟨w.map (fun r => r.take (r.length - n)), r.take (r.length - n), by simp [SlateOp.apply, Slate.removeFromEnd, h1],
      by simp [h2], by simp [SlateOp.apply, Slate.removeFromEnd, hlen]⟩
  | addEnd n =>
    exact ⟨w.map (fun r => r ++ List.replicate n none), r ++ List.replicate n none, by simp [SlateOp.apply, Slate.addToEnd, h1],
      by simp [h2], by simp [SlateOp.apply, Slate.addToEnd, hlen]⟩

/-- **any sequence of period operations**: the cell of a period is the converted value as long as no operation of the sequence
removed that period, and NaN otherwise (removed periods, periods added at the end, periods outside the dataslate) -/
theorem cellAt_applySlateOps (sl : Slate V) (ops : List SlateOp) (v k : Nat) (hw : sl.hasRecord v k) (t : Int) :
    (applySlateOps sl ops).cellAt v k t = if aliveAfter sl ops t then sl.cellAt v k t else none := by
  induction ops generalizing sl with
  | nil => simp [applySlateOps, aliveAfter]
  | cons op rest ih =>
    simp only [applySlateOps, aliveAfter]
    rw [ih (op.apply sl) (hasRecord_apply sl v k hw op)]
    cases op with
    | removeStart n =>
      simp only [SlateOp.apply, SlateOp.keeps, cellAt_removeFromStart]
      by_cases h1 : sl.start + (n : Int) ≤ t <;> simp [h1]
    | removeEnd n =>
      simp only [SlateOp.apply, SlateOp.keeps, cellAt_removeFromEnd sl n v k hw]
      by_cases h1 : t < sl.start + ((sl.len - n : Nat) : Int) <;> simp [h1]
    | addEnd n =>
      simp only [SlateOp.apply, SlateOp.keeps, cellAt_addToEnd sl n v k hw, Bool.true_and]

end


section
variable {V : Type}

/-- **`to_databox` of any dataslate, cell by cell**: for distinct names the `k`-th name is bound to a series on the dataslate's
periods whose cell (period `i`, variant `v`) is the dataslate's cell at that period -/
theorem toDatabox_cellAt (sl : Slate V) (out : List (String × Ser V)) (hout : toDatabox sl false = .ok out)
    (hnd : sl.names.Nodup) (n : String) (hn : n ∈ sl.names) :
    ∃ k s, sl.names[k]? = some n ∧ lookup out n = some s ∧ s.freq = sl.freq ∧ s.start = sl.start
      ∧ s.nv = sl.variants.length ∧ s.rows.length = sl.len
      ∧ ∀ v, v < sl.variants.length → ∀ i, i < sl.len →
          (s.rows[i]?.bind (·[v]?)) = some (sl.cellAt v k (sl.start + (i : Int))) := by
  unfold toDatabox at hout
  by_cases hempty : sl.variants.isEmpty = true
  · simp [hempty, throw, throwThe, MonadExceptOf.throw] at hout
  · simp only [hempty, Bool.false_eq_true, if_false, pure, Except.pure, Except.ok.injEq] at hout
    subst hout
    have hkeys : (keys (((List.range sl.names.length).zip sl.names).map (fun (qn : Nat × String) =>
        (qn.2, (⟨sl.freq, sl.start, sl.variants.length, rowsOf sl.len (sl.variants.map (fun v => (v[qn.1]?).getD [])), ""⟩ : Ser V))))).Nodup := by
      have : keys (((List.range sl.names.length).zip sl.names).map (fun (qn : Nat × String) =>
        (qn.2, (⟨sl.freq, sl.start, sl.variants.length, rowsOf sl.len (sl.variants.map (fun v => (v[qn.1]?).getD [])), ""⟩ : Ser V)))) = sl.names := by
        simp only [keys, List.map_map]
        exact List.map_snd_zip (l₁ := List.range sl.names.length) (l₂ := sl.names) (by simp)
      rw [this]; exact hnd
    rw [IrisVerif.Grid.dictOfList_nodup _ hkeys, List.range_eq_range']
    obtain ⟨k, hk, hl⟩ := lookup_zip_range sl.names 0
      (fun q => (⟨sl.freq, sl.start, sl.variants.length, rowsOf sl.len (sl.variants.map (fun v => (v[q]?).getD [])), ""⟩ : Ser V)) n hn
    refine ⟨k, _, hk, hl, rfl, rfl, rfl, by simp [rowsOf], ?_⟩
    intro v hv i hi
    have hwin : sl.start ≤ sl.start + (i : Int) ∧ sl.start + (i : Int) < sl.start + (sl.len : Int) := by omega
    have hidx : (sl.start + (i : Int) - sl.start).toNat = i := by omega
    simp only [rowsOf, List.getElem?_map, List.getElem?_range hi, Option.map_some, Option.bind_some, Slate.cellAt, hwin,
      and_self, if_true, hidx, Slate.record, Nat.zero_add]
    have hv' : sl.variants[v]? = some sl.variants[v] := List.getElem?_eq_getElem hv
    simp [hv']

/-- **any sequence of period operations followed by `to_databox`**: the output cell of period `i` (counted from the new start),
variant `v`, is the converted value of that absolute period if no operation of the sequence removed it, NaN otherwise -/
theorem slate_ops_then_toDatabox (sl : Slate V) (ops : List SlateOp) (out : List (String × Ser V))
    (hout : toDatabox (applySlateOps sl ops) false = .ok out) (hnd : (applySlateOps sl ops).names.Nodup)
    (n : String) (hn : n ∈ (applySlateOps sl ops).names) (hrec : ∀ v k, v < (applySlateOps sl ops).variants.length →
      (applySlateOps sl ops).names[k]? = some n → sl.hasRecord v k) :
    ∃ k s, (applySlateOps sl ops).names[k]? = some n ∧ lookup out n = some s ∧ s.start = (applySlateOps sl ops).start
      ∧ ∀ v, v < (applySlateOps sl ops).variants.length → ∀ i, i < (applySlateOps sl ops).len →
          (s.rows[i]?.bind (·[v]?)) = some (if aliveAfter sl ops ((applySlateOps sl ops).start + (i : Int))
            then sl.cellAt v k ((applySlateOps sl ops).start + (i : Int)) else none) := by
  obtain ⟨k, s, hk, hl, _, hs, _, _, hc⟩ := toDatabox_cellAt _ out hout hnd n hn
  refine ⟨k, s, hk, hl, hs, ?_⟩
  intro v hv i hi
  rw [hc v hv i hi, cellAt_applySlateOps sl ops v k (hrec v k hv hk)]

end

end IrisVerif.Dataslate
