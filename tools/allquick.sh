#!/bin/bash
cd /verif
for p in "$@"; do
  out=$(timeout 1200 ./check $p 2>&1); rc=$?
  echo "$p rc=$rc $(echo "$out" | grep "^\[$p\] lean" | sed 's/.*lean: //' | cut -c1-60) | $(echo "$out" | tail -1 | sed 's/.*evaluations/evaluations/')"
  [ $rc -ne 0 ] && echo "$out" | grep "VIOLATION\|INTERNAL\|no longer" | head -4
done
