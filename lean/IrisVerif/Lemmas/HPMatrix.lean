/-
Mathlib-level objects of the Hodrick-Prescott problem (helper lemmas for Props/C14.lean):
the second-difference matrix `Kmat`, the constraint matrix `Cmat` (level rows, then change rows), their
actions on a sequence, affine sequences and the kernel of `Kmat`.
-/
import IrisVerif.Lemmas.QuadMin
import Mathlib.Algebra.Order.Field.Basic
import Mathlib.Tactic.LinearCombination
import Mathlib.Tactic.FieldSimp
import Mathlib.Tactic.Push

namespace IrisVerif.HPMatrix

open Matrix

variable {K : Type} [Field K]

/-- entry `(i, j)` of the second-difference matrix (the same nested `if` as `IrisVerif.HP.kEntry`) -/
def kEntryK (i j : Nat) : K :=
  if j = i then 1 else if j = i + 1 then -2 else if j = i + 2 then 1 else 0

/-- the `(n-2) × n` second-difference matrix -/
def Kmat (n : Nat) : Matrix (Fin (n - 2)) (Fin n) K := fun i j => kEntryK i.val j.val

/-- positions `i, i+1, i+2` of row `i` -/
def p0 {n : Nat} (i : Fin (n - 2)) : Fin n := ⟨i.val, by omega⟩
def p1 {n : Nat} (i : Fin (n - 2)) : Fin n := ⟨i.val + 1, by omega⟩
def p2 {n : Nat} (i : Fin (n - 2)) : Fin n := ⟨i.val + 2, by omega⟩

theorem Kmat_mulVec (n : Nat) (τ : Fin n → K) (i : Fin (n - 2)) :
    (Kmat n *ᵥ τ) i = τ (p0 i) - 2 * τ (p1 i) + τ (p2 i) := by
  have key : ∀ j : Fin n, Kmat n i j * τ j =
      (if j = p0 i then τ j else 0) + (if j = p1 i then -2 * τ j else 0) + (if j = p2 i then τ j else 0) := by
    intro j
    unfold Kmat kEntryK p0 p1 p2
    simp only [Fin.ext_iff]
    by_cases h0 : j.val = i.val
    · simp [h0]
    · by_cases h1 : j.val = i.val + 1
      · simp [h1]
      · by_cases h2 : j.val = i.val + 2
        · simp [h2]
        · simp [h0, h1, h2]
  unfold Matrix.mulVec dotProduct
  simp only [key, Finset.sum_add_distrib, Finset.sum_ite_eq', Finset.mem_univ, if_true]
  ring

/-- the smoothness penalty as the sum of squared second differences -/
theorem Kmat_penalty (n : Nat) (τ : Fin n → K) :
    (Kmat n *ᵥ τ) ⬝ᵥ (Kmat n *ᵥ τ) = ∑ i : Fin (n - 2), (τ (p0 i) - 2 * τ (p1 i) + τ (p2 i)) ^ 2 := by
  unfold dotProduct
  refine Finset.sum_congr rfl (fun i _ => ?_)
  rw [Kmat_mulVec]; ring

/-- `K (a + b t) = 0` for every `n` -/
theorem Kmat_affine (n : Nat) (a b : K) : Kmat n *ᵥ (fun t : Fin n => a + b * (t.val : K)) = 0 := by
  funext i
  rw [Kmat_mulVec]
  simp only [p0, p1, p2, Pi.zero_apply]
  push_cast
  ring

/-- the kernel of `K` consists of affine sequences only -/
theorem Kmat_kernel (n : Nat) (hn : 2 ≤ n) (τ : Fin n → K) (h : Kmat n *ᵥ τ = 0) :
    ∀ k (hk : k < n), τ ⟨k, hk⟩ =
      τ ⟨0, by omega⟩ + (τ ⟨1, by omega⟩ - τ ⟨0, by omega⟩) * (k : K) := by
  intro k
  induction k using Nat.strong_induction_on with
  | _ k ih =>
    intro hk
    match k, ih, hk with
    | 0, _, _ => simp
    | 1, _, _ => simp
    | k + 2, ih, hk =>
      have h1 := ih (k + 1) (by omega) (by omega)
      have h0 := ih k (by omega) (by omega)
      have hr := congrFun h ⟨k, by omega⟩
      rw [Kmat_mulVec] at hr
      simp only [p0, p1, p2, Pi.zero_apply] at hr
      have e : τ ⟨k + 2, hk⟩ = 2 * τ ⟨k + 1, by omega⟩ - τ ⟨k, by omega⟩ := by linear_combination hr
      rw [e, h1, h0]
      push_cast
      ring

/-! ### Constraints -/

variable {n kl kc : Nat}

/-- predecessor position (used only for positions `≥ 1`) -/
def pred (j : Fin n) : Fin n := ⟨j.val - 1, by omega⟩

/-- constraint matrix: row `inl i` is `e_{lw i}` (level), row `inr i` is `e_{cw i} - e_{cw i - 1}` (change) -/
def Cmat (lw : Fin kl → Fin n) (cw : Fin kc → Fin n) : Matrix (Fin kl ⊕ Fin kc) (Fin n) K :=
  fun r j => match r with
    | Sum.inl i => if j = lw i then 1 else 0
    | Sum.inr i => if j = cw i then 1 else if j.val + 1 = (cw i).val then -1 else 0

theorem Cmat_level (lw : Fin kl → Fin n) (cw : Fin kc → Fin n) (τ : Fin n → K) (i : Fin kl) :
    (Cmat lw cw *ᵥ τ) (Sum.inl i) = τ (lw i) := by
  unfold Matrix.mulVec dotProduct Cmat
  simp only [ite_mul, one_mul, zero_mul, Finset.sum_ite_eq', Finset.mem_univ, if_true]

theorem Cmat_change (lw : Fin kl → Fin n) (cw : Fin kc → Fin n) (τ : Fin n → K) (i : Fin kc)
    (hpos : 0 < (cw i).val) :
    (Cmat lw cw *ᵥ τ) (Sum.inr i) = τ (cw i) - τ (pred (cw i)) := by
  have key : ∀ j : Fin n, (Cmat (K := K) lw cw) (Sum.inr i) j * τ j =
      (if j = cw i then τ j else 0) + (if j = pred (cw i) then - τ j else 0) := by
    intro j
    unfold Cmat pred
    simp only [Fin.ext_iff]
    split_ifs <;> first | (exfalso; omega) | ring1
  unfold Matrix.mulVec dotProduct
  simp only [key, Finset.sum_add_distrib, Finset.sum_ite_eq', Finset.mem_univ, if_true]
  ring

/-- feasibility `C τ = (lv, cv)` spelled out: every level and every change constraint holds -/
theorem Cmat_feasible_iff (lw : Fin kl → Fin n) (cw : Fin kc → Fin n) (hcw : ∀ i, 0 < (cw i).val)
    (lv : Fin kl → K) (cv : Fin kc → K) (τ : Fin n → K) :
    Cmat lw cw *ᵥ τ = Sum.elim lv cv ↔
      ((∀ i, τ (lw i) = lv i) ∧ (∀ i, τ (cw i) - τ (pred (cw i)) = cv i)) := by
  constructor
  · intro h
    refine ⟨fun i => ?_, fun i => ?_⟩
    · rw [← Cmat_level lw cw τ i, h]; rfl
    · rw [← Cmat_change lw cw τ i (hcw i), h]; rfl
  · rintro ⟨h1, h2⟩
    funext r
    cases r with
    | inl i => rw [Cmat_level, h1]; rfl
    | inr i => rw [Cmat_change _ _ _ _ (hcw i), h2]; rfl

end IrisVerif.HPMatrix
