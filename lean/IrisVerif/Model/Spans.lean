/-
Model of irispie.dates.Span: Python `range` semantics, contextual (open) ends,
in-place mutations and functional operators.
-/
import IrisVerif.Model.Dates

namespace IrisVerif.Dates

/-! ### Python `range` -/

/-- `len(range(lo, hi, step))` for `step ≠ 0` (CPython `get_len_of_range`). -/
def pyRangeLen (lo hi step : Int) : Nat :=
  if step > 0 then (if lo < hi then ((hi - lo - 1) / step + 1).toNat else 0)
  else if step < 0 then (if hi < lo then ((lo - hi - 1) / (-step) + 1).toNat else 0)
  else 0

/-- `list(range(lo, hi, step))`. -/
def pyRange (lo hi step : Int) : List Int :=
  (List.range (pyRangeLen lo hi step)).map (fun (i : Nat) => lo + (i : Int) * step)

/-- `range(lo, hi, step)[i]` with Python's negative-index rule; `none` = IndexError. -/
def pyRangeGet (lo hi step : Int) (i : Int) : Option Int :=
  let n : Int := pyRangeLen lo hi step
  if 0 ≤ i ∧ i < n then some (lo + i * step)
  else if -n ≤ i ∧ i < 0 then some (lo + (i + n) * step)
  else none

def sign (x : Int) : Int := if x > 0 then 1 else if x == 0 then 0 else -1

/-! ### Spans -/

/-- An end of a span: a resolved period, or `start`/`end` of a context plus an offset. -/
inductive Endpoint where
  | res (p : Period)
  | ctx (fromEnd : Bool) (offset : Int)
  deriving DecidableEq, Repr, Inhabited

def Endpoint.needsResolve : Endpoint → Bool
  | .res _ => false
  | .ctx _ _ => true

def Endpoint.add : Endpoint → Int → Endpoint
  | .res p, k => .res (p.add k)
  | .ctx e o, k => .ctx e (o + k)

structure Span where
  start : Endpoint
  stop : Endpoint
  step : Int
  deriving DecidableEq, Repr, Inhabited

def Span.needsResolve (s : Span) : Bool := s.start.needsResolve || s.stop.needsResolve

/-- `Span(from_per, until_per, step)`: missing ends default to the contextual `start`/`end`
(swapped for non-positive steps); two resolved ends must share a frequency. -/
def Span.make (fromPer untilPer : Option Endpoint) (step : Int) : R Span :=
  let dFrom : Endpoint := if step > 0 then .ctx false 0 else .ctx true 0
  let dUntil : Endpoint := if step > 0 then .ctx true 0 else .ctx false 0
  let a := fromPer.getD dFrom
  let b := untilPer.getD dUntil
  match a, b with
  | .res p, .res q => if p.freq = q.freq then pure ⟨a, b, step⟩ else throw .mixedFreq
  | _, _ => pure ⟨a, b, step⟩

/-- `Span._serials` as a list; `none` when the span needs resolving, error for step 0. -/
def Span.serials (s : Span) : R (Option (List Int)) :=
  match s.start, s.stop with
  | .res p, .res q =>
    if s.step = 0 then throw .badInput
    else pure (some (pyRange p.serial (q.serial + sign s.step) s.step))
  | _, _ => pure none

def Span.len (s : Span) : R (Option Nat) := do
  match ← s.serials with
  | none => pure none
  | some l => pure (some l.length)

/-- `span[i]` for an integer index. -/
def Span.getItem (s : Span) (i : Int) : R (Option Period) :=
  match s.start, s.stop with
  | .res p, .res q =>
    if s.step = 0 then throw .badInput
    else match pyRangeGet p.serial (q.serial + sign s.step) s.step i with
      | none => throw .badInput
      | some x => pure (some ⟨p.freq, x⟩)
  | _, _ => pure none

/-- `list(span)`. -/
def Span.iter (s : Span) : R (Option (List Period)) :=
  match s.start, s.stop with
  | .res p, .res _ => do
    match ← s.serials with
    | none => pure none
    | some l => pure (some (l.map (fun x => ⟨p.freq, x⟩)))
  | _, _ => pure none

/-! Equality of spans -/
/-- `==` between two ends of spans: two periods compare by `Period.__eq__` (which rejects different frequencies); a contextual
end has no serial (two of them: AttributeError) and no frequency of its own (against a period: the frequency check fails) -/
def endpointEq : Endpoint → Endpoint → R Bool
  | .res p, .res q => p.eq q
  | .ctx _ _, .ctx _ _ => throw .badInput
  | _, _ => throw .mixedFreq

/-- `Span.__eq__`: `start == start and end == end and step == step`, with Python's short-circuit -/
def Span.eq (s t : Span) : R Bool := do
  if !(← endpointEq s.start t.start) then return false
  if !(← endpointEq s.stop t.stop) then return false
  return s.step == t.step


/-! Slices -/
/-- `slice(start, stop, step).indices(n)` (CPython `PySlice_AdjustIndices` after `None` defaults); `none` = ValueError for step 0 -/
def sliceIndices (n : Nat) (start stop step : Option Int) : Option (Int × Int × Int) :=
  let st := step.getD 1
  if st = 0 then none
  else
    let lower : Int := if st < 0 then -1 else 0
    let upper : Int := if st < 0 then (n : Int) - 1 else n
    let adj : Int → Int := fun s => if s < 0 then max (s + n) lower else min s upper
    let a := match start with | none => if st < 0 then upper else lower | some s => adj s
    let b := match stop with | none => if st < 0 then lower else upper | some s => adj s
    some (a, b, st)

/-- `span[start:stop:step]`: the code keeps the elements whose POSITION lies in `range(*slice.indices(len))`, in span order
(so a negative slice step does not reverse the result). `none` when the span needs resolving. -/
def Span.getSlice (s : Span) (start stop step : Option Int) : R (Option (List Period)) := do
  match ← s.iter with
  | none => throw .badInput     -- len() of an unresolved span is None: `indices(None)` raises
  | some l =>
    match sliceIndices l.length start stop step with
    | none => throw .badInput
    | some (a, b, st) =>
      let idx := pyRange a b st
      pure (some ((l.zipIdx.filter (fun (_, i) => idx.contains (i : Int))).map (·.1)))


/-! In-place mutations -/
def Span.reverse (s : Span) : Span := ⟨s.stop, s.start, -s.step⟩
/-- `Span.direction`: `"forward"` (true) if the step is positive, else `"backward"`. -/
def Span.direction (s : Span) : Bool := decide (s.step > 0)
def Span.shiftStart (s : Span) (k : Int) : Span := { s with start := s.start.add k }
def Span.shiftEnd (s : Span) (k : Int) : Span := { s with stop := s.stop.add k }
def Span.shift (s : Span) (k : Int) : Span := ⟨s.start.add k, s.stop.add k, s.step⟩

/-! Functional operators (each goes through the constructor again) -/
def Span.addInt (s : Span) (k : Int) : R Span := Span.make (some (s.start.add k)) (some (s.stop.add k)) s.step
def Span.subInt (s : Span) (k : Int) : R Span := s.addInt (-k)
def Span.withStepR (s : Span) (step : Int) : R Span :=
  if step < 0 then throw .badInput else Span.make (some s.start) (some s.stop) step
def Span.withStepL (s : Span) (step : Int) : R Span :=
  if step > 0 then throw .badInput else Span.make (some s.start) (some s.stop) step

/-! Operator constructors of `_SpannableMixin` (defined on periods and on the contextual `start`/`end`; `none` is Python's
`None` on either side, handled by the reflected methods `__rrshift__`/`__rlshift__`): `x >> y` is the forward span from `x`
to `y`; `x << y` reads as an arrow, "back from `y` to `x`", i.e. `Span(y, x, -1)`.  (The docstring of `Span.__init__` writes
`end_per << start_per` for `Span(end_per, start_per, -1)`, which is the opposite reading; the code is what is modelled.) -/
def Span.rshift (x y : Option Endpoint) : R Span := Span.make x y 1
def Span.lshift (x y : Option Endpoint) : R Span := Span.make y x (-1)

structure Ctx where
  startDate : Period
  endDate : Period

def Endpoint.resolve (c : Ctx) : Endpoint → Endpoint
  | .res p => .res p
  | .ctx false o => .res (c.startDate.add o)
  | .ctx true o => .res (c.endDate.add o)

def Span.resolve (s : Span) (c : Ctx) : R Span :=
  Span.make (some (s.start.resolve c)) (some (s.stop.resolve c)) s.step

/-! ### `get_encompassing_span` / `Span.encompassing` -/

/-- Python's `min(iterable)` over periods: the running minimum is replaced when `x < current` (a comparison between different
frequencies raises). `none` for an empty iterable (the caller catches the ValueError). -/
def minPeriods : List Period → R (Option Period)
  | [] => pure none
  | p :: ps => do
    let r ← ps.foldlM (fun acc x => do if (← x.lt acc) then pure x else pure acc) p
    pure (some r)

def maxPeriods : List Period → R (Option Period)
  | [] => pure none
  | p :: ps => do
    let r ← ps.foldlM (fun acc x => do if (← x.gt acc) then pure x else pure acc) p
    pure (some r)

/-- an argument of `get_encompassing_span`: an object with `start_date`/`end_date` attributes (a span, a series, a resolution
context), or an iterable of periods possibly containing `None` -/
inductive EncArg where
  | attrs (startDate endDate : Option Period)
  | seq (l : List (Option Period))
  deriving Repr

/-- `_get_period(something, attr, select)`: the attribute when there is one; otherwise `select` over the non-`None` elements,
with every exception (empty iterable, mixed frequencies) turned into `None` -/
def EncArg.pick (sel : List Period → R (Option Period)) (attr : EncArg → Option (Option Period)) (a : EncArg) : Option Period :=
  match attr a with
  | some v => v
  | none =>
    match a with
    | .seq l => (match sel (l.filterMap id) with | .ok r => r | .error _ => none)
    | .attrs _ _ => none

def EncArg.startOf (a : EncArg) : Option Period :=
  a.pick minPeriods (fun a => match a with | .attrs s _ => some s | .seq _ => none)
def EncArg.endOf (a : EncArg) : Option Period :=
  a.pick maxPeriods (fun a => match a with | .attrs _ e => some e | .seq _ => none)

/-- `get_encompassing_span(*args)`: `None` arguments are skipped; start = min of the arguments' starts, end = max of their ends
(either may be missing, the span then has the contextual end); returns `(Span(start, end), start, end)` -/
def encompassing (args : List (Option EncArg)) : R (Span × Option Period × Option Period) := do
  let as := args.filterMap id
  let s ← minPeriods (as.filterMap EncArg.startOf)
  let e ← maxPeriods (as.filterMap EncArg.endOf)
  let sp ← Span.make (s.map .res) (e.map .res) 1
  pure (sp, s, e)

/-- every period an argument mentions -/
def EncArg.periods : EncArg → List Period
  | .attrs s e => s.toList ++ e.toList
  | .seq l => l.filterMap id


/-- in-place mutations as data, for op-sequence statements -/
inductive SpanOp where
  | reverse
  | shiftStart (k : Int)
  | shiftEnd (k : Int)
  | shift (k : Int)
  deriving Repr

def Span.apply (s : Span) : SpanOp → Span
  | .reverse => s.reverse
  | .shiftStart k => s.shiftStart k
  | .shiftEnd k => s.shiftEnd k
  | .shift k => s.shift k

/-- `p ** n`: the period itself for ±1 (not a span), the empty span for 0. -/
inductive PowResult where
  | period (p : Period)
  | span (s : Span)
  | empty
  deriving Repr

def Period.pow (p : Period) (n : Int) : PowResult :=
  if n = 1 ∨ n = -1 then .period p
  else if n > 0 then .span ⟨.res p, .res (p.add (n - 1)), 1⟩
  else if n < 0 then .span ⟨.res p, .res (p.add (n + 1)), -1⟩
  else .empty

/-- `periods_from_until(start, end, step)` = `range(start.serial, end.serial + 1, step)`. -/
def periodsFromUntil (a b : Period) (step : Int) : R (List Period) := do
  checkPeriods a b
  if step = 0 then throw .badInput
  pure ((pyRange a.serial (b.serial + 1) step).map (fun x => ⟨a.freq, x⟩))

/-- `spans_from_short_span(short, max_lag, max_lead)`: the iterable enters only through its first and last
period (`short_span[0]`, `short_span[-1]`); the code re-binds `short_span` to the unit-step `periods_from_until` tuple
and indexes *that* tuple for the long span, so an inverted pair (`first > last`, empty tuple) is an `IndexError`. -/
def spansFromShortSpan (a b : Period) (maxLag maxLead : Int) : R (List Period × List Period) := do
  let short ← periodsFromUntil a b 1
  match short.head?, short.getLast? with
  | some a', some b' =>
    let long ← periodsFromUntil (a'.add maxLag) (b'.add maxLead) 1
    pure (short, long)
  | _, _ => throw .badInput

/-- `spans_from_long_span(long, max_lag, max_lead)`: the inverse construction (`long[0] - max_lag`, `long[-1] - max_lead`,
again indexed on the re-bound tuple). -/
def spansFromLongSpan (a b : Period) (maxLag maxLead : Int) : R (List Period × List Period) := do
  let long ← periodsFromUntil a b 1
  match long.head?, long.getLast? with
  | some a', some b' =>
    let short ← periodsFromUntil (a'.subInt maxLag) (b'.subInt maxLead) 1
    pure (short, long)
  | _, _ => throw .badInput

/-- `extend_span(span, min_shift, max_shift, prepend_initial, append_terminal)` on the first and last period. -/
def extendSpan (a b : Period) (minShift maxShift : Int) (prependInitial appendTerminal : Bool) : Period × Period :=
  (a.add (if prependInitial then minShift else 0), b.add (if appendTerminal then maxShift else 0))

end IrisVerif.Dates
