/-
Property C01, last round: statement audit (non-vacuity instances that were missing), the converse of the certificate, the
measurement certificate with its rejection branch, full uniqueness of the computed solution among bounded solutions of the
stacked system (the "is the stable one" clause), and the end-to-end statement.
-/
import IrisVerif.Props.C01
import IrisVerif.Props.C01QZ
import IrisVerif.Props.C01State
import IrisVerif.Props.BridgeC01Sim
import Mathlib.LinearAlgebra.Matrix.NonsingularInverse

open Matrix

set_option linter.unusedSectionVars false

namespace IrisVerif.C01Final

open IrisVerif.C01

/-! ## Statement audit: instances that were missing -/

/-- a GROWING steady path meets the hypothesis of `level_eq_steadypath_add_deviation` / `steady_path_reproduced`:
random walk with drift `x = x{-1} + 1/2`, `ξ̄[t] = t/2` -/
example : ∀ t : ℕ, (fun t : ℕ => (![(t : ℚ) / 2] : Fin 1 → ℚ)) (t + 1)
    = (!![1] : Matrix (Fin 1) (Fin 1) ℚ) *ᵥ (fun t : ℕ => (![(t : ℚ) / 2] : Fin 1 → ℚ)) t + ![1/2] := by
  intro t; ext i; fin_cases i; simp [Matrix.mulVec, dotProduct]; ring

/-- the hypothesis of `split_frame_eq_single` is met by a shock path with an unanticipated shock in the first frame period only -/
example : ∀ k, 2 ≤ k → k ≤ 3 → (fun k : ℕ => if k = 1 then (![1] : Fin 1 → ℚ) else 0) (0 + k) = 0 := by
  intro k h1 _; have : ¬ (k = 1) := by omega
  simp [this]

/-- the measurement certificate is met by `y = 2 x + 3 + w` written as `-y + 2 x + 3 + w = 0`: `F = -1, G = 2, H = 3, J = 1`, `Z = 2, D = 3, Hm = 1` -/
example : (!![-1] : Matrix (Fin 1) (Fin 1) ℚ) * !![2] + !![2] = 0 ∧ (!![-1] : Matrix (Fin 1) (Fin 1) ℚ) *ᵥ ![3] + ![3] = 0
    ∧ (!![-1] : Matrix (Fin 1) (Fin 1) ℚ) * !![1] + !![1] = 0 := by
  refine ⟨?_, ?_, ?_⟩
  · ext i j; fin_cases i; fin_cases j; simp
  · ext i; fin_cases i; simp [Matrix.mulVec, dotProduct]
  · ext i j; fin_cases i; fin_cases j; simp

/-- the executable discipline check of the driver is the `disciplined` of `runObj_pure` -/
theorem disciplinedOps_eq {π : Type} (fr : Bool) (ops : List (FirstOrder.ObjOp π)) :
    FirstOrder.disciplinedOps fr ops = C01State.disciplined fr ops := by
  induction ops generalizing fr with
  | nil => rfl
  | cons op ops ih => cases op <;> simp [FirstOrder.disciplinedOps, C01State.disciplined, ih]

/-! ## Measurement block with the stacked vector: certificate, and the rejection of leads -/

section measurement
variable {nf nb ny nw : Type} [Fintype nf] [Fintype nb] [Fintype ny] [Fintype nw] [DecidableEq nf] [DecidableEq nb]
variable {K : Type} [CommRing K]

/-- the measurement equations `F y + G_f f + G_b ξ + H + J w` on the simulated measurement reduce to `G_f f` under the certificate -/
theorem measurement_residual (F : Matrix ny ny K) (Gf : Matrix ny nf K) (Gb : Matrix ny nb K) (Hc : ny → K) (Jm : Matrix ny nw K)
    (Z : Matrix ny nb K) (Dm : ny → K) (Hm : Matrix ny nw K)
    (h1 : F * Z + Gb = 0) (h2 : F *ᵥ Dm + Hc = 0) (h3 : F * Hm + Jm = 0) (f : nf → K) (x : nb → K) (w : nw → K) :
    F *ᵥ measure Z Dm Hm x w + Gf *ᵥ f + Gb *ᵥ x + Hc + Jm *ᵥ w = Gf *ᵥ f := by
  have h := measurement_equations_hold F Gb Hc Jm Z Dm Hm h1 h2 h3 x w
  have e : F *ᵥ measure Z Dm Hm x w + Gf *ᵥ f + Gb *ᵥ x + Hc + Jm *ᵥ w
      = (F *ᵥ measure Z Dm Hm x w + Gb *ᵥ x + Hc + Jm *ᵥ w) + Gf *ᵥ f := by abel
  rw [e, h, zero_add]

/-- **what is claimed and what is rejected**: with the certificate, the measurement equations hold for EVERY lead vector iff the lead
columns `G_f` are zero (the executable `measurementCertificate` reports `gLead`; a model with a lead in a measurement equation has
`gLead ≠ 0` and is the known finding `measurement-equation-with-lead`) -/
theorem measurement_holds_iff (F : Matrix ny ny K) (Gf : Matrix ny nf K) (Gb : Matrix ny nb K) (Hc : ny → K) (Jm : Matrix ny nw K)
    (Z : Matrix ny nb K) (Dm : ny → K) (Hm : Matrix ny nw K)
    (h1 : F * Z + Gb = 0) (h2 : F *ᵥ Dm + Hc = 0) (h3 : F * Hm + Jm = 0) :
    (∀ (f : nf → K) (x : nb → K) (w : nw → K), F *ᵥ measure Z Dm Hm x w + Gf *ᵥ f + Gb *ᵥ x + Hc + Jm *ᵥ w = 0) ↔ Gf = 0 := by
  constructor
  · intro h
    apply matrix_eq_zero_of_mulVec
    intro f
    have := h f 0 0
    rwa [measurement_residual F Gf Gb Hc Jm Z Dm Hm h1 h2 h3] at this
  · intro hG f x w
    rw [measurement_residual F Gf Gb Hc Jm Z Dm Hm h1 h2 h3, hG, Matrix.zero_mulVec]

end measurement

/-! ## The converse of the certificate -/

section converse
variable {nf nb ne nu : Type} [Fintype nf] [Fintype nb] [Fintype ne] [Fintype nu] [DecidableEq nb] [DecidableEq nu]
variable {K : Type} [CommRing K]
variable (T : Matrix nb nb K) (Kc : nb → K) (P : Matrix nb nu K) (sh : nf → ℕ) (src : nf → nb)
variable (Af : Matrix ne nf K) (Ab Bb : Matrix ne nb K) (C : ne → K) (D : Matrix ne nu K)

theorem antic_zero : antic T sh src Af Ab D (fun _ => 0) 0 = 0 := by
  have hz : ∀ j, hfrom T (fun _ : ℕ => (0 : nb → K)) 0 j = 0 := by
    intro j; induction j with
    | zero => rfl
    | succ j ih => simp [hfrom, ih]
  simp only [antic, hz, Matrix.mulVec_zero, add_zero, Pi.zero_apply]
  have z : (fun _ : nf => (0 : K)) = 0 := rfl
  simp [z]

/-- **The certificate is necessary and sufficient**: `E1 = E2 = E3 = 0` iff every claimed row holds in the first simulated period for
every initial condition and every unanticipated shock -- so if a certificate block is not zero there IS a history (an initial
condition and a shock) with a violated equation. -/
theorem certificate_iff :
    (E1 T sh src Af Ab Bb = 0 ∧ E2 T Kc sh src Af Ab C = 0 ∧ E3 T P sh src Af Ab D = 0) ↔
    (∀ (x0 : nb → K) (u : ℕ → nu → K), residAt T Kc P sh src Af Ab Bb C D x0 u (fun _ => 0) (fun _ => 0) 0 = 0) := by
  constructor
  · rintro ⟨h1, h2, h3⟩ x0 u
    exact equations_hold_unanticipated T Kc P sh src Af Ab Bb C D h1 h2 h3 x0 u 0
  · intro h
    have key : ∀ (ξ : nb → K) (u : nu → K),
        E1 T sh src Af Ab Bb *ᵥ ξ + E2 T Kc sh src Af Ab C + E3 T P sh src Af Ab D *ᵥ u = 0 := by
      intro ξ u
      have := h ξ (fun _ => u)
      rw [residAt_eq, antic_zero, add_zero] at this
      exact this
    have h2 : E2 T Kc sh src Af Ab C = 0 := by have := key 0 0; simpa using this
    refine ⟨?_, h2, ?_⟩
    · apply matrix_eq_zero_of_mulVec
      intro ξ; have := key ξ 0; simpa [h2] using this
    · apply matrix_eq_zero_of_mulVec
      intro u; have := key 0 u; simpa [h2] using this

/-- contrapositive, in words of the property: a failing certificate block has a witness history -/
theorem certificate_fails_witness
    (hne : ¬ (E1 T sh src Af Ab Bb = 0 ∧ E2 T Kc sh src Af Ab C = 0 ∧ E3 T P sh src Af Ab D = 0)) :
    ∃ (x0 : nb → K) (u : ℕ → nu → K), residAt T Kc P sh src Af Ab Bb C D x0 u (fun _ => 0) (fun _ => 0) 0 ≠ 0 := by
  by_contra hcon
  apply hne
  rw [certificate_iff]
  intro x0 u
  by_contra h
  exact hcon ⟨x0, u, h⟩

end converse

/-! ## Full uniqueness: the computed solution is THE stable one -/

section uniqueness
variable {nr nf nb nu : Type} [Fintype nr] [Fintype nf] [Fintype nb] [Fintype nu]
variable [DecidableEq nr] [DecidableEq nf] [DecidableEq nb]
variable {F : Type} [Field F] [LinearOrder F] [IsStrictOrderedRing F] [Archimedean F]
variable (d : QZ nr nf nb nu F)

/-- **Uniqueness.**  Under the hypotheses of `C01QZ` (exact QZ identities, invertible `S11`, `T22`, `S22+T22`, `Z21`), an inverse of
`Z`, and a contracting power of `J = -T22⁻¹ S22` (the unstable roots are outside the unit circle): ANY shock-free path `ζ[t]` of the
whole stacked system `A ζ[t+1] + B ζ[t] + C = 0` (all rows, every `t`) whose unstable block `(Z⁻¹ ζ[t])₂` stays bounded has the
state recursion of the computed solution, `ξ[t+1] = T ξ[t] + K` -- there is no other non-explosive solution. -/
theorem uniqueness_qz (hS11' : d.S11i * d.S11 = 1) (hT22' : d.T22i * d.T22 = 1)
    (Zi : Matrix (nb ⊕ nf) (nf ⊕ nb) F) (hZ : d.Zm * Zi = 1)
    (m : ℕ) (q : F) (hq : RowSumLe (d.Jm ^ m) q) (hq0 : 0 ≤ q) (hq1 : q < 1)
    (ζ : ℕ → nf ⊕ nb → F) (hsys : ∀ t, d.A *ᵥ ζ (t + 1) + d.B *ᵥ ζ t + d.C = 0)
    (Bd : F) (hb : ∀ t, VecLe (fun i => (Zi *ᵥ ζ t) (Sum.inr i)) Bd) (t : ℕ) :
    (fun b => ζ (t + 1) (Sum.inr b)) = d.Tsq *ᵥ (fun b => ζ t (Sum.inr b)) + d.Ksq := by
  -- transformed coordinates (opaque)
  obtain ⟨w, hwdef⟩ : ∃ w : ℕ → nb ⊕ nf → F, ∀ t, w t = Zi *ᵥ ζ t := ⟨_, fun _ => rfl⟩
  obtain ⟨s, hs⟩ : ∃ s : ℕ → nb → F, ∀ t i, s t i = w t (Sum.inl i) := ⟨_, fun _ _ => rfl⟩
  obtain ⟨un, hun⟩ : ∃ un : ℕ → nf → F, ∀ t i, un t i = w t (Sum.inr i) := ⟨_, fun _ _ => rfl⟩
  have hw : ∀ t, w t = Sum.elim (s t) (un t) := by
    intro t; funext i; rcases i with i | i
    · rw [Sum.elim_inl, hs]
    · rw [Sum.elim_inr, hun]
  have hζ : ∀ t, ζ t = d.Zm *ᵥ w t := by
    intro t; rw [hwdef, Matrix.mulVec_mulVec, hZ, Matrix.one_mulVec]
  have key : ∀ (M : Matrix nr (nf ⊕ nb) F) t,
      d.Q *ᵥ (M *ᵥ ζ t) = (d.Q * M * fromBlocks d.Z11 d.Z12 d.Z21 d.Z22) *ᵥ w t := by
    intro M t
    conv_lhs => rw [hζ t]
    rw [Matrix.mulVec_mulVec, Matrix.mulVec_mulVec]; rfl
  have htr : ∀ t, fromBlocks d.S11 d.S12 0 d.S22 *ᵥ w (t + 1) + fromBlocks d.T11 d.T12 0 d.T22 *ᵥ w t + d.Q *ᵥ d.C = 0 := by
    intro t
    have h := congrArg (fun x => d.Q *ᵥ x) (hsys t)
    simp only [Matrix.mulVec_add, Matrix.mulVec_zero] at h
    rw [key, key, d.hS, d.hT] at h
    exact h
  have hlow : ∀ t, d.S22 *ᵥ un (t + 1) + d.T22 *ᵥ un t + d.QC2 = 0 := by
    intro t
    funext i
    have hi := congrFun (htr t) (Sum.inr i)
    rw [hw (t + 1), hw t] at hi
    simp only [Matrix.fromBlocks_mulVec, Pi.add_apply, Sum.elim_inr, Sum.elim_comp_inl, Sum.elim_comp_inr, Matrix.zero_mulVec,
      zero_add, Pi.zero_apply] at hi
    exact hi
  have hup : ∀ t, d.S11 *ᵥ s (t + 1) + d.S12 *ᵥ un (t + 1) + (d.T11 *ᵥ s t + d.T12 *ᵥ un t) + d.QC1 = 0 := by
    intro t
    funext i
    have hi := congrFun (htr t) (Sum.inl i)
    rw [hw (t + 1), hw t] at hi
    simp only [Matrix.fromBlocks_mulVec, Pi.add_apply, Sum.elim_inl, Sum.elim_comp_inl, Sum.elim_comp_inr, Pi.zero_apply] at hi
    exact hi
  -- the unstable block is the forward-solved constant
  have hback : ∀ (x y : nf → F), d.S22 *ᵥ y + d.T22 *ᵥ x + d.QC2 = 0 → x = d.Jm *ᵥ y + -(d.T22i *ᵥ d.QC2) := by
    intro x y h
    have h' : d.T22 *ᵥ x = -(d.S22 *ᵥ y) - d.QC2 := by
      have e : d.T22 *ᵥ x = (d.S22 *ᵥ y + d.T22 *ᵥ x + d.QC2) - d.S22 *ᵥ y - d.QC2 := by abel
      rw [e, h]; abel
    have h'' := congrArg (fun z => d.T22i *ᵥ z) h'
    simp only [Matrix.mulVec_mulVec, hT22', Matrix.one_mulVec, Matrix.mulVec_sub, Matrix.mulVec_neg] at h''
    rw [h'', QZ.Jm, Matrix.neg_mulVec]; abel
  have hKu1 : d.S22 *ᵥ d.Ku + d.T22 *ᵥ d.Ku + d.QC2 = 0 := by
    have h := d.lower_block_qz 0
    simpa using h
  have hun_const : ∀ t, un t = d.Ku := by
    intro t
    refine C01State.unstable_block_unique d.Jm (-(d.T22i *ᵥ d.QC2)) d.Ku (hback _ _ hKu1) m q hq hq0 hq1 un
      (fun t => hback _ _ (hlow t)) Bd ?_ t
    intro t i
    have := hb t i
    rw [hun t i, hwdef t]; exact this
  -- the stable block follows the computed recursion
  obtain ⟨γ, hγ⟩ : ∃ γ : nb → F, γ = s t - d.G *ᵥ d.Ku := ⟨_, rfl⟩
  have hst : s t = γ + d.G *ᵥ d.Ku := by rw [hγ]; abel
  have hnext : s (t + 1) = d.Tg *ᵥ γ + d.Kg + d.G *ᵥ d.Ku := by
    have h1 := hup t
    rw [hun_const (t + 1), hun_const t, hst] at h1
    have h2 := d.upper_block_qz γ 0
    simp only [Matrix.mulVec_zero, add_zero] at h2
    have h3 : d.S11 *ᵥ s (t + 1) = d.S11 *ᵥ (d.Tg *ᵥ γ + d.Kg + d.G *ᵥ d.Ku) := by
      have a1 : d.S11 *ᵥ s (t + 1) = -(d.S12 *ᵥ d.Ku + (d.T11 *ᵥ (γ + d.G *ᵥ d.Ku) + d.T12 *ᵥ d.Ku) + d.QC1) := by
        have e : d.S11 *ᵥ s (t + 1) = (d.S11 *ᵥ s (t + 1) + d.S12 *ᵥ d.Ku + (d.T11 *ᵥ (γ + d.G *ᵥ d.Ku) + d.T12 *ᵥ d.Ku) + d.QC1)
            - (d.S12 *ᵥ d.Ku + (d.T11 *ᵥ (γ + d.G *ᵥ d.Ku) + d.T12 *ᵥ d.Ku) + d.QC1) := by abel
        rw [e, h1]; abel
      have a2 : d.S11 *ᵥ (d.Tg *ᵥ γ + d.Kg + d.G *ᵥ d.Ku) = -(d.S12 *ᵥ d.Ku + (d.T11 *ᵥ (γ + d.G *ᵥ d.Ku) + d.T12 *ᵥ d.Ku) + d.QC1) := by
        have e : d.S11 *ᵥ (d.Tg *ᵥ γ + d.Kg + d.G *ᵥ d.Ku)
            = (d.S11 *ᵥ (d.Tg *ᵥ γ + d.Kg + d.G *ᵥ d.Ku) + d.S12 *ᵥ d.Ku + d.T11 *ᵥ (γ + d.G *ᵥ d.Ku) + d.T12 *ᵥ d.Ku + d.QC1)
              - (d.S12 *ᵥ d.Ku + (d.T11 *ᵥ (γ + d.G *ᵥ d.Ku) + d.T12 *ᵥ d.Ku) + d.QC1) := by abel
        rw [e, h2]; abel
      rw [a1, a2]
    have h4 := congrArg (fun z => d.S11i *ᵥ z) h3
    simpa [Matrix.mulVec_mulVec, hS11'] using h4
  -- back to the state
  have hξ : ∀ (t' : ℕ) (g : nb → F), s t' = g + d.G *ᵥ d.Ku → (fun b => ζ t' (Sum.inr b)) = d.Z21 *ᵥ g := by
    intro t' g hg
    have h := hζ t'
    rw [hw t', hun_const t', hg, d.Zm_mulVec_qz] at h
    funext b
    rw [h, Sum.elim_inr]
  rw [hξ t γ hst, hξ (t + 1) (d.Tg *ᵥ γ + d.Kg) hnext]
  simp only [QZ.Tsq, QZ.Ksq, Matrix.mulVec_add, ← Matrix.mulVec_mulVec, d.Z21i_Z21_mulVec]

/-- **End to end, input-level hypotheses only** (exact QZ identities, invertible named blocks, the dynamic identities of the lead
tokens, claimed rows reading `ζ[t-1]` in its `ξ` part, an inverse of `Z`, a contracting power of `J`): the matrices computed by
`_solve_transition_equations` (i) make every claimed row hold in every period along every simulated path -- every initial
condition, every unanticipated and finite-horizon anticipated shock path --, and (ii) are the only non-explosive solution. -/
theorem end_to_end_qz {nc : Type} [Fintype nc] [DecidableEq nu]
    {sh : nf → ℕ} {src : nf → nb} {prev : nf → nf ⊕ nb} {idr : nf → nr} (cr : nc → nr)
    (hl : LeadIdentities d sh src prev idr) (hB0 : ∀ r i, d.B (cr r) (Sum.inl i) = 0)
    (hS11' : d.S11i * d.S11 = 1) (hT22' : d.T22i * d.T22 = 1)
    (Zi : Matrix (nb ⊕ nf) (nf ⊕ nb) F) (hZ : d.Zm * Zi = 1)
    (m : ℕ) (q : F) (hq : RowSumLe (d.Jm ^ m) q) (hq0 : 0 ≤ q) (hq1 : q < 1) :
    (∀ (H : ℕ) (x0 : nb → F) (u v : ℕ → nu → F), (∀ s, H < s → v s = 0) → ∀ t,
        residAt d.Tsq d.Ksq d.Psq sh src (Afq d cr) (Abq d cr) (Bbq d cr) (Ccq d cr) (Ddq d cr) x0 u v
          (impact d.Psq d.Xsq d.Jm d.Ru H v) t = 0) ∧
    (∀ (ζ : ℕ → nf ⊕ nb → F), (∀ t, d.A *ᵥ ζ (t + 1) + d.B *ᵥ ζ t + d.C = 0) →
        (∃ Bd, ∀ t, VecLe (fun i => (Zi *ᵥ ζ t) (Sum.inr i)) Bd) →
        ∀ t, (fun b => ζ (t + 1) (Sum.inr b)) = d.Tsq *ᵥ (fun b => ζ t (Sum.inr b)) + d.Ksq) :=
  ⟨fun H x0 u v hv t => equations_hold_qz d cr hl hB0 H x0 u v hv t,
   fun ζ hsys ⟨Bd, hb⟩ t => uniqueness_qz d hS11' hT22' Zi hZ m q hq hq0 hq1 ζ hsys Bd hb t⟩

end uniqueness

/-! ### Non-vacuity of the uniqueness / end-to-end hypotheses: the scalar example `exQZ` -/

section example_final

/-- inverse of `Z = [[1, 3], [2, 2]]` -/
def exZi : Matrix (Fin 1 ⊕ Fin 1) (Fin 1 ⊕ Fin 1) ℚ := Matrix.of (Sum.elim (fun _ => Sum.elim ![-1/2] ![3/4]) (fun _ => Sum.elim ![1/2] ![-1/4]))

example : exQZ.Zm * exZi = 1 ∧ exQZ.S11i * exQZ.S11 = 1 ∧ exQZ.T22i * exQZ.T22 = 1 ∧ RowSumLe (exQZ.Jm ^ 1) (2/3 : ℚ) := by
  refine ⟨?_, ?_, ?_, ?_⟩
  · ext i j
    rcases i with i | i <;> rcases j with j | j <;> fin_cases i <;> fin_cases j <;>
      simp [QZ.Zm, exQZ, exZi, Matrix.mul_apply, Fintype.sum_sum_type, Matrix.one_apply] <;> norm_num
  · ext i j; fin_cases i; fin_cases j; simp [exQZ, Matrix.mul_apply] <;> norm_num
  · ext i j; fin_cases i; fin_cases j; simp [exQZ, Matrix.mul_apply] <;> norm_num
  · intro i; fin_cases i
    simp [QZ.Jm, exQZ, Matrix.mul_apply] <;> norm_num [abs_of_pos]

/-- the steady state `(x[+1]; x) = (8; 8)` is a bounded solution of the whole stacked system of the example -/
example : exQZ.A *ᵥ (fun _ => (8 : ℚ)) + exQZ.B *ᵥ (fun _ => (8 : ℚ)) + exQZ.C = 0 := by
  ext i; fin_cases i <;> simp [exQZ, Matrix.mulVec, dotProduct, Fintype.sum_sum_type] <;> norm_num

/-- the shape hypotheses of the simulator bridge `BridgeC01Sim.foldl_xiStep_eq_path_PU` are met by concrete `QMat`s
(`T = P = 1`, `K = 0`, three data columns, frame starting in column 1, two periods) -/
example : True := by
  have _h := BridgeC01Sim.foldl_xiStep_eq_path_PU (QMat.identity 1) (QMat.zero 1 1) (QMat.identity 1) (QMat.zero 1 3) #[]
    (QMat.zero 1 1) 1 1 1 rfl rfl rfl rfl rfl 2 (by decide)
  trivial

end example_final

end IrisVerif.C01Final
