"""
C01 -- First-order solution satisfies the model equations and is the stable one.

Ties (DESIGN.md 7/C01):
  * class E: the stacked system vector / solution vector / true initials / dynamic identities of
    fords/descriptors.py against the Lean model (Model/FirstOrder.lean), from the harness's own token sets;
  * class D: the whole Simultaneous.simulate(method="first_order") pipeline (frames, pruning, initials,
    anticipated impact, write-back, measurement, deviation) on real models whose Solution object was
    overwritten by small dyadic matrices -- exact equality of the path with the Lean recursion;
  * class V/T: on random determinate models, the residual certificate E1,E2,E3,E4_j,W of the actual
    get_solution()/systemize() matrices evaluated exactly in Lean (bound 1e-8*scale), the stability
    certificate ||T^m||_inf < 1 checked exactly, the simulated databox against the exact recursion.
Oracle (independent of the Lean model and of the solution matrices): the harness's own linear equations,
evaluated on the OUTPUT databox with leads read from a continuation simulation; the harness's own stacked
pencil and scipy.linalg.eig for the Blanchard-Kahn count; level = steady + deviation with the harness's own
steady state.
"""
from __future__ import annotations
import math, os, json, glob
from fractions import Fraction

import numpy as np
import scipy.linalg

import irispie as ir

from .common import Ctx, Rng, rat_of_float, VERIF

DRIVERS = ["C01"]
EXTRA_PROPS = ['QMatBridge', 'C01QZ', 'BridgeC01Sim', 'C01State', 'GenTieCore', 'GenTieC01', 'C01Final']   # refinement bridge: the executable QMat model satisfies the hypotheses of the matrix-level theorems
LEVEL = "proof"
MANIFEST = {
    "category": "proof",
    "text": ("Lean 4 theorems (Mathlib matrices over any commutative ring / ordered field, any dimensions, any lead depth, any horizon) "
             "about an executable model of fords/descriptors.py + fords/simulators.py + fords/shock_simulators.py + frames.py: "
             "residual identity (the residual of every equation row at t, leads read from the model-consistent continuation, equals "
             "E1 xi[t-1] + E2 + E3 u[t] + anticipated part), finite certificate => every equation holds in every period for every initial "
             "condition and every path of unanticipated and anticipated shocks (the infinitely many anticipated conditions follow from "
             "finitely many by induction), frames tile the base span and a split simulation equals the single-frame one, "
             "level = steady (path, also with growth) + deviation by induction over periods, ||T^m||<1 => shock-free path bounded by c*||xi0|| for all t, "
             "forward expansion R_k = -X J^(k-1) Ru equals the backward recursion of the unstable block; "
             "block algebra of _solve_transition_equations (Props/C01QZ.lean): exact QZ identities + invertible S11, T22, S22+T22, Z21 => the computed "
             "T, K, P satisfy E1=E2=E3=0 and, with the computed X, J, Ru, every equation holds in every period with unanticipated and anticipated "
             "shocks; the Schur rotation cancels and T Ua = Ua Ta; the executable certificate (QMatBridge) and the executable state recursion / "
             "forward expansion (BridgeC01Sim) refine the theorem-level definitions; object state and loops (Props/C01State.lean): the expansion memo as a "
             "state machine (any sequence of horizon requests = fresh computations), histories on one object (assign/solve/observe/copy: every "
             "observation is the pure function of the parameters in force), variant locality of the solve/simulate loop, the frame-window condition for "
             "split = single; Props/C01Final.lean: the certificate is necessary and sufficient (a failing block has a witness history), the "
             "measurement certificate with its rejection branch (the measurement equations hold for every lead vector iff the lead columns of G "
             "vanish), full uniqueness (any shock-free solution of the whole stacked system with a bounded unstable block follows the computed "
             "recursion) and the end-to-end theorem from the QZ identities with input-level hypotheses only. "
             "Not claimed: boundedness under shocks (non-explosiveness is proved for the shock-free deviation path; on unit-root models the certificate is "
             "evaluated on the stable block of Ta, to which the theorem is not transported), E4/W = 0 as matrix equalities from QZ, that the "
             "executable dynidPairs satisfy LeadIdentities (tied by the `vectors` stream), the simulator write-back (see BridgeC01Sim). "
             "PARTIAL: the quantifier over model programs is covered by translation validation -- per generated model the certificate is "
             "evaluated in exact rational arithmetic on the implementation's own systemize()/get_solution() matrices (bound 1e-8*scale), "
             "the stability certificate and T Ua = Ua Ta exactly, the simulated databox against the exact recursion; that scipy's ordqz/schur/lstsq "
             "return an (approximately) exact factorisation is not modelled; Blanchard-Kahn count against an independent scipy eig of the harness's own pencil."),
    "design": "7/C01",
    "note": "known findings: a lead in a measurement equation is dropped; a shock at a non-zero shift in a transition equation is treated as contemporaneous (both replayed from corpus/C01 first on every run, the generator does not produce shifted shocks). partial: certificate validation per program; floating point and LAPACK are outside the theorems; conditional (plan) simulations belong to C07",
    "technique": "Lean 4 proof of schematic theorems + exact-arithmetic certificate validation + dyadic-exact differential correspondence of the simulator",
}
ASSUMPTIONS = [
    "theorems are schematic in the matrices: the link of a concrete model program to them is the certificate, validated per generated program (translation validation), not proved for all programs",
    "IEEE-754 rounding, QZ (ordqz), Schur and lstsq are unmodelled: certificates are bounded by 1e-8*scale on generator-controlled instances (roots away from the unit circle by 1e-3, stable roots <= 0.92)",
    "log-variables are handled as an abstract inverse pair log/exp: the model works on the transformed data, the harness applies log/exp",
    "the independent Blanchard-Kahn count uses scipy.linalg.eig on the harness's own stacked pencil with a margin of 1e-4 around the unit circle",
]

TOL_CERT = 1e-8
TOL_PATH = 1e-9
TOL_RES = 1e-7

# ---------------------------------------------------------------------------------------
# model specifications (the harness's own representation, independent of irispie)
# ---------------------------------------------------------------------------------------
# spec = {
#   "n": int, "logly": [bool]*n, "ns": int,
#   "eqs": [ {"lhs": c, "terms": [[j, shift, coef, as_param?], ...], "shocks": [[k, coef]], "const": c} ] * n     (equation i has LHS variable i)
#   "nm": int, "mlogly": [bool]*nm, "nw": int,
#   "meas": [ {"terms": [[j, shift<=0, coef]], "wshock": [k, coef] | None, "const": c} ] * nm
#   "linear": bool
# }
#  meaning of equation i:   lhs*lin(x_i[t]) = sum coef*lin(x_j[t+shift]) + sum coef*(e_k[t] + ant_e_k[t]) + const
#  with lin = log for log-variables and identity otherwise.


def dy(rng: Rng, lo: float, hi: float, bits: int = 4) -> float:
    s = 1 << bits
    return rng.randint(int(math.ceil(lo * s)), int(math.floor(hi * s))) / s


def nz(rng: Rng, lo, hi, bits=4) -> float:
    for _ in range(20):
        x = dy(rng, lo, hi, bits)
        if x != 0:
            return x
    return 1.0 / (1 << bits)


def gen_spec(rng: Rng, size_hint=None) -> dict:
    n = size_hint or rng.weighted([(1, 2), (2, 4), (3, 4), (4, 3), (5, 2), (6, 2)])
    has_log = rng.chance(0.3)
    logly = [has_log and rng.chance(0.5) for _ in range(n)]
    ns = rng.weighted([(0, 1), (1, 6), (2, 6), (3, 4)])
    ns = min(ns, n + 1)
    unit_var = rng.randint(0, n - 1) if (rng.chance(0.15) and not has_log) else None
    # balanced-growth mode: a unit-root variable WITH drift in a model that is not declared linear (so that the constants of the
    # unsolved system come from the steady-state path, System.__init__ non-linear branch), other variables optionally written as
    # gaps to the trending variable (they then grow too); log-variables allowed (growth rate != 1)
    gr = rng.fork("growth")
    growth = gr.chance(0.22)
    if growth:
        unit_var = gr.randint(0, n - 1)
        logly = [gr.chance(0.3) for _ in range(n)]
        has_log = any(logly)
    eqs = []
    for i in range(n):
        terms = []
        lhs = rng.choice([1.0, 1.0, 1.0, 2.0, 0.5, -1.0])
        if i == unit_var:
            terms.append([i, -1, lhs * 1.0, False])
        else:
            if rng.chance(0.85):
                lag = rng.weighted([(1, 6), (2, 2), (3, 1)])
                terms.append([i, -lag, lhs * nz(rng, -0.75, 0.75), rng.chance(0.3)])
            if rng.chance(0.4):
                lead = rng.weighted([(1, 6), (2, 2), (3, 1)])
                terms.append([i, lead, lhs * nz(rng, -0.375, 0.375), rng.chance(0.3)])
        others = [j for j in range(n) if j != i]
        for j in rng.sample(others, min(len(others), rng.weighted([(0, 2), (1, 4), (2, 3)]))):
            if j == unit_var:
                continue    # keeps the unit root isolated (one exact unit root, everything else away from the circle)
            sh = rng.weighted([(0, 4), (-1, 4), (-2, 2), (-3, 1), (1, 3), (2, 1), (3, 1)])
            terms.append([j, sh, lhs * nz(rng, -0.25, 0.25), rng.chance(0.2)])
        shocks = []
        if ns:
            for k in rng.sample(range(ns), rng.weighted([(0, 1), (1, 5), (2, 2)])):
                shocks.append([k, nz(rng, -2, 2, 2)])
        const = dy(rng, -2, 2, 2) if (rng.chance(0.6) and i != unit_var) else 0.0
        if growth and i == unit_var:
            const = lhs * nz(gr, -1, 1, 3)          # drift
        eqs.append({"lhs": lhs, "terms": terms, "shocks": shocks, "const": const})
    trend = [False] * n
    if growth:
        trend = [(j != unit_var and gr.chance(0.45)) for j in range(n)]
        for i, eq in enumerate(eqs):
            extra = []
            for (j, sh, c, as_param) in eq["terms"]:
                if trend[j]:
                    extra.append([unit_var, sh, -c, False])      # c*x_j{sh}  ->  c*(x_j{sh} - x_u{sh})
            if trend[i]:
                extra.append([unit_var, 0, eq["lhs"], False])    # lhs*x_i = ...  ->  lhs*(x_i - x_u) = ...
            eq["terms"] += extra
    nm = rng.weighted([(0, 3), (1, 4), (2, 3)])
    nw = rng.randint(0, nm) if nm else 0
    meas = []
    mlogly = []
    for r in range(nm):
        terms = []
        for j in rng.sample(range(n), min(n, rng.randint(1, 2))):
            terms.append([j, rng.weighted([(0, 6), (-1, 3), (-2, 1)]), nz(rng, -2, 2, 2)])
        wsh = [r % nw, nz(rng, -2, 2, 2)] if (nw and rng.chance(0.7)) else None
        meas.append({"terms": terms, "wshock": wsh, "const": dy(rng, -3, 3, 1) if rng.chance(0.6) else 0.0})
        mlogly.append(has_log and rng.chance(0.4))
    meas_lead = False
    if nm and rng.chance(0.06):
        # a lead of a transition variable inside a measurement equation (accepted by the parser; see notes/C01.md)
        me = meas[rng.randint(0, nm - 1)]
        me["terms"][0][1] = rng.choice([1, 1, 2])
        meas_lead = True
    return {"n": n, "logly": logly, "ns": ns, "eqs": eqs, "nm": nm, "mlogly": mlogly, "nw": nw, "meas": meas,
            "linear": (not has_log) and not growth, "unit_var": unit_var, "meas_lead": meas_lead, "growth": growth, "trend": trend}


def xname(j): return f"x{j}"
def ename(k): return f"e{k}"
def yname(r): return f"y{r}"
def wname(k): return f"w{k}"


def fnum(c: float) -> str:
    r = repr(float(c))
    return f"({r})" if c < 0 else r


def spec_source(spec: dict) -> tuple[str, dict]:
    """model source text + parameter assignments"""
    params = {}
    n = spec["n"]

    def lin(name, logly, sh):
        t = name if sh == 0 else f"{name}{{{sh:+d}}}"
        return f"log({t})" if logly else t

    lines = ["!transition-variables", "    " + ", ".join(xname(j) for j in range(n))]
    if any(spec["logly"]):
        lines += ["!log-variables", "    " + ", ".join(xname(j) for j in range(n) if spec["logly"][j])]
    if spec["ns"]:
        lines += ["!transition-shocks", "    " + ", ".join(ename(k) for k in range(spec["ns"]))]
    eq_lines = []
    for i, eq in enumerate(spec["eqs"]):
        rhs = []
        for (j, sh, c, as_param) in eq["terms"]:
            if as_param:
                p = f"p{i}_{len(params)}"
                params[p] = c
                rhs.append(f"{p}*{lin(xname(j), spec['logly'][j], sh)}")
            else:
                rhs.append(f"{fnum(c)}*{lin(xname(j), spec['logly'][j], sh)}")
        for (k, c) in eq["shocks"]:
            rhs.append(f"{fnum(c)}*{ename(k)}")
        for (k, c, sh) in (spec.get("shock_lags") or [[]] * n)[i]:
            rhs.append(f"{fnum(c)}*{ename(k)}{{{sh:+d}}}")          # a shock at a non-zero shift (moving-average term)
        if eq["const"] != 0 or not rhs:
            rhs.append(fnum(eq["const"]))
        lhs = lin(xname(i), spec["logly"][i], 0)
        if eq["lhs"] != 1.0:
            lhs = f"{fnum(eq['lhs'])}*{lhs}"
        eq_lines.append(f"    {lhs} = " + " + ".join(rhs) + ";")
    if params:
        lines += ["!parameters", "    " + ", ".join(params)]
    lines += ["!transition-equations"] + eq_lines
    if spec["nm"]:
        lines += ["!measurement-variables", "    " + ", ".join(yname(r) for r in range(spec["nm"]))]
        if any(spec["mlogly"]):
            lines += ["!log-variables", "    " + ", ".join(yname(r) for r in range(spec["nm"]) if spec["mlogly"][r])]
        if spec["nw"]:
            lines += ["!measurement-shocks", "    " + ", ".join(wname(k) for k in range(spec["nw"]))]
        lines += ["!measurement-equations"]
        for r, me in enumerate(spec["meas"]):
            rhs = [f"{fnum(c)}*{lin(xname(j), spec['logly'][j], sh)}" for (j, sh, c) in me["terms"]]
            if me["wshock"]:
                rhs.append(f"{fnum(me['wshock'][1])}*{wname(me['wshock'][0])}")
            if me["const"] != 0:
                rhs.append(fnum(me["const"]))
            lines.append(f"    {lin(yname(r), spec['mlogly'][r], 0)} = " + " + ".join(rhs) + ";")
    return "\n".join(lines) + "\n", params


# ---- the harness's own view of the spec: tokens, pencil, steady state, residuals ------------------

def spec_shift_ranges(spec):
    """per variable: (min shift, max shift) over transition AND measurement equations (zero shift always included)"""
    n = spec["n"]
    lo, hi = [0] * n, [0] * n
    for i, eq in enumerate(spec["eqs"]):
        for (j, sh, c, _) in eq["terms"]:
            lo[j] = min(lo[j], sh); hi[j] = max(hi[j], sh)
    for me in spec["meas"]:
        for (j, sh, c) in me["terms"]:
            lo[j] = min(lo[j], sh); hi[j] = max(hi[j], sh)
    return lo, hi


def spec_tokens(spec):
    """(actual transition tokens, tokens of transition variables inside measurement equations), as sets of (j, shift)"""
    act = {(j, 0) for j in range(spec["n"])}
    for i, eq in enumerate(spec["eqs"]):
        for (j, sh, c, _) in eq["terms"]:
            act.add((j, sh))
    mt = set()
    for me in spec["meas"]:
        for (j, sh, c) in me["terms"]:
            act.add((j, sh)); mt.add((j, sh))
    return act, mt


def own_pencil(spec):
    """companion pencil  A z[t] + B z[t-1] = 0  over z = all (j, s), min_j+1 <= s <= max_j (transition equations only), own ordering"""
    n = spec["n"]
    lo, hi = [0] * n, [0] * n
    for eq in spec["eqs"]:
        for (j, sh, c, _) in eq["terms"]:
            lo[j] = min(lo[j], sh); hi[j] = max(hi[j], sh)
    lo = [min(l, -1) for l in lo]
    toks = [(j, s) for j in range(n) for s in range(lo[j] + 1, hi[j] + 1)]
    pos = {t: k for k, t in enumerate(toks)}
    N = len(toks)
    A = np.zeros((N, N)); B = np.zeros((N, N))
    for i, eq in enumerate(spec["eqs"]):
        A[i, pos[(i, 0)]] += eq["lhs"]
        for (j, sh, c, _) in eq["terms"]:
            if (j, sh) in pos:
                A[i, pos[(j, sh)]] -= c
            else:
                B[i, pos[(j, sh + 1)]] -= c
    r = n
    for (j, s) in toks:
        if s < hi[j]:
            A[r, pos[(j, s)]] = 1.0
            B[r, pos[(j, s + 1)]] = -1.0
            r += 1
    assert r == N
    nf = sum(1 for (j, s) in toks if s > 0)
    return A, B, nf


def own_eigen_verdict(spec):
    """independent Blanchard-Kahn classification: (verdict, n_unstable, n_unit, n_forward, moduli)"""
    A, B, nf = own_pencil(spec)
    N = A.shape[0]
    try:
        alpha_beta = scipy.linalg.eig(-B, A, right=False, homogeneous_eigvals=True)
    except Exception:
        return "bad", 0, 0, nf, []
    al, be = alpha_beta[0], alpha_beta[1]
    mod = []
    for a, b in zip(al, be):
        if abs(a) < 1e-12 and abs(b) < 1e-12:
            return "singular-pencil", 0, 0, nf, []
        mod.append(float("inf") if abs(b) < 1e-13 * max(1.0, abs(a)) else abs(a) / abs(b))
    n_unst = sum(1 for x in mod if x > 1 + 1e-3)
    n_unit = sum(1 for x in mod if abs(x - 1) <= 1e-9)
    n_stab = sum(1 for x in mod if x < 1 - 1e-3)
    if n_unst + n_unit + n_stab != N:
        return "borderline", n_unst, n_unit, nf, mod
    if n_unst == nf:
        return "determinate", n_unst, n_unit, nf, mod
    return ("no-stable" if n_unst > nf else "multiple"), n_unst, n_unit, nf, mod


def own_steady(spec):
    """steady state of the transformed variables from the harness's own equations (None when singular, e.g. unit root)"""
    n = spec["n"]
    M = np.zeros((n, n)); c = np.zeros(n)
    for i, eq in enumerate(spec["eqs"]):
        M[i, i] += eq["lhs"]
        for (j, sh, co, _) in eq["terms"]:
            M[i, j] -= co
        c[i] = eq["const"]
    try:
        if np.linalg.cond(M) > 1e8:
            return None
        xs = np.linalg.solve(M, c)
    except Exception:
        return None
    ys = np.array([sum(co * xs[j] for (j, sh, co) in me["terms"]) + me["const"] for me in spec["meas"]])
    return xs, ys


def own_steady_path(spec, beta=0.0):
    """balanced-growth steady path of the transformed variables from the harness's own equations:
    x_j(tau) = l_j + g_j*tau  (tau = 0 in the first simulated period), y_r(tau) = ly_r + gy_r*tau.
    Stationary models: g = 0.  One unit root: g spans the null space of the static matrix, its size is fixed by the
    solvability of the level equations, the level along the null direction is free (`beta`).  None when not determined."""
    n = spec["n"]
    M = np.zeros((n, n)); c = np.zeros(n)
    for i, eq in enumerate(spec["eqs"]):
        M[i, i] += eq["lhs"]
        for (j, sh, co, _) in eq["terms"]:
            M[i, j] -= co
        c[i] = eq["const"]

    def shift_part(g):      # sum over terms of coef * g_j * shift
        out = np.zeros(n)
        for i, eq in enumerate(spec["eqs"]):
            out[i] = sum(co * g[j] * sh for (j, sh, co, _) in eq["terms"])
        return out
    try:
        U, sv, Vh = np.linalg.svd(M)
    except Exception:
        return None
    if sv[-1] > 1e-9 * max(1.0, sv[0]):
        if np.linalg.cond(M) > 1e8:
            return None
        g = np.zeros(n)
        l = np.linalg.solve(M, c)
    else:
        if n >= 2 and sv[-2] <= 1e-9 * max(1.0, sv[0]):
            return None
        nv, w = Vh[-1], U[:, -1]
        den = float(w @ shift_part(nv))
        if abs(den) < 1e-6:
            return None
        alpha = -float(w @ c) / den
        g = alpha * nv
        rhs = c + shift_part(g)
        l = np.linalg.lstsq(M, rhs, rcond=None)[0]
        if np.max(np.abs(M @ l - rhs)) > 1e-9 * (1 + np.max(np.abs(rhs))):
            return None
        l = l + beta * nv / max(1e-12, np.max(np.abs(nv)))
    ly = np.array([sum(co * (l[j] + g[j] * sh) for (j, sh, co) in me["terms"]) + me["const"] for me in spec["meas"]])
    gy = np.array([sum(co * g[j] for (j, sh, co) in me["terms"]) for me in spec["meas"]])
    if max([0.0] + [abs(x) for x in g] + [abs(x) for x in gy]) > 3 or max([0.0] + [abs(x) for x in l] + [abs(x) for x in ly]) > 60:
        return None         # keeps exp() of log-variables and the tolerances well-conditioned
    return l, g, ly, gy


# ---------------------------------------------------------------------------------------
# building and solving the real model
# ---------------------------------------------------------------------------------------

class Built:
    pass


def solve_kwargs(spec) -> dict:
    """the public options of `solve` drawn for this model (non-default in a share of the models): clip_small, tolerance"""
    o = spec.get("solve_opts") or {}
    return {k: v for k, v in o.items() if v is not None}


def gen_solve_opts(rng: Rng):
    """None (defaults) for most models; otherwise clip_small=True and/or an explicit eigenvalue tolerance.  The tolerance stays <= 1e-10:
    clipping entries below it moves the certificate by at most n*tol*scale, far inside the 1e-8*scale bound, and the generator keeps every
    root at least 0.08 away from the unit circle, so the classification of roots does not depend on it."""
    if not rng.chance(0.4):
        return None
    return {"clip_small": rng.choice([True, True, False]), "tolerance": rng.choice([None, 1e-12, 1e-11, 1e-10])}


def param_terms(spec):
    """positions (equation, term) of the coefficients written as parameters, in the order spec_source names them"""
    return [(i, k) for i, eq in enumerate(spec["eqs"]) for k, t in enumerate(eq["terms"]) if t[3]]


def with_param_values(spec, values):
    """copy of the spec with the parameter coefficients replaced (one parameter variant of the same model source)"""
    sp = json.loads(json.dumps(spec))
    for (i, k), c in zip(param_terms(sp), values):
        sp["eqs"][i]["terms"][k][2] = float(c)
    return sp


def steady_assignments(spec, steady_path):
    l, g, ly, gy = steady_path
    vals = {}
    for j in range(spec["n"]):
        vals[xname(j)] = (float(np.exp(l[j])), float(np.exp(g[j]))) if spec["logly"][j] else (float(l[j]), float(g[j]))
    for r in range(spec["nm"]):
        vals[yname(r)] = (float(np.exp(ly[r])), float(np.exp(gy[r]))) if spec["mlogly"][r] else (float(ly[r]), float(gy[r]))
    return vals


_FAMILY_CACHE = {}


def build_family(spec):
    """ONE model object carrying all parameter variants of spec["variants"] (alter_num_variants + per-variant assign), solved"""
    key = json.dumps([spec_source(spec)[0], spec["variants"], spec["linear"], spec.get("solve_opts")])
    if key in _FAMILY_CACHE:
        return _FAMILY_CACHE[key]
    specs = [with_param_values(spec, vals) for vals in spec["variants"]]
    src, _ = spec_source(specs[0])
    m = ir.Simultaneous.from_string(src, linear=spec["linear"])
    m.alter_num_variants(len(specs))
    plist = [spec_source(sp)[1] for sp in specs]
    m.assign(**{name: [pl[name] for pl in plist] for name in plist[0]})
    if not spec["linear"]:
        paths = [own_steady_path(sp, beta=sp.get("beta", 0.0)) for sp in specs]
        if any(x is None for x in paths):
            raise ValueError("variant without a determined steady path cannot be built as a non-linear model")
        assigns = [steady_assignments(sp, x) for sp, x in zip(specs, paths)]
        m.assign(**{name: [a[name] for a in assigns] for name in assigns[0]})
    m.solve(**solve_kwargs(spec))
    _FAMILY_CACHE.clear()
    _FAMILY_CACHE[key] = m
    return m


def build_model(spec) -> Built:
    src, params = spec_source(spec)
    b = Built()
    b.spec, b.source, b.params = spec, src, params
    b.steady = own_steady(spec)
    b.steady_path = own_steady_path(spec, beta=spec.get("beta", 0.0))
    b.m_all = None
    if spec.get("variants"):
        # this spec is parameter variant spec["variant"] of a multi-variant model: the whole family is built and solved as one
        # object, the variant is then extracted (its solution is the one computed inside the multi-variant solve)
        b.m_all = build_family(spec)
        m = b.m_all.get_variant(spec["variant"])
    else:
        m = ir.Simultaneous.from_string(src, linear=spec["linear"])
        if params:
            m.assign(**params)
        if not spec["linear"]:
            # the steady state is assigned, not solved for (solve_steady is C05's subject); the equations are linear in the
            # transformed variables, so any point of the steady path gives the same linearisation
            if b.steady_path is None:
                raise ValueError("spec without a determined steady path cannot be built as a non-linear model")
            m.assign(**steady_assignments(spec, b.steady_path))
        m.solve(**solve_kwargs(spec))
    b.m = m
    b.name_to_qid = m.create_name_to_qid()
    b.qid_to_name = m.create_qid_to_name()
    b.vec = m._get_dynamic_solution_vectors()
    b.sysvec = m._invariant.dynamic_descriptor.system_vectors
    b.sol = m.get_solution()
    b.system = m.systemize()
    return b


# ---------------------------------------------------------------------------------------
# simulation cases
# ---------------------------------------------------------------------------------------

def gen_sim_case(rng: Rng, spec, dyadic_data=True, long=False) -> dict:
    """a simulation input in the TRANSFORMED space (log of log-variables): initial conditions, shock paths"""
    lo, hi = spec_shift_ranges(spec)
    maxlag = max(1, -min(lo))
    nper = rng.randint(5, 9) if not long else rng.randint(10, 16)
    n, ns, nw = spec["n"], spec["ns"], spec["nw"]
    init = [[dy(rng, -2, 2, 2) for _ in range(maxlag)] for _ in range(n)]      # columns t0-maxlag .. t0-1
    u = [[0.0] * nper for _ in range(ns)]
    v = [[0.0] * nper for _ in range(ns)]
    w = [[0.0] * nper for _ in range(nw)]
    kind = rng.weighted([("u0", 2), ("umany", 4), ("ant", 4), ("both", 6), ("none", 1)])
    if ns:
        if kind in ("u0",):
            for k in range(ns):
                u[k][0] = dy(rng, -2, 2, 2)
        if kind in ("umany", "both"):
            for _ in range(rng.randint(1, 4)):
                u[rng.randint(0, ns - 1)][rng.randint(0, nper - 1)] = nz(rng, -2, 2, 2)
        if kind in ("ant", "both"):
            for _ in range(rng.randint(1, 3)):
                v[rng.randint(0, ns - 1)][rng.randint(0, nper - 1)] = nz(rng, -2, 2, 2)
    for k in range(nw):
        for t in range(nper):
            if rng.chance(0.4):
                w[k][t] = dy(rng, -1, 1, 2)
    return {"freq": rng.choice(["Q", "I", "M", "Y"]), "nper": nper, "maxlag": maxlag, "init": init, "u": u, "v": v, "w": w,
            "deviation": rng.chance(0.35), "split": rng.chance(0.5), "kind": kind}


def start_period(freq):
    return {"Q": ir.qq(2020, 1), "I": ir.ii(10), "M": ir.mm(2021, 11), "Y": ir.yy(2000)}[freq]


def case_databox(b: Built, case, zero_unanticipated_after=None):
    """input Databox of a case (levels: exp of transformed values for log-variables)"""
    spec = b.spec
    t0 = start_period(case["freq"])
    L, nper = case["maxlag"], case["nper"]
    db = ir.Databox()
    for j in range(spec["n"]):
        vals = np.array(case["init"][j], dtype=float)
        if spec["logly"][j]:
            vals = np.exp(vals)
        db[xname(j)] = ir.Series(start=t0 - L, values=vals)
    for k in range(spec["ns"]):
        db[ename(k)] = ir.Series(start=t0, values=np.array(case["u"][k], dtype=float))
        db["ant_" + ename(k)] = ir.Series(start=t0, values=np.array(case["v"][k], dtype=float))
    for k in range(spec["nw"]):
        db[wname(k)] = ir.Series(start=t0, values=np.array(case["w"][k], dtype=float))
    return db, t0


def series_values(db, name, span):
    return np.asarray(db[name].get_data(span), dtype=float).ravel()


def run_simulation(b: Built, case, split=None, deviation=None):
    db, t0 = case_databox(b, case)
    span = t0 >> (t0 + case["nper"] - 1)
    split = case["split"] if split is None else split
    deviation = case["deviation"] if deviation is None else deviation
    out, info = b.m.simulate(db, span, method="first_order", deviation=deviation, force_split_frames=split, return_info=True)
    return out, t0, span, info


def transformed_path(b: Built, out, t0, L, nper, horizon_extra=0):
    """arrays in the transformed space over columns t0-L .. t0+nper-1: x (n x cols), y (nm x nper)"""
    spec = b.spec
    full = (t0 - L) >> (t0 + nper - 1 + horizon_extra)
    X = np.array([series_values(out, xname(j), full) for j in range(spec["n"])])
    for j in range(spec["n"]):
        if spec["logly"][j]:
            X[j] = np.log(X[j])
    span = t0 >> (t0 + nper - 1)
    Y = np.array([series_values(out, yname(r), span) for r in range(spec["nm"])]).reshape(spec["nm"], nper)
    for r in range(spec["nm"]):
        if spec["mlogly"][r]:
            Y[r] = np.log(Y[r])
    return X, Y


# ---------------------------------------------------------------------------------------
# the property oracle (independent of solution matrices and of the Lean model)
# ---------------------------------------------------------------------------------------

def oracle_equations(ctx: Ctx, b: Built, case, tag: dict, split=None, deviation=None) -> bool:
    """every equation holds in every simulated period, leads read from the model-consistent continuation of the same path"""
    spec = b.spec
    deviation = case["deviation"] if deviation is None else deviation
    try:
        out, t0, span, info = run_simulation(b, case, split=split, deviation=deviation)
    except Exception as e:
        ctx.fail("simulate-raises", tag, repr(e)[:300])
        return False
    L, nper = case["maxlag"], case["nper"]
    lo, hi = spec_shift_ranges(spec)
    maxlead = max(hi)
    X, Y = transformed_path(b, out, t0, L, nper)
    U = np.array(case["u"], dtype=float).reshape(spec["ns"], nper)
    V = np.array(case["v"], dtype=float).reshape(spec["ns"], nper)
    W = np.array(case["w"], dtype=float).reshape(spec["nw"], nper)
    scale = 1.0 + float(np.nanmax(np.abs(X))) if X.size else 1.0
    if not np.all(np.isfinite(X)):
        ctx.fail("simulate-nonfinite", tag, "simulated path contains NaN/inf")
        return False
    ok = True
    worst = 0.0
    for t in range(nper):
        # continuation as of period t: the same path when no unanticipated shock arrives after t (and the span is long enough),
        # otherwise a fresh simulation from t+1 on the OUTPUT databox with the later unanticipated shocks removed
        Xc = X
        later_u = bool(np.any(U[:, t + 1:] != 0)) if spec["ns"] else False
        if maxlead > 0 and (later_u or t + maxlead > nper - 1):
            cdb = out.copy()
            hor = max(maxlead, nper - 1 - t)      # long enough to contain every anticipated shock of the case
            cs = (t0 + t + 1) >> (t0 + t + hor)
            for k in range(spec["ns"]):
                cdb[ename(k)] = ir.Series(start=t0 + t + 1, values=np.zeros(hor))
                vv = np.zeros(hor)
                for h in range(hor):
                    if t + 1 + h < nper:
                        vv[h] = V[k, t + 1 + h]
                cdb["ant_" + ename(k)] = ir.Series(start=t0 + t + 1, values=vv)
            # keep the realised path up to t only
            for j in range(spec["n"]):
                vals = series_values(out, xname(j), (t0 - L) >> (t0 + t))
                cdb[xname(j)] = ir.Series(start=t0 - L, values=vals)
            try:
                cout = b.m.simulate(cdb, cs, method="first_order", deviation=deviation)
            except Exception as e:
                ctx.fail("continuation-raises", tag, repr(e)[:300])
                return False
            Xc = np.full((spec["n"], L + t + 1 + hor), np.nan)
            Xc[:, :L + t + 1] = X[:, :L + t + 1]
            for j in range(spec["n"]):
                vals = series_values(cout, xname(j), cs)
                Xc[j, L + t + 1:] = np.log(vals) if spec["logly"][j] else vals
        for i, eq in enumerate(spec["eqs"]):
            r = eq["lhs"] * Xc[i, L + t]
            for (j, sh, c, _) in eq["terms"]:
                r -= c * Xc[j, L + t + sh]
            for (k, c) in eq["shocks"]:
                r -= c * (U[k, t] + V[k, t])
            shifted = (spec.get("shock_lags") or [[]] * spec["n"])[i]
            for (k, c, sh) in shifted:
                if 0 <= t + sh < nper:                      # shocks outside the simulated span are zero
                    r -= c * (U[k, t + sh] + V[k, t + sh])
            if not deviation:
                r -= eq["const"]
            worst = max(worst, abs(r))
            if not (abs(r) <= TOL_RES * scale):
                site = "lagged-shock-treated-as-contemporaneous" if shifted else "equation-residual"
                ctx.fail(site, dict(tag, period=t, equation=i), f"transition equation {i} at period {t}: residual {r:.3e} (scale {scale:.3g})"
                         + (" (the equation contains a shock at a non-zero shift)" if shifted else ""))
                ok = False
        for rr, me in enumerate(spec["meas"]):
            r = Y[rr, t]
            has_lead = any(sh > 0 for (j, sh, c) in me["terms"])
            for (j, sh, c) in me["terms"]:
                r -= c * (Xc[j, L + t + sh] if sh > 0 else X[j, L + t + sh])
            if me["wshock"]:
                r -= me["wshock"][1] * W[me["wshock"][0], t]
            if not deviation:
                r -= me["const"]
            worst = max(worst, abs(r))
            if not (abs(r) <= TOL_RES * (scale + abs(Y[rr, t]))):
                ctx.fail("measurement-equation-with-lead" if has_lead else "measurement-residual", dict(tag, period=t, equation=rr),
                         f"measurement equation {rr} at period {t}: residual {r:.3e}" + (" (the equation contains a lead of a transition variable)" if has_lead else ""))
                ok = False
        if not ok:
            break
    ctx.evaluations += 1
    if ok:
        ctx.extra["max_oracle_residual_over_scale"] = max(ctx.extra.get("max_oracle_residual_over_scale", 0.0), worst / scale)
    return ok


def steady_path_arrays(b: Built, L, nper):
    l, g, ly, gy = b.steady_path
    tau = np.arange(-L, nper, dtype=float)
    return l[:, None] + g[:, None] * tau[None, :], ly[:, None] + gy[:, None] * tau[None, L:]


def oracle_level_steady_deviation(ctx: Ctx, b: Built, case, tag) -> bool:
    """level simulation = steady path + deviation simulation of the same shocks, and the steady path reproduces itself
    (steady path, possibly growing, from the harness's own equations)"""
    spec = b.spec
    if b.steady_path is None:
        return True
    L, nper = case["maxlag"], case["nper"]
    XS, YS = steady_path_arrays(b, L, nper)
    # deviation run: initial conditions are the case's init (interpreted as deviations); level run: steady path + the same
    lev_case = dict(case)
    lev_case["init"] = [[XS[j, k] + case["init"][j][k] for k in range(L)] for j in range(spec["n"])]
    st_case = dict(case)
    st_case["init"] = [[XS[j, k] for k in range(L)] for j in range(spec["n"])]
    st_case["u"] = [[0.0] * nper for _ in range(spec["ns"])]
    st_case["v"] = [[0.0] * nper for _ in range(spec["ns"])]
    st_case["w"] = [[0.0] * nper for _ in range(spec["nw"])]
    try:
        out_d, t0, span, _ = run_simulation(b, case, deviation=True)
        out_l, _, _, _ = run_simulation(b, lev_case, deviation=False)
        out_s, _, _, _ = run_simulation(b, st_case, deviation=False)
    except Exception as e:
        ctx.fail("simulate-raises", tag, repr(e)[:300])
        return False
    Xd, Yd = transformed_path(b, out_d, t0, L, nper)
    Xl, Yl = transformed_path(b, out_l, t0, L, nper)
    Xs, Ys = transformed_path(b, out_s, t0, L, nper)
    scale = 1.0 + float(np.max(np.abs(Xl))) + (float(np.max(np.abs(Yl))) if Yl.size else 0.0) + float(np.max(np.abs(XS)))
    dx = np.max(np.abs(Xl - XS - Xd)) if Xl.size else 0.0
    dyv = np.max(np.abs(Yl - YS - Yd)) if Yl.size else 0.0
    sx = np.max(np.abs(Xs - XS)) if Xs.size else 0.0
    sy = np.max(np.abs(Ys - YS)) if Ys.size else 0.0
    ctx.evaluations += 1
    if np.any(b.steady_path[1] != 0):
        ctx.count("level-oracle:growing-steady-path")
    ok = True
    if not (sx <= TOL_RES * scale and sy <= TOL_RES * scale):
        ctx.fail("steady-path-not-reproduced", tag, f"shock-free level simulation from the steady path leaves it by {max(sx, sy):.3e} (scale {scale:.3g})")
        ok = False
    if not (dx <= TOL_RES * scale and dyv <= TOL_RES * scale):
        ctx.fail("level-vs-steady-plus-deviation", tag, f"max|level - steady - deviation| = {max(dx, dyv):.3e} (scale {scale:.3g})")
        ok = False
    return ok


def oracle_nonexplosive(ctx: Ctx, b: Built, case, tag) -> bool:
    """shock-free deviation path from the case's initial condition stays bounded (and decays when there is no unit root)"""
    spec = b.spec
    c2 = dict(case)
    c2["u"] = [[0.0] * 60 for _ in range(spec["ns"])]
    c2["v"] = [[0.0] * 60 for _ in range(spec["ns"])]
    c2["w"] = [[0.0] * 60 for _ in range(spec["nw"])]
    c2["nper"] = 60
    try:
        out, t0, span, _ = run_simulation(b, c2, split=False, deviation=True)
    except Exception as e:
        ctx.fail("simulate-raises", tag, repr(e)[:300])
        return False
    X, _ = transformed_path(b, out, t0, case["maxlag"], 60)
    L = case["maxlag"]
    x0 = max(1e-12, float(np.max(np.abs(X[:, :L]))))
    peak = float(np.max(np.abs(X[:, L:])))
    tail = float(np.max(np.abs(X[:, -5:])))
    ctx.evaluations += 1
    if not np.isfinite(peak) or peak > 200 * x0:
        ctx.fail("explosive-path", tag, f"shock-free path reaches {peak:.3e} from initial condition of size {x0:.3e}")
        return False
    if spec.get("unit_var") is None and tail > 0.5 * x0:
        ctx.fail("explosive-path", tag, f"shock-free path of a model without unit roots does not decay: |x[55..59]|={tail:.3e}, |x0|={x0:.3e}")
        return False
    return True


def oracle_multivariant_simulate(ctx: Ctx, b: Built, case, tag) -> bool:
    """the simulation of the whole multi-variant model, column `variant`, is the simulation of that variant alone (same initial
    condition, same shocks, determinate model => the same path); the variant alone is judged by the equation oracle"""
    spec = b.spec
    v = spec["variant"]
    db, t0 = case_databox(b, case)
    span = t0 >> (t0 + case["nper"] - 1)
    try:
        out_all = b.m_all.simulate(db, span, method="first_order", deviation=case["deviation"], force_split_frames=case["split"])
        out_one = b.m.simulate(db, span, method="first_order", deviation=case["deviation"], force_split_frames=case["split"])
    except Exception as e:
        ctx.fail("simulate-raises", dict(tag, case=case), repr(e)[:300])
        return False
    worst = 0.0
    scale = 1.0
    for name in [xname(j) for j in range(spec["n"])] + [yname(r) for r in range(spec["nm"])]:
        a = np.asarray(out_all[name].get_data(span), dtype=float)
        a = a.reshape(a.shape[0], -1)
        a = a[:, min(v, a.shape[1] - 1)]
        o = np.asarray(out_one[name].get_data(span), dtype=float).ravel()
        logly = spec["logly"][int(name[1:])] if name.startswith("x") else spec["mlogly"][int(name[1:])]
        if logly:
            a, o = np.log(a), np.log(o)
        if not (np.all(np.isfinite(a)) and np.all(np.isfinite(o))):
            ctx.fail("simulate-nonfinite", dict(tag, case=case), f"{name}: multi-variant or single-variant simulation contains NaN/inf")
            return False
        worst = max(worst, float(np.max(np.abs(a - o))))
        scale = max(scale, 1.0 + float(np.max(np.abs(o))))
    ctx.evaluations += 1
    if worst > TOL_RES * scale:
        ctx.fail("multi-variant-simulate", dict(tag, case=case), f"variant {v}: simulating all variants together and the variant alone differ by {worst:.3e}")
        return False
    return True


def oracle_bk(ctx: Ctx, b: Built, verdict, tag) -> bool:
    """reported count of unstable roots == number of forward-looking variables for models the independent eig calls determinate"""
    kind, n_unst, n_unit, nf, mod = verdict
    if kind != "determinate":
        return True
    st = b.sol.eigenvalues_stability
    rep_unst = sum(1 for s in st if s == ir.fords.solutions.EigenvalueKind.UNSTABLE) if hasattr(ir, "fords") else None
    from irispie.fords.solutions import EigenvalueKind, SystemStabilityKind
    rep_unst = sum(1 for s in st if s == EigenvalueKind.UNSTABLE)
    rep_unit = sum(1 for s in st if s == EigenvalueKind.UNIT_ROOT)
    rep_nf = b.m._invariant.dynamic_descriptor.get_num_forwards()
    ctx.evaluations += 1
    ok = True
    if rep_nf != nf:
        ctx.fail("num-forwards", tag, f"descriptor reports {rep_nf} forward-looking variables, the model has {nf}")
        ok = False
    if rep_unst != n_unst or rep_unst != rep_nf or b.sol.system_stability != SystemStabilityKind.STABLE:
        ctx.fail("blanchard-kahn-count", tag, f"reported unstable={rep_unst} stability={b.sol.system_stability}, independent eig: unstable={n_unst}, forward-looking={nf}")
        ok = False
    if rep_unit != n_unit:
        ctx.fail("unit-root-count", tag, f"reported unit roots={rep_unit}, independent eig: {n_unit}")
        ok = False
    return ok


def acceptable(spec, verdict) -> bool:
    """determinate by the independent eig, well-conditioned (stable roots <= 0.92, unstable >= 1.08), exactly the intended number of
    unit roots, steady path determined where it is needed"""
    if verdict[0] != "determinate":
        return False
    mod = verdict[4]
    want_unit = 0 if spec.get("unit_var") is None else 1
    if verdict[2] != want_unit:
        return False
    stable = [x for x in mod if x < 1 - 1e-3]
    unstable = [x for x in mod if x > 1 + 1e-3]
    if (stable and max(stable) > 0.92) or (unstable and min(unstable) < 1.08):
        return False
    sp = own_steady_path(spec, beta=spec.get("beta", 0.0))
    if not spec["linear"] and sp is None:
        return False
    if spec["linear"] and spec.get("unit_var") is None and sp is None:
        return False
    if spec.get("growth") and not np.any(np.abs(sp[1]) > 1e-3):
        return False
    return True


def gen_determinate(rng: Rng, ctx: Ctx | None = None, size_hint=None):
    """rejection-sample a spec the independent eigenvalue computation classifies as determinate and well-conditioned
    (see `acceptable`).  Fixed number of attempts; returns (spec, verdict) or (None, None)."""
    for attempt in range(25):
        spec = gen_spec(rng.fork(attempt), size_hint)
        verdict = own_eigen_verdict(spec)
        if ctx is not None:
            ctx.count("generated:" + verdict[0])
        if spec.get("growth"):
            spec["beta"] = dy(rng.fork(f"beta{attempt}"), -2, 2, 2)      # free level of the trending direction
        if not acceptable(spec, verdict):
            continue
        return spec, verdict
    return None, None


def gen_variant_family(rng: Rng, spec):
    """parameter variants of one model: the same source, 2-3 variants whose parameter values differ, every variant accepted by the
    independent eig.  Returns the list of per-variant specs (each carries the whole family in spec["variants"]) or None."""
    if spec.get("growth") or spec.get("meas_lead"):
        return None
    sp0 = json.loads(json.dumps(spec))
    if not param_terms(sp0):
        cands = [(i, k) for i, eq in enumerate(sp0["eqs"]) for k, t in enumerate(eq["terms"])
                 if not (i == sp0.get("unit_var") and t[0] == i)]
        if not cands:
            return None
        for (i, k) in rng.sample(cands, min(len(cands), 2)):
            sp0["eqs"][i]["terms"][k][3] = True
    base = [sp0["eqs"][i]["terms"][k][2] for (i, k) in param_terms(sp0)]
    nvar = rng.choice([2, 2, 3])
    values = [base]
    for w in range(1, nvar):
        for attempt in range(12):
            r = rng.fork(f"variant{w}-{attempt}")
            vals = [c * r.choice([0.5, 0.75, 1.25, 1.5, -0.5, -1.0, 0.25]) for c in base]
            if vals in values:
                continue
            cand = with_param_values(sp0, vals)
            if acceptable(cand, own_eigen_verdict(cand)):
                values.append(vals)
                break
    if len(values) < 2:
        return None
    out = []
    for v, vals in enumerate(values):
        sp = with_param_values(sp0, vals)
        sp["variants"], sp["variant"] = values, v
        out.append(sp)
    return out


# ---------------------------------------------------------------------------------------
# line protocol (mirrors IrisVerif/Driver/C01.lean)
# ---------------------------------------------------------------------------------------

def mat_text(a) -> str:
    a = np.asarray(a, dtype=float)
    if a.ndim == 1:
        a = a.reshape(-1, 1)
    r, c = a.shape
    return " ".join([str(r), str(c)] + [rat_of_float(x) for x in a.ravel()])


def parse_mat(ws, pos):
    r, c = int(ws[pos]), int(ws[pos + 1])
    vals = [Fraction(w) for w in ws[pos + 2: pos + 2 + r * c]]
    return np.array([float(v) for v in vals], dtype=float).reshape(r, c), pos + 2 + r * c


def tokens_text(toks) -> str:
    toks = list(toks)
    return " ".join([str(len(toks))] + [f"{q} {s}" for (q, s) in toks])


def spec_token_lists(b: Built):
    act, mt = spec_tokens(b.spec)
    q = lambda j: b.name_to_qid[xname(j)]
    return sorted((q(j), s) for (j, s) in act), sorted((q(j), s) for (j, s) in mt)


def vec_line(b: Built) -> str:
    act, mt = spec_token_lists(b)
    return f"vec A {tokens_text(act)} M {tokens_text(mt)}"


def vec_impl(b: Built) -> str:
    sv = b.sysvec
    toks = list(sv.transition_variables)
    smap = b.m._invariant.dynamic_descriptor.system_map
    dA, dB = smap.dynid_A, smap.dynid_B
    pairs = []
    for r in range(dA.shape[0]):
        i = [k for k in range(dA.shape[1]) if dA[r, k] != 0]
        j = [k for k in range(dB.shape[1]) if dB[r, k] != 0]
        if len(i) != 1 or len(j) != 1 or dA[r, i[0]] != 1 or dB[r, j[0]] != -1:
            return "dynid-row-is-not-an-identity"
        pairs.append(f"{i[0]}:{j[0]}")
    return ("sys=" + ",".join(f"{t.qid}:{t.shift}" for t in toks) + ";init=" + "".join("T" if x else "F" for x in sv.true_initials)
            + f";nf={b.m._invariant.dynamic_descriptor.get_num_forwards()};dyn=" + ",".join(pairs))


def cert_line(b: Built) -> str:
    s, sol = b.system, b.sol
    toks = [(t.qid, t.shift) for t in b.sysvec.transition_variables]
    ne = len(b.sysvec.transition_eids)
    nb = sol.T.shape[0]
    mats = [s.A, s.B, s.C, s.D, sol.T, sol.K, sol.P,
            sol.X if sol.X is not None else np.zeros((nb, 0)), sol.J, sol.Ru]
    return f"cert {ne} S {tokens_text(toks)} " + " ".join(mat_text(m) for m in mats)


def parse_cert(reply: str):
    if not reply.startswith("ok "):
        return None
    d = dict(kv.split("=", 1) for kv in reply.split()[1:])
    out = {"smax": int(d["smax"]), "rows": int(d["rows"])}
    for k in ("bLead", "E1", "E2", "E3", "W", "scale"):
        out[k] = Fraction(d[k])
    out["E4"] = [Fraction(x) for x in d["E4"].split(",") if x]
    return out


def numpy_certificate(b: Built):
    """float mirror of the certificate (used only when the Lean model is unavailable and for the failing-input search)"""
    s, sol = b.system, b.sol
    toks = [(t.qid, t.shift) for t in b.sysvec.transition_variables]
    nf = sum(1 for t in toks if t[1] > 0)
    ne = len(b.sysvec.transition_eids)
    solv = toks[nf:]
    maxs = {}
    for (q, sh) in toks:
        maxs[q] = max(maxs.get(q, sh), sh)
    rows = list(range(ne))
    k = 0
    for (q, sh) in toks:
        if sh == maxs[q]:
            continue
        if sh <= -1:
            rows.append(ne + k)
        k += 1
    A, B, C, D = s.A[rows], s.B[rows], s.C[rows], s.D[rows]
    Af, Ab, Bf, Bb = A[:, :nf], A[:, nf:], B[:, :nf], B[:, nf:]
    T, K, P, X, J, Ru = sol.T, sol.K, sol.P, sol.X, sol.J, sol.Ru
    sh = [t[1] for t in toks[:nf]]
    src = [solv.index((t[0], 0)) for t in toks[:nf]]
    smax = max(sh) if sh else 0
    Tp = [np.linalg.matrix_power(T, k) for k in range(smax + 1)]
    nb = T.shape[0]
    L = np.array([Tp[sh[i]][src[i], :] for i in range(nf)]).reshape(nf, nb)
    lK = np.array([sum(Tp[a] @ K for a in range(sh[i]))[src[i]] for i in range(nf)]).reshape(nf)
    M = Af @ L + Ab

    def lead_rows(a, Y):
        return np.array([(Tp[sh[i] - a] @ Y)[src[i], :] if 1 <= a <= sh[i] else np.zeros(Y.shape[1]) for i in range(nf)]).reshape(nf, Y.shape[1])
    E = {"bLead": Bf, "E1": M @ T + Bb, "E2": M @ K + Af @ lK + C, "E3": M @ P + D}
    V = -M @ X
    E4 = []
    for a in range(1, smax + 1):
        E4.append(Af @ lead_rows(a, P) + V @ Ru)
        V = V @ J - Af @ lead_rows(a, X)
    E["W"] = V
    mx = lambda m: float(np.max(np.abs(m))) if np.size(m) else 0.0
    out = {k: mx(v) for k, v in E.items()}
    out["E4"] = [mx(e) for e in E4]
    out["scale"] = max([1.0] + [mx(m) for m in (s.A, s.B, s.C, s.D, T, K, P, X, J, Ru)])
    out["smax"] = smax
    return out


def sqtri_line(b: Built) -> str:
    """square/triangular consistency of the returned Solution: T Ua = Ua Ta, P = Ua Pa, K = Ua Ka, X = Ua Xa"""
    sol = b.sol
    nb = sol.T.shape[0]
    X = sol.X if sol.X is not None else np.zeros((nb, 0))
    Xa = sol.Xa if sol.Xa is not None else np.zeros((sol.Ta.shape[0], 0))
    return "sqtri " + " ".join(mat_text(m) for m in (sol.T, sol.Ua, sol.Ta, sol.P, sol.Pa, sol.K, sol.Ka, X, Xa))


def mcert_line(b: Built):
    """measurement certificate of the returned system / solution: lead columns of G zero, F Z + G_b, F D + H, F Hm + J"""
    s_, sol = b.system, b.sol
    if s_.F.shape[0] == 0:
        return None
    nf = b.m._invariant.dynamic_descriptor.get_num_forwards()
    return f"mcert {nf} " + " ".join(mat_text(m) for m in (s_.F, s_.G, s_.H, s_.J, sol.Z, sol.H, sol.D))


def stab_matrix(b: Built):
    """the block on which non-explosiveness is claimed: T itself without unit roots, else the stable block of Ta"""
    nunit = b.sol.num_unit_roots
    if nunit == 0:
        return b.sol.T
    return b.sol.Ta[nunit:, nunit:]


def propose_power(Tm) -> int | None:
    """smallest k <= 10 with ||T^(2^k)||_inf < 0.9 in floating point (the Lean model re-checks < 1 exactly)"""
    Pw = np.array(Tm, dtype=float)
    for k in range(0, 11):
        if Pw.size == 0 or np.max(np.sum(np.abs(Pw), axis=1)) < 0.9:
            return k
        Pw = Pw @ Pw
    return None


def sim_line(b: Built, case, sol_mats, deviation, split) -> str:
    spec = b.spec
    L, nper = case["maxlag"], case["nper"]
    act, mt = spec_token_lists(b)
    ncols = L + nper
    x = np.zeros((spec["n"], ncols))
    for j in range(spec["n"]):
        x[b.name_to_qid[xname(j)], :L] = case["init"][j]
    pad = lambda arr, rows: np.hstack([np.zeros((rows, L)), np.array(arr, dtype=float).reshape(rows, nper)])
    u, v, w = pad(case["u"], spec["ns"]), pad(case["v"], spec["ns"]), pad(case["w"], spec["nw"])
    y = np.zeros((spec["nm"], ncols))
    mats = list(sol_mats) + [x, u, v, w, y]
    return (f"sim {1 if deviation else 0} {1 if split else 0} {L} {L + nper - 1} A {tokens_text(act)} M {tokens_text(mt)} "
            + " ".join(mat_text(m) for m in mats))


def sol_mats_of(b: Built):
    sol = b.sol
    nb = sol.T.shape[0]
    return [sol.T, sol.K, sol.P, sol.X if sol.X is not None else np.zeros((nb, 0)), sol.J, sol.Ru, sol.Z, sol.H, sol.D]


def sim_impl_arrays(b: Built, case, deviation, split):
    out, t0, span, info = run_simulation(b, case, split=split, deviation=deviation)
    L, nper = case["maxlag"], case["nper"]
    X, Y = transformed_path(b, out, t0, L, nper)
    # rows in qid order
    order = sorted(range(b.spec["n"]), key=lambda j: b.name_to_qid[xname(j)])
    X = X[order]
    Yfull = np.hstack([np.zeros((b.spec["nm"], L)), Y.reshape(b.spec["nm"], nper)])
    return X, Yfull, len(info["frames"])


def random_dyadic_solution(rng: Rng, b: Built):
    """small dyadic matrices of the shapes of the real solution"""
    sol = b.sol
    nb = sol.T.shape[0]
    nu = sol.P.shape[1]
    nj = sol.J.shape[0]
    ny, nw = sol.Z.shape[0], sol.H.shape[1]
    g = lambda r, c, lo=-0.5, hi=0.5: np.array([[dy(rng, lo, hi, 2) if rng.chance(0.7) else 0.0 for _ in range(c)] for _ in range(r)]).reshape(r, c)
    return {"T": g(nb, nb), "K": g(nb, 1, -1, 1).reshape(nb), "P": g(nb, nu, -1, 1), "X": g(nb, nj), "J": g(nj, nj), "Ru": g(nj, nu, -1, 1),
            "Z": g(ny, nb, -1, 1), "H": g(ny, nw, -1, 1), "D": g(ny, 1, -1, 1).reshape(ny)}


class OverriddenSolution:
    """context manager: the model's Solution object temporarily carries the given matrices (the real simulate pipeline runs on them)"""
    def __init__(self, b: Built, mats: dict):
        self.b, self.mats, self.saved = b, mats, {}

    def __enter__(self):
        sol = self.b.m._variants[0].solution
        for k, v in self.mats.items():
            self.saved[k] = getattr(sol, k)
            setattr(sol, k, np.array(v, dtype=float))
        self.saved["square_expansion"] = sol.square_expansion
        sol.square_expansion = []
        return self

    def __exit__(self, *a):
        sol = self.b.m._variants[0].solution
        for k, v in self.saved.items():
            setattr(sol, k, v)
        return False


# ---------------------------------------------------------------------------------------
# entry points
# ---------------------------------------------------------------------------------------

def models_for_run(ctx: Ctx, n_models: int, tag="m"):
    out = []
    for i in range(n_models):
        r = ctx.rng.fork(f"{tag}{i}")
        size = None if i >= 6 else i + 1      # every size 1..6 is present in every run
        spec, verdict = gen_determinate(r, ctx, size_hint=size)
        if spec is None:
            ctx.count("no-determinate-spec-found")
            continue
        if not spec.get("meas_lead"):
            so = gen_solve_opts(r.fork("solveopts"))
            if so is not None:
                spec["solve_opts"] = so
                ctx.count(f"solve-option:clip_small={so['clip_small']}")
                ctx.count(f"solve-option:tolerance={so['tolerance']}")
        fam = gen_variant_family(r.fork("family"), spec) if i % 3 == 2 else None
        if fam:
            # a multi-variant model: every variant is judged with its own parameter values
            ctx.count(f"variant-family:size={len(fam)}")
            for v, sp in enumerate(fam):
                out.append((f"{i}.v{v}", r.fork(f"v{v}"), sp, own_eigen_verdict(sp)))
        else:
            out.append((i, r, spec, verdict))
    return out


def describe(spec) -> dict:
    lo, hi = spec_shift_ranges(spec)
    return {"n": spec["n"], "maxlag": -min(lo), "maxlead": max(hi), "log": any(spec["logly"]), "nm": spec["nm"],
            "unit": spec.get("unit_var") is not None, "ns": spec["ns"], "growth": bool(spec.get("growth")),
            "variant": spec.get("variant"), "solve_opts": json.dumps(spec.get("solve_opts"))}


def check_model(ctx: Ctx, i, r: Rng, spec, verdict, lines: dict, n_cases: int):
    """oracles on one model; queues the Lean requests into `lines`"""
    tag = {"model": i, "spec": spec}
    if spec.get("meas_lead"):
        check_measurement_lead(ctx, r, spec, tag)
        return None
    if spec.get("shock_lags"):
        check_lagged_shock(ctx, r, spec, tag)
        return None
    try:
        b = build_model(spec)
    except Exception as e:
        ctx.fail("solve-raises-on-determinate-model", tag, repr(e)[:300])
        return None
    d = describe(spec)
    ctx.count(f"n={d['n']}"); ctx.count(f"maxlead={d['maxlead']}"); ctx.count(f"maxlag={d['maxlag']}")
    ctx.count("log-variables" if d["log"] else "linear"); ctx.count(f"measurement={d['nm']}")
    if d["unit"]:
        ctx.count("unit-root-model")
    if d["growth"]:
        ctx.count("growth-model(not-linear,drift)")
        ctx.count(f"growth-model:trending-variables={1 + sum(bool(x) for x in spec.get('trend', []))}")
    ctx.nontriv(("model", d["n"], d["maxlag"], d["maxlead"], d["log"], d["nm"], d["unit"], d["ns"], d["growth"], d["solve_opts"]))
    ctx.extra["programs"] = ctx.extra.get("programs", 0) + 1
    oracle_bk(ctx, b, verdict, tag)
    if b.m_all is not None:
        ctx.count("variant-model:" + ("linear" if spec["linear"] else "not-linear"))
        ctx.nontriv(("variant", spec["variant"], len(spec["variants"]), spec["linear"], d["maxlead"] > 0))
        oracle_multivariant_simulate(ctx, b, gen_sim_case(r.fork("mvcase"), spec), tag)
    if b.m_all is not None and spec["variant"] == 0:
        V = len(spec["variants"])
        pcase = gen_sim_case(r.fork("plancase"), spec)
        for (n_, M_, D_) in r.fork("planpick").sample([(V, V, 1), (V, V, V), (V, V, 2 if V != 2 else 3), (2, 1, 2), (2, 1, 1)], 2):
            got = impl_variant_plan(b, pcase, n_, M_, D_)
            if got is not None:
                lines["plan"].append((dict(tag, plan=[n_, M_, D_], case=pcase), f"plan {n_} {M_} {D_}", got))
                ctx.nontriv(("plan", n_, M_, D_, got))
    if spec["linear"] and b.m_all is None:
        try:
            it = memo_stream_item(b, r.fork("memo"), tag)
            if it is not None:
                lines["memo"].append(it)
        except Exception as e:
            ctx.fail("expansion-raises", tag, repr(e)[:300])
    lines["vec"].append((tag, vec_line(b), vec_impl(b)))
    lines["cert"].append((tag, cert_line(b), b))
    lines["sqtri"].append((tag, sqtri_line(b), b))
    ml = mcert_line(b)
    if ml is not None:
        lines["mcert"].append((tag, ml, b))
    Tm = stab_matrix(b)
    k = propose_power(Tm)
    if k is None:
        ctx.fail("explosive-solution", tag, "no power 2^k, k<=10, of the (stable block of the) transition matrix has infinity norm < 0.9")
    else:
        lines["stab"].append((tag, f"stab {k} {mat_text(Tm)}", "T"))
    for c in range(n_cases):
        case = gen_sim_case(r.fork(f"case{c}"), spec)
        ctag = dict(tag, case=case)
        ctx.count("sim:" + case["kind"]); ctx.count("sim:deviation" if case["deviation"] else "sim:level")
        ctx.count("sim:split" if case["split"] else "sim:single")
        ok = oracle_equations(ctx, b, case, ctag)
        if c == 0:
            oracle_level_steady_deviation(ctx, b, case, ctag)
            oracle_nonexplosive(ctx, b, case, ctag)
        # split and single-frame simulations of the same input agree (frames tile the span)
        try:
            Xa, Ya, nfa = sim_impl_arrays(b, case, case["deviation"], True)
            Xb, Yb, _ = sim_impl_arrays(b, case, case["deviation"], False)
            sc = 1 + np.max(np.abs(Xb))
            if not (np.max(np.abs(Xa - Xb)) <= TOL_RES * sc and (Ya.size == 0 or np.max(np.abs(Ya - Yb)) <= TOL_RES * (sc + np.max(np.abs(Yb))))):
                ctx.fail("split-vs-single-frame", ctag, f"max difference x: {np.max(np.abs(Xa - Xb)):.3e}, y: {(np.max(np.abs(Ya - Yb)) if Ya.size else 0.0):.3e} over {nfa} frames")
            if nfa >= 2 and ok:
                ctx.nontriv(("frames", min(nfa, 4), d["maxlead"] > 0, case["kind"]))
            ctx.count(f"frames={min(nfa, 5)}")
        except Exception as e:
            ctx.fail("simulate-raises", ctag, repr(e)[:300])
        # class T: real solution, exact recursion in Lean vs simulated databox
        try:
            X, Y, _ = sim_impl_arrays(b, case, case["deviation"], case["split"])
            lines["simT"].append((ctag, sim_line(b, case, sol_mats_of(b), case["deviation"], case["split"]), (X, Y)))
        except Exception as e:
            ctx.fail("simulate-raises", ctag, repr(e)[:300])
        # class D: dyadic solution override, whole pipeline, exact
        if spec["linear"]:
            dcase = gen_sim_case(r.fork(f"dcase{c}"), spec)
            mats = random_dyadic_solution(r.fork(f"dsol{c}"), b)
            try:
                with OverriddenSolution(b, mats):
                    X, Y, nfr = sim_impl_arrays(b, dcase, dcase["deviation"], dcase["split"])
                order = ["T", "K", "P", "X", "J", "Ru", "Z", "H", "D"]
                line = sim_line(b, dcase, [mats[k] for k in order], dcase["deviation"], dcase["split"])
                lines["simD"].append((dict(tag, case=dcase, override=True, seedtag=f"dsol{c}"), line, "x " + mat_text(X) + " y " + mat_text(Y)))
                ctx.nontriv(("simD", d["n"], d["maxlead"], dcase["kind"], dcase["deviation"], dcase["split"]))
            except Exception as e:
                ctx.fail("simulate-raises", dict(tag, case=dcase, override=True), repr(e)[:300])
    return b


def built_from_model(spec, m) -> Built:
    """a Built view of an EXISTING model object under the parameterisation `spec` (nothing is rebuilt or re-solved)"""
    src, params = spec_source(spec)
    b = Built()
    b.spec, b.source, b.params = spec, src, params
    b.steady = own_steady(spec)
    b.steady_path = own_steady_path(spec, beta=spec.get("beta", 0.0))
    b.m_all = None
    b.m = m
    b.name_to_qid = m.create_name_to_qid()
    b.qid_to_name = m.create_qid_to_name()
    b.vec = m._get_dynamic_solution_vectors()
    b.sysvec = m._invariant.dynamic_descriptor.system_vectors
    b.sol = m.get_solution()
    b.system = m.systemize()
    return b


def gen_history(rng: Rng, spec):
    """a history on ONE model object: simulations in deviations and in levels interleaved with re-parameterisation + re-solve and
    with copies taken before / after.  Returns {"values": [parameter value lists], "ops": [...], "hseed": int} or None."""
    if spec.get("growth") or spec.get("meas_lead") or spec.get("variants"):
        return None
    sp0 = json.loads(json.dumps(spec))
    if not param_terms(sp0):
        cands = [(i, k) for i, eq in enumerate(sp0["eqs"]) for k, t in enumerate(eq["terms"])
                 if not (i == sp0.get("unit_var") and t[0] == i)]
        if not cands:
            return None
        for (i, k) in rng.sample(cands, min(len(cands), 2)):
            sp0["eqs"][i]["terms"][k][3] = True
    base = [sp0["eqs"][i]["terms"][k][2] for (i, k) in param_terms(sp0)]
    values = [base]
    for w in range(1, rng.choice([2, 2, 3])):
        for attempt in range(12):
            r = rng.fork(f"hval{w}-{attempt}")
            vals = [c * r.choice([0.5, 0.75, 1.25, 1.5, -0.5, -1.0, 0.25]) for c in base]
            if vals in values:
                continue
            cand = with_param_values(sp0, vals)
            if acceptable(cand, own_eigen_verdict(cand)):
                values.append(vals)
                break
    if len(values) < 2:
        return None
    ops = [rng.choice(["dev", "lev", "dev"])]
    for w in range(1, len(values)):
        ops += rng.sample(["dev", "lev", "copy"], rng.randint(1, 3))
        ops += ["reparam"]
        ops += rng.sample(["dev", "lev", "copy", "dev"], rng.randint(2, 4))
    ops += ["dev", "lev", "check-copies"]
    return {"spec": sp0, "values": values, "ops": ops, "hseed": int(rng.next() % (1 << 31))}


def run_history(ctx: Ctx, model_id, hist, lines=None) -> bool:
    """every step of the history is judged with the parameters in force for the object it runs on"""
    sp0, values, ops = hist["spec"], hist["values"], hist["ops"]
    hr = Rng(int(hist["hseed"]))
    tag = {"model": model_id, "spec": sp0, "history": {"spec": sp0, "values": values, "ops": ops, "hseed": hist["hseed"]}}
    cur = 0
    spec_cur = with_param_values(sp0, values[0])
    try:
        b = build_model(spec_cur)
    except Exception as e:
        ctx.fail("solve-raises-on-determinate-model", tag, repr(e)[:300])
        return False
    m = b.m
    copies = []          # (model copy, index of the parameterisation in force when it was taken)
    ok = True
    try:
        fresh = [build_model(with_param_values(sp0, vals)).sol for vals in values]
    except Exception:
        fresh = None
    tokens, observed = [], []

    def observe(mobj, idx_in_force, deviation):
        if fresh is not None:
            idx, kzero = which_parameterisation(mobj, deviation, fresh)
            observed.append(obs_token(idx_in_force, idx, kzero, deviation))
    ctx.count("history")
    ctx.count(f"history:reparameterisations={len(values) - 1}")
    for step, op in enumerate(ops):
        stag = dict(tag, step=step, op=op)
        case = gen_sim_case(hr.fork(f"step{step}"), sp0)
        ctx.count("history-op:" + op)
        if op == "dev":
            ok = oracle_equations(ctx, b, case, stag, deviation=True) and ok
            ok = oracle_level_steady_deviation(ctx, b, case, stag) and ok
            tokens.append("d"); observe(m, cur, True)
        elif op == "lev":
            ok = oracle_equations(ctx, b, case, stag, deviation=False) and ok
            tokens.append("l"); observe(m, cur, False)
        elif op == "copy":
            tokens.append("c")
            try:
                copies.append((m.copy(), cur))
            except Exception as e:
                ctx.fail("copy-raises", stag, repr(e)[:300]); return False
        elif op == "reparam":
            cur += 1
            tokens += [f"a{cur}", "s"]
            spec_cur = with_param_values(sp0, values[cur])
            try:
                m.assign(**spec_source(spec_cur)[1])
                if not spec_cur["linear"]:
                    m.assign(**steady_assignments(spec_cur, own_steady_path(spec_cur, beta=spec_cur.get("beta", 0.0))))
                m.solve(**solve_kwargs(spec_cur))
                b = built_from_model(spec_cur, m)
            except Exception as e:
                ctx.fail("solve-raises-on-determinate-model", stag, repr(e)[:300]); return False
        elif op == "check-copies":
            # a copy follows the parameterisation in force when it was taken, whatever happened to the original afterwards
            tokens.append(f"k{len(copies)}")
            for k, (c, idx) in enumerate(copies):
                observe(c, idx, True); observe(c, idx, False)
                bc = built_from_model(with_param_values(sp0, values[idx]), c)
                ctag = dict(stag, copy=k)
                ok = oracle_equations(ctx, bc, case, ctag, deviation=True) and ok
                ok = oracle_equations(ctx, bc, case, ctag, deviation=False) and ok
        if not ok:
            break
    if ok:
        ctx.nontriv(("history", len(values), tuple(ops)[:6], sp0["linear"], max(spec_shift_ranges(sp0)[1]) > 0))
    if fresh is not None and lines is not None:
        lines["hist"].append((tag, "hist " + " ".join(tokens), ",".join(observed)))
    return ok


def memo_stream_item(b: Built, r: Rng, tag):
    """a sequence of horizon requests on ONE Solution object (the memo `square_expansion` of _get_solution_expansion), dyadic matrices"""
    if b.sol.J.shape[0] == 0 or b.sol.P.shape[1] == 0:
        return None
    mats = random_dyadic_solution(r.fork("memosol"), b)
    fs = [r.randint(0, 5) for _ in range(r.randint(3, 6))]
    with OverriddenSolution(b, mats):
        sol = b.m._variants[0].solution
        outs = []
        for f in fs:
            outs.append(" ; ".join(mat_text(R) for R in sol.expand_square_solution(f)))
    line = "memo " + " ".join(mat_text(mats[k]) for k in ("P", "X", "J", "Ru")) + " F " + " ".join(str(f) for f in fs)
    return (dict(tag, requests=fs), line, " | ".join(outs))


def which_parameterisation(mobj, deviation, fresh):
    """indexes of the parameterisations whose FRESH solution (T, P, Z) the object uses for `_gets_solution(deviation)` -- several when
    two parameterisations happen to have the same T, P, Z --, and whether K, D are zero"""
    sol = mobj._gets_solution(deviation=deviation)
    hits = []
    for idx, fs in enumerate(fresh):
        sc = 1.0 + max(float(np.max(np.abs(fs.T))) if fs.T.size else 0.0, float(np.max(np.abs(fs.P))) if fs.P.size else 0.0)
        dT = float(np.max(np.abs(sol.T - fs.T))) if fs.T.size else 0.0
        dP = float(np.max(np.abs(sol.P - fs.P))) if fs.P.size else 0.0
        dZ = float(np.max(np.abs(sol.Z - fs.Z))) if fs.Z.size else 0.0
        if max(dT, dP, dZ) <= 1e-9 * sc:
            hits.append(idx)
    kzero = bool(np.all(sol.K == 0)) and bool(np.all(np.asarray(sol.D) == 0))
    return hits, kzero


def obs_token(cur, hits, kzero, deviation) -> str:
    return f"{cur}:{'/'.join(str(h) for h in hits) or '-1'}:{'D' if deviation else 'L'}" + ("" if (kzero or not deviation) else "!")


def history_tokens_agree(impl: str, model: str) -> bool:
    a, b = impl.split(","), model.split(",")
    if len(a) != len(b):
        return False
    for x, y in zip(a, b):
        xs, ys = x.split(":"), y.split(":")
        if len(xs) != 3 or len(ys) != 3 or xs[0] != ys[0] or xs[2] != ys[2] or ys[1] not in xs[1].split("/"):
            return False
    return True


def impl_variant_plan(b: Built, case, n, M, D) -> str:
    """which (model variant, data variant) produced output k of a multi-variant simulation -- found by matching each output column
    against single-variant simulations of every candidate pair"""
    spec = b.spec
    V = len(spec["variants"])
    model = b.m_all if M == V else b.m_all.get_variant(0)
    singles = [b.m_all.get_variant(i) for i in range(V if M == V else 1)]
    t0 = start_period(case["freq"])
    L, nper = case["maxlag"], case["nper"]
    span = t0 >> (t0 + nper - 1)

    def databox(cols):
        db = ir.Databox()
        for j in range(spec["n"]):
            vals = np.array([[case["init"][j][k] + 0.5 * c for c in cols] for k in range(L)], dtype=float)
            if spec["logly"][j]:
                vals = np.exp(vals)
            db[xname(j)] = ir.Series(start=t0 - L, values=vals)
        for k in range(spec["ns"]):
            uu = np.array([[case["u"][k][t] + (0.25 * c if t == 0 else 0.0) for c in cols] for t in range(nper)], dtype=float)
            db[ename(k)] = ir.Series(start=t0, values=uu)
            db["ant_" + ename(k)] = ir.Series(start=t0, values=np.array(case["v"][k], dtype=float))
        for k in range(spec["nw"]):
            db[wname(k)] = ir.Series(start=t0, values=np.array(case["w"][k], dtype=float))
        return db
    try:
        out = model.simulate(databox(list(range(D))), span, method="first_order", num_variants=n)
    except Exception:
        return "err:bad"
    ref = {}
    for mi, sm in enumerate(singles):
        for di in range(D):
            o = sm.simulate(databox([di]), span, method="first_order")
            ref[(mi, di)] = np.array([np.asarray(o[xname(j)].get_data(span), dtype=float).ravel() for j in range(spec["n"])])
    plan = []
    for k in range(n):
        col = []
        for j in range(spec["n"]):
            a = np.asarray(out[xname(j)].get_data(span), dtype=float)
            a = a.reshape(a.shape[0], -1)
            col.append(a[:, k] if a.shape[1] > k else np.full(a.shape[0], np.nan))
        col = np.array(col)
        hits = [key for key, rv in ref.items() if np.all(np.isfinite(col)) and np.max(np.abs(col - rv)) <= 1e-9 * (1 + np.max(np.abs(rv)))]
        if len(hits) > 1:
            return None      # the output does not identify the pair (e.g. a model without lags and shocks): nothing to compare
        plan.append(f"{hits[0][0]}:{hits[0][1]}" if len(hits) == 1 else "?")
    return ",".join(plan)


def check_lagged_shock(ctx: Ctx, r: Rng, spec, tag, case=None):
    """a transition equation with a shock at a non-zero shift (moving-average term): only the equation oracle runs; an equation that
    contains such a token fails under the narrow site `lagged-shock-treated-as-contemporaneous`, every other equation under the usual sites"""
    try:
        b = build_model(spec)
    except Exception:
        ctx.count("lagged-shock:rejected")
        return
    ctx.count("lagged-shock:accepted")
    case = case or gen_sim_case(r.fork("lagshock"), spec)
    oracle_equations(ctx, b, case, dict(tag, case=case), split=False)


def check_measurement_lead(ctx: Ctx, r: Rng, spec, tag):
    """a measurement equation with a lead of a transition variable: either the model is rejected, or the equation must hold
    with the lead read from the continuation like any other equation"""
    try:
        b = build_model(spec)
    except Exception as e:
        ctx.count("measurement-lead:rejected")
        return
    ctx.count("measurement-lead:accepted")
    case = gen_sim_case(r.fork("mlead"), spec)
    oracle_equations(ctx, b, case, dict(tag, case=case), split=False)


def flush_lines(ctx: Ctx, lines: dict):
    """send the queued requests through the Lean driver (one process for all streams) and compare"""
    order = ["vec", "simD", "stab", "cert", "sqtri", "simT", "memo", "hist", "plan", "mcert"]
    allreq = [l for k in order for (_, l, _) in lines[k]]
    allrep = ctx.model("C01", allreq)
    rep_of, pos = {}, 0
    for k in order:
        n = len(lines[k])
        rep_of[k] = None if allrep is None else allrep[pos:pos + n]
        pos += n
    # class E: vectors
    items = lines["vec"]
    replies = rep_of["vec"]
    ctx.compare("vectors", [{"model": t["model"], "line": l} for (t, l, _) in items], [imp for (_, _, imp) in items], replies)
    # class D: dyadic simulation
    items = lines["simD"]
    replies = rep_of["simD"]
    ctx.compare("simulate-dyadic", [{"model": t["model"], "spec": t["spec"], "case": t["case"], "override": True, "seedtag": t["seedtag"]} for (t, _, _) in items],
                [imp for (_, _, imp) in items], replies)
    # class D: expansion memo (sequence of horizon requests on one object); class E: history state machine, variant plan
    for key, stream in (("memo", "expansion-memo"), ("plan", "variant-plan")):
        items = lines[key]
        ctx.compare(stream, [t for (t, _, _) in items], [imp for (_, _, imp) in items], rep_of[key])
    if rep_of["hist"] is not None:
        for (t, l, imp), rep in zip(lines["hist"], rep_of["hist"]):
            ctx.streams_compared["history-state"] = ctx.streams_compared.get("history-state", 0) + 1
            if not history_tokens_agree(imp, rep):       # the model's index must be among the parameterisations the object's solution matches
                ctx.disagree("history-state", t, imp, rep)
    # stability certificate
    items = lines["stab"]
    replies = rep_of["stab"]
    ctx.compare("stability-certificate", [{"model": t["model"], "spec": t["spec"]} for (t, _, _) in items], [imp for (_, _, imp) in items], replies)
    # certificate: exact evaluation in Lean, bound in the harness
    items = lines["cert"]
    replies = rep_of["cert"]
    for idx, (t, l, b) in enumerate(items):
        case = {"model": t["model"], "spec": t["spec"]}
        if replies is not None:
            c = parse_cert(replies[idx])
            ctx.streams_compared["certificate"] = ctx.streams_compared.get("certificate", 0) + 1
            if c is None:
                ctx.disagree("certificate", case, "a certificate", replies[idx][:100])
                continue
        else:
            c = numpy_certificate(b)
        bound = TOL_CERT * float(c["scale"])
        vals = {"E1": c["E1"], "E2": c["E2"], "E3": c["E3"], "W": c["W"]}
        for a, e in enumerate(c["E4"]):
            vals[f"E4_{a + 1}"] = e
        bad = {k: float(v) for k, v in vals.items() if float(v) > bound}
        if c["bLead"] != 0:
            bad["bLead"] = float(c["bLead"])
        ctx.extra["max_certificate_residual"] = max(ctx.extra.get("max_certificate_residual", 0.0), max(float(v) for v in vals.values()))
        if bad:
            ctx.disagree("certificate", case, f"all certificate blocks <= {bound:.2e}", json.dumps(bad))
        if c["smax"] >= 1:
            ctx.count(f"certificate:smax={c['smax']}")
    # square/triangular consistency: exact evaluation in Lean, bound in the harness
    items = lines["sqtri"]
    replies = rep_of["sqtri"]
    for idx, (t, l, b) in enumerate(items):
        case = {"model": t["model"], "spec": t["spec"]}
        if replies is not None:
            rep = replies[idx]
            ctx.streams_compared["square-triangular"] = ctx.streams_compared.get("square-triangular", 0) + 1
            if not rep.startswith("ok "):
                ctx.disagree("square-triangular", case, "residuals", rep[:100]); continue
            dd = {k: Fraction(v) for k, v in (kv.split("=", 1) for kv in rep.split()[1:])}
        else:
            sol = b.sol
            mx = lambda m: float(np.max(np.abs(m))) if np.size(m) else 0.0
            dd = {"TU": mx(sol.T @ sol.Ua - sol.Ua @ sol.Ta), "P": mx(sol.P - sol.Ua @ sol.Pa), "K": mx(sol.K - sol.Ua @ sol.Ka),
                  "X": mx(sol.X - sol.Ua @ sol.Xa) if sol.X is not None and sol.Xa is not None else 0.0,
                  "scale": max([1.0] + [mx(m) for m in (sol.T, sol.Ua, sol.Ta, sol.P, sol.K)])}
        bound = TOL_CERT * float(dd["scale"])
        bad = {k: float(v) for k, v in dd.items() if k != "scale" and float(v) > bound}
        ctx.extra["max_square_triangular_residual"] = max(ctx.extra.get("max_square_triangular_residual", 0.0),
                                                          max(float(v) for k, v in dd.items() if k != "scale"))
        if bad:
            ctx.disagree("square-triangular", case, f"T Ua = Ua Ta, P = Ua Pa, K = Ua Ka, X = Ua Xa within {bound:.2e}", json.dumps(bad))
    # measurement certificate: exact evaluation in Lean, bound in the harness; lead columns of G exactly zero
    if rep_of["mcert"] is not None:
        for (t, l, b), rep in zip(lines["mcert"], rep_of["mcert"]):
            case = {"model": t["model"], "spec": t["spec"]}
            ctx.streams_compared["measurement-certificate"] = ctx.streams_compared.get("measurement-certificate", 0) + 1
            if not rep.startswith("ok "):
                ctx.disagree("measurement-certificate", case, "residuals", rep[:100]); continue
            dd = {k: Fraction(v) for k, v in (kv.split("=", 1) for kv in rep.split()[1:])}
            bound = TOL_CERT * float(dd["scale"])
            bad = {k: float(v) for k, v in dd.items() if k in ("Z", "D", "H") and float(v) > bound}
            if dd["gLead"] != 0:
                bad["gLead"] = float(dd["gLead"])
            ctx.extra["max_measurement_certificate_residual"] = max(ctx.extra.get("max_measurement_certificate_residual", 0.0),
                                                                    max(float(dd[k]) for k in ("Z", "D", "H")))
            if bad:
                ctx.disagree("measurement-certificate", case, f"G lead columns = 0 and F Z + G_b, F D + H, F Hm + J within {bound:.2e}", json.dumps(bad))
    # class T: exact recursion vs simulated databox
    items = lines["simT"]
    replies = rep_of["simT"]
    if replies is not None:
        for (t, l, (X, Y)), rep in zip(items, replies):
            ctx.streams_compared["simulate-real"] = ctx.streams_compared.get("simulate-real", 0) + 1
            case = {"model": t["model"], "spec": t["spec"], "case": t["case"]}
            ws = rep.split()
            if not ws or ws[0] != "x":
                ctx.disagree("simulate-real", case, "a path", rep[:100]); continue
            Xm, pos = parse_mat(ws, 1)
            Ym, _ = parse_mat(ws, pos + 1)
            sc = 1 + float(np.max(np.abs(X))) + (float(np.max(np.abs(Y))) if Y.size else 0.0)
            dx = float(np.max(np.abs(Xm - X))) if X.size else 0.0
            dyy = float(np.max(np.abs(Ym - Y))) if Y.size else 0.0
            ctx.extra["max_path_difference"] = max(ctx.extra.get("max_path_difference", 0.0), dx, dyy)
            if not (dx <= TOL_PATH * sc and dyy <= TOL_PATH * sc):
                ctx.disagree("simulate-real", case, f"path within {TOL_PATH * sc:.2e} of the exact recursion", f"max difference x={dx:.3e} y={dyy:.3e}")


def exact_certificate_cases():
    """hand-solved rational models: the executable certificate must return these exact values (the first is the `example` of
    Props/C01.lean; the others are worked out by hand in notes/C01.md)"""
    F = lambda r, c, *xs: " ".join([str(r), str(c)] + [str(x) for x in xs])
    out = []
    # x = 3/8 x{-1} + 1/2 x{+1} + 1 + e:  T=1/2 K=4 P=4/3 X=1 J=2/3 Ru=-8/9  -> everything exactly zero
    out.append(("scalar-lead-1", "cert 1 S 2 0 1 0 0 " + " ".join([
        F(2, 2, "1/2", -1, 1, 0), F(2, 2, 0, "3/8", -1, 0), F(2, 1, 1, 0), F(2, 1, 1, 0),
        F(1, 1, "1/2"), F(1, 1, 4), F(1, 1, "4/3"), F(1, 1, 1), F(1, 1, "2/3"), F(1, 1, "-8/9")]),
        "ok smax=1 rows=1 bLead=0 E1=0 E2=0 E3=0 E4=0 W=0 scale=4"))
    # the same with a perturbed T: E1 = (1/2*T - 1)*T + 3/8 with T = 1/4 -> 5/32;  E2 = M K + Af K + 1 = -7/8*4 + 2 + 1 = -1/2; ...
    out.append(("scalar-lead-1-wrong-T", "cert 1 S 2 0 1 0 0 " + " ".join([
        F(2, 2, "1/2", -1, 1, 0), F(2, 2, 0, "3/8", -1, 0), F(2, 1, 1, 0), F(2, 1, 1, 0),
        F(1, 1, "1/4"), F(1, 1, 4), F(1, 1, "4/3"), F(1, 1, 1), F(1, 1, "2/3"), F(1, 1, "-8/9")]),
        "ok smax=1 rows=1 bLead=0 E1=5/32 E2=1/2 E3=1/6 E4=1/9 W=1/12 scale=4"))
    # x = 3/8 x{-1} + x{+2} + e, T=1/2, P=4/3, X=1, J=2, Ru=-8/9 (depth-2 lead): E1=E2=E3=E4_1=0, E4_2=4/9, W=1
    out.append(("scalar-lead-2", "cert 1 S 3 0 2 0 1 0 0 " + " ".join([
        F(3, 3, 1, 0, -1, 0, 1, 0, 0, 0, 1), F(3, 3, 0, 0, "3/8", -1, 0, 0, 0, -1, 0), F(3, 1, 0, 0, 0), F(3, 1, 1, 0, 0),
        F(1, 1, "1/2"), F(1, 1, 0), F(1, 1, "4/3"), F(1, 1, 1), F(1, 1, 2), F(1, 1, "-8/9")]),
        "ok smax=2 rows=1 bLead=0 E1=0 E2=0 E3=0 E4=0,4/9 W=1 scale=2"))
    return out


def new_lines():
    return {"vec": [], "cert": [], "stab": [], "simT": [], "simD": [], "sqtri": [], "memo": [], "hist": [], "plan": [], "mcert": []}


def replay_corpus(ctx: Ctx):
    for path in sorted(glob.glob(os.path.join(VERIF, "corpus", "C01", "*.json"))):
        try:
            payload = json.load(open(path))
        except Exception:
            continue
        ctx.count("corpus")
        replay(ctx, payload)


def run(ctx: Ctx):
    ctx.rule = ("random determinate linear / log-linear models (1-6 variables, lags and leads up to 3, measurement block, parameters, constants, "
                "at most one unit root; every third model carries 2-3 parameter VARIANTS, each judged with its own values; balanced-growth models not declared linear; 40 % of the models solved with non-default options clip_small / tolerance) accepted by an independent eig of the harness's own pencil (stable roots <= 0.92, unstable >= 1.08); per model "
                "several simulation inputs (dyadic initial conditions, unanticipated and anticipated shocks at random dates, level/deviation, "
                "single/split frames). distinct_nontrivial counts distinct (n, maxlag, maxlead, log, measurement, unit root, shocks) model shapes, "
                "distinct (frames>=2, leads, shock kind) split simulations whose equations hold, and distinct dyadic-override simulation shapes")
    replay_corpus(ctx)
    lines = new_lines()
    n_models = ctx.n(90, 1500)
    n_cases = ctx.n(3, 4)
    for (i, r, spec, verdict) in models_for_run(ctx, n_models):
        b = check_model(ctx, i, r, spec, verdict, lines, n_cases)
        if b is not None and len(ctx.samples) < 3:
            ctx.sample({"source": b.source, "parameters": b.params, "shape": describe(spec)})
    # histories on one model object (deviation / level simulations, re-parameterise + re-solve, copies)
    n_hist = 0
    for (i, r, spec, verdict) in models_for_run(ctx, ctx.n(45, 400), tag="hist"):
        hist = gen_history(r.fork("history"), spec)
        if hist is not None:
            run_history(ctx, f"h{i}", hist, lines)
            n_hist += 1
    ctx.extra["histories"] = n_hist
    flush_lines(ctx, lines)
    ex = exact_certificate_cases()
    ctx.compare("certificate-exact", [n for (n, _, _) in ex], [w for (_, _, w) in ex], ctx.model("C01", [l for (_, l, _) in ex]))
    ctx.extra["tolerances"] = {"certificate": TOL_CERT, "path": TOL_PATH, "oracle_residual": TOL_RES}


def _new_failure(ctx: Ctx) -> bool:
    return any(f["site"] not in ("measurement-equation-with-lead", "lagged-shock-treated-as-contemporaneous") for f in ctx.failures)


def search(ctx: Ctx, seeds):
    """failing-input search on the real code when a tie broke: the disagreeing models first (also as histories on one object),
    then the generator with a bigger budget (oracles only).  Models with a lead in a measurement equation are left out."""
    lines = new_lines()
    for s in seeds:
        if isinstance(s, dict) and "spec" in s and not s["spec"].get("meas_lead") and not s["spec"].get("shock_lags"):
            try:
                spec = s["spec"]
                if "history" in s:
                    run_history(ctx, s.get("model", -1), s["history"])
                verdict = own_eigen_verdict(spec)
                b = check_model(ctx, s.get("model", -1), ctx.rng.fork("seed"), spec, verdict, lines, 4)
                if b is not None and "case" in s and not s.get("override"):
                    oracle_equations(ctx, b, s["case"], {"model": s.get("model"), "spec": spec, "case": s["case"]})
                hist = gen_history(ctx.rng.fork("seedhist"), spec)
                if hist is not None:
                    run_history(ctx, s.get("model", -1), hist)
            except Exception:
                pass
        if _new_failure(ctx):
            return
    for (i, r, spec, verdict) in models_for_run(ctx, 150, tag="search"):
        if spec.get("meas_lead"):
            continue
        check_model(ctx, i, r, spec, verdict, new_lines(), 4)
        hist = gen_history(r.fork("history"), spec)
        if hist is not None:
            run_history(ctx, f"h{i}", hist)
        if _new_failure(ctx):
            return


def replay(ctx: Ctx, payload):
    case = payload.get("case") or {}
    if isinstance(case, dict) and "spec" in case:
        spec = case["spec"]
        verdict = own_eigen_verdict(spec)
        lines = new_lines()
        tag = {"model": case.get("model", 0), "spec": spec}
        if spec.get("meas_lead"):
            check_measurement_lead(ctx, ctx.rng.fork("replay"), spec, tag)
            return
        if spec.get("shock_lags"):
            check_lagged_shock(ctx, ctx.rng.fork("replay"), spec, tag, case.get("case"))
            return
        if "history" in case:
            ctx.extra["programs"] = ctx.extra.get("programs", 0) + 1
            hl = new_lines()
            run_history(ctx, case.get("model", 0), case["history"], hl)
            flush_lines(ctx, hl)
            return
        try:
            b = build_model(spec)
        except Exception as e:
            ctx.fail("solve-raises-on-determinate-model", tag, repr(e)[:300])
            return
        ctx.extra["programs"] = ctx.extra.get("programs", 0) + 1
        oracle_bk(ctx, b, verdict, tag)
        lines["vec"].append((tag, vec_line(b), vec_impl(b)))
        lines["cert"].append((tag, cert_line(b), b))
        lines["sqtri"].append((tag, sqtri_line(b), b))
        if "case" in case and not case.get("override"):
            sc = case["case"]
            ctag = dict(tag, case=sc)
            oracle_equations(ctx, b, sc, ctag)
            oracle_equations(ctx, b, sc, ctag, split=not sc["split"])
            oracle_level_steady_deviation(ctx, b, sc, ctag)
            oracle_nonexplosive(ctx, b, sc, ctag)
            try:
                X, Y, _ = sim_impl_arrays(b, sc, sc["deviation"], sc["split"])
                lines["simT"].append((ctag, sim_line(b, sc, sol_mats_of(b), sc["deviation"], sc["split"]), (X, Y)))
            except Exception as e:
                ctx.fail("simulate-raises", ctag, repr(e)[:300])
        elif "case" in case and case.get("override"):
            dcase = case["case"]
            r = Rng(int(payload.get("seed", 0)))
            mats = case.get("mats") or random_dyadic_solution(r.fork(case.get("seedtag", "dsol0")), b)
            mats = {k: np.array(v, dtype=float) for k, v in mats.items()}
            with OverriddenSolution(b, mats):
                X, Y, _ = sim_impl_arrays(b, dcase, dcase["deviation"], dcase["split"])
            order = ["T", "K", "P", "X", "J", "Ru", "Z", "H", "D"]
            lines["simD"].append((dict(tag, case=dcase, override=True, seedtag=case.get("seedtag", "")),
                                  sim_line(b, dcase, [mats[k] for k in order], dcase["deviation"], dcase["split"]), "x " + mat_text(X) + " y " + mat_text(Y)))
        else:
            r = ctx.rng.fork("replay")
            for c in range(4):
                sc = gen_sim_case(r.fork(c), spec)
                oracle_equations(ctx, b, sc, dict(tag, case=sc))
        flush_lines(ctx, lines)
    else:
        run(ctx)
