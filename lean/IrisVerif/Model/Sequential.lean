/-
Executable model of irispie's sequential simulator (property C17).

  /repo/src/irispie/explanatories/main.py     Explanatory: eval_level, eval_residual, simulate, exogenize
  /repo/src/irispie/explanatories/_transforms.py   LHS transforms        (formulas: Generated/ExplanatoryGen.lean)
  /repo/src/irispie/plans/transforms.py       PlanTransform*.eval_exogenized (formulas: Generated/ExplanatoryGen.lean)
  /repo/src/irispie/sequentials/_simulate.py  _simulate_v, _get_transform, _detect_exogenized, execution orders

The working data array of `_simulate_v` is a table `row → column → value`; a value is a finite number or NaN.  The carrier of the
finite values is abstract (`Carrier β`): `Rat` for exact (class D) runs, `Float` for tolerance runs, a field in the theorems.
Division by zero and `exp`/`log` outside their domain give `none` (IEEE would give ±inf or NaN; infinities are outside the
model, see notes/C17.md).  No Mathlib import: the driver is interpreted.
-/
import IrisVerif.Generated.ExplanatoryGen

namespace IrisVerif.Seq
open IrisVerif.Gen

/-- operations on finite values; `fn? 0` = exp, `fn? 1` = log, other codes are further (opaque) unary functions -/
class Carrier (β : Type) where
  add : β → β → β
  sub : β → β → β
  mul : β → β → β
  neg : β → β
  div? : β → β → Option β
  fn? : Nat → β → Option β
  ofNat : Nat → β

/-- a value of the data array: a finite number or NaN -/
inductive V (β : Type) where
  | nan : V β
  | fin (x : β) : V β

namespace V
variable {β : Type}

def ofOption : Option β → V β
  | some x => fin x
  | none => nan

def isNan : V β → Bool
  | nan => true
  | fin _ => false

variable [Carrier β]

def lift2 (f : β → β → β) (a b : V β) : V β :=
  match a, b with
  | fin x, fin y => fin (f x y)
  | _, _ => nan

def vdiv (a b : V β) : V β :=
  match a, b with
  | fin x, fin y => ofOption (Carrier.div? x y)
  | _, _ => nan

def vneg (a : V β) : V β :=
  match a with
  | fin x => fin (Carrier.neg x)
  | nan => nan

def fn (k : Nat) (a : V β) : V β :=
  match a with
  | fin x => ofOption (Carrier.fn? k x)
  | nan => nan

instance : Add (V β) := ⟨lift2 Carrier.add⟩
instance : Sub (V β) := ⟨lift2 Carrier.sub⟩
instance : Mul (V β) := ⟨lift2 Carrier.mul⟩
instance : Div (V β) := ⟨vdiv⟩
instance : Neg (V β) := ⟨vneg⟩
instance {n : Nat} : OfNat (V β) n := ⟨fin (Carrier.ofNat n)⟩

def exp (a : V β) : V β := fn 0 a
def log (a : V β) : V β := fn 1 a

end V

/-- the data array: row (quantity id) → column → value -/
abbrev Table (β : Type) := Nat → Int → V β

abbrev Cell := Nat × Int

def Table.set {β : Type} (tbl : Table β) (r : Nat) (c : Int) (v : V β) : Table β :=
  fun r' c' => if r' = r ∧ c' = c then v else tbl r' c'

/-- right-hand side expression: reads of (row, shift) — variables, residuals and parameters alike are rows of the data
array, as in irispie's `x[(qid, t+shift)]` — constants, `+ - * /`, unary minus and unary functions -/
inductive Expr (β : Type) where
  | const (c : β)
  | var (row : Nat) (shift : Int)
  | neg (a : Expr β)
  | add (a b : Expr β)
  | sub (a b : Expr β)
  | mul (a b : Expr β)
  | div (a b : Expr β)
  | fn (k : Nat) (a : Expr β)

namespace Expr
variable {β : Type} [Carrier β]

def eval (tbl : Table β) (t : Int) : Expr β → V β
  | const c => .fin c
  | var r s => tbl r (t + s)
  | neg a => - a.eval tbl t
  | add a b => a.eval tbl t + b.eval tbl t
  | sub a b => a.eval tbl t - b.eval tbl t
  | mul a b => a.eval tbl t * b.eval tbl t
  | div a b => a.eval tbl t / b.eval tbl t
  | fn k a => V.fn k (a.eval tbl t)

/-- the cells an evaluation at column `t` reads -/
def reads (t : Int) : Expr β → List Cell
  | const _ => []
  | var r s => [(r, t + s)]
  | neg a => a.reads t
  | add a b => a.reads t ++ b.reads t
  | sub a b => a.reads t ++ b.reads t
  | mul a b => a.reads t ++ b.reads t
  | div a b => a.reads t ++ b.reads t
  | fn _ a => a.reads t

/-- (row, shift) incidences -/
def tokens : Expr β → List (Nat × Int)
  | const _ => []
  | var r s => [(r, s)]
  | neg a => a.tokens
  | add a b => a.tokens ++ b.tokens
  | sub a b => a.tokens ++ b.tokens
  | mul a b => a.tokens ++ b.tokens
  | div a b => a.tokens ++ b.tokens
  | fn _ a => a.tokens

def usesFn : Expr β → Bool
  | const _ => false
  | var _ _ => false
  | neg a => a.usesFn
  | add a b => a.usesFn || b.usesFn
  | sub a b => a.usesFn || b.usesFn
  | mul a b => a.usesFn || b.usesFn
  | div a b => a.usesFn || b.usesFn
  | fn _ _ => true

end Expr

/-- the LHS transforms of `_ALL_LHS_TRANSFORMS` -/
inductive LhsT where
  | none | log | diff | diffLog | roc | pct
  deriving DecidableEq, Repr

namespace LhsT

def all : List LhsT := [none, log, diff, diffLog, roc, pct]

/-- class name without the `LhsTransform` prefix -/
def name : LhsT → String
  | none => "None" | log => "Log" | diff => "Diff" | diffLog => "DiffLog" | roc => "Roc" | pct => "Pct"

variable {β : Type} [Carrier β]

/-- the transform applied to the current and the lagged LHS value (the preparsed LHS text, `_LHS_PATTERN`) -/
def apply (tr : LhsT) (cur lag : V β) : V β :=
  match tr with
  | none => Explanatory.lhs_None V.exp V.log cur lag
  | log => Explanatory.lhs_Log V.exp V.log cur lag
  | diff => Explanatory.lhs_Diff V.exp V.log cur lag
  | diffLog => Explanatory.lhs_DiffLog V.exp V.log cur lag
  | roc => Explanatory.lhs_Roc V.exp V.log cur lag
  | pct => Explanatory.lhs_Pct V.exp V.log cur lag

/-- the level formula (`create_eval_level_str`) -/
def level (tr : LhsT) (lag rhs : V β) : V β :=
  match tr with
  | none => Explanatory.level_None V.exp V.log lag rhs
  | log => Explanatory.level_Log V.exp V.log lag rhs
  | diff => Explanatory.level_Diff V.exp V.log lag rhs
  | diffLog => Explanatory.level_DiffLog V.exp V.log lag rhs
  | roc => Explanatory.level_Roc V.exp V.log lag rhs
  | pct => Explanatory.level_Pct V.exp V.log lag rhs

def lagShift : LhsT → Option Int
  | none => Explanatory.lagShift_None
  | log => Explanatory.lagShift_Log
  | diff => Explanatory.lagShift_Diff
  | diffLog => Explanatory.lagShift_DiffLog
  | roc => Explanatory.lagShift_Roc
  | pct => Explanatory.lagShift_Pct

def usesFn : LhsT → Bool
  | log => true | diffLog => true | _ => false

end LhsT

/-- an explanatory equation `transform(lhs) = rhs [+ residual]` -/
structure Equation (β : Type) where
  lhs : Nat
  tr : LhsT
  identity : Bool
  rhs : Expr β
  res : Nat

namespace Equation
variable {β : Type} [Carrier β]

def lagCells (eq : Equation β) (t : Int) : List Cell :=
  match eq.tr.lagShift with
  | some s => [(eq.lhs, t + s)]
  | none => []

/-- the lagged LHS value the transform refers to (`none` when the transform has no lag: the formulas then ignore it) -/
def lagVal (eq : Equation β) (tbl : Table β) (t : Int) : V β :=
  match eq.tr.lagShift with
  | some s => tbl eq.lhs (t + s)
  | none => .nan

/-- right-hand side including the residual (`_add_residual_to_rhs`; identities have none) -/
def rhsFull (eq : Equation β) (tbl : Table β) (t : Int) : V β :=
  if eq.identity then eq.rhs.eval tbl t
  else Explanatory.rhsWithResidual V.exp V.log (eq.rhs.eval tbl t) (tbl eq.res t)

/-- `eval_level(data, t)` -/
def evalLevel (eq : Equation β) (tbl : Table β) (t : Int) : V β :=
  eq.tr.level (eq.lagVal tbl t) (eq.rhsFull tbl t)

/-- the transformed left-hand side evaluated on the data -/
def lhsValue (eq : Equation β) (tbl : Table β) (t : Int) : V β :=
  eq.tr.apply (tbl eq.lhs t) (eq.lagVal tbl t)

/-- `eval_residual(data, t)`: body `lhs-(rhs)` where `rhs` already contains the residual -/
def evalResidual (eq : Equation β) (tbl : Table β) (t : Int) : V β :=
  Explanatory.residualBody V.exp V.log (eq.lhsValue tbl t) (eq.rhsFull tbl t)

/-- the equation holds at column `t` with the data `tbl`: both sides are numbers and they are equal -/
def Holds (eq : Equation β) (tbl : Table β) (t : Int) : Prop :=
  ∃ a : β, eq.lhsValue tbl t = .fin a ∧ eq.rhsFull tbl t = .fin a

/-- cells other than the LHS cell itself on which the truth of the equation at `t` depends -/
def deps (eq : Equation β) (t : Int) : List Cell :=
  eq.rhs.reads t ++ eq.lagCells t ++ (if eq.identity then [] else [(eq.res, t)])

/-- cells on which the right-hand side without the residual and the lag depend -/
def depsNoRes (eq : Equation β) (t : Int) : List Cell :=
  eq.rhs.reads t ++ eq.lagCells t

/-- `depsNoRes` as (row, shift) incidences of the equation text: the right-hand side and the lag of the LHS transform -/
def depNoResTokens (eq : Equation β) : List (Nat × Int) :=
  eq.rhs.tokens ++ (match eq.tr.lagShift with | some s => [(eq.lhs, s)] | none => [])

/-- `deps` as (row, shift) incidences: right-hand side, transform lag, residual -/
def depTokens (eq : Equation β) : List (Nat × Int) :=
  eq.depNoResTokens ++ (if eq.identity then [] else [(eq.res, 0)])

/-- the rows a step of this equation can write: its LHS, and its residual unless it is an identity -/
def writeRows (eq : Equation β) : List Nat :=
  eq.lhs :: (if eq.identity then [] else [eq.res])

/-- static form of `selfOK`: the equation text does not read its own LHS at shift 0, and (non-identities) the residual is a
row of its own, not read by the right-hand side or the transform lag at shift 0 -/
def SelfOKText (eq : Equation β) : Prop :=
  (eq.lhs, (0 : Int)) ∉ eq.depTokens ∧ (eq.identity = true ∨ ((eq.res, (0 : Int)) ∉ eq.depNoResTokens ∧ eq.res ≠ eq.lhs))

instance (eq : Equation β) : Decidable eq.SelfOKText := by unfold SelfOKText; infer_instance

end Equation

/-- plan transforms (`CHOOSE_TRANSFORM_CLASS`) -/
inductive PlanT where
  | none | log | diff | diffLog | roc | pct | flat
  deriving DecidableEq, Repr

namespace PlanT

def all : List PlanT := [none, log, diff, diffLog, roc, pct, flat]

def name : PlanT → String
  | none => "None" | log => "Log" | diff => "Diff" | diffLog => "DiffLog" | roc => "Roc" | pct => "Pct" | flat => "Flat"

variable {β : Type} [Carrier β]

/-- `eval_exogenized`: target value (`exogenized_values_after[0]`) and lagged level (`values_before[self._shift]`) -/
def implied (k : PlanT) (target lag : V β) : V β :=
  match k with
  | none => Explanatory.plan_None V.exp V.log target lag
  | log => Explanatory.plan_Log V.exp V.log target lag
  | diff => Explanatory.plan_Diff V.exp V.log target lag
  | diffLog => Explanatory.plan_DiffLog V.exp V.log target lag
  | roc => Explanatory.plan_Roc V.exp V.log target lag
  | pct => Explanatory.plan_Pct V.exp V.log target lag
  | flat => Explanatory.plan_Flat V.exp V.log target lag

def usesTarget : PlanT → Bool
  | none => Explanatory.planUsesTarget_None
  | log => Explanatory.planUsesTarget_Log
  | diff => Explanatory.planUsesTarget_Diff
  | diffLog => Explanatory.planUsesTarget_DiffLog
  | roc => Explanatory.planUsesTarget_Roc
  | pct => Explanatory.planUsesTarget_Pct
  | flat => Explanatory.planUsesTarget_Flat

def usesLag : PlanT → Bool
  | none => Explanatory.planUsesLag_None
  | log => Explanatory.planUsesLag_Log
  | diff => Explanatory.planUsesLag_Diff
  | diffLog => Explanatory.planUsesLag_DiffLog
  | roc => Explanatory.planUsesLag_Roc
  | pct => Explanatory.planUsesLag_Pct
  | flat => Explanatory.planUsesLag_Flat

def usesFn : PlanT → Bool
  | log => true | diffLog => true | _ => false

/-- the transform a `transform=` keyword of `SimulationPlan.exogenize` DOCUMENTS ("" stands for `None`): level targets for
`None`/"none"/"level", and "log", "diff", "diff_log" (also spelled "difflog"), "roc", "pct", "flat" -/
def ofSpelling? : String → Option PlanT
  | "" => some none
  | "none" => some none
  | "level" => some none
  | "log" => some log
  | "diff" => some diff
  | "diff_log" => some diffLog
  | "difflog" => some diffLog
  | "roc" => some roc
  | "pct" => some pct
  | "flat" => some flat
  | _ => Option.none

/-- every documented spelling -/
def spellings : List String := ["", "none", "level", "log", "diff", "diff_log", "difflog", "roc", "pct", "flat"]

end PlanT

/-- one exogenized point of a plan: transform kind, `when_data`, `_shift`, row of the target series
(`resolve_databox_name`; `none` when the name format is `None`) -/
structure PlanPoint where
  kind : PlanT
  whenData : Bool
  shift : Int
  target : Option Nat

/-- `plan.get_exogenized_point(lhs_name, date)`, keyed by LHS row and column -/
abbrev Plan := Nat → Int → Option PlanPoint

inductive Err where
  | badIndex      -- Python IndexError / TypeError inside `_detect_exogenized` (wrapped into IrisPieCritical by the code)
  | badEquation   -- schedule refers to an equation that does not exist
  | badSteps      -- unknown statement code in the generated step lists
  deriving DecidableEq, Repr

/-- Python `seq[k]` on a sequence of length `n` -/
def pyIndex (n k : Int) : Option Int :=
  if 0 ≤ k ∧ k < n then some k
  else if -n ≤ k ∧ k < 0 then some (n + k)
  else none

section
variable {β : Type} [Carrier β]

/-- column of `values_before[self._shift]` where `values_before = data[row, :column]` -/
def planLagColumn (p : PlanPoint) (t : Int) : Option Int := pyIndex t p.shift

/-- `_detect_exogenized`: `none` = simulate the equation, `some v` = exogenize the LHS at `v` (possibly NaN) -/
def detectExogenized (tbl : Table β) (lhsRow : Nat) (p : PlanPoint) (t : Int) : Except Err (Option (V β)) := do
  let target : V β ←
    if p.kind.usesTarget then
      match p.target with
      | some r => pure (tbl r t)
      | none => throw Err.badIndex
    else pure V.nan
  let lag : V β ←
    if p.kind.usesLag then
      match planLagColumn p t with
      | some c => pure (tbl lhsRow c)
      | none => throw Err.badIndex
    else pure V.nan
  let implied : V β := p.kind.implied target lag
  if p.whenData && implied.isNan then pure none else pure (some implied)

/-- `_get_transform`: identities are never exogenized -/
def getTransform (plan : Plan) (eq : Equation β) (t : Int) : Option PlanPoint :=
  if eq.identity then none else plan eq.lhs t

/-- one statement of `Explanatory.simulate` / `Explanatory.exogenize` (codes of Generated/ExplanatoryGen.lean) -/
def runStatement (eq : Equation β) (t : Int) (values : V β) (tbl : Table β) (code : Nat) : Except Err (Table β) :=
  match code with
  | 0 => pure (tbl.set eq.lhs t values)
  | 1 => pure (tbl.set eq.res t (.fin (Carrier.ofNat 0)))
  | 2 => pure (tbl.set eq.res t (eq.evalResidual tbl t))
  | 3 => pure (tbl.set eq.lhs t (eq.evalLevel tbl t))
  | _ => throw Err.badSteps

def runSteps (codes : List Nat) (eq : Equation β) (t : Int) (values : V β) (tbl : Table β) : Except Err (Table β) :=
  codes.foldlM (runStatement eq t values) tbl

/-- which branch `_simulate_v` takes for equation `eq` at column `t` -/
def branchOf (plan : Plan) (eq : Equation β) (tbl : Table β) (t : Int) : Except Err (Option (V β)) :=
  match getTransform plan eq t with
  | none => pure none
  | some p => detectExogenized tbl eq.lhs p t

/-- body of the loop of `_simulate_v`, with the statement lists of `simulate` and `exogenize` as parameters -/
def stepWith (simSteps exoSteps : List Nat) (eqs : List (Equation β)) (plan : Plan) (tbl : Table β) (s : Int × Nat) :
    Except Err (Table β) :=
  match eqs[s.2]? with
  | none => throw Err.badEquation
  | some eq => do
    match ← branchOf plan eq tbl s.1 with
    | none => runSteps simSteps eq s.1 .nan tbl
    | some v => runSteps exoSteps eq s.1 v tbl

/-- the code as it is now -/
def stepV (eqs : List (Equation β)) (plan : Plan) (tbl : Table β) (s : Int × Nat) : Except Err (Table β) :=
  stepWith Explanatory.simulateSteps Explanatory.exogenizeSteps eqs plan tbl s

def simulateWith (simSteps exoSteps : List Nat) (eqs : List (Equation β)) (plan : Plan) (tbl : Table β)
    (sched : List (Int × Nat)) : Except Err (Table β) :=
  sched.foldlM (stepWith simSteps exoSteps eqs plan) tbl

/-- `_simulate_v`: fold of the loop body over the schedule -/
def simulateV (eqs : List (Equation β)) (plan : Plan) (tbl : Table β) (sched : List (Int × Nat)) : Except Err (Table β) :=
  simulateWith Explanatory.simulateSteps Explanatory.exogenizeSteps eqs plan tbl sched

end

/-- `_iter_dates_equations`: product(columns, equations) -/
def datesEquations (cols : List Int) (n : Nat) : List (Int × Nat) :=
  cols.flatMap fun t => (List.range n).map fun i => (t, i)

/-- `_iter_equations_dates`: product(equations, columns), swapped -/
def equationsDates (cols : List Int) (n : Nat) : List (Int × Nat) :=
  (List.range n).flatMap fun i => cols.map fun t => (t, i)

/-! ## Admissible schedules (static, decidable) -/

section
variable {β : Type}

/-- cells a step may write: the LHS cell, and the residual cell when the plan has a point there -/
def stepWrites (eqs : List (Equation β)) (plan : Plan) (s : Int × Nat) : List Cell :=
  match eqs[s.2]? with
  | none => []
  | some eq => (eq.lhs, s.1) :: (if !eq.identity && (plan eq.lhs s.1).isSome then [(eq.res, s.1)] else [])

/-- cells (other than the LHS cell) the equation of the step depends on -/
def stepDeps (eqs : List (Equation β)) (s : Int × Nat) : List Cell :=
  match eqs[s.2]? with
  | none => []
  | some eq => eq.deps s.1

/-- the step does not write what its own equation reads: the LHS cell is not read by the RHS/lag/residual, and the residual
cell is neither the LHS cell nor read by the RHS without residual or the lag -/
def selfOK (eqs : List (Equation β)) (s : Int × Nat) : Bool :=
  match eqs[s.2]? with
  | none => true
  | some eq => !(eq.deps s.1).contains (eq.lhs, s.1)
      && (eq.identity || (!(eq.depsNoRes s.1).contains (eq.res, s.1) && !((eq.res, s.1) == (eq.lhs, s.1))))

/-- no later step writes a cell that step `s` wrote or that its equation reads -/
def laterOK (eqs : List (Equation β)) (plan : Plan) (s : Int × Nat) (rest : List (Int × Nat)) : Bool :=
  rest.all fun s' => (stepWrites eqs plan s').all fun c =>
    !(stepDeps eqs s).contains c && !(stepWrites eqs plan s).contains c

/-- the step at the head of a schedule "computes its value after everything it reads and is not overwritten" -/
def stepOK (eqs : List (Equation β)) (plan : Plan) (s : Int × Nat) (rest : List (Int × Nat)) : Bool :=
  selfOK eqs s && laterOK eqs plan s rest

/-- every value is computed before it is read and no cell is written twice -/
def admissible (eqs : List (Equation β)) (plan : Plan) : List (Int × Nat) → Bool
  | [] => true
  | s :: rest => stepOK eqs plan s rest && admissible eqs plan rest

/-- per step of a schedule: is that step admissible with respect to the steps after it -/
def admissibleFlags (eqs : List (Equation β)) (plan : Plan) : List (Int × Nat) → List Bool
  | [] => []
  | s :: rest => stepOK eqs plan s rest :: admissibleFlags eqs plan rest

/-! ## Closed-form conditions on the model text under which the two execution orders are admissible -/

/-- every equation passes `SelfOKText` -/
def AllSelfOK (eqs : List (Equation β)) : Prop := ∀ eq ∈ eqs, eq.SelfOKText

/-- different equations write different rows (distinct LHS names, distinct residual names, no LHS that is a residual) -/
def DistinctWrites (eqs : List (Equation β)) : Prop :=
  ∀ p ∈ eqs.zipIdx, ∀ q ∈ eqs.zipIdx, p.2 ≠ q.2 → ∀ r ∈ p.1.writeRows, r ∉ q.1.writeRows

/-- **dates×equations**: whenever equation `i` reads, at shift `k`, a row that equation `j` writes, and both the reading
column and the column read lie in the simulated columns, then `k < 0` (a lag), or `k = 0` and `j` is not later than `i`
(same period: only earlier equations — `j = i` is the equation's own residual).  In words: the model is sequentialised and
its leads refer only to input cells. -/
def DatesEquationsCond (eqs : List (Equation β)) (cols : List Int) : Prop :=
  ∀ p ∈ eqs.zipIdx, ∀ q ∈ eqs.zipIdx, ∀ tok ∈ p.1.depTokens, tok.1 ∈ q.1.writeRows →
    ∀ t ∈ cols, t + tok.2 ∈ cols → (tok.2 < 0 ∨ (tok.2 = 0 ∧ q.2 ≤ p.2))

/-- **equations×dates**: whenever equation `i` reads, at shift `k`, a row that equation `j` writes, with both columns
simulated, then `j` is an earlier equation (any shift, leads included), or `j = i` and `k ≤ 0` (own lags; `k = 0` is the own
residual).  In particular no equation may read — at any shift landing inside the span, lags included — a row written by a
LATER equation. -/
def EquationsDatesCond (eqs : List (Equation β)) (cols : List Int) : Prop :=
  ∀ p ∈ eqs.zipIdx, ∀ q ∈ eqs.zipIdx, ∀ tok ∈ p.1.depTokens, tok.1 ∈ q.1.writeRows →
    ∀ t ∈ cols, t + tok.2 ∈ cols → (q.2 < p.2 ∨ (q.2 = p.2 ∧ tok.2 ≤ 0))

instance (eqs : List (Equation β)) : Decidable (AllSelfOK eqs) := by unfold AllSelfOK; infer_instance
instance (eqs : List (Equation β)) : Decidable (DistinctWrites eqs) := by unfold DistinctWrites; infer_instance
instance (eqs : List (Equation β)) (cols : List Int) : Decidable (DatesEquationsCond eqs cols) := by
  unfold DatesEquationsCond; infer_instance
instance (eqs : List (Equation β)) (cols : List Int) : Decidable (EquationsDatesCond eqs cols) := by
  unfold EquationsDatesCond; infer_instance

end

/-! ## Extent of the data array: pre-sample and post-sample columns (`Sequential.max_lag` / `max_lead`, Dataslate) -/

section
variable {β : Type}

/-- `Sequential.max_lag` = `min` over the equations of the smallest shift in their incidence (the LHS token at shift 0 is always
there, so the result is ≤ 0) -/
def minShift (eqs : List (Equation β)) : Int :=
  (eqs.flatMap Equation.depTokens).foldl (fun m tok => min m tok.2) 0

/-- `Sequential.max_lead` -/
def maxShift (eqs : List (Equation β)) : Int :=
  (eqs.flatMap Equation.depTokens).foldl (fun m tok => max m tok.2) 0

/-- number of columns the Dataslate puts before the first simulated one -/
def nPreOf (eqs : List (Equation β)) : Nat := (- minShift eqs).toNat

/-- number of columns after the last simulated one -/
def nPostOf (eqs : List (Equation β)) : Nat := (maxShift eqs).toNat

end

/-! ## Assembly of the returned databox: `out_db = target_db | out_db` (Python dict union on a deep copy of the target) -/

section
variable {κ ν : Type} [DecidableEq κ]

/-- a Python `dict`: association list in insertion order -/
abbrev Dict (κ ν : Type) := List (κ × ν)

/-- `d[k] = v`: an existing key keeps its position, a new key goes to the end -/
def Dict.set1 (d : Dict κ ν) (k : κ) (v : ν) : Dict κ ν :=
  match d with
  | [] => [(k, v)]
  | p :: rest => if p.1 = k then (k, v) :: rest else p :: Dict.set1 rest k v

/-- `d.update(other)` -/
def Dict.update (d other : Dict κ ν) : Dict κ ν :=
  other.foldl (fun acc p => Dict.set1 acc p.1 p.2) d

/-- `target_db | out_db`: a copy of the target updated with the fresh results; the target itself is not touched (the
function is pure) -/
def mergeOutput (target out : Dict κ ν) : Dict κ ν := Dict.update target out

end

/-! ## The model object: equations by NAME, compiled evaluators by ROW number, re-finalized on every re-ordering -/

section
variable {β : Type}


def Expr.rename (num : Nat → Nat) : Expr β → Expr β
  | .const c => .const c
  | .var r s => .var (num r) s
  | .neg a => .neg (a.rename num)
  | .add a b => .add (a.rename num) (b.rename num)
  | .sub a b => .sub (a.rename num) (b.rename num)
  | .mul a b => .mul (a.rename num) (b.rename num)
  | .div a b => .div (a.rename num) (b.rename num)
  | .fn k a => .fn k (a.rename num)

/-- `Explanatory.finalize(name_to_qid)`: the same equation with every name replaced by its row number -/
def Equation.rename (num : Nat → Nat) (eq : Equation β) : Equation β :=
  { eq with lhs := num eq.lhs, res := num eq.res, rhs := eq.rhs.rename num }

def PlanPoint.rename (num : Nat → Nat) (p : PlanPoint) : PlanPoint := { p with target := p.target.map num }

/-- the data array `tbl'` holds under row `num r` what `tbl` holds under `r` -/
def Agree (num : Nat → Nat) (tbl tbl' : Table β) : Prop := ∀ r c, tbl' (num r) c = tbl r c

def PlanAgree (num : Nat → Nat) (plan plan' : Plan) : Prop :=
  ∀ r c, plan' (num r) c = (plan r c).map (PlanPoint.rename num)

def RelE (num : Nat → Nat) : Except Err (Table β) → Except Err (Table β) → Prop
  | .ok a, .ok b => Agree num a b
  | .error e, .error e' => e = e'
  | _, _ => False


/-- a `Sequential` object: its equations by name in their current order, the name → row numbering in force
(`create_name_to_qid`), and the compiled evaluators, which hold row numbers -/
structure ModelObj (β : Type) where
  source : List (Equation β)
  numbering : Nat → Nat
  compiled : List (Equation β)

/-- `Invariant.finalize_explanatories`: renumber and recompile every evaluator (`numOf` = the numbering irispie derives from
the order of the equations: LHS names in order of first appearance, then the other names, then the residual names) -/
def ModelObj.finalize (numOf : List (Equation β) → Nat → Nat) (src : List (Equation β)) : ModelObj β :=
  { source := src, numbering := numOf src, compiled := src.map (Equation.rename (numOf src)) }

/-- `reorder_equations(perm)`: `new[k] = old[perm[k]]` -/
def reorderList {α : Type} (perm : List Nat) (l : List α) : List α := perm.filterMap (l[·]?)

inductive ObjOp where
  | reorder (perm : List Nat)     -- reorder_equations / the re-ordering sequentialize() performs
  | copy                          -- copy(): a deep copy, same state
  | simulate                      -- a simulation does not change the object

/-- the object after one operation: a re-ordering re-collects the names and re-finalizes -/
def ModelObj.apply (numOf : List (Equation β) → Nat → Nat) (o : ModelObj β) : ObjOp → ModelObj β
  | .reorder perm => ModelObj.finalize numOf (reorderList perm o.source)
  | .copy => o
  | .simulate => o

/-- the order of the equations after a sequence of operations -/
def sourceAfter (ops : List ObjOp) (src : List (Equation β)) : List (Equation β) :=
  ops.foldl (fun l op => match op with | .reorder perm => reorderList perm l | _ => l) src

end

/-! ## Where the parameter rows and the residual rows of the data array come from (`slatable_for_simulate`, Dataslate) -/

section
variable {β : Type}

inductive RowKind where
  | variable | parameter | residual
  deriving DecidableEq, Repr

/-- an option that was not passed takes its default -/
def resolveFlag (given : Option Bool) (default : Bool) : Bool := given.getD default

/-- "fallbacks": data first, the fallback value where the data are missing -/
def fallbackCell (fallback dataValue : V β) : V β := if dataValue.isNan then fallback else dataValue

/-- the cell of the data array before the simulation: variables come from the databox; a parameter comes from the model unless
`parameters_from_data` (then from the databox, the model's value where that is missing); a residual comes from the databox
(0 where missing) if `shocks_from_data`, and is 0 otherwise -/
def initialCell [Carrier β] (kind : RowKind) (parametersFromData shocksFromData : Option Bool)
    (modelValue dataValue : V β) : V β :=
  match kind with
  | .variable => dataValue
  | .parameter =>
    if resolveFlag parametersFromData Explanatory.parametersFromDataDefault then fallbackCell modelValue dataValue
    else modelValue
  | .residual =>
    if resolveFlag shocksFromData Explanatory.shocksFromDataDefault then fallbackCell (.fin (Carrier.ofNat 0)) dataValue
    else .fin (Carrier.ofNat 0)

end

/-! ## Executable carriers -/

instance : Carrier Rat where
  add := (· + ·)
  sub := (· - ·)
  mul := (· * ·)
  neg := (- ·)
  div? := fun x y => if y = 0 then none else some (x / y)
  fn? := fun _ _ => none     -- no transcendental functions over Rat: the driver refuses such models in exact mode
  ofNat := fun n => (n : Rat)

def normF (x : Float) : Option Float := if x.isFinite then some x else none

instance : Carrier Float where
  add := (· + ·)
  sub := (· - ·)
  mul := (· * ·)
  neg := (- ·)
  div? := fun x y => normF (x / y)
  fn? := fun k x => match k with
    | 0 => normF (Float.exp x)
    | 1 => normF (Float.log x)
    | 2 => normF (Float.sqrt x)
    | _ => none
  ofNat := fun n => Float.ofNat n

end IrisVerif.Seq
