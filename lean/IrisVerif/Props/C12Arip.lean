/-
C12 — the arip optimality theorem for aggregation vectors other than "sum"/"mean" (round-6 seeded change r6-3, defect C12-b).

`BridgeC12.aripSolve_is_constrained_minimiser` is stated for an arbitrary `AripIn`, i.e. for **every** aggregation vector
`a.agg` (first / last / custom weights included): the system `Conv.aripSystem a true` assembles has the transposed
constraint rows as multiplier columns (`BridgeC12.aripSystem_ok`), so it is the KKT system of the documented criterion and
its solution is the constrained minimiser. This file shows the hypotheses are met for such vectors (kernel evaluation of
the model) and that the unrepaired 0/1 membership columns give a different system and a different, non-optimal answer
exactly there, while they coincide with the repaired system for "sum".
-/
import IrisVerif.Props.BridgeC12

namespace IrisVerif.C12Arip
open IrisVerif IrisVerif.Conv IrisVerif.BridgeC12 IrisVerif.AripMin

def nones (n : Nat) : List Val := List.replicate n none

/-- two yearly values 0 and 6, two periods per year, `rho = 1`, no drift -/
def exFirst : AripIn := ⟨2, 2, 1, 0, [1, 1, 1, 1], [1, 0], [some 0, some 6], nones 4⟩
def exLast : AripIn := { exFirst with agg := [0, 1] }
def exCustom : AripIn := { exFirst with agg := [1, 3] }
def exSum : AripIn := { exFirst with agg := [1, 1] }

/-- the model solves the repaired system for "first", "last" and custom weights: the hypotheses of
`aripSolve_is_constrained_minimiser` are met by aggregation vectors that are not constant -/
theorem repaired_solutions :
    aripSolve exFirst true = .ok [0, 3, 6, 6] ∧ aripSolve exLast true = .ok [0, 0, 3, 6] ∧
    (aripSolve exCustom true).toOption.isSome = true ∧ exFirst.nHigh = 3 + 1 := by
  decide +kernel

/-- hence, by the bridge theorem, `[0, 3, 6, 6]` meets `x₀ = 0`, `x₂ = 6` and minimises the criterion among all such `x'` -/
example := aripSolve_is_constrained_minimiser exFirst 3 rfl [0, 3, 6, 6] repaired_solutions.1

/-- the unrepaired membership columns: same system as the repaired one for "sum", a different system for "first", whose
solution `(0, 2, 6, 8)` is the non-optimal point of `C12.arip_membership_columns_first_not_minimiser` -/
theorem unrepaired_columns :
    (aripSystem exSum false).map (fun p => (p.1.data, p.2.data)) = (aripSystem exSum true).map (fun p => (p.1.data, p.2.data)) ∧
    (aripSystem exFirst false).map (fun p => p.1.data) ≠ (aripSystem exFirst true).map (fun p => p.1.data) ∧
    aripSolve exFirst false = .ok [0, 2, 6, 8] := by
  decide +kernel

end IrisVerif.C12Arip
