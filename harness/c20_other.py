"""
C20 -- Sequential models: behavioural oracles only (copy / deepcopy / dill; plain pickle of a Sequential raises
PicklingError on its compiled functions, which is counted, not demanded).  RedVAR is not covered (see notes/C20.md).
"""
from __future__ import annotations

import copy as _copy
import pickle

import numpy as np

import irispie as ir

from .common import Ctx


def gen_other_case(rng) -> dict:
    return {"kind": "other", "c0": rng.choice([0.25, 0.5, 0.75]), "c1": rng.randint(-4, 4) / 2.0,
            "c0_new": rng.choice([-0.5, 0.125]), "nv": rng.choice([1, 2, 3]), "via": rng.choice(["copy", "deepcopy", "dill"])}


SRC = r"""
!parameters
    c0, c1
!equations
    x = c0*x[-1] + c1;
    y = x + 0.5*y[-1];
"""


def _sim(m):
    d = ir.Databox()
    t0 = ir.qq(2020, 1)
    d["x"] = ir.Series(start=t0 - 1, values=np.array([1.0]))
    d["y"] = ir.Series(start=t0 - 1, values=np.array([1.0]))
    s = m.simulate(d, t0 >> t0 + 5)
    s = s[0] if isinstance(s, tuple) else s
    return {n: np.ascontiguousarray(s[n].data, dtype=float).tobytes() for n in ("x", "y")}


def _pars(m):
    return repr(sorted((k, v) for k, v in m.get_parameters(unpack_singleton=False).items())) + "|" + str(m.get_description())


def other_case(ctx: Ctx, case: dict):
    from . import c20 as H
    m = ir.Sequential.from_string(SRC)
    m.assign(c0=case["c0"], c1=case["c1"])
    m.alter_num_variants(case["nv"])
    ctx.evaluations += 1
    try:
        pickle.dumps(m)
        ctx.count("sequential_plain_pickle_ok")
    except Exception:
        ctx.count("sequential_plain_pickle_unsupported")
    via = case["via"]
    if via == "copy":
        c = m.copy()
    elif via == "deepcopy":
        c = _copy.deepcopy(m)
    else:
        import dill
        c = dill.loads(dill.dumps(m))
    ctx.count("sequential_" + via)
    if _pars(c) != _pars(m):
        ctx.fail("sequential-copy-not-equivalent", case, f"{via}: parameters/description differ from the source")
    a, b = _sim(m), _sim(c)
    if a != b:
        ctx.fail("sequential-copy-behaves-differently", case, f"{via}: simulation differs from the original's")
    H.walk_oracle(ctx, case, [m, c], [0, 1], f"Sequential {via}")
    before = _pars(m)
    c.assign(c0=case["c0_new"])
    c.set_description("changed")
    c.alter_num_variants(case["nv"] + 1)
    if _pars(m) != before or _sim(m) != a:
        ctx.fail("sequential-mutation-leaks", case, f"{via}: assign/set_description/alter_num_variants on the copy changed the original")
    before_c = _pars(c)
    m.assign(c1=case["c1"] + 1.0)
    if _pars(c) != before_c:
        ctx.fail("sequential-mutation-leaks", case, f"{via}: assign on the original changed the copy")


def other_models_stream(ctx: Ctx, n: int):
    rng = ctx.rng.fork("other")
    for i in range(n):
        other_case(ctx, gen_other_case(rng.fork(i)))
