/-
C03 — Kalman filter, smoother and likelihood equal exact Gaussian conditioning.

Gaussian distributions are represented by their moments: a joint Gaussian of `(x, y)` is a mean pair and a block covariance
`fromBlocks Sxx Sxy Syx Syy`; conditioning on `y` with a (two-sided) inverse `Si` of `Syy` gives
`condMean = μx + Sxy Si (y − μy)`, `condCov = Sxx − Sxy Si Syx` (this is the definition of "exact Gaussian conditioning" the
property refers to; no measure theory is involved).  The filter recursion the theorems are about is
`IrisVerif.KalmanAbs` (Lemmas/Kalman.lean), the Mathlib-matrix transcription of Model/Kalman.lean = fords/kalmans.py.

Proved for all dimensions over any commutative ring / field:
 (a) the prediction step is the push-forward of the moments through the affine map `[T P]`;
 (b) the joint covariance of (state, observed rows) is `((Q₀, Q₀Zᵀ),(ZQ₀, F))`, the update step equals its conditional moments,
     and conditioning on `y₁` then on `y₂` equals conditioning on `(y₁, y₂)` jointly (block inverse through the Schur complement);
 (c) the block-LDLᵀ step of the likelihood: `det Σ = det S₁₁ · det S₂₂.₁` and `dᵀΣ⁻¹d = d₁ᵀS₁₁⁻¹d₁ + e₂ᵀS₂₂.₁⁻¹e₂` with
     `e₂ = d₂ − S₂₁S₁₁⁻¹d₁` the prediction error of the second block; contributions sum to the total; a period without
     observations has `det F = 1`, quadratic form `0`;
 (d) variance rescaling identities.
Kept visible as `_partial` / comments: the induction over periods of (b) and (c) for the stacked system, and
smoother = conditional expectation given all data (see the end of the file and notes/C03.md).
-/
import IrisVerif.Lemmas.Kalman
import Mathlib.Data.Matrix.Block
import Mathlib.Data.Matrix.ColumnRowPartitioned
import Mathlib.LinearAlgebra.Matrix.SchurComplement
import Mathlib.LinearAlgebra.Matrix.NonsingularInverse
import Mathlib.Tactic.Ring
import Mathlib.Tactic.FieldSimp
import Mathlib.Algebra.Order.Field.Rat
import Mathlib.Tactic.NormNum

open Matrix

set_option linter.unusedSectionVars false

namespace IrisVerif.C03
open IrisVerif.KalmanAbs

variable {n q w k m₁ m₂ : Type} [Fintype n] [Fintype q] [Fintype w] [Fintype k] [Fintype m₁] [Fintype m₂]
  [DecidableEq n] [DecidableEq q] [DecidableEq w] [DecidableEq m₁] [DecidableEq m₂]
variable {K : Type} [CommRing K]

/-- conditional mean of `x` given `y` in a joint Gaussian with cross-covariance `Sxy` and `Syy⁻¹ = Si` -/
def condMean {a b : Type} [Fintype b] (μx : Matrix a k K) (Sxy : Matrix a b K) (Si : Matrix b b K) (d : Matrix b k K) :
    Matrix a k K := μx + Sxy * Si * d

/-- conditional covariance -/
def condCov {a b : Type} [Fintype b] (Sxx : Matrix a a K) (Sxy : Matrix a b K) (Si : Matrix b b K) (Syx : Matrix b a K) :
    Matrix a a K := Sxx - Sxy * Si * Syx

/-! ### (a) prediction step = push-forward of the moments -/

/-- covariance of `T ξ + P u` for uncorrelated `ξ ~ Q`, `u ~ Σ`: the block-diagonal covariance pushed through `[T P]` -/
theorem predict_mse_is_pushforward (T : Matrix n n K) (P : Matrix n q K) (Q : Matrix n n K) (S : Matrix q q K) :
    (fromCols T P) * (fromBlocks Q 0 0 S) * (fromCols T P)ᵀ = T * Q * Tᵀ + P * S * Pᵀ := by
  rw [transpose_fromCols, fromCols_mul_fromBlocks, fromCols_mul_fromRows]
  simp

/-- mean of `T ξ + K + P u`: the stacked mean pushed through `[T P]`, plus the constant -/
theorem predict_mean_is_pushforward (T : Matrix n n K) (P : Matrix n q K) (Kc a : Matrix n k K) (u0 : Matrix q k K) :
    (fromCols T P) * (fromRows a u0) + Kc = T * a + Kc + P * u0 := by
  rw [fromCols_mul_fromRows]; abel

variable [Invertible (2 : K)]

/-- the model's prediction step (with its `symmetrize`) is that push-forward, for every period of every run -/
theorem model_predict_is_pushforward {p : ℕ → Type} [∀ t, Fintype (p t)] [∀ t, DecidableEq (p t)]
    (I : Inputs n q w k p K) (hI : I.Regular) (t : ℕ) :
    I.Q0 t = (fromCols I.T I.P) * (fromBlocks (I.state t).2 0 0 (I.Su t)) * (fromCols I.T I.P)ᵀ
    ∧ I.a0 t = (fromCols I.T I.P) * (fromRows (I.state t).1 (I.u0 t)) + I.Kc := by
  rw [predict_mse_is_pushforward, predict_mean_is_pushforward]
  exact ⟨I.Q0_eq hI t, rfl⟩

/-! ### (b) update step = conditional moments; sequential = joint conditioning -/

/-- joint covariance of (state, observed rows) `(ξ, Zξ + Hw)` for uncorrelated `ξ ~ Q₀`, `w ~ Σ_w`:
`((Q₀, Q₀Zᵀ),(ZQ₀, ZQ₀Zᵀ + HΣ_wHᵀ))` -/
theorem joint_cov_state_obs {p : Type} [Fintype p] [DecidableEq p]
    (Z : Matrix p n K) (H : Matrix p w K) (Q0 : Matrix n n K) (Sw : Matrix w w K) :
    fromBlocks 1 0 Z H * fromBlocks Q0 0 0 Sw * (fromBlocks 1 0 Z H)ᵀ
      = fromBlocks Q0 (Q0 * Zᵀ) (Z * Q0) (Z * Q0 * Zᵀ + H * Sw * Hᵀ) := by
  rw [fromBlocks_transpose, fromBlocks_multiply, fromBlocks_multiply]
  simp [Matrix.mul_assoc]

/-- **update = conditioning** for every period of every run and any missing-data pattern: the updated mean and MSE of the
model are the conditional moments of the state given the observed rows in the joint `((Q₀, Q₀Zᵀ),(ZQ₀, F))` with means
`(a₀, y₀)` -/
theorem model_update_is_conditioning {p : ℕ → Type} [∀ t, Fintype (p t)] [∀ t, DecidableEq (p t)]
    (I : Inputs n q w k p K) (hI : I.Regular) (t : ℕ) :
    I.a1 t = condMean (I.a0 t) (I.Q0 t * (I.Z t)ᵀ) (I.Fi t) (I.y t - I.y0 t)
    ∧ I.Q1 t = condCov (I.Q0 t) (I.Q0 t * (I.Z t)ᵀ) (I.Fi t) (I.Z t * I.Q0 t)
    ∧ I.F t = I.Z t * I.Q0 t * (I.Z t)ᵀ + I.H t * I.Sw t * (I.H t)ᵀ := by
  refine ⟨?_, ?_, I.F_eq hI t⟩
  · show I.a0 t + I.Q0 t * ((I.Z t)ᵀ * I.Fi t) * (I.y t - I.y0 t) = _
    unfold condMean
    simp only [Matrix.mul_assoc]
  · rw [I.Q1_eq hI t]
    show I.Q0 t - I.Q0 t * ((I.Z t)ᵀ * I.Fi t) * I.Z t * I.Q0 t = _
    unfold condCov
    simp only [Matrix.mul_assoc]

omit [Invertible (2 : K)]

section schur
variable (S11 : Matrix m₁ m₁ K) (S12 : Matrix m₁ m₂ K) (S21 : Matrix m₂ m₁ K) (S22 : Matrix m₂ m₂ K)
  (S11i : Matrix m₁ m₁ K) (W : Matrix m₂ m₂ K)

/-- inverse of a 2×2 block covariance from `S₁₁⁻¹` and the inverse `W` of the Schur complement `S₂₂ − S₂₁S₁₁⁻¹S₁₂` -/
def blockInv : Matrix (m₁ ⊕ m₂) (m₁ ⊕ m₂) K :=
  fromBlocks (S11i + S11i * S12 * W * S21 * S11i) (-(S11i * S12 * W)) (-(W * S21 * S11i)) W

/-- `blockInv` is a right inverse of the block matrix (hence, for square matrices over a commutative ring, *the* inverse) -/
theorem block_mul_blockInv (h1 : S11 * S11i = 1) (hW : (S22 - S21 * S11i * S12) * W = 1) :
    fromBlocks S11 S12 S21 S22 * blockInv S12 S21 S11i W = 1 := by
  unfold blockInv
  rw [fromBlocks_multiply, ← fromBlocks_one]
  have hW' : S22 * W = 1 + S21 * S11i * S12 * W := by
    rw [← hW]; simp only [Matrix.sub_mul]; abel
  have a1 : S11 * (S11i * S12 * W) = S12 * W := by
    rw [← Matrix.mul_assoc, ← Matrix.mul_assoc, h1, Matrix.one_mul]
  congr 1
  · rw [Matrix.mul_add, h1]
    have : S11 * (S11i * S12 * W * S21 * S11i) = S12 * W * S21 * S11i := by
      simp only [← Matrix.mul_assoc, h1, Matrix.one_mul]
    rw [this]; simp only [Matrix.mul_neg, Matrix.mul_assoc]; abel
  · rw [Matrix.mul_neg, a1]; abel
  · have : S22 * -(W * S21 * S11i) = -(S21 * S11i) - S21 * S11i * S12 * W * S21 * S11i := by
      rw [Matrix.mul_neg, ← Matrix.mul_assoc, ← Matrix.mul_assoc, hW']
      simp only [Matrix.add_mul, Matrix.one_mul, Matrix.mul_assoc]; abel
    rw [this]; simp only [Matrix.mul_add, Matrix.mul_assoc]; abel
  · rw [hW']; simp only [Matrix.mul_neg, Matrix.mul_assoc]; abel

/-- any right inverse of the block covariance is `blockInv` (so "conditioning jointly" does not depend on how the inverse of the
stacked covariance is obtained) -/
theorem right_inverse_eq_blockInv (h1 : S11 * S11i = 1) (hW : (S22 - S21 * S11i * S12) * W = 1)
    (Si : Matrix (m₁ ⊕ m₂) (m₁ ⊕ m₂) K) (hSi : fromBlocks S11 S12 S21 S22 * Si = 1) :
    Si = blockInv S12 S21 S11i W := by
  have hB := block_mul_blockInv S11 S12 S21 S22 S11i W h1 hW
  have hSi' : Si * fromBlocks S11 S12 S21 S22 = 1 := mul_eq_one_comm.mp hSi
  calc Si = Si * (fromBlocks S11 S12 S21 S22 * blockInv S12 S21 S11i W) := by rw [hB, Matrix.mul_one]
    _ = blockInv S12 S21 S11i W := by rw [← Matrix.mul_assoc, hSi', Matrix.one_mul]

variable {a : Type} [Fintype a] [DecidableEq a]
  (μx : Matrix a k K) (Sxx : Matrix a a K) (Sx1 : Matrix a m₁ K) (Sx2 : Matrix a m₂ K) (d1 : Matrix m₁ k K) (d2 : Matrix m₂ k K)

/-- **sequential = joint conditioning (means)**: conditioning `x` on `y₁` and then — inside the conditional distribution, with
cross-covariance `Sx2 − Sx1 S₁₁⁻¹ S₁₂`, innovation `d₂ − S₂₁S₁₁⁻¹d₁` and the inverse `W` of `S₂₂ − S₂₁S₁₁⁻¹S₁₂` — on `y₂`
gives the mean of conditioning on the stacked `(y₁, y₂)` with the inverse of the stacked covariance -/
theorem sequential_eq_joint_mean :
    condMean (condMean μx Sx1 S11i d1) (Sx2 - Sx1 * S11i * S12) W (d2 - S21 * S11i * d1)
      = condMean μx (fromCols Sx1 Sx2) (blockInv S12 S21 S11i W) (fromRows d1 d2) := by
  unfold condMean blockInv
  rw [fromCols_mul_fromBlocks, fromCols_mul_fromRows]
  simp only [Matrix.mul_add, Matrix.mul_sub, Matrix.add_mul, Matrix.sub_mul, Matrix.mul_neg, Matrix.neg_mul, Matrix.mul_assoc]
  abel

/-- **sequential = joint conditioning (covariances)** -/
theorem sequential_eq_joint_cov (S1x : Matrix m₁ a K) (S2x : Matrix m₂ a K) :
    condCov (condCov Sxx Sx1 S11i S1x) (Sx2 - Sx1 * S11i * S12) W (S2x - S21 * S11i * S1x)
      = condCov Sxx (fromCols Sx1 Sx2) (blockInv S12 S21 S11i W) (fromRows S1x S2x) := by
  unfold condCov blockInv
  rw [fromCols_mul_fromBlocks, fromCols_mul_fromRows]
  simp only [Matrix.mul_add, Matrix.mul_sub, Matrix.add_mul, Matrix.sub_mul, Matrix.mul_neg, Matrix.neg_mul, Matrix.mul_assoc]
  abel

/-! ### (c) likelihood: block LDLᵀ step -/

/-- quadratic form `dᵀ Σ⁻¹ d` of the stacked vector = quadratic form of the first block + quadratic form of the prediction error
of the second block given the first (symmetric case `S₂₁ = S₁₂ᵀ`, `S₁₁⁻¹` symmetric) -/
theorem quadform_block (hS : S21 = S12ᵀ) (h1s : S11iᵀ = S11i) :
    (fromRows d1 d2)ᵀ * blockInv S12 S21 S11i W * fromRows d1 d2
      = d1ᵀ * S11i * d1 + (d2 - S21 * S11i * d1)ᵀ * W * (d2 - S21 * S11i * d1) := by
  unfold blockInv
  rw [transpose_fromRows, fromCols_mul_fromBlocks, fromCols_mul_fromRows, hS]
  simp only [Matrix.transpose_sub, Matrix.transpose_mul, Matrix.transpose_transpose, h1s,
    Matrix.mul_add, Matrix.mul_sub, Matrix.add_mul, Matrix.sub_mul, Matrix.mul_neg, Matrix.neg_mul, Matrix.mul_assoc]
  abel

/-- determinant of the stacked covariance = `det S₁₁ · det (S₂₂ − S₂₁ S₁₁⁻¹ S₁₂)`: with `log`, the log-determinants of the
per-period prediction-error covariances add up to the log-determinant of the stacked covariance -/
theorem det_block [Invertible S11] :
    (fromBlocks S11 S12 S21 S22).det = S11.det * (S22 - S21 * ⅟S11 * S12).det :=
  det_fromBlocks₁₁ S11 S12 S21 S22

end schur

/-- a period without observations: `F` is the empty matrix, its determinant is 1 (log-determinant 0) -/
theorem det_empty_period {e : Type} [Fintype e] [DecidableEq e] [IsEmpty e] (F : Matrix e e K) : F.det = 1 :=
  det_isEmpty

/-- a period without observations: the quadratic form `peᵀ Fi pe` is 0 -/
theorem quadform_empty_period {e : Type} [Fintype e] [IsEmpty e] (pe : Matrix e k K) (Fi : Matrix e e K) :
    peᵀ * Fi * pe = 0 := by
  ext i j
  simp [Matrix.mul_apply]

section scalars
variable {F : Type} [Field F]

/-- **contributions sum to the total** (as computed by `calculate_likelihood` / `calculate_likelihood_contributions`, including
the variance scale): with per-period `ld_t = log det F_t`, `q_t = peᵀFi pe`, `n_t` observations, `c = log 2π`, `ls = log var_scale`,
`Σ_t (ld_t + n_t·ls + q_t/vs + n_t·c)/2 = (N·c + (Σ ld_t + N·ls) + (Σ q_t)/vs)/2`, `N = Σ n_t`, for every list of periods -/
theorem contributions_sum_to_total (two_ne : (2 : F) ≠ 0) (c ls vs : F) (per : List (F × F × F)) :
    (per.map (fun x => (x.1 + x.2.2 * ls + x.2.1 / vs + x.2.2 * c) / 2)).sum
      = ((per.map (·.2.2)).sum * c + ((per.map (·.1)).sum + (per.map (·.2.2)).sum * ls) + (per.map (·.2.1)).sum / vs) / 2 := by
  induction per with
  | nil => simp
  | cons x xs ih =>
    simp only [List.map_cons, List.sum_cons, ih]
    field_simp
    ring

/-- a period without observations contributes exactly nothing: `ld = log 1 = 0`, `q = 0`, `n = 0` -/
theorem empty_period_contributes_zero (c ls vs : F) : ((0 : F) + 0 * ls + 0 / vs + 0 * c) / 2 = 0 := by simp

/-- **variance rescaling** (`_calculate_variance_scale`): with `vs = q/N` the rescaled quadratic term equals `N` … -/
theorem rescaled_quadform (q N : F) (hq : q ≠ 0) : q / (q / N) = N := by
  rw [div_div_eq_mul_div, mul_comm, mul_div_assoc, div_self hq, mul_one]

/-- … and `vs = q/N` is the stationary point of the concentrated criterion `N·log s + q/s` (its derivative `N/s − q/s²` vanishes) -/
theorem rescale_first_order_condition (q N : F) (hq : q ≠ 0) (_hN : N ≠ 0) : N / (q / N) - q / (q / N) ^ 2 = 0 := by
  field_simp
  ring

end scalars

/-- scaling all covariances by `s` scales `F` by `s`: `det (s•F) = s^{n_t} det F` (so `log det` gains `n_t · log s`) and the
inverse becomes `s⁻¹ • Fi`, which divides the quadratic form by `s` — the two terms `_calculate_variance_scale` applies -/
theorem det_scaled {e : Type} [Fintype e] [DecidableEq e] (F : Matrix e e K) (s : K) :
    (s • F).det = s ^ Fintype.card e * F.det := det_smul F s

theorem inverse_scaled {e : Type} [Fintype e] [DecidableEq e] (F Fi : Matrix e e K) (s si : K) (hs : s * si = 1)
    (h : F * Fi = 1) : (s • F) * (si • Fi) = 1 := by
  rw [Matrix.smul_mul, Matrix.mul_smul, smul_smul, h, hs, one_smul]

/-! ### multi-period statements

Full statements (targets), of which the theorems above are the induction steps:

* `filter_is_conditioning` — for every `t`, `(I.a1 t, I.Q1 t)` are the conditional moments of `ξ_t` given the stacked observed rows
  of periods `0..t` in the joint Gaussian of the stacked system, and `(I.a0 t, I.Q0 t)` those given periods `0..t-1`.
  Induction step = `model_predict_is_pushforward` (the conditional law of `ξ_t` given the past is the push-forward of that of
  `ξ_{t-1}`, shocks being uncorrelated with the past) + `joint_cov_state_obs` + `model_update_is_conditioning` +
  `sequential_eq_joint_mean/cov` with `y₁` = periods `0..t-1`, `y₂` = period `t` (+ `right_inverse_eq_blockInv`).
  What is missing is the formal object "joint covariance of the stacked system" for a variable number of periods with
  period-dependent row types (an iterated `⊕` of index types) and the bookkeeping that the cross-covariances of `ξ_t` with the
  past observations propagate by `T`; the two-period instance is `two_period_filter_is_conditioning_partial` below.
* `likelihood_is_stacked_density` — `Σ_t (log det F_t + pe_tᵀ Fi_t pe_t) = log det Σ_Y + (Y−μ)ᵀ Σ_Y⁻¹ (Y−μ)`.
  Induction step = `det_block` + `quadform_block` with the same split; same missing object.
* `smoother_is_conditioning` — `I.a2 N t` is the conditional mean of `ξ_t` given all observed rows of periods `0..N-1`
  (de Jong's backward recursion).  Not proved; what is proved about the smoother are the identities of Props/C08.lean.
-/

variable [Invertible (2 : K)]

/-- two-period instance of `filter_is_conditioning`: the model's updated mean of period 1 is the conditional mean of `ξ₁` given
the observed rows of periods 0 and 1 *jointly*, whenever the joint second moments of `(ξ₁, y₀, y₁)` given to the lemma are the
push-forward ones: cross-covariance of `ξ₁` with `y₀` is `Sx0`, with `y₁` is `Sx1`, `cov(y₁,y₀) = S10`, and the one-step
quantities of the model are the conditional ones given `y₀` (hypotheses `hmean`, `hcross`, `hF`, `hpe`), which is what
`model_predict_is_pushforward` and `model_update_is_conditioning` deliver for period 0. -/
theorem two_period_filter_is_conditioning_partial {p : ℕ → Type} [∀ t, Fintype (p t)] [∀ t, DecidableEq (p t)]
    (I : Inputs n q w k p K) (hI : I.Regular)
    (μ1 : Matrix n k K) (Sx0 : Matrix n (p 0) K) (Sx1 : Matrix n (p 1) K) (S01 : Matrix (p 0) (p 1) K) (S10 : Matrix (p 1) (p 0) K)
    (S00i : Matrix (p 0) (p 0) K) (d0 : Matrix (p 0) k K) (d1 : Matrix (p 1) k K)
    (hmean : I.a0 1 = condMean μ1 Sx0 S00i d0)
    (hcross : I.Q0 1 * (I.Z 1)ᵀ = Sx1 - Sx0 * S00i * S01)
    (hpe : I.y 1 - I.y0 1 = d1 - S10 * S00i * d0) :
    I.a1 1 = condMean μ1 (fromCols Sx0 Sx1) (blockInv S01 S10 S00i (I.Fi 1)) (fromRows d0 d1) := by
  rw [(model_update_is_conditioning I hI 1).1, hmean, hcross, hpe]
  exact sequential_eq_joint_mean S01 S10 S00i (I.Fi 1) μ1 Sx0 Sx1 d0 d1

/-! ### fixed unknown initial condition (`estimate_unknown_init`, `correct_for_unknown_init`)

The code runs the filter from the initial mean with the unit-root block at zero, records `Xi_t` (`all_Xi`: `Xi_0 = T Xi_init`,
`Xi_t = (T − T G_{t-1} Z_{t-1}) Xi_{t-1}`), estimates `δ` by GLS and then corrects the cache: `a0_t += Xi_t δ`, `y0_t += Z_t Xi_t δ`,
`pe_t −= Z_t Xi_t δ`.  The theorem says that this correction, applied in EVERY period `t` (also after the last observation, and
whether or not the prediction step is stored), yields exactly the cache of the filter run from the shifted initial mean
`aInit + x` (`x = Xi_init δ`), with unchanged MSEs and gains.  Hence every theorem about `Inputs` (conditioning above, the
smoother identities of Props/C08.lean) applies to the corrected run. -/

/-- the run from the shifted initial mean -/
def shiftInit {p : ℕ → Type} (I : Inputs n q w k p K) (x : Matrix n k K) : Inputs n q w k p K :=
  { I with aInit := I.aInit + x }

/-- shift of the state handed to period `t` -/
def shiftPath {p : ℕ → Type} [∀ t, Fintype (p t)] [∀ t, DecidableEq (p t)] (I : Inputs n q w k p K) (x : Matrix n k K) :
    ℕ → Matrix n k K
  | 0 => x
  | t + 1 => I.T * shiftPath I x t - I.G t * (I.Z t * (I.T * shiftPath I x t))

/-- `all_Xi[t] @ delta` of the code, as a recursion on the impact on `a0_t` -/
def xiPath {p : ℕ → Type} [∀ t, Fintype (p t)] [∀ t, DecidableEq (p t)] (I : Inputs n q w k p K) (x : Matrix n k K) :
    ℕ → Matrix n k K
  | 0 => I.T * x
  | t + 1 => (I.T - I.T * I.G t * I.Z t) * xiPath I x t

section unknownInit
variable {p : ℕ → Type} [∀ t, Fintype (p t)] [∀ t, DecidableEq (p t)] (I : Inputs n q w k p K) (x : Matrix n k K)

theorem xiPath_eq (t : ℕ) : xiPath I x t = I.T * shiftPath I x t := by
  induction t with
  | zero => rfl
  | succ t ih =>
    show (I.T - I.T * I.G t * I.Z t) * xiPath I x t = I.T * (I.T * shiftPath I x t - I.G t * (I.Z t * (I.T * shiftPath I x t)))
    rw [ih]
    simp only [Matrix.sub_mul, Matrix.mul_sub, Matrix.mul_assoc]

theorem shift_state (t : ℕ) :
    ((shiftInit I x).state t).2 = (I.state t).2 ∧ ((shiftInit I x).state t).1 = (I.state t).1 + shiftPath I x t := by
  induction t with
  | zero => exact ⟨rfl, rfl⟩
  | succ t ih =>
    constructor
    · show I.Q1f t ((shiftInit I x).state t).2 = I.Q1f t (I.state t).2
      rw [ih.1]
    · show I.a0f t ((shiftInit I x).state t).1 + I.Gf t ((shiftInit I x).state t).2 * I.pef t ((shiftInit I x).state t).1
          = I.a0f t (I.state t).1 + I.Gf t (I.state t).2 * I.pef t (I.state t).1
            + (I.T * shiftPath I x t - I.G t * (I.Z t * (I.T * shiftPath I x t)))
      rw [ih.1, ih.2]
      show I.T * ((I.state t).1 + shiftPath I x t) + I.Kc + I.P * I.u0 t
          + I.Gf t (I.state t).2 * (I.y t - (I.Z t * (I.T * ((I.state t).1 + shiftPath I x t) + I.Kc + I.P * I.u0 t) + I.D t + I.H t * I.w0 t))
        = I.T * (I.state t).1 + I.Kc + I.P * I.u0 t
          + I.Gf t (I.state t).2 * (I.y t - (I.Z t * (I.T * (I.state t).1 + I.Kc + I.P * I.u0 t) + I.D t + I.H t * I.w0 t))
          + (I.T * shiftPath I x t - I.Gf t (I.state t).2 * (I.Z t * (I.T * shiftPath I x t)))
      simp only [Matrix.mul_add, Matrix.mul_sub, Matrix.add_mul]
      abel

/-- **`correct_for_unknown_init` = the run from the shifted initial mean**, for every period `t` (no restriction to the periods
up to the last observation), any missing-data pattern: same `Q0 Q1 F G`; `a0_t + Xi_t δ`, `y0_t + Z_t Xi_t δ`, `pe_t − Z_t Xi_t δ`. -/
theorem unknown_init_correction_is_shifted_run (t : ℕ) :
    (shiftInit I x).Q0 t = I.Q0 t ∧ (shiftInit I x).Q1 t = I.Q1 t ∧ (shiftInit I x).G t = I.G t
    ∧ (shiftInit I x).a0 t = I.a0 t + xiPath I x t
    ∧ (shiftInit I x).y0 t = I.y0 t + I.Z t * xiPath I x t
    ∧ (shiftInit I x).pe t = I.pe t - I.Z t * xiPath I x t := by
  have h := shift_state I x t
  have ha0 : (shiftInit I x).a0 t = I.a0 t + xiPath I x t := by
    show I.T * ((shiftInit I x).state t).1 + I.Kc + I.P * I.u0 t = I.T * (I.state t).1 + I.Kc + I.P * I.u0 t + xiPath I x t
    rw [h.2, xiPath_eq, Matrix.mul_add]; abel
  have hy0 : (shiftInit I x).y0 t = I.y0 t + I.Z t * xiPath I x t := by
    show I.Z t * (shiftInit I x).a0 t + I.D t + I.H t * I.w0 t = I.Z t * I.a0 t + I.D t + I.H t * I.w0 t + I.Z t * xiPath I x t
    rw [ha0, Matrix.mul_add]; abel
  refine ⟨?_, (shift_state I x (t + 1)).1, ?_, ha0, hy0, ?_⟩
  · show I.Q0f t ((shiftInit I x).state t).2 = I.Q0f t (I.state t).2
    rw [h.1]
  · show I.Gf t ((shiftInit I x).state t).2 = I.Gf t (I.state t).2
    rw [h.1]
  · show I.y t - (shiftInit I x).y0 t = I.y t - I.y0 t - I.Z t * xiPath I x t
    rw [hy0]; abel

end unknownInit

/-! ### non-vacuity -/

/-- the hypotheses of the Schur lemmas are met by a concrete 1+1 block covariance `((2,1),(1,1))` over ℚ -/
example : (fromBlocks ((2 : ℚ) • (1 : Matrix (Fin 1) (Fin 1) ℚ)) (1 : Matrix (Fin 1) (Fin 1) ℚ) (1 : Matrix (Fin 1) (Fin 1) ℚ)
      (1 : Matrix (Fin 1) (Fin 1) ℚ))
    * blockInv (1 : Matrix (Fin 1) (Fin 1) ℚ) (1 : Matrix (Fin 1) (Fin 1) ℚ) ((1/2 : ℚ) • 1) ((2 : ℚ) • 1) = 1 := by
  apply block_mul_blockInv
  · ext i j
    have : i = j := Subsingleton.elim i j
    subst this; simp
  · ext i j
    have : i = j := Subsingleton.elim i j
    subst this; simp; norm_num

end IrisVerif.C03
