"""
C02 -- Jacobians from algorithmic differentiation equal the true derivatives.

Correspondence (tie C): the Lean model (IrisVerif/Model/Expr.lean over the *generated* rules of
Generated/AtomGen.lean, driver C02) against irispie on the same inputs:
  * random expression trees through `aldi.differentiators.Context.eval_to_arrays` with the system / flat-steady /
    non-flat-steady atom factories -- class D (exact rationals) for polynomial trees on dyadic data, class T
    (Float model with the same operation order, 1e-9 relative) for the rest, error kind (TypeError = rejected) exact;
  * the scatter maps of `SystemMap` (A B D F G J), the transition vector, the dynamic-identity rows, the
    rhs offsets and the stacked-time map of random small models -- class E (exact).
Oracle (independent, from the property statement): Richardson-extrapolated central finite differences of
`equators.plain.PlainEquator.eval` (trees, `systemize()`), of `*SteadyEvaluator.eval_func` and of the stacked-time
`eval_func`, compared entry by entry (so row/column placement is part of the comparison) with the analytic Jacobians.
"""
from __future__ import annotations
import ast, contextlib, copy, glob, io, json, math, os, fractions

import numpy as np

from .common import Ctx, VERIF, rat_of_float, float_bits

DRIVERS = ["C02"]
LEVEL = "proof"
MANIFEST = {
    "category": "proof",
    "text": ("Lean 4 theorems over the reals (Mathlib HasDerivAt) about an executable model of irispie's forward-mode differentiator: "
             "every rule of aldi.differentiators.Atom (regenerated from the Python AST on every run: diff with the log-variable chain rule, "
             "neg add sub mul truediv rtruediv pow _power _exponential rsub log exp sqrt logistic maximum) is sound under the domain guard the "
             "mathematics needs, and by induction on the expression tree the operator-overloading walk returns (value, partial derivative) "
             "for every tree, every log-status assignment, every seed direction and every admissible point (d/d log x for log-variables), "
             "unconditionally for the rules as generated now (sqrtFormula_holds, maxFloorFormula_holds: a regression of a rule breaks the build); "
             "admissible = the guards of the calculus AND of numpy's domain (non-zero divisors also for constant divisors, positive log/sqrt "
             "arguments, negative base only with an integer exponent), so that the real-number model means what the code computes. Rejection "
             "clause, over the generated methods/aliases tables: every operator and function shape either reaches a generated rule whose "
             "derivative is proved or has no method at all (binop/call1/call2_rejected_iff: exactly number**Atom, abs/normal_cdf/normal_pdf of "
             "an Atom, minimum of an Atom, (number, Atom) arguments; *_never_unmodelled; adEval_error_is_typeError for whole trees). "
             "Placement, proved on the executable map definitions for "
             "every system of equations, token set and number of periods: rhs offsets; ArrayMap.static characterised entry by entry (row of the "
             "equation, column of exactly that occurrence, nothing dropped) and no two entries address the same cell; A-or-B exactly once by the "
             "lagged-vector rule; the transition vector holds exactly the shifts min+1..max of every variable, each exactly once, sorted leads "
             "first; measurement occurrences at any lag have a G column; dynamic-identity rows say xi_t[(q,s)] = xi_(t-1)[(q,s+1)], one per "
             "token with a lead in the vector, numbered without gaps; the stacked-time map characterised, lhs_row = eqn + n*column a bijection "
             "between (equation, period) and rows, no two entries address the same cell; the terminal spots' running index is k*nq+p and "
             "terminate_jacobian's row selection picks row p of block k of [T; T^2; ...]; create_terminal_jacobian_map pairs matching spots. "
             "System level, end to end: the matrix assembled from a static map and the stacked AD output has, in the row of equation i and the "
             "column of its wrt-token, exactly the partial derivative of that equation's residual (systemize_entry_sound, generic in the column "
             "list: A D F G J and B; composed down to the model's own systemAB for A in systemAB_A_entry_sound, hypotheses on inputs only: "
             "duplicate-free wrt-lists, admissible point), zero in every other cell, and triplet (sparse, duplicates add up) assembly equals dense assignment because no cell is "
             "addressed twice; the loop over parameter variants is a map with variant locality (output k depends on input variant k only); the "
             "evaluator object is a state machine whose every observation, for every call history, is the pure function of the guess passed with "
             "that call (also with a by-value memo under its invariant); terminate_jacobian in matrix form (Jacobian of x -> G(x, Phi x) = "
             "plain Jacobian + terminal block composed with Phi, Frechet chain rule). "
             "User context functions: the two-sided difference quotient composed with the chain rule is proved exact for polynomials of degree "
             "<= 2 (one argument, the two-argument total derivative for bilinear-quadratic functions, and by induction over the argument list any number of "
             "arguments for separable quadratics; for an arbitrary Frechet-differentiable n-ary user function the walk is sound exactly when every "
             "two-sided quotient equals the corresponding partial derivative, userCallFin_sound_of_exact) and off by exactly eps^2*d for the "
             "cubic (with the code's step: max(|v|,1)^2*1e-12*|d|). Partial: the model is tied to the code by the translator for the rules and by "
             "exact differential correspondence for the walk, seeds, maps and terminal bookkeeping; IEEE rounding, argument aliasing in the "
             "finite differentiator, function caching, the sparse assembly and the numerical terminal-condition matrices are covered only by the "
             "finite-difference oracle on the real code (systemize, steady, stacked-time evaluators, public simulate(method='stacked_time'))."),
    "design": "7/C02",
    "note": "proof, partial: generated rules re-proved each run; walk/seeds/maps/terminal bookkeeping by exact correspondence; Jacobians of random models vs finite differences",
    "technique": "Lean 4 proof (Mathlib HasDerivAt) over translator-regenerated AD rules + differential correspondence + finite-difference oracle",
}
ASSUMPTIONS = [
    "numpy evaluates the derivative array elementwise: one seed direction at a time is modelled",
    "Python's own `ast` parse of an equation's xtring is the tree handed to the model (operator precedence is not re-modelled)",
    "finite differences (Richardson, two step sizes, self-estimated error) are the reference derivative of the oracle; cases whose estimate is unreliable are skipped and counted",
    "x**y with a non-literal exponent is taken to be admissible only for a positive base (at a negative base the code returns NaN derivatives)",
]

FN1 = ("log", "exp", "sqrt", "abs", "logistic", "normal_cdf", "normal_pdf")
FN2 = ("maximum", "minimum")
BIN = {"add": "+", "sub": "-", "mul": "*", "div": "/", "pow": "^"}
AST_BIN = {ast.Add: "add", ast.Sub: "sub", ast.Mult: "mul", ast.Div: "div", ast.Pow: "pow"}


# ---------------------------------------------------------------------------------------
# trees: ('c', float) ('t', q, s) ('neg', e) ('pos', e) (binop, a, b) (fn1, a) (fn2, a, b)
# ---------------------------------------------------------------------------------------

# user-supplied context functions (differentiated by aldi/finite_differentiators.py); total and smooth on all reals,
# written with numpy so that they also take arrays (stacked-time evaluation hands them one array over all columns)
def softplus(x, a):
    return np.log(1 + np.exp(a * x)) / a


def mix(u, v, w):
    return w * u * u + (1 - w) * np.sin(v)


def hyp(u, v):
    return np.sqrt(1 + u * u + v * v)


USER_FUNCS = {"softplus": softplus, "mix": mix, "hyp": hyp}


# the same NAMES bound to different callables (a user who edits a function and re-creates the model in the same session)
def _softplus_b(x, a):
    return np.tanh(a * x) + 0.1 * x


def _mix_b(u, v, w):
    return w * u + 0.5 * (1 - w) * v * v


def _hyp_b(u, v):
    return 0.5 * np.cos(u) + 0.25 * v


USER_BINDINGS = {"A": USER_FUNCS, "B": {"softplus": _softplus_b, "mix": _mix_b, "hyp": _hyp_b}}
USER_ARITY = {"softplus": 2, "mix": 3, "hyp": 2}


def uses_user(tree) -> bool:
    return tree[0] in USER_FUNCS or (tree[0] not in ("c", "t") and any(uses_user(c) for c in tree[1:]))


def fmt_const(c: float) -> str:
    s = repr(float(c))
    if "e" in s or "inf" in s or "nan" in s:
        s = format(fractions.Fraction(c).numerator) + "/" + format(fractions.Fraction(c).denominator)
        return "(" + s + ")"
    return s if c >= 0 else "(" + s + ")"


def render(tree, names, lb="[", rb="]") -> str:
    k = tree[0]
    if k == "c":
        return fmt_const(tree[1])
    if k == "t":
        return names[tree[1]] + (f"{lb}{tree[2]:+d}{rb}" if tree[2] else "")
    if k == "neg":
        return "(-" + render(tree[1], names, lb, rb) + ")"
    if k == "pos":
        return "(+" + render(tree[1], names, lb, rb) + ")"
    if k in BIN:
        return "(" + render(tree[1], names, lb, rb) + BIN[k] + render(tree[2], names, lb, rb) + ")"
    if k in FN1:
        return k + "(" + render(tree[1], names, lb, rb) + ")"
    if k in FN2:
        return k + "(" + render(tree[1], names, lb, rb) + "," + render(tree[2], names, lb, rb) + ")"
    if k in USER_FUNCS:
        return k + "(" + ",".join(render(c, names, lb, rb) for c in tree[1:]) + ")"
    raise ValueError(k)


def tree_of_xtring(xtring: str):
    """the tree Python itself evaluates: parse the xtring with `ast`; x[(q, t+s)] / x[e][(q, t+s)] are tokens"""
    def tok(sub):
        idx = sub.slice
        q, tt = idx.elts
        if isinstance(tt, ast.Name):
            s = 0
        else:
            s = tt.right.value if isinstance(tt.op, ast.Add) else -tt.right.value
        return ("t", int(q.value), int(s))

    def go(n):
        if isinstance(n, ast.Constant):
            return ("c", float(n.value))
        if isinstance(n, ast.Subscript):
            return tok(n)
        if isinstance(n, ast.UnaryOp):
            return ("neg" if isinstance(n.op, ast.USub) else "pos", go(n.operand))
        if isinstance(n, ast.BinOp):
            return (AST_BIN[type(n.op)], go(n.left), go(n.right))
        if isinstance(n, ast.Call):
            name = n.func.id
            args = [go(a) for a in n.args]
            return (name, *args)
        raise ValueError(ast.dump(n)[:80])
    return go(ast.parse(xtring, mode="eval").body)


def tokens_of(tree, acc=None):
    acc = set() if acc is None else acc
    if tree[0] == "t":
        acc.add((tree[1], tree[2]))
    elif tree[0] != "c":
        for ch in tree[1:]:
            tokens_of(ch, acc)
    return acc


def prefix(tree, enc) -> list[str]:
    k = tree[0]
    if k == "c":
        return ["c", enc(tree[1])]
    if k == "t":
        return ["t", str(tree[1]), str(tree[2])]
    out = [k]
    for ch in tree[1:]:
        out += prefix(ch, enc)
    return out


def plain(tree, env, funcs=None):
    """the harness's own float evaluation of a tree: conditioning guards of the generators, and the reference residual of the
    context-rebinding oracles (user functions taken from `funcs`, the INTENDED binding)"""
    funcs = USER_FUNCS if funcs is None else funcs
    if funcs is not USER_FUNCS:
        return _plain_with(tree, env, funcs)
    k = tree[0]
    if k == "c": return tree[1]
    if k == "t": return env[(tree[1], tree[2])]
    if k in USER_FUNCS:
        return float(USER_FUNCS[k](*[plain(c, env) for c in tree[1:]]))
    a = plain(tree[1], env)
    if k == "neg": return -a
    if k == "pos": return a
    if k == "log": return math.log(a)
    if k == "exp": return math.exp(a)
    if k == "sqrt": return math.sqrt(a)
    if k == "abs": return abs(a)
    if k == "logistic": return 1 / (1 + math.exp(-a))
    if k in ("normal_cdf", "normal_pdf"): return 0.5
    b = plain(tree[2], env)
    if k == "add": return a + b
    if k == "sub": return a - b
    if k == "mul": return a * b
    if k == "div": return a / b
    if k == "pow": return a ** b
    if k == "maximum": return max(a, b)
    if k == "minimum": return min(a, b)
    raise ValueError(k)


def _plain_with(tree, env, funcs):
    """`plain` with another binding of the user function names"""
    def sub(t):
        if t[0] in ("c", "t"):
            return t
        if t[0] in funcs:
            return ("c", float(funcs[t[0]](*[plain(sub(c), env) for c in t[1:]])))
        return (t[0],) + tuple(sub(c) for c in t[1:])
    return plain(sub(tree), env)


def has_token(tree) -> bool:
    return bool(tokens_of(tree))


# ---------------------------------------------------------------------------------------
# generators
# ---------------------------------------------------------------------------------------

SHIFTS = (-1, 0, 1)


def gen_poly(rng, depth, nq):
    """+ - * unary, ** small literal, / power of two, dyadic constants: exact in IEEE double under `poly_bounds`"""
    if depth == 0 or rng.chance(0.15):
        if rng.chance(0.75):
            return ("t", rng.randint(0, nq - 1), rng.choice(SHIFTS))
        return ("c", rng.dyadic(-3, 3, 2))
    k = rng.weighted([("add", 3), ("sub", 3), ("mul", 4), ("neg", 1), ("pos", 0.4), ("powk", 1.5), ("div2", 1)])
    if k in ("neg", "pos"):
        return (k, gen_poly(rng, depth - 1, nq))
    if k == "powk":
        return ("pow", gen_poly(rng, depth - 1, nq), ("c", float(rng.randint(1, 3))))
    if k == "div2":
        return ("div", gen_poly(rng, depth - 1, nq), ("c", float(rng.choice([2, 4, 0.5, -2]))))
    return (k, gen_poly(rng, depth - 1, nq), gen_poly(rng, depth - 1, nq))


def poly_bounds(tree, logly):
    """((N, f) of the value, (N, f) of any derivative): value = k / 2**f with |k| <= N; None when not tracked"""
    def add(x, y):
        f = max(x[1], y[1])
        return (x[0] * 2 ** (f - x[1]) + y[0] * 2 ** (f - y[1]), f)
    def mul(x, y):
        return (x[0] * y[0], x[1] + y[1])
    k = tree[0]
    if k == "c":
        fr = fractions.Fraction(tree[1])
        f = fr.denominator.bit_length() - 1
        return (abs(fr.numerator), f), (0, 0)
    if k == "t":
        v = (16, 2)
        return v, (v if logly[tree[1]] else (1, 0))
    if k in ("neg", "pos"):
        return poly_bounds(tree[1], logly)
    va, da = poly_bounds(tree[1], logly)
    vb, db = poly_bounds(tree[2], logly)
    if k in ("add", "sub"):
        return add(va, vb), add(da, db)
    if k == "mul":
        return mul(va, vb), add(mul(da, vb), mul(va, db))
    if k == "div":
        fr = fractions.Fraction(tree[2][1])
        inv = (abs(fr.denominator), abs(fr.numerator).bit_length() - 1)
        return mul(va, inv), mul(da, inv)
    if k == "pow":
        n = int(tree[2][1])
        v, p = (1, 0), (1, 0)
        for i in range(n):
            p = v            # v**(n-1)
            v = mul(v, va)
        return v, mul(mul((n, 0), p), da)
    raise ValueError(k)


def bounds_ok(tree, logly) -> bool:
    def walk(t):
        if t[0] in ("c", "t"):
            return True
        v, d = poly_bounds(t, logly)
        if v[0] >= 2 ** 50 or d[0] >= 2 ** 50:
            return False
        return all(walk(ch) for ch in t[1:])
    return walk(tree)


SMOOTH_FN = ("log", "exp", "sqrt", "logistic")
REJECTED_FN = ("abs", "normal_cdf", "normal_pdf")


def gen_general(rng, depth, nq, env, avoid=(), p_rej=0.0):
    """all operators and functions; every node is checked against conditioning guards on the chosen data"""
    def leaf():
        if rng.chance(0.8):
            q, s = rng.randint(0, nq - 1), rng.choice(SHIFTS)
            return ("t", q, s)
        return ("c", round(0.25 + 2.5 * rng.random(), 3) * rng.choice([1, 1, -1]))

    def ok(t):
        try:
            v = plain(t, env)
        except (ValueError, ZeroDivisionError, OverflowError):
            return False
        if isinstance(v, complex) or v != v or abs(v) > 40:
            return False
        k = t[0]
        if k in ("div",):
            return abs(plain(t[2], env)) >= 0.25
        if k in ("log", "sqrt"):
            return plain(t[1], env) >= 0.25
        if k == "exp":
            return abs(plain(t[1], env)) <= 3
        if k == "pow":
            b, e = plain(t[1], env), plain(t[2], env)
            if t[2][0] == "c" and float(t[2][1]).is_integer() and 0 < t[2][1] <= 3:
                return True
            return b >= 0.25 and abs(e) <= 3
        if k in ("maximum", "minimum"):
            return abs(plain(t[1], env) - plain(t[2], env)) >= 0.3
        if k == "abs":
            return abs(plain(t[1], env)) >= 0.3
        return True

    def node(d):
        if d == 0 or rng.chance(0.12):
            return leaf()
        for _ in range(6):
            pairs = [("add", 3), ("sub", 3), ("mul", 3), ("div", 2.5), ("pow", 2.5), ("neg", 1), ("pos", 0.3),
                     ("log", 1.2), ("exp", 1.2), ("sqrt", 1.2), ("logistic", 1.2), ("maximum", 1.5)]
            pairs = [(k, w) for k, w in pairs if k not in avoid]
            if p_rej:
                pairs += [("abs", 10 * p_rej), ("normal_cdf", 5 * p_rej), ("normal_pdf", 5 * p_rej), ("minimum", 10 * p_rej),
                          ("rpow", 6 * p_rej), ("rmax", 6 * p_rej)]
            k = rng.weighted(pairs)
            if k in ("neg", "pos") or k in FN1:
                a = node(d - 1)
                if k in ("normal_cdf", "normal_pdf") and not has_token(a):
                    a = ("t", rng.randint(0, nq - 1), rng.choice(SHIFTS))   # the model has no symbol for these on plain numbers
                t = (k, a)
            elif k == "rpow":
                t = ("pow", ("c", float(rng.randint(2, 3))), node(d - 1))
            elif k == "rmax":
                t = ("maximum", ("c", 1.0), node(d - 1))
            elif k == "pow" and rng.chance(0.5):
                t = ("pow", node(d - 1), ("c", rng.choice([2.0, 3.0, 0.5, -1.0, 1.5, 2])))
            elif k == "maximum" and "maximum-atom-floor" in avoid:
                t = ("maximum", node(d - 1), ("c", round(0.5 + 2 * rng.random(), 2)))
            elif k == "maximum":
                a = node(d - 1)
                if not has_token(a):      # the dispatch looks at the first argument: keep a quantity there
                    a = ("t", rng.randint(0, nq - 1), rng.choice(SHIFTS))
                t = (k, a, node(d - 1))
            else:
                t = (k, node(d - 1), node(d - 1))
            if ok(t):
                return t
        return leaf()
    return node(depth)


def gen_smooth(rng, depth, leaves, env, user=0.0):
    """total smooth trees (no domain, no kink): + - * unary minus, exp, logistic, **2, and -- with weight `user` -- calls of the
    user context functions; `leaves` are the tokens allowed; every node is kept moderate at the point `env`"""
    def leaf():
        if rng.chance(0.8):
            q, s = rng.choice(leaves)
            return ("t", q, s)
        return ("c", round(0.25 + 1.5 * rng.random(), 2) * rng.choice([1, 1, -1]))

    def ok(t):
        try:
            v = plain(t, env)
        except (ValueError, ZeroDivisionError, OverflowError):
            return False
        if not (isinstance(v, float) and math.isfinite(v) and abs(v) <= 12):
            return False
        if t[0] == "exp":
            return abs(plain(t[1], env)) <= 2.5
        return True

    def node(d):
        if d == 0 or rng.chance(0.15):
            return leaf()
        for _ in range(6):
            k = rng.weighted([("add", 3), ("sub", 2), ("mul", 3), ("neg", 0.7), ("exp", 1), ("logistic", 1), ("sq", 1),
                              ("softplus", 4 * user), ("mix", 4 * user), ("hyp", 4 * user)])
            if k in ("neg", "exp", "logistic"):
                t = (k, node(d - 1))
            elif k == "sq":
                t = ("pow", node(d - 1), ("c", 2.0))
            elif k == "softplus":
                t = (k, node(d - 1), ("c", rng.choice([1.0, 2.0, 0.5])))
            elif k == "mix":
                t = (k, node(d - 1), node(d - 1), (("c", rng.choice([0.25, 0.4, 0.7])) if rng.chance(0.7) else leaf()))
            else:
                t = (k, node(d - 1), node(d - 1))
            if ok(t):
                return t
        return leaf()
    return node(depth)


def gen_data(rng, nq, dyadic: bool, ncols=5):
    if dyadic:
        return np.array([[rng.dyadic(-4, 4, 2) for _ in range(ncols)] for _ in range(nq)], dtype=float)
    return np.array([[round(0.5 + 2.5 * rng.random(), 4) for _ in range(ncols)] for _ in range(nq)], dtype=float)


# ---------------------------------------------------------------------------------------
# implementation side
# ---------------------------------------------------------------------------------------

def names_for(nq):
    return [f"v{i}" for i in range(nq)]


def make_equation(tree, nq, eid=0):
    from irispie.equations import Equation, EquationKind
    names = names_for(nq)
    e = Equation(id=eid, human=render(tree, names), kind=EquationKind.TRANSITION_EQUATION)
    e.finalize({n: i for i, n in enumerate(names)})
    return e


def factory_for(mode):
    from irispie.fords.descriptors import _AtomFactory
    from irispie.steadiers import _jacobian as sj
    return {"sys": _AtomFactory, "flat": sj._FLAT_ATOM_FACTORY, "nf": sj._NONFLAT_ATOM_FACTORY}[mode]


def wrt_for(e, mode):
    from irispie.incidences import main as inc
    if mode == "sys":
        return list(inc.sort_tokens(e.incidence))
    return sorted(set(t.qid for t in e.incidence))


def impl_tree(case):
    """-> ('ok', value, diff ndarray [nwrt, ncol]) | ('err:type'|'err:other', message)"""
    from irispie.aldi.differentiators import Context
    e = make_equation(case["tree"], case["nq"])
    mode = case["mode"]
    wrt = wrt_for(e, mode)
    data = np.array(case["data"], dtype=float)
    try:
        c = Context(factory_for(mode), [e], eid_to_wrts={0: tuple(wrt)}, qid_to_logly={i: bool(l) for i, l in enumerate(case["logly"])},
                    context=(dict(USER_BINDINGS[case.get("binding", "A")]) if uses_user(case["tree"]) else None))
        with np.errstate(all="ignore"):
            if case.get("history"):
                # one Context, evaluated first at another point; the SAME data array is then overwritten in place and evaluated again
                work = data * 1.07 + 0.01
                try:
                    c.eval_to_arrays(work, case["off"])
                except TypeError:
                    raise
                except Exception:
                    pass
                work[:] = data
                d, v = c.eval_to_arrays(work, case["off"])
            else:
                d, v = c.eval_to_arrays(data, case["off"])
    except TypeError as ex:
        return ("err:type", str(ex)[:120])
    except Exception as ex:
        return ("err:other", type(ex).__name__ + ": " + str(ex)[:120])
    d = np.array(d, dtype=float)
    return ("ok", float(np.ravel(v)[0]), d.reshape(len(wrt), -1), e, wrt)


def model_lines(case, e, wrt, carrier):
    """request lines of the Lean driver for one tree case (one line per diff column)"""
    enc = rat_of_float if carrier == "Q" else (lambda x: str(float_bits(x)))
    tree = tree_of_xtring(e.xtring)
    data = np.array(case["data"], dtype=float)
    toks = sorted(tokens_of(tree))
    dat = [str(len(toks))]
    for q, s in toks:
        dat += [str(q), str(s), enc(data[q, case["off"] + s])]
    bits = "".join("1" if l else "0" for l in case["logly"]) or "-"
    if case["mode"] == "sys":
        w = [str(len(wrt))] + [x for t in wrt for x in (str(t.qid), str(t.shift))]
        modes = ["sys"]
    else:
        w = [str(len(wrt))] + [str(q) for q in wrt]
        modes = ["flat"] if case["mode"] == "flat" else ["nf0", "nf1"]
    return [" ".join(["ad", carrier, m, bits] + w + dat + prefix(tree, enc)) for m in modes]


def parse_reply(reply: str, carrier):
    ws = reply.split()
    if ws[0] != "ok":
        return (ws[0],)
    if carrier == "Q":
        vals = [None if w == "na" else fractions.Fraction(w) for w in ws[1:]]
    else:
        import struct
        vals = [struct.unpack("<d", struct.pack("<Q", int(w)))[0] for w in ws[1:]]
    return ("ok", vals[0], vals[1:])


def close(a: float, b: float, tol=1e-9) -> bool:
    if a != a or b != b:
        return a != a and b != b
    if math.isinf(a) or math.isinf(b):
        return a == b
    return abs(a - b) <= tol * max(1.0, abs(a), abs(b))


# ---------------------------------------------------------------------------------------
# the oracle: finite differences with Richardson extrapolation
# ---------------------------------------------------------------------------------------

def richardson(g, h):
    """derivative of g at 0, and a self-estimate of the error of the un-extrapolated differences"""
    d1 = (g(h) - g(-h)) / (2 * h)
    d2 = (g(h / 2) - g(-h / 2)) / h
    return (4 * d2 - d1) / 3, abs(d2 - d1)


def fd_ok(ad: float, fd: float, err: float):
    """-> True (agree) / False (disagree) / None (finite differences unreliable here)"""
    if not math.isfinite(fd) or not math.isfinite(err):
        return None
    scale = max(1.0, abs(fd), abs(ad) if math.isfinite(ad) else 1.0)
    if err > 1e-3 * scale:
        return None
    if not math.isfinite(ad):
        return False
    return abs(ad - fd) <= 1e-6 * scale + 0.05 * err


def oracle_tree(case):
    """list of (token/qid, ad, fd) that disagree; [] when the property holds (or the equation is rejected)"""
    from irispie.equators.plain import PlainEquator
    r = impl_tree(case)
    if r[0] != "ok":
        return [], r, 0            # rejected: allowed by the property
    _, v, d, e, wrt = r
    data0 = np.array(case["data"], dtype=float)
    off = case["off"]
    logly = case["logly"]
    mode = case["mode"]
    if case.get("own_reference"):
        # reference = the harness's own evaluation of the tree with the INTENDED callables (not irispie's residual function)
        funcs = USER_BINDINGS[case.get("binding", "A")]
        tree = tuplify(case["tree"]) if isinstance(case["tree"], list) else case["tree"]
        toks = sorted(tokens_of(tree))

        def f(arr):
            with np.errstate(all="ignore"):
                try:
                    return float(plain(tree, {(q, s): float(arr[q, off + s]) for q, s in toks}, funcs))
                except (ValueError, ZeroDivisionError, OverflowError):
                    return float("nan")
    else:
        pe = PlainEquator([e], context=(dict(USER_BINDINGS[case.get("binding", "A")]) if uses_user(case["tree"]) else None))

        def f(arr):
            with np.errstate(all="ignore"):
                return float(pe.eval(arr, off)[0])
    bad, skipped = [], 0
    cols = [0] if mode != "nf" else [0, 1]
    for i, w in enumerate(wrt):
        for col in cols:
            if mode == "sys":
                cells = [(w.qid, w.shift, 1.0)]
                q = w.qid
            else:
                q = w
                cells = [(t.qid, t.shift, (1.0 if col == 0 else float(t.shift))) for t in e.incidence if t.qid == q]
            def g(u, cells=cells, q=q):
                arr = data0.copy()
                for (qq, s, wgt) in cells:
                    if logly[qq]:
                        arr[qq, off + s] = data0[qq, off + s] * math.exp(u * wgt)
                    else:
                        arr[qq, off + s] = data0[qq, off + s] + u * wgt
                return f(arr)
            fd, err = richardson(g, 1e-3)
            res = fd_ok(float(d[i, col]), fd, err)
            if res is None:
                skipped += 1
            elif not res:
                bad.append({"wrt": [w.qid, w.shift] if mode == "sys" else [w], "column": col, "ad": float(d[i, col]), "fd": fd})
    if abs(v - f(data0)) > 1e-9 * max(1, abs(v)):
        bad.append({"value": v, "plain": f(data0)})
    return bad, r, skipped


def minimise_tree(case):
    """smallest failing subtree (greedy descent)"""
    cur = case
    changed = True
    while changed:
        changed = False
        for ch in cur["tree"][1:] if cur["tree"][0] not in ("c", "t") else []:
            if isinstance(ch, (tuple, list)) and has_token(ch):
                c2 = dict(cur, tree=ch)
                try:
                    if oracle_tree(c2)[0]:
                        cur, changed = c2, True
                        break
                except Exception:
                    pass
    return cur


def site_of_tree(tree) -> str:
    k = tree[0]
    if k == "maximum" and has_token(tree[2]):
        return "rule:maximum-atom-floor"
    if k in BIN:
        return "rule:" + k + ("-aa" if has_token(tree[1]) and has_token(tree[2]) else ("-an" if has_token(tree[1]) else "-na"))
    return "rule:" + k


def listify(t):
    return [listify(x) if isinstance(x, tuple) else x for x in t]


def tuplify(t):
    return tuple(tuplify(x) if isinstance(x, list) else x for x in t)


def check_rebinding_tree(ctx: Ctx, case):
    """several Contexts in one process for the same equation text and the same user function names bound to different callables
    (case["sequence"] of bindings); every one is judged against finite differences of the harness's OWN evaluation of the tree with
    the callables that were handed in"""
    tree = tuplify(case["tree"]) if isinstance(case["tree"], list) else case["tree"]
    for step, b in enumerate(case["sequence"]):
        c = dict(case, tree=tree, binding=b, own_reference=True)
        try:
            bad, r, skipped = oracle_tree(c)
        except Exception:
            ctx.count("oracle:rebinding-raised")
            continue
        ctx.count("oracle:rebinding-tree-evaluations")
        ctx.count("oracle:fd-unreliable-entries", skipped)
        if r[0] == "ok" and bad:
            ctx.fail("context-rebinding:tree", dict(case, tree=listify(tree)),
                     f"{render(tree, names_for(case['nq']))} mode={case['mode']}: step {step} of bindings {case['sequence']} (binding {b}): "
                     f"AD differs from the equation evaluated with the callables handed in: {bad[:2]}")
            return
    ctx.evaluations += 1


def check_rebinding_model(ctx: Ctx, case):
    """the same model source parsed again with another binding of its context names: systemize() against the harness's own residuals"""
    for step, b in enumerate(case["sequence"]):
        c = dict(case, binding=b)
        try:
            m = build_model(c)
        except Exception as ex:
            ctx.count("oracle:rebinding-model-build-raised:" + type(ex).__name__)
            return
        before = len(ctx.failures)
        oracle_systemize(ctx, dict(c, kind="model-rebinding"), m, own_reference=True, prefix="context-rebinding:")
        ctx.count("oracle:rebinding-model-evaluations")
        if len(ctx.failures) > before:
            return
    ctx.evaluations += 1


def check_tree_oracle(ctx: Ctx, case, bad_rules: set):
    try:
        bad, r, skipped = oracle_tree(case)
    except Exception as ex:       # a crash of the plain equator on an admissible tree is not a derivative failure
        ctx.count("oracle:plain-equator-raised")
        return
    ctx.count("oracle:fd-unreliable-entries", skipped)
    if r[0] != "ok":
        ctx.count("oracle:rejected")
        return
    ctx.count("oracle:trees-compared")
    if bad:
        small = minimise_tree(case)
        site = site_of_tree(small["tree"])
        bad_rules.add(site)
        b2 = oracle_tree(small)[0]
        ctx.fail(site, {"kind": "tree", **dict(small, tree=listify(small["tree"]))},
                 f"{render(small['tree'], names_for(small['nq']))} mode={small['mode']} logly={small['logly']}: AD {b2[:2]}")


# ---------------------------------------------------------------------------------------
# tree streams
# ---------------------------------------------------------------------------------------

def tree_stream(ctx: Ctx, name, cases, carrier):
    """implementation vs model on tree cases; the oracle runs on every case"""
    lines, owners, impls = [], [], []
    for case in cases:
        r = impl_tree(case)
        impls.append(r)
        if r[0] == "ok":
            e, wrt = r[3], r[4]
        else:
            e = make_equation(case["tree"], case["nq"])
            wrt = wrt_for(e, case["mode"])
        ls = model_lines(case, e, wrt, carrier)
        for l in ls:
            lines.append(l)
        owners.append(len(ls))
    replies = ctx.model("C02", lines)
    ctx.evaluations += len(cases)
    if replies is None:
        return
    ctx.streams_compared[name] = ctx.streams_compared.get(name, 0) + len(cases)
    pos = 0
    for case, r, n in zip(cases, impls, owners):
        reps = [parse_reply(x, carrier) for x in replies[pos:pos + n]]
        pos += n
        show = {"tree": render(case["tree"], names_for(case["nq"])), "mode": case["mode"], "logly": case["logly"], "case": dict(case, tree=listify(case["tree"]))}
        if r[0] != "ok":
            ctx.count(f"{name}:impl-{r[0]}")
            if reps[0][0] != r[0]:
                ctx.disagree(name, show, r[0] + " " + r[1], reps[0][0])
            continue
        if any(x[0] != "ok" for x in reps):
            ctx.disagree(name, show, "ok", reps[0][0])
            continue
        _, v, d = r[0], r[1], r[2]
        good = True
        for col, rep in enumerate(reps):
            mv, md = rep[1], rep[2]
            if carrier == "Q":
                def eq(a, b):
                    if b is None:
                        return not math.isfinite(a)
                    return math.isfinite(a) and fractions.Fraction(a) == b
            else:
                eq = close
            if not eq(v, mv) or len(md) != d.shape[0] or not all(eq(float(d[i, col]), md[i]) for i in range(d.shape[0])):
                good = False
                ctx.disagree(name, show, f"value={v!r} diff={d[:, col].tolist()}", f"value={mv} diff={[str(x) for x in md]}")
                break
        if good:
            ctx.count(f"{name}:agree")


def run_trees(ctx: Ctx, bad_rules: set, oracle_only=False, scale=1):
    n_poly = ctx.n(600, 20000) * scale
    n_gen = ctx.n(1000, 30000) * scale
    n_rej = ctx.n(150, 3000) * scale
    # --- directed: every rule on its own, both argument kinds, all modes
    directed = []
    x, y = ("t", 0, 0), ("t", 1, -1)
    singles = [(k, x) for k in SMOOTH_FN] + [("neg", x), ("pos", x)]
    for k in BIN:
        singles += [(k, x, y), (k, x, ("c", 1.5)), (k, ("c", 1.5), x), (k, x, ("c", 2.0))]
    singles += [("maximum", x, y), ("maximum", y, x), ("maximum", x, ("c", 1.0)), ("maximum", x, ("c", 3.0)),
                ("sqrt", ("mul", x, y)), ("sqrt", ("add", x, ("c", 1.0))), ("mul", ("sqrt", x), y)]
    for t in singles:
        for mode in ("sys", "flat", "nf"):
            for lg in ([0, 0], [1, 0], [1, 1]):
                directed.append({"tree": t, "nq": 2, "logly": lg, "mode": mode, "off": 2,
                                 "data": [[1.25, 1.5, 2.25, 2.5, 3.0], [0.75, 1.75, 1.0, 0.5, 2.0]]})
    rejected_directed = [("abs", x), ("normal_cdf", x), ("normal_pdf", x), ("minimum", x, y), ("minimum", x, ("c", 1.0)),
                         ("minimum", ("c", 1.0), x), ("maximum", ("c", 1.0), x), ("pow", ("c", 2.0), x),
                         # negative arguments: a future rule for these must be right on both sides of the kink / of zero
                         ("abs", ("sub", x, ("c", 5.0))), ("minimum", ("sub", x, ("c", 5.0)), y), ("normal_cdf", ("sub", x, ("c", 2.5))),
                         ("normal_pdf", ("sub", x, ("c", 2.5))), ("minimum", y, x)]
    for t in rejected_directed:
        directed.append({"tree": t, "nq": 2, "logly": [0, 1], "mode": "sys", "off": 2,
                         "data": [[1.25, 1.5, 2.25, 2.5, 3.0], [0.75, 1.75, 1.0, 0.5, 2.0]]})
    # --- polynomial trees, exact
    poly = []
    rng = ctx.rng.fork("poly")
    tries = 0
    while len(poly) < n_poly and tries < 20 * n_poly:
        tries += 1
        r = rng.fork(tries)
        nq = r.randint(1, 3)
        logly = [1 if r.chance(0.3) else 0 for _ in range(nq)]
        t = gen_poly(r, r.randint(1, 4), nq)
        if not has_token(t) or not bounds_ok(t, logly):
            continue
        poly.append({"tree": t, "nq": nq, "logly": logly, "mode": r.weighted([("sys", 3), ("flat", 1), ("nf", 1)]), "off": 2,
                     "data": gen_data(r, nq, True).tolist()})
    # --- general trees
    gen = []
    rng = ctx.rng.fork("general")
    tries = 0
    avoid = tuple(sorted(s.split(":", 1)[1] for s in bad_rules)) if oracle_only else ()
    while len(gen) < n_gen + n_rej and tries < 20 * (n_gen + n_rej):
        tries += 1
        r = rng.fork(tries)
        nq = r.randint(1, 3)
        logly = [1 if r.chance(0.3) else 0 for _ in range(nq)]
        data = gen_data(r, nq, False)
        env = {(q, s): float(data[q, 2 + s]) for q in range(nq) for s in (-2, -1, 0, 1, 2)}
        t = gen_general(r, r.randint(1, 4), nq, env, avoid=avoid, p_rej=(0.05 if len(gen) >= n_gen else 0.0))
        if not has_token(t):
            continue
        gen.append({"tree": t, "nq": nq, "logly": logly, "mode": r.weighted([("sys", 3), ("flat", 1), ("nf", 1)]), "off": 2,
                    "data": data.tolist(), **({"history": True} if len(gen) % 4 == 3 else {})})
    # --- trees with user context functions (finite_differentiators.py): oracle only, the Lean model has no rule for them
    usr = []
    rng = ctx.rng.fork("user-trees")
    n_usr = ctx.n(150, 3000) * scale
    tries = 0
    while len(usr) < n_usr and tries < 20 * n_usr:
        tries += 1
        r = rng.fork(tries)
        nq = r.randint(1, 3)
        logly = [1 if r.chance(0.3) else 0 for _ in range(nq)]
        data = gen_data(r, nq, False)
        env = {(q, s): float(data[q, 2 + s]) for q in range(nq) for s in (-2, -1, 0, 1, 2)}
        t = gen_smooth(r, r.randint(1, 3), [(q, sft) for q in range(nq) for sft in SHIFTS], env, user=1.0)
        if not has_token(t) or not uses_user(t):
            continue
        usr.append({"tree": t, "nq": nq, "logly": logly, "mode": r.weighted([("sys", 2), ("flat", 1), ("nf", 1)]), "off": 2,
                    "data": data.tolist(), **({"history": True} if len(usr) % 3 == 2 else {})})
    for c in usr:
        ctx.count("tree-user-function-cases")
        ctx.nontriv(("tree-user", tuple(sorted(kinds_in(c["tree"]))), c["mode"], tuple(c["logly"])))
        check_tree_oracle(ctx, c, bad_rules)
    ctx.evaluations += len(usr)
    # the same equation text differentiated again with the same function NAMES bound to other callables, and back
    for c in usr[: ctx.n(60, 600) * scale]:
        check_rebinding_tree(ctx, dict(c, kind="tree-rebinding", sequence=["A", "B", "A"]))
    if usr:
        ctx.sample({"stream": "tree-user", "equation": render(usr[0]["tree"], names_for(usr[0]["nq"])), "mode": usr[0]["mode"]})
    for c in directed + poly + gen:
        ctx.count("tree-mode:" + c["mode"])
        ctx.count("tree-root:" + c["tree"][0])
        ctx.count("tree-logly-vars:" + str(sum(c["logly"])))
        ks = kinds_in(c["tree"])
        ctx.nontriv(("tree", tuple(sorted(ks)), c["mode"], tuple(c["logly"])) if len(ks) >= 2 else ("tree-trivial",))
    for c in (directed[:1] + poly[:1] + gen[:2]):
        ctx.sample({"stream": "tree", "equation": render(c["tree"], names_for(c["nq"])), "mode": c["mode"], "logly": c["logly"]})
    if not oracle_only:
        tree_stream(ctx, "tree-directed", directed, "F")
        tree_stream(ctx, "tree-poly-exact", poly, "Q")
        tree_stream(ctx, "tree-general", gen, "F")
    else:
        ctx.evaluations += len(directed) + len(poly) + len(gen)
    for c in directed + poly[: max(50, len(poly) // 4)] + gen:
        check_tree_oracle(ctx, c, bad_rules)


def kinds_in(tree, acc=None):
    acc = set() if acc is None else acc
    if tree[0] not in ("c", "t"):
        acc.add(tree[0])
        for ch in tree[1:]:
            kinds_in(ch, acc)
    return acc


# ---------------------------------------------------------------------------------------
# random small models: systemize, steady (flat, non-flat), stacked time; scatter maps
# ---------------------------------------------------------------------------------------

def gen_model(rng, bad_rules: set, user=False):
    """source text of a small model plus steady values; every right-hand side is a guarded random tree"""
    nx = rng.randint(2, 4)
    nmeas = rng.randint(0, 2)
    npar = rng.randint(1, 2)
    xs = [f"x{i}" for i in range(nx)]
    ys = [f"m{i}" for i in range(nmeas)]
    ps = [f"p{i}" for i in range(npar)]
    shocks = [f"e{i}" for i in range(nx) if rng.chance(0.6)] or ["e0"]
    mshocks = [f"w{i}" for i in range(nmeas)]
    logly = {x: rng.chance(0.35) for x in xs}
    logly.update({y: rng.chance(0.25) for y in ys})
    level = {x: round(0.8 + 1.7 * rng.random(), 3) for x in xs + ys}
    change = {x: (round(1 + 0.04 * rng.random(), 4) if logly[x] else round(0.1 * rng.random(), 4)) for x in xs + ys}
    par = {p: round(0.3 + 1.2 * rng.random(), 3) for p in ps}
    names = xs + ys + ps + shocks + mshocks
    qid = {n: i for i, n in enumerate(names)}
    nq = len(names)
    max_lag = {x: rng.choice([1, 1, 2]) for x in xs}
    max_lead = {x: rng.choice([0, 0, 1, 2]) for x in xs}

    def value(name, s):
        if name in par: return par[name]
        if name in level:
            return level[name] * change[name] ** s if logly[name] else level[name] + s * change[name]
        return 0.0
    env = {(qid[n], s): value(n, s) for n in names for s in range(-3, 4)}
    avoid = tuple(sorted(s.split(":", 1)[1] for s in bad_rules))

    def rhs(allowed_tokens, shock):
        def leaf_gen(r):
            return r.choice(allowed_tokens)
        for attempt in range(30):
            r = rng.fork(attempt)
            t = gen_general(r, r.randint(1, 3), nq, env, avoid=avoid)
            # remap the generic tokens of the tree onto allowed tokens of this model
            def remap(t):
                if t[0] == "t":
                    n, s = leaf_gen(r)
                    return ("t", qid[n], s)
                if t[0] == "c":
                    return t
                return (t[0],) + tuple(remap(c) for c in t[1:])
            t = remap(t)
            try:
                v = plain(t, env)
                if not (isinstance(v, float) and math.isfinite(v) and abs(v) < 40):
                    continue
                if not guards_ok(t, env):
                    continue
            except Exception:
                continue
            if user:
                n2, s2 = leaf_gen(r)
                w = r.choice(["softplus", "mix", "hyp"])
                t = {"softplus": ("softplus", t, ("c", r.choice([1.0, 2.0]))), "hyp": ("hyp", t, ("t", qid[n2], s2)),
                     "mix": ("mix", t, ("t", qid[n2], s2), ("c", 0.4))}[w]
                try:
                    if not abs(plain(t, env)) < 40:
                        continue
                except Exception:
                    continue
            if shock is not None:
                t = ("add", t, ("mul", ("t", qid[shock], 0), ("c", round(0.5 + rng.random(), 2))))
            return t
        return ("t", qid[allowed_tokens[0][0]], allowed_tokens[0][1])

    teqs, meqs = [], []
    for i, x in enumerate(xs):
        allowed = [(z, s) for z in xs for s in range(-max_lag[z], max_lead[z] + 1)] + [(p, 0) for p in ps]
        sh = f"e{i}" if f"e{i}" in shocks else None
        teqs.append((x, rhs(allowed, sh)))
    for i, y in enumerate(ys):
        # transition variables are read at lags as deep as, and deeper than, the transition block uses them (growth-rate observables)
        allowed = [(z, s) for z in xs for s in (0, 0, -1, -max_lag[z], -max_lag[z] - 1)] + [(p, 0) for p in ps]
        meqs.append((y, rhs(allowed, mshocks[i])))
    inv = {v: k for k, v in qid.items()}
    nm = [inv[i] for i in range(nq)]
    src = ["!transition-variables " + ", ".join(xs)]
    lg = [n for n in xs + ys if logly[n]]
    src.append("!parameters " + ", ".join(ps))
    src.append("!transition-shocks " + ", ".join(shocks))
    src.append("!transition-equations")
    for x, t in teqs:
        src.append(f"  {x} = {render(t, nm, '{', '}')};")
    if ys:
        src.append("!measurement-variables " + ", ".join(ys))
        src.append("!measurement-shocks " + ", ".join(mshocks))
        src.append("!measurement-equations")
        for y, t in meqs:
            src.append(f"  {y} = {render(t, nm, '{', '}')};")
    if lg:
        src.append("!log-variables " + ", ".join(lg))
    assign = {n: [level[n], change[n]] for n in xs + ys}
    assign.update(par)
    out = {"source": "\n".join(src), "assign": assign}
    if user:
        out["context"] = sorted(USER_FUNCS)
    return out


def guards_ok(t, env) -> bool:
    """re-check the conditioning guards of gen_general after the tokens were remapped"""
    k = t[0]
    if k in ("c", "t"):
        return True
    if not all(guards_ok(c, env) for c in t[1:]):
        return False
    v = plain(t, env)
    if v != v or abs(v) > 40:
        return False
    if k == "div": return abs(plain(t[2], env)) >= 0.25
    if k in ("log", "sqrt"): return plain(t[1], env) >= 0.25
    if k == "exp": return abs(plain(t[1], env)) <= 3
    if k == "pow":
        if t[2][0] == "c" and float(t[2][1]).is_integer() and 0 < t[2][1] <= 3:
            return True
        return plain(t[1], env) >= 0.25 and abs(plain(t[2], env)) <= 3
    if k in ("maximum", "minimum"): return abs(plain(t[1], env) - plain(t[2], env)) >= 0.3
    return True


def build_model(case):
    import irispie as ir
    kw = {}
    if case.get("context"):
        kw["context"] = {n: USER_BINDINGS[case.get("binding", "A")][n] for n in case["context"]}
    if case.get("flat"):
        kw["flat"] = True
    if case.get("linear"):
        kw["linear"] = True
    m = ir.Simultaneous.from_string(case["source"], **kw)
    if case.get("variants"):
        # several parameter variants in one model object: case["variants"] = one assignment per variant
        vs = case["variants"]
        m.alter_num_variants(len(vs))
        m.assign(**{k: [(tuple(v[k]) if isinstance(v[k], list) else v[k]) for v in vs] for k in vs[0]})
        return m
    asg = {k: (tuple(v) if isinstance(v, list) else v) for k, v in case["assign"].items()}
    m.assign(**asg)
    return m


def own_data_array(m, assign, linear):
    """the evaluation point of systemize() for one variant, built by the harness from the values it assigned (not by irispie):
    nonlinear: level + shift*change (level*change**shift for log-variables); linear: variables at 0 (1 for log-variables); shocks 0"""
    inv = m._invariant
    ql = m.create_qid_to_logly()
    n2q = m.create_name_to_qid()
    ms, Ms = inv._min_shift, inv._max_shift
    arr = np.zeros((len(inv.quantities), -ms + 1 + Ms))
    from irispie.quantities import QuantityKind as QK
    kinds = {q.id: q.kind for q in inv.quantities}
    for name, val in assign.items():
        q = n2q[name]
        isvar = kinds[q] in (QK.TRANSITION_VARIABLE | QK.MEASUREMENT_VARIABLE)
        level, change = (val if isinstance(val, (list, tuple)) else (val, None))
        for c in range(arr.shape[1]):
            sft = c + ms
            if not isvar:
                arr[q, c] = level
            elif linear:
                arr[q, c] = 1.0 if ql.get(q) else 0.0
            elif ql.get(q):
                arr[q, c] = level * (change if change is not None else 1.0) ** sft
            else:
                arr[q, c] = level + sft * (change if change is not None else 0.0)
    return arr


def compare_matrix(ctx, site, case, name, analytic, fd_fun, shape_note=""):
    """entry-by-entry comparison; fd_fun(i, j) -> (fd, err)"""
    bad = []
    for i in range(analytic.shape[0]):
        for j in range(analytic.shape[1]):
            fd, err = fd_fun(i, j)
            res = fd_ok(float(analytic[i, j]), fd, err)
            if res is None:
                ctx.count("oracle:fd-unreliable-entries")
            elif not res:
                bad.append({"row": i, "col": j, "analytic": float(analytic[i, j]), "fd": fd})
            ctx.count("oracle:matrix-entries")
    if bad:
        ctx.fail(site, case, f"{name}{shape_note}: {len(bad)} entries differ from finite differences, first {bad[:3]}")
    return not bad


def oracle_systemize(ctx: Ctx, case, m=None, own_reference=False, prefix="", vid=0, arr_override=None):
    from irispie.quantities import QuantityKind as QK
    m = m or build_model(case)
    try:
        s = m.systemize()
        if isinstance(s, (list, tuple)):
            s = s[vid]
    except TypeError as ex:
        ctx.count("oracle:systemize-rejected")      # an equation with no Atom rule: rejected, allowed by the property
        return m
    except Exception as ex:
        ctx.fail(prefix + "systemize:raised", case, f"systemize() raised {type(ex).__name__}: {str(ex)[:200]} on a valid model")
        return m
    inv = m._invariant
    d = inv.dynamic_descriptor
    sv = d.system_vectors
    v = m._variants[0]
    ql = m.create_qid_to_logly()
    ms, Ms = inv._min_shift, inv._max_shift
    arr = v.create_steady_array(ql, num_columns=-ms + 1 + Ms, shift_in_first_column=ms) if arr_override is None else arr_override
    off = -ms
    pe = inv._plain_dynamic_equator
    eqs = {e.id: e for e in inv.dynamic_equations}
    kind = {q.id: q.kind for q in inv.quantities}

    def resid(a):
        with np.errstate(all="ignore"):
            return np.array([float(x) for x in pe.eval(a, off)])
    if own_reference:
        # reference = the harness's own evaluation of every equation's xtring with the INTENDED callables
        funcs = USER_BINDINGS[case.get("binding", "A")]
        trees = {eid: tree_of_xtring(e.xtring) for eid, e in eqs.items()}
        toks = {eid: sorted(tokens_of(t)) for eid, t in trees.items()}

        def resid(a):
            out = np.full(max(eqs) + 1, np.nan)
            with np.errstate(all="ignore"):
                for eid, t in trees.items():
                    try:
                        out[eid] = plain(t, {(q, s_): float(a[q, off + s_]) for q, s_ in toks[eid]}, funcs)
                    except (ValueError, ZeroDivisionError, OverflowError):
                        pass
            return out

    cache = {}
    def partial(eid, tok):
        key = (eid, tok)
        if key not in cache:
            q, sft = tok
            def g(u):
                a = arr.copy()
                a[q, off + sft] = arr[q, off + sft] * math.exp(u) if ql.get(q, False) else arr[q, off + sft] + u
                return resid(a)[eid]
            cache[key] = richardson(g, 1e-3)
        return cache[key]

    tv = [(t.qid, t.shift) for t in sv.transition_variables]
    nT, nM = len(sv.transition_eids), len(sv.measurement_eids)

    def expected(eids, col_tokens, via_lag=False):
        """(fd, err) matrices: entry (row of equation, column) = d residual / d token of that column (0 if the token is absent)"""
        def fn(i, j):
            eid = eids[i]
            tok = col_tokens[j]
            if tok is None or tok not in [(t.qid, t.shift) for t in eqs[eid].incidence]:
                return 0.0, 0.0
            return partial(eid, tok)
        return fn
    ok = True
    # A: column of tau when tau is in the transition vector; B: column of tau shifted by +1 when tau is not in the vector
    lag_cols = [((q, sft - 1) if (q, sft - 1) not in tv else None) for (q, sft) in tv]
    A, B = s.A[:nT, :], s.B[:nT, :]
    ok &= compare_matrix(ctx, prefix + "systemize:A", case, "A", A, expected(sv.transition_eids, tv))
    ok &= compare_matrix(ctx, prefix + "systemize:B", case, "B", B, expected(sv.transition_eids, lag_cols))
    ok &= compare_matrix(ctx, prefix + "systemize:D", case, "D", s.D[:nT, :], expected(sv.transition_eids, [(t.qid, t.shift) for t in sv.transition_shocks]))
    if nM:
        ok &= compare_matrix(ctx, prefix + "systemize:F", case, "F", s.F, expected(sv.measurement_eids, [(t.qid, t.shift) for t in sv.measurement_variables]))
        ok &= compare_matrix(ctx, prefix + "systemize:G", case, "G", s.G, expected(sv.measurement_eids, tv))
        ok &= compare_matrix(ctx, prefix + "systemize:J", case, "J", s.J, expected(sv.measurement_eids, [(t.qid, t.shift) for t in sv.measurement_shocks]))
    # every variable occurrence of every equation must have a home (no derivative silently dropped)
    for eid in sv.transition_eids:
        for t in eqs[eid].incidence:
            if kind[t.qid] in QK.TRANSITION_VARIABLE and (t.qid, t.shift) not in tv and (t.qid, t.shift + 1) not in tv:
                ctx.fail(prefix + "systemize:uncovered-occurrence", case, f"equation {eid} token {tuple(t)} has no column in A or B")
    # measurement equations: a measurement variable lives in F, a transition variable (at ANY lag) in G, a measurement shock in J;
    # an occurrence with a non-zero derivative and no column is a derivative silently dropped from the system
    homes = {"F": [(t.qid, t.shift) for t in sv.measurement_variables], "G": tv, "J": [(t.qid, t.shift) for t in sv.measurement_shocks]}
    for eid in sv.measurement_eids:
        for t in eqs[eid].incidence:
            tok = (t.qid, t.shift)
            where = "F" if kind[t.qid] in QK.MEASUREMENT_VARIABLE else "G" if kind[t.qid] in QK.TRANSITION_VARIABLE else \
                "J" if kind[t.qid] in QK.MEASUREMENT_SHOCK else None
            if where is None or tok in homes[where]:
                continue
            fd, err = partial(eid, tok)
            if math.isfinite(fd) and math.isfinite(err) and abs(fd) > 1e-6 + 10 * err:
                ctx.fail(prefix + "systemize:uncovered-occurrence", case,
                         f"measurement equation {eid}: d residual / d token {tok} = {fd:.6g} (finite differences) but the token has no column in {where}")
    # dynamic identity rows: xi_t[i] = xi_{t-1}[j] with tv[j] = tv[i] shifted by +1
    dA, dB = s.A[nT:, :], s.B[nT:, :]
    for r in range(dA.shape[0]):
        ia, ib = np.nonzero(dA[r])[0], np.nonzero(dB[r])[0]
        good = len(ia) == 1 and len(ib) == 1 and dA[r, ia[0]] == 1 and dB[r, ib[0]] == -1 and \
            tv[ib[0]] == (tv[ia[0]][0], tv[ia[0]][1] + 1)
        if not good:
            ctx.fail(prefix + "systemize:dynid", case, f"dynamic identity row {r} is not xi_t[i] = xi_(t-1)[j]")
    if dA.shape[0] + nT != len(tv):
        ctx.fail(prefix + "systemize:dynid", case, "number of rows != length of the transition vector")
    ctx.count("oracle:systemize-models")
    return m


def oracle_steady(ctx: Ctx, case, m=None):
    from irispie.steadiers import evaluators as se
    m = m or build_model(case)
    inv = m._invariant
    eqs = list(inv.steady_equations)
    qs = inv.quantities
    from irispie.quantities import QuantityKind as QK
    wrt = [q.id for q in qs if q.kind in (QK.TRANSITION_VARIABLE | QK.MEASUREMENT_VARIABLE)]
    for flavour in ("flat", "nonflat"):
        v = copy.deepcopy(m._variants[0])
        if flavour == "flat":
            ev = se.FlatSteadyEvaluator(wrt, [], eqs, qs, v, context=m.get_context(), iter_printer_settings={})
        else:
            ev = se.NonflatSteadyEvaluator(wrt, wrt, eqs, qs, v, context=m.get_context(), iter_printer_settings={})
        g0 = np.array(ev.get_init_guess(), dtype=float)
        try:
            with np.errstate(all="ignore"):
                f0 = np.array(ev.eval_func(g0.copy()), dtype=float)
        except Exception as ex:
            ctx.count(f"oracle:steady-{flavour}-eval_func-raised")
            continue
        try:
            with np.errstate(all="ignore"):
                J = np.array(ev.eval_jacob(g0.copy()), dtype=float)
        except TypeError as ex:
            ctx.count(f"oracle:steady-{flavour}-rejected")
            continue
        except Exception as ex:
            ctx.fail(f"steady-{flavour}:raised", case, f"eval_jacob raised {type(ex).__name__}: {str(ex)[:200]} where eval_func evaluates")
            continue
        n = len(eqs)
        cache = {}
        def col(j):
            if j not in cache:
                def g(u):
                    x = g0.copy(); x[j] += u
                    with np.errstate(all="ignore"):
                        return np.array(ev.eval_func(x), dtype=float)
                h = 1e-3
                d1 = (g(h) - g(-h)) / (2 * h)
                d2 = (g(h / 2) - g(-h / 2)) / h
                cache[j] = ((4 * d2 - d1) / 3, np.abs(d2 - d1))
            return cache[j]
        if J.shape != (len(f0), len(g0)):
            ctx.fail(f"steady-{flavour}:shape", case, f"Jacobian shape {J.shape} vs {len(f0)} residuals x {len(g0)} unknowns")
            continue
        if flavour == "flat":
            compare_matrix(ctx, "steady-flat", case, "flat steady Jacobian", J, lambda i, j: (col(j)[0][i], col(j)[1][i]))
        else:
            compare_matrix(ctx, "steady-nonflat:t0", case, "non-flat steady Jacobian, time-0 rows", J[:n, :], lambda i, j: (col(j)[0][i], col(j)[1][i]))
            compare_matrix(ctx, "steady-nonflat:tk", case, "non-flat steady Jacobian, time-k rows", J[n:, :], lambda i, j: (col(j)[0][n + i], col(j)[1][n + i]))
        ctx.count(f"oracle:steady-{flavour}-models")
        # --- a history of calls on this ONE evaluator object: the same ndarray updated in place between calls (as an iterative solver
        # may do), the order eval_func / eval_jacob / eval varied, then an equal copy; every call is judged at the point actually passed,
        # against differences taken on a second, fresh evaluator that only ever sees newly allocated arrays
        if flavour == "flat":
            ref = se.FlatSteadyEvaluator(wrt, [], eqs, qs, copy.deepcopy(m._variants[0]), context=m.get_context(), iter_printer_settings={})
        else:
            ref = se.NonflatSteadyEvaluator(wrt, wrt, eqs, qs, copy.deepcopy(m._variants[0]), context=m.get_context(), iter_printer_settings={})

        def fd_at(point):
            D, E = np.zeros(J.shape), np.zeros(J.shape)
            for j in range(len(point)):
                def g(u):
                    x = np.array(point, dtype=float); x[j] += u
                    with np.errstate(all="ignore"):
                        return np.array(ref.eval_func(x), dtype=float)
                h = 1e-3
                d1 = (g(h) - g(-h)) / (2 * h)
                d2 = (g(h / 2) - g(-h / 2)) / h
                D[:, j], E[:, j] = (4 * d2 - d1) / 3, np.abs(d2 - d1)
            return D, E
        wob = 0.03 * np.sin(1.0 + np.arange(len(g0)))
        x = g0.copy()
        steps = []
        try:
            with np.errstate(all="ignore"):
                ev.eval_jacob(x)
                x += wob                                   # in place
                steps.append(("jacob after x += step", x.copy(), np.array(ev.eval_jacob(x), dtype=float)))
                x[:] = g0 - 0.5 * wob                      # in place, another point
                ev.eval_func(x)
                steps.append(("func then jacob after x[:] = point", x.copy(), np.array(ev.eval_jacob(x), dtype=float)))
                x *= 1.01                                  # in place
                with contextlib.redirect_stdout(io.StringIO()):          # eval() also feeds the iteration printer
                    Je = ev.eval(x)[1]
                steps.append(("eval (func and jacobian) after x *= 1.01", x.copy(), np.array(Je, dtype=float)))
                y = x.copy()
                steps.append(("jacob of an equal copy", y.copy(), np.array(ev.eval_jacob(y), dtype=float)))
                y -= wob
                steps.append(("jacob after the copy was changed in place", y.copy(), np.array(ev.eval_jacob(y), dtype=float)))
        except Exception as ex:
            ctx.count(f"oracle:steady-{flavour}-history-raised:{type(ex).__name__}")
        if len(steps) == 5:
            # replayed line by line on the Lean state machine (`evhist`): which point is in force at every observation; on the
            # implementation side the point is identified by comparing the returned Jacobian with the analytic Jacobian of a fresh evaluator
            pts = [g0] + [p for _, p, _ in steps]            # ids 0..5; ids 3 and 4 hold equal values (the copy)
            ops = [("j", 0), ("j", 1), ("f", 2), ("j", 2), ("e", 3), ("j", 4), ("j", 5)]
            try:
                with np.errstate(all="ignore"):
                    refJ = [np.array(ref.eval_jacob(np.array(p, dtype=float)), dtype=float) for p in pts]

                def ident(Jk, passed):
                    order = [passed] + [i for i in range(len(pts)) if i != passed]
                    for i in order:
                        if refJ[i].shape == Jk.shape and np.allclose(refJ[i], Jk, rtol=1e-9, atol=1e-9, equal_nan=True):
                            return str(i)
                    return "?"
                obs = {1: steps[0][2], 3: steps[1][2], 4: steps[2][2], 5: steps[3][2], 6: steps[4][2]}
                words = []
                for pos, (kind, pid) in enumerate(ops):
                    got = ident(obs[pos], pid) if pos in obs else str(pid)
                    words.append(f"e:{pid}:{got}" if kind == "e" else f"{kind}:{got}")
                if not hasattr(ctx, "_evhist"):
                    ctx._evhist = []
                ctx._evhist.append((" ".join(["evhist"] + [f"{k}:{i}" for k, i in ops]), " ".join(words),
                                    {"model": case.get("source", "")[:300], "evaluator": flavour}))
            except Exception as ex:
                ctx.count("oracle:evhist-raised:" + type(ex).__name__)
        for label, point, Jk in steps:
            D, E = fd_at(point)
            ctx.count("oracle:steady-history-calls")
            if Jk.shape != D.shape:
                ctx.fail(f"steady-{flavour}:history", case, f"{label}: shape {Jk.shape} vs {D.shape}")
                break
            if not compare_matrix(ctx, f"steady-{flavour}:history", case, f"{flavour} steady Jacobian, call history on one evaluator ({label})",
                                  Jk, lambda i, j: (D[i, j], E[i, j])):
                break


def oracle_stacked(ctx: Ctx, case, m=None, T=3):
    from irispie.incidences.main import Token
    from irispie.quantities import QuantityKind as QK
    from irispie.equations import EquationKind as EK
    from irispie.stacked_time import _evaluators as ste
    m = m or build_model(case)
    inv = m._invariant
    eqs = [e for e in inv.dynamic_equations if e.kind in EK.TRANSITION_EQUATION]
    qs = inv.quantities
    ql = m.create_qid_to_logly()
    ms, Ms = inv._min_shift, inv._max_shift
    base = -ms
    cols = list(range(base, base + T))
    ncols = base + T + Ms
    v = m._variants[0]
    arr = v.create_steady_array(ql, num_columns=ncols, shift_in_first_column=ms)
    # move away from the steady path deterministically so that every period has its own point
    wob = 1 + 0.05 * np.sin(1.0 + np.arange(arr.size)).reshape(arr.shape)
    xq = [q.id for q in qs if q.kind in QK.TRANSITION_VARIABLE]
    arr[xq, :] = arr[xq, :] * wob[xq, :]
    spots = [Token(q, c) for c in cols for q in xq]
    try:
        ev = ste.create_evaluator(spots, cols, eqs, qs, None, m.get_context())
        g0 = np.array(ev.get_init_guess(arr.copy()), dtype=float)
        with np.errstate(all="ignore"):
            f0 = np.array(ev.eval_func(g0.copy(), arr.copy()), dtype=float)
        if not np.all(np.isfinite(f0)):
            ctx.count("oracle:stacked-nonfinite-residuals")
            return
    except TypeError as ex:
        ctx.count("oracle:stacked-rejected")
        return
    except Exception as ex:
        ctx.fail("stacked:raised", case, f"creating the stacked-time evaluator raised {type(ex).__name__}: {str(ex)[:200]} on a valid model")
        return
    try:
        with np.errstate(all="ignore"):
            J = ev.eval_jacob(g0.copy(), arr.copy())
            J = np.array(J.toarray() if hasattr(J, "toarray") else J, dtype=float)
    except TypeError as ex:
        ctx.count("oracle:stacked-rejected")
        return
    except Exception as ex:
        ctx.fail("stacked:raised", case, f"eval_jacob raised {type(ex).__name__}: {str(ex)[:200]} where eval_func evaluates")
        return
    if J.shape != (len(f0), len(g0)):
        ctx.fail("stacked:shape", case, f"Jacobian shape {J.shape} vs {len(f0)} residuals x {len(g0)} unknowns")
        return
    cache = {}
    def col(j):
        if j not in cache:
            def g(u):
                x = g0.copy(); x[j] += u
                with np.errstate(all="ignore"):
                    return np.array(ev.eval_func(x, arr.copy()), dtype=float)
            h = 1e-3
            d1 = (g(h) - g(-h)) / (2 * h)
            d2 = (g(h / 2) - g(-h / 2)) / h
            cache[j] = ((4 * d2 - d1) / 3, np.abs(d2 - d1))
        return cache[j]
    compare_matrix(ctx, "stacked", case, f"stacked-time Jacobian (T={T})", J, lambda i, j: (col(j)[0][i], col(j)[1][i]))
    # --- call history on this one evaluator: the guess array updated in place, the same data array reused (as the solver does)
    try:
        ref = ste.create_evaluator(spots, cols, eqs, qs, None, m.get_context())
        wobg = 0.03 * np.sin(2.0 + np.arange(len(g0)))
        x, data = g0.copy(), arr.copy()
        steps = []
        with np.errstate(all="ignore"):
            ev.eval_jacob(x, data)
            x += wobg
            Jk = ev.eval_jacob(x, data)
            steps.append(("jacob after x += step, same data array", x.copy(), np.array(Jk.toarray() if hasattr(Jk, "toarray") else Jk, dtype=float)))
            x[:] = g0 - 0.5 * wobg
            ev.eval_func(x, data)
            Jk = ev.eval_func_jacob(x, data)[1]
            steps.append(("func then func_jacob after x[:] = point", x.copy(), np.array(Jk.toarray() if hasattr(Jk, "toarray") else Jk, dtype=float)))
        for label, point, Jk in steps:
            D, E = np.zeros(J.shape), np.zeros(J.shape)
            for j in range(len(point)):
                def g(u):
                    xx = point.copy(); xx[j] += u
                    with np.errstate(all="ignore"):
                        return np.array(ref.eval_func(xx, arr.copy()), dtype=float)
                h = 1e-3
                d1 = (g(h) - g(-h)) / (2 * h)
                d2 = (g(h / 2) - g(-h / 2)) / h
                D[:, j], E[:, j] = (4 * d2 - d1) / 3, np.abs(d2 - d1)
            ctx.count("oracle:stacked-history-calls")
            if not compare_matrix(ctx, "stacked:history", case, f"stacked-time Jacobian, call history on one evaluator ({label})", Jk,
                                  lambda i, j: (D[i, j], E[i, j])):
                break
    except Exception as ex:
        ctx.count("oracle:stacked-history-raised:" + type(ex).__name__)
    ctx.count("oracle:stacked-models")


def tok_list(toks) -> list[str]:
    toks = list(toks)
    out = [str(len(toks))]
    for t in toks:
        out += [str(t[0]), str(t[1])]
    return out


def show_map(amap) -> str:
    return ",".join(f"{a}:{b}:{c}:{d}" for a, b, c, d in zip(amap.lhs[0], amap.lhs[1], amap.rhs[0], amap.rhs[1]))


def maps_lines(ctx: Ctx, case, m):
    """E-class correspondence of the scatter maps; returns (lines, impl outputs)"""
    from irispie.incidences.main import Token
    from irispie.quantities import QuantityKind as QK
    from irispie.equations import EquationKind as EK
    from irispie.aldi import maps as amaps
    from irispie.stacked_time._jacobians import Jacobian
    inv = m._invariant
    d = inv.dynamic_descriptor
    sv, sm = d.system_vectors, d.system_map
    lines, impl = [], []
    teq = [list(sv.eid_to_wrt_tokens[e]) for e in sv.transition_eids]
    meq = [list(sv.eid_to_wrt_tokens[e]) for e in sv.measurement_eids]
    ws = ["sysmap", str(len(teq))]
    for w in teq: ws += tok_list(w)
    ws += [str(len(meq))]
    for w in meq: ws += tok_list(w)
    ws += tok_list(sv.transition_variables) + tok_list(sv.transition_shocks) + tok_list(sv.measurement_variables) + tok_list(sv.measurement_shocks)
    lines.append(" ".join(ws))
    impl.append("|".join(f"{n}={show_map(getattr(sm, n))}" for n in "ABDFGJ"))
    # offsets
    system_eids = list(sv.transition_eids) + list(sv.measurement_eids)
    offs = amaps.create_eid_to_rhs_offset(tuple(system_eids), sv.eid_to_wrt_tokens)
    lines.append("offsets " + " ".join(str(len(sv.eid_to_wrt_tokens[e])) for e in system_eids))
    impl.append("[" + ",".join(str(offs[e]) for e in system_eids) + "]")
    # transition vector from the (min, max) shifts of the adjusted occurrences
    kind = {q.id: q.kind for q in inv.quantities}
    occ = {}
    for e in inv.dynamic_equations:
        if e.kind not in EK.ENDOGENOUS_EQUATION:
            continue
        for t in e.incidence:
            if kind[t.qid] in QK.TRANSITION_VARIABLE:
                occ.setdefault(t.qid, []).append(t.shift)
                if e.kind in EK.MEASUREMENT_EQUATION:
                    occ[t.qid].append(t.shift - 1)
    for q in inv.quantities:
        if q.kind in QK.TRANSITION_VARIABLE:
            occ.setdefault(q.id, []).append(0)
    lines.append("tvec " + str(len(occ)) + " " + " ".join(f"{q} {min(v)} {max(v)}" for q, v in sorted(occ.items())))
    impl.append(",".join(f"{t.qid}:{t.shift}" for t in sv.transition_variables))
    # dynamic identities
    rows = []
    dA, dB = sm.dynid_A, sm.dynid_B
    for r in range(dA.shape[0]):
        rows.append(f"{r}:{int(np.nonzero(dA[r])[0][0])}:{int(np.nonzero(dB[r])[0][0])}")
    lines.append("dynid " + " ".join(tok_list(sv.transition_variables)))
    impl.append(",".join(rows))
    # stacked-time map
    eqs = [e for e in inv.dynamic_equations if e.kind in EK.TRANSITION_EQUATION]
    ms, Ms = inv._min_shift, inv._max_shift
    cols = list(range(-ms, -ms + 3))
    xq = [q.id for q in inv.quantities if q.kind in QK.TRANSITION_VARIABLE]
    spots = [Token(q, c) for c in cols for q in xq]
    jac = Jacobian(eqs, spots, m.create_qid_to_logly(), context=m.get_context(), columns_to_eval=cols, terminator=None)
    wrts = [[t for t in e.incidence if t.qid in set(xq)] for e in eqs]
    ws = ["stacked"] + tok_list(spots) + [str(len(cols))] + [str(c) for c in cols] + [str(len(wrts))]
    for w in wrts: ws += tok_list(w)
    lines.append(" ".join(ws))
    impl.append(show_map(jac._map))
    return lines, impl


def staged_ad_lines(case, m):
    """the AD rows of every system equation (td of fords/systems.py) as tree cases for the Float model"""
    inv = m._invariant
    d = inv.dynamic_descriptor
    sv = d.system_vectors
    v = m._variants[0]
    ql = m.create_qid_to_logly()
    ms, Ms = inv._min_shift, inv._max_shift
    arr = v.create_steady_array(ql, num_columns=-ms + 1 + Ms, shift_in_first_column=ms)
    off = -ms
    with np.errstate(all="ignore"):
        td, tc = d.aldi_context.eval_to_arrays(arr, off)
    eqs = {e.id: e for e in inv.dynamic_equations}
    nq = arr.shape[0]
    bits = "".join("1" if ql.get(i, False) else "0" for i in range(nq))
    enc = lambda x: str(float_bits(x))
    lines, impl = [], []
    row = 0
    for eid in list(sv.transition_eids) + list(sv.measurement_eids):
        wrt = list(sv.eid_to_wrt_tokens[eid])
        tree = tree_of_xtring(eqs[eid].xtring)
        toks = sorted(tokens_of(tree))
        dat = [str(len(toks))]
        for q, s in toks:
            dat += [str(q), str(s), enc(arr[q, off + s])]
        w = [str(len(wrt))] + [x for t in wrt for x in (str(t.qid), str(t.shift))]
        lines.append(" ".join(["ad", "F", "sys", bits] + w + dat + prefix(tree, enc)))
        impl.append((float(tc[len(impl), 0]), [float(x) for x in td[row:row + len(wrt), 0]]))
        row += len(wrt)
    return lines, impl


# ---------------------------------------------------------------------------------------
# solvable forward-looking models through the public simulate(method="stacked_time"): frames, terminal condition
# ---------------------------------------------------------------------------------------

def gen_forward_model(rng, user=False):
    """2-3 transition variables, each with its own dynamics  u = a1*u{+1} + a2*u{+2} + b*u{-1} + h(earlier variables) + k + c*shock
    (u = x or log(x) for a log-variable), |a1|+|a2|+|b| < 1 and h depending on earlier variables only: the linearisation is block
    triangular with exactly one stable root per variable, so the first-order solution (hence the default terminal condition) exists.
    Leads up to 2; `k` makes the chosen point a flat steady state; h is a random smooth tree, with user context functions if `user`."""
    n = rng.randint(2, 3)
    xs = [f"x{i}" for i in range(n)]
    lead = [rng.choice([0, 1, 2, 2]) for _ in range(n)]
    if max(lead) < 2 and rng.chance(0.7):
        lead[rng.randint(0, n - 1)] = 2
    if max(lead) == 0:
        lead[0] = 1
    logly = [rng.chance(0.3) for _ in range(n)]
    level = [round(0.8 + 1.2 * rng.random(), 3) for _ in range(n)]
    # data edge: a variable whose steady level is EXACTLY 0 multiplies a lead in a later equation that has no lead of its own, so that
    # at the steady state the derivatives of that equation w.r.t. all its leads are exactly 0.0 (stored zeros of the sparse pattern)
    zero_edge = None
    if rng.chance(0.6):
        z = rng.randint(0, n - 2)
        i_edge = rng.randint(z + 1, n - 1)
        logly[z] = False
        level[z] = 0.0
        lead[z] = max(lead[z], 1)
        lead[i_edge] = 0
        zero_edge = (z, i_edge)
    ps = ["p0"]
    par = {"p0": round(0.3 + 1.0 * rng.random(), 3)}
    shocks = [f"e{i}" for i in range(n)]
    names = xs + ps + shocks
    qid = {nm: i for i, nm in enumerate(names)}
    env = {}
    for i in range(n):
        for sft in range(-3, 4):
            env[(i, sft)] = level[i]
    for sft in range(-3, 4):
        env[(qid["p0"], sft)] = par["p0"]
        for e in shocks:
            env[(qid[e], sft)] = 0.0

    def u(i, sft):
        return ("log", ("t", i, sft)) if logly[i] else ("t", i, sft)
    eqs = []
    for i in range(n):
        sign = lambda: rng.choice([1, 1, -1])
        terms = [("mul", ("c", sign() * round(0.1 + 0.2 * rng.random(), 2)), u(i, -1))]
        if lead[i] >= 1:
            terms.append(("mul", ("c", sign() * round(0.1 + 0.2 * rng.random(), 2)), u(i, 1)))
        if lead[i] == 2:
            terms.append(("mul", ("c", sign() * round(0.1 + 0.15 * rng.random(), 2)), u(i, 2)))
        leaves = [(j, sft) for j in range(i) for sft in range(-1, lead[j] + 1)] + [(qid["p0"], 0)]
        h = gen_smooth(rng.fork(i), rng.randint(1, 3), leaves, env, user=(1.0 if user else 0.0))
        if user and not uses_user(h):
            h = ("softplus", h, ("c", 2.0)) if len(leaves) < 2 else ("hyp", h, ("t",) + tuple(rng.choice(leaves)))
        terms.append(("mul", ("c", round(0.1 + 0.2 * rng.random(), 2)), h))
        if zero_edge is not None and zero_edge[1] == i:
            z = zero_edge[0]
            js = [j for j in range(i) if lead[j] >= 1]
            j = rng.choice(js)
            terms.append(("mul", ("c", round(0.2 + 0.3 * rng.random(), 2)), ("mul", ("t", z, 0), ("t", j, rng.randint(1, lead[j])))))
        rhs = terms[0]
        for t in terms[1:]:
            rhs = ("add", rhs, t)
        k = plain(u(i, 0), env) - plain(rhs, env)
        rhs = ("add", ("add", rhs, ("c", float(k))), ("mul", ("c", round(0.5 + 0.5 * rng.random(), 2)), ("t", qid[shocks[i]], 0)))
        eqs.append((u(i, 0), rhs))
    src = ["!transition-variables " + ", ".join(xs), "!parameters p0", "!transition-shocks " + ", ".join(shocks), "!transition-equations"]
    for lhs, rhs in eqs:
        src.append(f"  {render(lhs, names, '{', '}')} = {render(rhs, names, '{', '}')};")
    if any(logly):
        src.append("!log-variables " + ", ".join(x for x, l in zip(xs, logly) if l))
    T = rng.randint(3, 5)
    init = {x: round(level[i] * (0.7 + 0.6 * rng.random()), 3) for i, x in enumerate(xs)}
    shock_values = {e: [round(0.4 * (rng.random() - 0.5), 3) if rng.chance(0.5) else 0.0 for _ in range(T)] for e in shocks}
    out = {"kind": "forward-model", "source": "\n".join(src), "assign": dict({x: level[i] for i, x in enumerate(xs)}, **par),
           "flat": True, "periods": T, "initial": init, "shocks": shock_values, "terminal": "first_order", "max_lead": max(lead),
           "zero_edge": zero_edge is not None}
    if user:
        out["context"] = sorted(USER_FUNCS)
    return out


class _Captured(Exception):
    pass


def oracle_simulate_stacked(ctx: Ctx, case):
    """run the public simulate(..., method="stacked_time") and compare, for every frame, the (eval_func, eval_jacob) pair that irispie
    hands to its solver: Jacobian at the solver's starting point vs Richardson differences of the stacked residuals (terminal condition,
    frames and user functions included -- whatever the real pipeline builds)"""
    import io, contextlib
    import irispie as ir
    import neqs
    try:
        m = build_model(case)
        with contextlib.redirect_stdout(io.StringIO()):
            m.solve()
    except Exception as ex:
        ctx.count("forward-models:build-or-solve-raised:" + type(ex).__name__)
        return
    T = case["periods"]
    start = ir.qq(2021, 1)
    end = start + (T - 1)
    db = ir.Databox()
    for x, v in case["initial"].items():
        if case.get("terminal") == "data":     # terminal condition taken from the data: supply the periods after the end
            lv = float(case["assign"][x])
            db[x] = ir.Series(periods=(start - 1, start - 2, end + 1, end + 2), values=np.array([v, v, lv, 0.9 * lv], dtype=float))
        else:
            db[x] = ir.Series(periods=(start - 1, start - 2), values=np.array([v, v], dtype=float))
    for e, vals in case["shocks"].items():
        db[e] = ir.Series(start=start, values=np.array(vals, dtype=float))
    frames = []
    original = neqs.damped_newton

    def capturing(*, eval_func, eval_jacob, init_guess, args=(), **kwargs):
        data, = args
        g0 = np.array(init_guess, dtype=float)
        rec = {"n": g0.size}
        try:
            with np.errstate(all="ignore"):
                f0 = np.array(eval_func(g0.copy(), data.copy()), dtype=float)
                rec["finite"] = bool(np.all(np.isfinite(f0)))
                try:
                    J = eval_jacob(g0.copy(), data.copy())
                    rec["J"] = np.array(J.toarray() if hasattr(J, "toarray") else J, dtype=float)
                except TypeError:
                    rec["rejected"] = True
                except Exception as ex:
                    rec["jacob_raised"] = f"{type(ex).__name__}: {str(ex)[:160]}"
                if "J" in rec and rec["finite"]:
                    h = 1e-3
                    D, E = np.zeros_like(rec["J"]), np.zeros_like(rec["J"])
                    for j in range(g0.size):
                        def g(u_):
                            x = g0.copy(); x[j] += u_
                            return np.array(eval_func(x, data.copy()), dtype=float)
                        d1 = (g(h) - g(-h)) / (2 * h)
                        d2 = (g(h / 2) - g(-h / 2)) / h
                        D[:, j], E[:, j] = (4 * d2 - d1) / 3, np.abs(d2 - d1)
                    rec["fd"], rec["err"] = D, E
        except Exception as ex:
            rec["func_raised"] = f"{type(ex).__name__}: {str(ex)[:160]}"
        frames.append(rec)
        return original(eval_func=eval_func, eval_jacob=eval_jacob, init_guess=init_guess, args=args, **kwargs)

    neqs.damped_newton = capturing
    try:
        with contextlib.redirect_stdout(io.StringIO()), np.errstate(all="ignore"):
            m.simulate(db, start >> end, method="stacked_time", when_fails="silent", terminal=case.get("terminal", "first_order"))
    except Exception as ex:
        ctx.count("forward-models:simulate-raised:" + type(ex).__name__)
    finally:
        neqs.damped_newton = original
    if not frames:
        ctx.count("forward-models:no-frame-captured")
        return
    ctx.count("oracle:simulate-stacked-models")
    ctx.count(f"forward-models:max-lead={case.get('max_lead')}")
    ctx.count("forward-models:with-user-context-functions" if case.get("context") else "forward-models:without-user-context-functions")
    for k, rec in enumerate(frames):
        ctx.count("oracle:simulate-stacked-frames")
        if rec.get("jacob_raised"):
            ctx.fail("simulate-stacked:raised", case, f"frame {k}: eval_jacob raised {rec['jacob_raised']} where eval_func evaluates")
            continue
        if "J" not in rec or "fd" not in rec:
            ctx.count("oracle:simulate-stacked-frames-skipped")
            continue
        J, D, E = rec["J"], rec["fd"], rec["err"]
        if J.shape != D.shape:
            ctx.fail("simulate-stacked:shape", case, f"frame {k}: Jacobian shape {J.shape} vs {D.shape}")
            continue
        compare_matrix(ctx, "simulate-stacked", case, f"simulate(method='stacked_time') frame {k} ({J.shape[0]} unknowns, terminal={case.get('terminal')})",
                       J, lambda i, j: (D[i, j], E[i, j]))


def terminator_lines(m, T):
    """E-class correspondence of the terminal-condition bookkeeping (`Terminator.__init__`, `create_terminal_jacobian_map`)"""
    from irispie.incidences.main import Token
    from irispie.incidences import main as inc
    from irispie.quantities import QuantityKind as QK
    from irispie.equations import EquationKind as EK
    from irispie import equations as eqm
    from irispie.fords.terminators import Terminator
    inv = m._invariant
    eqs = [e for e in inv.dynamic_equations if e.kind in EK.TRANSITION_EQUATION]
    base = -inv._min_shift
    cols = tuple(range(base, base + T))
    term = Terminator(m, cols, eqs)
    xq = [q.id for q in inv.quantities if q.kind in QK.TRANSITION_VARIABLE]
    spots = [Token(q, c) for c in cols for q in xq]
    term.create_terminal_jacobian_map(spots)
    vec = m._get_dynamic_solution_vectors()
    curr_qids, _ = vec.get_curr_transition_indexes()
    last = cols[-1]
    term_cols = list(range(last + 1, last + 1 + m.max_lead))
    toks = [t for t in eqm.generate_all_tokens_from_equations(eqs) if t.qid in curr_qids]
    mx = inc.get_some_shift_by_quantities(toks, max)
    lines = [" ".join(["termspots", str(len(term_cols))] + [str(c) for c in term_cols] + [str(len(curr_qids))] + [str(q) for q in curr_qids]
                      + [str(last), str(len(mx))] + [f"{q} {v}" for q, v in sorted(mx.items())])]
    impl = [",".join(f"{i}:{t.qid}:{t.shift}" for i, t in zip(term._terminal_column_index, term.terminal_wrt_spots))]
    terminit = [(t.qid, last + t.shift) for t in vec.transition_variables]
    lines.append(" ".join(["termjac"] + tok_list(spots) + tok_list(terminit)))
    tm = term.terminal_jacobian_map
    impl.append(",".join(f"{a}:{b}" for a, b in zip(tm.lhs[1], tm.rhs[1])))
    return lines, impl


def gen_linear_model(rng):
    """linear=True model: every equation is linear in the variables, the coefficients are (nonlinear) functions of the parameters"""
    nx = rng.randint(2, 3)
    nmeas = rng.randint(0, 2)
    xs = [f"x{i}" for i in range(nx)]
    ys = [f"m{i}" for i in range(nmeas)]
    ps = ["p0", "p1"]
    names = xs + ys + ps + [f"e{i}" for i in range(nx)] + [f"w{i}" for i in range(nmeas)]
    qid = {n: i for i, n in enumerate(names)}
    par = {p: round(0.2 + 0.6 * rng.random(), 3) for p in ps}
    env = {(qid[p], s): par[p] for p in ps for s in range(-3, 4)}

    def coef(r):
        return gen_smooth(r, r.randint(1, 2), [(qid[p], 0) for p in ps], env)

    def lin(r, toks, shock):
        t = None
        for k in range(r.randint(1, 3)):
            z, sft = r.choice(toks)
            term = ("mul", ("mul", ("c", 0.3), coef(r.fork(k))), ("t", qid[z], sft))
            t = term if t is None else ("add", t, term)
        return ("add", t, ("mul", ("c", round(0.5 + r.random(), 2)), ("t", qid[shock], 0)))
    src = ["!transition-variables " + ", ".join(xs), "!parameters " + ", ".join(ps), "!transition-shocks " + ", ".join(f"e{i}" for i in range(nx)),
           "!transition-equations"]
    for i, x in enumerate(xs):
        toks = [(z, sft) for z in xs for sft in (-2, -1, -1, 0, 1) if not (z == x and sft == 0)]
        src.append(f"  {x} = {render(lin(rng.fork(i), toks, f'e{i}'), names, '{', '}')};")
    if ys:
        src += ["!measurement-variables " + ", ".join(ys), "!measurement-shocks " + ", ".join(f"w{i}" for i in range(nmeas)), "!measurement-equations"]
        for i, y in enumerate(ys):
            toks = [(z, sft) for z in xs for sft in (0, -1, -2, -3)]
            src.append(f"  {y} = {render(lin(rng.fork(100 + i), toks, f'w{i}'), names, '{', '}')};")
    return {"source": "\n".join(src), "assign": dict(par), "linear": True}


def run_variant_models(ctx: Ctx, bad_rules: set, scale=1, oracle_only=False):
    """one model object with several parameter variants (different parameter values and steady states), linear and nonlinear;
    every variant's systemize() against differences at the point the harness builds from THAT variant's values; then the values
    of the same object are re-assigned and it is systemized again (multi-step history on one object)"""
    n = ctx.n(16, 160) * scale
    rng = ctx.rng.fork("variant-models")
    sm_lines, sm_impl, sm_cases = [], [], []
    for i in range(n):
        r = rng.fork(i)
        linear = (i % 2 == 0)
        case = gen_linear_model(r) if linear else gen_model(r, bad_rules)
        nv = r.randint(2, 3)
        base = case["assign"]

        def scaled(val, f):
            if isinstance(val, list):
                return [round(val[0] * f, 4), val[1]]
            return round(val * f, 4)
        variants = [{k: scaled(v, 1 + (0.25 if linear else 0.05) * kk * (1 if j % 2 else -1) * 0.5 * (1 + j % 3)) for j, (k, v) in enumerate(sorted(base.items()))}
                    for kk in range(nv)]
        case = dict(case, kind="variant-model", variants=variants)
        ctx.evaluations += 1
        ctx.nontriv(("variant-model", case["source"]))
        ctx.count("variant-models:linear" if linear else "variant-models:nonlinear")
        ctx.count(f"variant-models:n-variants={nv}")
        if i < 2:
            ctx.sample({"stream": "variant-model", "source": case["source"], "linear": linear, "variants": variants})
        check_variant_model(ctx, case)
        if not oracle_only:
            try:
                m = build_model(case)
                ls, im = sysmat_lines(case, m, variants, linear)
                sm_lines += ls; sm_impl += im
                sm_cases += [{"model": case["source"], "variant": k, "linear": linear, "values": variants[k]} for k in range(len(ls))]
            except Exception as ex:
                ctx.count("variant-models:sysmat-lines-raised:" + type(ex).__name__)
    if not oracle_only and sm_lines:
        compare_sysmat(ctx, sm_cases, sm_lines, sm_impl)


def sysmat_lines(case, m, assigns, linear):
    """end-to-end matrix correspondence: systemize()[k] A B D F G J (equation rows) of every variant against the Lean model's `systemAll`
    (generated rules + walk + seeds + offsets + maps + assembly) at the point built from that variant's own values"""
    inv = m._invariant
    sv = inv.dynamic_descriptor.system_vectors
    eqs = {e.id: e for e in inv.dynamic_equations}
    ql = m.create_qid_to_logly()
    nq = len(inv.quantities)
    bits = "".join("1" if ql.get(i, False) else "0" for i in range(nq))
    enc = lambda x: str(float_bits(x))
    off = -inv._min_shift
    try:
        systems = m.systemize(unpack_singleton=False)
    except TypeError:
        return [], []          # some equation is rejected: the rejection itself is compared in the tree streams
    lines, impl = [], []
    nT, nM = len(sv.transition_eids), len(sv.measurement_eids)
    all_eids = list(sv.transition_eids) + list(sv.measurement_eids)
    for vid, asg in enumerate(assigns):
        arr = own_data_array(m, asg, linear)
        toks = sorted(set((t.qid, t.shift) for eid in all_eids for t in eqs[eid].incidence))
        ws = ["sysall", "F", bits, str(len(toks))]
        for q, sft in toks:
            ws += [str(q), str(sft), enc(arr[q, off + sft])]
        ws += tok_list(sv.transition_variables) + tok_list(sv.transition_shocks) + tok_list(sv.measurement_variables) + tok_list(sv.measurement_shocks)
        for group in (sv.transition_eids, sv.measurement_eids):
            ws += [str(len(group))]
            for eid in group:
                ws += tok_list(sv.eid_to_wrt_tokens[eid]) + prefix(tree_of_xtring(eqs[eid].xtring), enc)
        lines.append(" ".join(ws))
        s_ = systems[vid]
        impl.append({"A": np.array(s_.A[:nT, :], dtype=float), "B": np.array(s_.B[:nT, :], dtype=float), "D": np.array(s_.D[:nT, :], dtype=float),
                     "F": np.array(s_.F, dtype=float), "G": np.array(s_.G, dtype=float), "J": np.array(s_.J, dtype=float)})
    return lines, impl


def compare_sysmat(ctx: Ctx, cases, lines, impl):
    reps = ctx.model("C02", lines)
    if reps is None:
        return
    import struct
    ctx.streams_compared["system-matrix"] = ctx.streams_compared.get("system-matrix", 0) + len(lines)
    for c, im, rep in zip(cases, impl, reps):
        if rep.startswith("err") or rep == "bad-op":
            ctx.disagree("system-matrix", c, "matrices", rep[:80])
            continue
        try:
            parts = dict(p.split("=", 1) for p in rep.split("|"))
            ok = True
            for name in "ABDFGJ":
                M = im[name]
                txt = parts[name]
                vals = [struct.unpack("<d", struct.pack("<Q", int(w)))[0] for r in txt.split(";") for w in r.split(",") if w] if txt else []
                if len(vals) != M.size:
                    ok = False
                    ctx.disagree("system-matrix", c, f"{name} has shape {M.shape}", f"{name} has {len(vals)} entries")
                    break
                mm = np.array(vals, dtype=float).reshape(M.shape)
                if not all(close(float(a), float(b)) for a, b in zip(M.ravel(), mm.ravel())):
                    ok = False
                    ctx.disagree("system-matrix", c, f"{name}={M.tolist()}", f"{name}={mm.tolist()}")
                    break
                ctx.count(f"system-matrix:{name}-entries", int(M.size))
            if ok:
                ctx.count("system-matrix:agree")
        except Exception as ex:
            ctx.disagree("system-matrix", c, "matrices", f"unparsable reply ({type(ex).__name__}): {rep[:80]}")


def check_variant_model(ctx: Ctx, case):
    try:
        m = build_model(case)
    except Exception as ex:
        ctx.count("variant-models:build-raised:" + type(ex).__name__)
        return
    linear = bool(case.get("linear"))
    for vid, asg in enumerate(case["variants"]):
        before = len(ctx.failures)
        oracle_systemize(ctx, case, m, prefix="variant:", vid=vid, arr_override=own_data_array(m, asg, linear))
        ctx.count("oracle:variant-systemize-evaluations")
        if len(ctx.failures) > before:
            return
    # re-assign on the same object, systemize again: the last variant's values now in every variant
    last = case["variants"][-1]
    try:
        m.assign(**{k: (tuple(v) if isinstance(v, list) else v) for k, v in last.items()})
    except Exception as ex:
        ctx.count("variant-models:reassign-raised:" + type(ex).__name__)
        return
    oracle_systemize(ctx, case, m, prefix="variant:reassigned:", vid=0, arr_override=own_data_array(m, last, linear))


def terminated_evaluator(m, T):
    """stacked-time evaluator with the first-order Terminator, built as stacked_time/simulators.py builds it"""
    from irispie.incidences.main import Token
    from irispie.quantities import QuantityKind as QK
    from irispie.equations import EquationKind as EK
    from irispie.stacked_time import _evaluators as ste
    from irispie.fords.terminators import Terminator
    inv = m._invariant
    eqs = [e for e in inv.dynamic_equations if e.kind in EK.TRANSITION_EQUATION]
    base = -inv._min_shift
    cols = tuple(range(base, base + T))
    xq = [q.id for q in inv.quantities if q.kind in QK.TRANSITION_VARIABLE]
    spots = tuple(Token(q, c) for c in cols for q in xq)
    term = Terminator(m, cols, eqs)
    term.create_terminal_jacobian_map(spots)
    ev = ste.create_evaluator(spots, cols, eqs, inv.quantities, term, m.get_context())
    return ev, term, spots, cols, eqs, xq


def oracle_terminated_history(ctx: Ctx, case, m, lines_out=None):
    """call history on ONE stacked-time evaluator with the first-order terminal condition: the first Jacobian at the exact steady state
    (where a zero-level variable makes some lead derivatives exactly 0.0), then at generic points (guess updated in place, same data array);
    every call against differences of a fresh evaluator's eval_func; `termrows`: the rows cached by terminate_jacobian vs the structural rows"""
    T = case["periods"]
    inv = m._invariant
    ql = m.create_qid_to_logly()
    ms, Ms = inv._min_shift, inv._max_shift
    try:
        ev, term, spots, cols, eqs, xq = terminated_evaluator(m, T)
        ref, *_ = terminated_evaluator(m, T)
        arr = m._variants[0].create_steady_array(ql, num_columns=-ms + T + Ms + 1, shift_in_first_column=ms)
        g0 = np.array(ev.get_init_guess(arr.copy()), dtype=float)
    except Exception as ex:
        ctx.count("oracle:terminated-history-setup-raised:" + type(ex).__name__)
        return
    wob = 0.08 * np.sin(1.0 + np.arange(len(g0))) + 0.05
    x, data = g0.copy(), arr.copy()
    steps = []

    def dense(Jk):
        return np.array(Jk.toarray() if hasattr(Jk, "toarray") else Jk, dtype=float)
    try:
        with np.errstate(all="ignore"):
            steps.append(("first call, at the steady state", x.copy(), dense(ev.eval_jacob(x, data))))
            rows_cached = sorted(set(int(r) for r in np.ravel(term.terminal_jacobian_map.lhs[0])))
            x += wob
            steps.append(("second call after x += step", x.copy(), dense(ev.eval_jacob(x, data))))
            x[:] = g0 - 0.6 * wob
            steps.append(("func_jacob after x[:] = point", x.copy(), dense(ev.eval_func_jacob(x, data)[1])))
    except TypeError:
        ctx.count("oracle:terminated-history-rejected")
        return
    except Exception as ex:
        ctx.fail("stacked-terminal:raised", case, f"stacked-time evaluator with terminal condition raised {type(ex).__name__}: {str(ex)[:200]}")
        return
    ctx.count("oracle:terminated-history-models")
    ctx.count("oracle:terminated-history-zero-edge" if case.get("zero_edge") else "oracle:terminated-history-no-zero-edge")
    for label, point, Jk in steps:
        D, E = np.zeros(Jk.shape), np.zeros(Jk.shape)
        for j in range(len(point)):
            def g(u):
                xx = point.copy(); xx[j] += u
                with np.errstate(all="ignore"):
                    return np.array(ref.eval_func(xx, arr.copy()), dtype=float)
            h = 1e-3
            d1 = (g(h) - g(-h)) / (2 * h)
            d2 = (g(h / 2) - g(-h / 2)) / h
            D[:, j], E[:, j] = (4 * d2 - d1) / 3, np.abs(d2 - d1)
        if not compare_matrix(ctx, "stacked-terminal:history", case,
                              f"stacked-time Jacobian with first-order terminal condition, call history on one evaluator ({label})",
                              Jk, lambda i, j: (D[i, j], E[i, j])):
            break
    if lines_out is not None:
        wrts = [[t for t in e.incidence if t.qid in set(xq)] for e in eqs]
        allspots = list(spots) + list(term.terminal_wrt_spots)
        ws = ["termrows"] + tok_list(allspots) + [str(len(spots)), str(len(cols))] + [str(c) for c in cols] + [str(len(wrts))]
        for w in wrts:
            ws += tok_list(w)
        lines_out.append((" ".join(ws), ",".join(str(r) for r in rows_cached), {"model": case["source"], "request": "termrows"}))


def run_forward_models(ctx: Ctx, scale=1, oracle_only=False):
    n = ctx.n(16, 200) * scale
    rng = ctx.rng.fork("forward-models")
    t_lines, t_impl, t_cases = [], [], []
    for i in range(n):
        r = rng.fork(i)
        case = gen_forward_model(r, user=(i % 2 == 1))
        if i % 5 == 4:
            case["terminal"] = "data"
        ctx.evaluations += 1
        ctx.nontriv(("forward-model", case["source"]))
        if i < 2:
            ctx.sample({"stream": "forward-model", "source": case["source"], "periods": case["periods"], "terminal": case["terminal"]})
        oracle_simulate_stacked(ctx, case)
        # the same models through the direct oracles (scalar evaluation of the user functions: systemize, steady; vectorised: stacked)
        try:
            m = build_model(case)
        except Exception:
            continue
        mc = dict(case, kind="model")
        oracle_systemize(ctx, mc, m)
        oracle_steady(ctx, mc, m)
        oracle_stacked(ctx, mc, m)
        if case.get("context"):
            check_rebinding_model(ctx, dict(mc, sequence=["B", "A"]))
        if oracle_only and case.get("terminal") == "first_order":
            try:
                with contextlib.redirect_stdout(io.StringIO()):
                    m.solve()
                oracle_terminated_history(ctx, case, m)
            except Exception as ex:
                ctx.count("forward-models:terminated-history-raised:" + type(ex).__name__)
        if not oracle_only:
            try:
                with contextlib.redirect_stdout(io.StringIO()):
                    m.solve()
                ls, im = terminator_lines(m, case["periods"])
                t_lines += ls; t_impl += im; t_cases += [{"model": case["source"], "request": l[:200]} for l in ls]
                if case.get("terminal") == "first_order":
                    extra = []
                    oracle_terminated_history(ctx, case, m, extra)
                    for l, im1, c1 in extra:
                        t_lines.append(l); t_impl.append(im1); t_cases.append(c1)
                ls, im = maps_lines(ctx, mc, m)
                t_lines += ls; t_impl += im; t_cases += [{"model": case["source"], "request": l[:200]} for l in ls]
            except Exception as ex:
                ctx.count("forward-models:terminator-lines-raised:" + type(ex).__name__)
    if not oracle_only and t_lines:
        ctx.compare("terminator-and-maps", t_cases, t_impl, ctx.model("C02", t_lines))


def run_models(ctx: Ctx, bad_rules: set, oracle_only=False, scale=1):
    n = ctx.n(30, 500) * scale
    rng = ctx.rng.fork("models")
    map_lines, map_impl, map_cases = [], [], []
    ad_lines, ad_impl, ad_cases = [], [], []
    for i in range(n):
        r = rng.fork(i)
        case = {"kind": "model", **gen_model(r, bad_rules, user=(i % 3 == 2))}
        try:
            m = build_model(case)
        except Exception as ex:
            ctx.count("models:build-raised:" + type(ex).__name__)
            continue
        try:
            oracle_systemize(ctx, case, m)
        except Exception as ex:
            ctx.fail("systemize:raised", case, f"comparing systemize() with finite differences raised {type(ex).__name__}: {str(ex)[:200]}")
        ctx.evaluations += 1
        inv = m._invariant
        ctx.nontriv(("model", case["source"]))
        ctx.count("models:transition-vars", 0)
        ctx.count(f"models:n-transition-eqs={len(inv.dynamic_descriptor.system_vectors.transition_eids)}")
        ctx.count(f"models:n-measurement-eqs={len(inv.dynamic_descriptor.system_vectors.measurement_eids)}")
        ctx.count("models:with-log-variables" if "!log-variables" in case["source"] else "models:without-log-variables")
        ctx.count("models:with-user-context-functions" if case.get("context") else "models:without-user-context-functions")
        if i < 2:
            ctx.sample({"stream": "model", "source": case["source"], "assign": case["assign"]})
        oracle_steady(ctx, case, m)
        oracle_stacked(ctx, case, m)
        if case.get("context"):
            check_rebinding_model(ctx, dict(case, sequence=["B", "A"]))      # binding A was built just above
        if not oracle_only:
            try:
                ls, im = maps_lines(ctx, case, m)
                map_lines += ls; map_impl += im; map_cases += [{"model": case["source"], "request": l[:200]} for l in ls]
                ls, im = ([], []) if case.get("context") else staged_ad_lines(case, m)   # no Lean rule for user functions
                ad_lines += ls; ad_impl += im; ad_cases += [{"model": case["source"], "equation": k} for k in range(len(ls))]
            except Exception as ex:
                ctx.count("models:maps-raised:" + type(ex).__name__)
    if not oracle_only:
        ctx.compare("maps", map_cases, map_impl, ctx.model("C02", map_lines))
        reps = ctx.model("C02", ad_lines)
        if reps is not None:
            ctx.streams_compared["system-ad-rows"] = len(ad_lines)
            for c, (v, d), rep in zip(ad_cases, ad_impl, reps):
                p = parse_reply(rep, "F")
                if p[0] != "ok" or not close(v, p[1]) or len(p[2]) != len(d) or not all(close(a, b) for a, b in zip(d, p[2])):
                    ctx.disagree("system-ad-rows", c, f"value={v} diff={d}", rep if p[0] != "ok" else f"value={p[1]} diff={p[2]}")


# ---------------------------------------------------------------------------------------
# corpus, entry points
# ---------------------------------------------------------------------------------------

def replay_case(ctx: Ctx, case, bad_rules=None):
    bad_rules = set() if bad_rules is None else bad_rules
    if case.get("kind") == "tree":
        c = dict(case, tree=tuplify(case["tree"]))
        check_tree_oracle(ctx, c, bad_rules)
        ctx.evaluations += 1
    elif case.get("kind") == "tree-rebinding":
        check_rebinding_tree(ctx, case)
    elif case.get("kind") == "model-rebinding":
        seq = case.get("sequence") or ["A", "B", "A"]
        check_rebinding_model(ctx, dict(case, sequence=(["A"] + seq if seq[0] != "A" else seq)))
    elif case.get("kind") == "variant-model":
        check_variant_model(ctx, case)
        ctx.evaluations += 1
    elif case.get("kind") == "forward-model":
        oracle_simulate_stacked(ctx, case)
        if case.get("terminal") == "first_order":
            try:
                m = build_model(case)
                with contextlib.redirect_stdout(io.StringIO()):
                    m.solve()
                oracle_terminated_history(ctx, case, m)
            except Exception as ex:
                ctx.count("replay:terminated-history-raised:" + type(ex).__name__)
        ctx.evaluations += 1
    elif case.get("kind") == "model":
        try:
            m = build_model(case)
        except Exception as ex:
            ctx.count("replay:model-build-raised:" + type(ex).__name__)
            return
        oracle_systemize(ctx, case, m)
        oracle_steady(ctx, case, m)
        oracle_stacked(ctx, case, m)
        ctx.evaluations += 1


def run_corpus(ctx: Ctx, bad_rules: set):
    for path in sorted(glob.glob(os.path.join(VERIF, "corpus", "C02", "*.json"))):
        payload = json.load(open(path))
        replay_case(ctx, payload.get("case", {}), bad_rules)
        ctx.count("corpus:replayed")


def run(ctx: Ctx):
    ctx.rule = ("trees: one directed case per rule x argument kind x Jacobian mode x log-status, random polynomial trees on dyadic data "
                "(exact comparison) and random general trees (all operators and offered functions, depth <= 4, 1-3 quantities, lags/leads -1..1, "
                "conditioning guards on every node) through Context.eval_to_arrays with the system / flat / non-flat seeds; a tree is non-trivial "
                "when it combines at least two different operators/functions, distinct by (set of operators, mode, log-status). models: random "
                "2-4 variable models with lags <= 2, leads <= 2, 0-2 measurement equations, log-variables and growth, distinct by source text; "
                "for each: systemize() A B D F G J and dynamic identities, flat and non-flat steady Jacobians, stacked-time Jacobian (3 periods) "
                "against Richardson finite differences entry by entry, scatter maps and AD rows against the Lean model")
    bad_rules: set = set()
    run_corpus(ctx, bad_rules)
    run_trees(ctx, bad_rules)
    run_models(ctx, bad_rules)
    run_forward_models(ctx)
    run_variant_models(ctx, bad_rules)
    hist = getattr(ctx, "_evhist", [])
    if hist:
        ctx.compare("evaluator-history", [h[2] for h in hist], [h[1] for h in hist], ctx.model("C02", [h[0] for h in hist]))
    ctx.extra["rules_failing_the_oracle"] = sorted(bad_rules)


def search(ctx: Ctx, seeds):
    """failing-input search on the real code when a tie broke: the oracles alone, bigger budget, seeded by the disagreements"""
    bad_rules: set = set()
    for s in seeds:
        c = s.get("case") if isinstance(s, dict) else None
        if isinstance(c, dict) and "tree" in c:
            replay_case(ctx, dict(c, kind="tree"), bad_rules)
    run_corpus(ctx, bad_rules)
    run_trees(ctx, bad_rules, oracle_only=True, scale=3)
    run_models(ctx, bad_rules, oracle_only=True, scale=2)
    run_forward_models(ctx, scale=2, oracle_only=True)
    run_variant_models(ctx, bad_rules, scale=2, oracle_only=True)


def replay(ctx: Ctx, payload):
    case = payload.get("case", {})
    replay_case(ctx, case)
    if case.get("kind") == "tree":
        c = dict(case, tree=tuplify(case["tree"]))
        tree_stream(ctx, "replay", [c], "F")
