/-
C02 — executable model of irispie's algorithmic differentiator (`aldi/`), of the seeds used by the three
Jacobian builders and of the scatter maps that place the derivatives in the Jacobian matrices.

* `Expr α`       equation trees as Python evaluates the `xtring` of an equation: numeric literals, tokens
                 `x[(qid, t+shift)]` (variables, shocks and parameters alike), `+ - * / **`, unary `-`/`+`, the nine
                 functions offered by `aldi/adaptations.py`.
* `eval`         the plain meaning (what `equators.plain.PlainEquator` computes on a data array).
* `adEval`       the operator-overloading walk of `aldi.differentiators.Context.eval`: every token is an `Atom`
                 `(value, diff)`; Python's binary-operator protocol (`__op__` / reflected `__rop__`, aliases) and the
                 `hasattr(x, name)` dispatch of `adaptations.py` are decided from the *generated* method table
                 `Gen.Atom.methods`, the arithmetic is done by the *generated* rules `Gen.Atom.*_value/_diff`.
                 A missing method is `Err.typeError` (Python raises `TypeError`: the equation is rejected).
* seeds          `create_diff_for_token` of `fords/descriptors.py` (`seedSystem`), `steadiers/_jacobian.py`
                 (`seedFlat`, `seedNonflat`), `stacked_time/_jacobians.py` (= `seedSystem`, one per column).
* maps           `create_eid_to_rhs_offset`, `ArrayMap.static`, `SystemMap` A/B/D/F/G/J with the lagged-vector rule,
                 `_create_system_transition_vector`, `_create_dynid_matrices`, the stacked-time map.

One derivative direction `j` is modelled at a time (numpy evaluates all directions elementwise in one array).
No Mathlib import: this file is loaded by the interpreted driver.
-/
import IrisVerif.Generated.AtomGen

namespace IrisVerif.AD
open IrisVerif.Gen

inductive Fn1 | log | exp | sqrt | abs | logistic | normal_cdf | normal_pdf
  deriving DecidableEq, Repr

inductive Fn2 | maximum | minimum
  deriving DecidableEq, Repr

inductive BinOp | add | sub | mul | div | pow
  deriving DecidableEq, Repr

def Fn1.name : Fn1 → String
  | .log => "log" | .exp => "exp" | .sqrt => "sqrt" | .abs => "abs" | .logistic => "logistic"
  | .normal_cdf => "normal_cdf" | .normal_pdf => "normal_pdf"

def Fn2.name : Fn2 → String
  | .maximum => "maximum" | .minimum => "minimum"

/-- the method Python calls for `atom ⊕ _` -/
def BinOp.dunder : BinOp → String
  | .add => "__add__" | .sub => "__sub__" | .mul => "__mul__" | .div => "__truediv__" | .pow => "__pow__"

/-- the reflected method Python calls for `number ⊕ atom` -/
def BinOp.rdunder : BinOp → String
  | .add => "__radd__" | .sub => "__rsub__" | .mul => "__rmul__" | .div => "__rtruediv__" | .pow => "__rpow__"

inductive Expr (α : Type) where
  | const (c : α)
  | tok (qid : Nat) (shift : Int)
  | neg (e : Expr α)
  | pos (e : Expr α)
  | bin (op : BinOp) (a b : Expr α)
  | call1 (f : Fn1) (a : Expr α)
  | call2 (f : Fn2) (a b : Expr α)
  deriving Repr

/-- what a Python sub-expression evaluates to inside `Context.eval`: a plain number or an `Atom` -/
inductive Val (α : Type) where
  | num (x : α)
  | atom (value diff : α)
  deriving Repr

inductive Err where
  /-- Python raises `TypeError`: no `Atom` method is reached -/
  | typeError
  /-- the method exists in the code but this model has no rule for it (a rule was added to `Atom`) -/
  | unmodelled
  deriving DecidableEq, Repr

/-- evaluation context of one derivative direction -/
structure Ctx (α : Type) where
  /-- `data_array[qid, column_offset + shift]` -/
  data : Nat → Int → α
  /-- `Atom._diff` of the token in the direction looked at (`create_diff_for_token`) -/
  seed : Nat → Int → α
  /-- `qid_to_logly` -/
  logly : Nat → Bool
  /-- numpy/scipy functions that have no symbol in `ADFun` (`abs`, `normal_cdf`, `normal_pdf`), on plain numbers -/
  ext : Fn1 → α → α

section
variable {α : Type} [Add α] [Sub α] [Mul α] [Div α] [Neg α] [NatCast α] [ADFun α]

def evalBin : BinOp → α → α → α
  | .add, a, b => a + b
  | .sub, a, b => a - b
  | .mul, a, b => a * b
  | .div, a, b => a / b
  | .pow, a, b => ADFun.pw a b

def evalFn1 (ext : Fn1 → α → α) : Fn1 → α → α
  | .log, x => ADFun.log x
  | .exp, x => ADFun.exp x
  | .sqrt, x => ADFun.sqrt x
  | .logistic, x => ADFun.expit x
  | f, x => ext f x

/-- `numpy.maximum` / `numpy.minimum` on scalars -/
def evalFn2 : Fn2 → α → α → α
  | .maximum, a, b => if ADFun.ltb a b then b else a
  | .minimum, a, b => if ADFun.ltb b a then b else a

/-- the plain meaning of an equation tree (`PlainEquator.eval`) -/
def eval (c : Ctx α) : Expr α → α
  | .const k => k
  | .tok q s => c.data q s
  | .neg e => -(eval c e)
  | .pos e => eval c e
  | .bin op a b => evalBin op (eval c a) (eval c b)
  | .call1 f a => evalFn1 c.ext f (eval c a)
  | .call2 f a b => evalFn2 f (eval c a) (eval c b)

/-! ### the dispatch, decided from the generated tables -/

def hasMethod (n : String) : Bool := Atom.methods.contains n

def resolve (n : String) : String := (Atom.aliases.lookup n).getD n

/-- rule of a binary method whose argument is an `Atom` -/
def applyAA (m : String) (sv sd ov od : α) : Except Err (Val α) :=
  if m = "__add__" then .ok (.atom (Atom.add_aa_value sv sd ov od) (Atom.add_aa_diff sv sd ov od))
  else if m = "__sub__" then .ok (.atom (Atom.sub_aa_value sv sd ov od) (Atom.sub_aa_diff sv sd ov od))
  else if m = "__mul__" then .ok (.atom (Atom.mul_aa_value sv sd ov od) (Atom.mul_aa_diff sv sd ov od))
  else if m = "__truediv__" then .ok (.atom (Atom.truediv_aa_value sv sd ov od) (Atom.truediv_aa_diff sv sd ov od))
  else if m = "__pow__" then .ok (.atom (Atom.pow_aa_value sv sd ov od) (Atom.pow_aa_diff sv sd ov od))
  else .error .unmodelled

/-- rule of a binary method whose argument is a plain number -/
def applyAN (m : String) (sv sd o : α) : Except Err (Val α) :=
  if m = "__add__" then .ok (.atom (Atom.add_an_value sv sd o) (Atom.add_an_diff sv sd o))
  else if m = "__sub__" then .ok (.atom (Atom.sub_an_value sv sd o) (Atom.sub_an_diff sv sd o))
  else if m = "__mul__" then .ok (.atom (Atom.mul_an_value sv sd o) (Atom.mul_an_diff sv sd o))
  else if m = "__truediv__" then .ok (.atom (Atom.truediv_an_value sv sd o) (Atom.truediv_an_diff sv sd o))
  else if m = "__pow__" then .ok (.atom (Atom.pow_an_value sv sd o) (Atom.pow_an_diff sv sd o))
  else if m = "__rsub__" then .ok (.atom (Atom.rsub_value sv sd o) (Atom.rsub_diff sv sd o))
  else if m = "__rtruediv__" then .ok (.atom (Atom.rtruediv_value sv sd o) (Atom.rtruediv_diff sv sd o))
  else .error .unmodelled

/-- Python's binary operator protocol on numbers and Atoms -/
def binop (op : BinOp) : Val α → Val α → Except Err (Val α)
  | .num a, .num b => .ok (.num (evalBin op a b))
  | .atom sv sd, .atom ov od =>
    if hasMethod op.dunder then applyAA (resolve op.dunder) sv sd ov od else .error .typeError
  | .atom sv sd, .num o =>
    if hasMethod op.dunder then applyAN (resolve op.dunder) sv sd o else .error .typeError
  | .num o, .atom sv sd =>
    if hasMethod op.rdunder then applyAN (resolve op.rdunder) sv sd o else .error .typeError

def unop (isNeg : Bool) : Val α → Except Err (Val α)
  | .num a => .ok (.num (if isNeg then -a else a))
  | .atom sv sd =>
    if isNeg then
      if hasMethod "__neg__" then .ok (.atom (Atom.neg_value sv sd) (Atom.neg_diff sv sd)) else .error .typeError
    else
      if hasMethod "__pos__" then .ok (.atom (Atom.pos_value sv sd) (Atom.pos_diff sv sd)) else .error .typeError

/-- `adaptations.<name>(x)`: `x.<name>()` when `hasattr(x, name)`, else the numpy function (raises on an Atom) -/
def call1 (ext : Fn1 → α → α) (f : Fn1) : Val α → Except Err (Val α)
  | .num a => .ok (.num (evalFn1 ext f a))
  | .atom sv sd =>
    if hasMethod f.name then
      match f with
      | .log => .ok (.atom (Atom.log_value sv sd) (Atom.log_diff sv sd))
      | .exp => .ok (.atom (Atom.exp_value sv sd) (Atom.exp_diff sv sd))
      | .sqrt => .ok (.atom (Atom.sqrt_value sv sd) (Atom.sqrt_diff sv sd))
      | .logistic => .ok (.atom (Atom.logistic_value sv sd) (Atom.logistic_diff sv sd))
      | _ => .error .unmodelled
    else .error .typeError

/-- `adaptations.<name>(x, y)`: dispatch on the FIRST argument only -/
def call2 (f : Fn2) : Val α → Val α → Except Err (Val α)
  | .num a, .num b => .ok (.num (evalFn2 f a b))
  | .num _, .atom _ _ => .error .typeError
  | .atom sv sd, y =>
    if hasMethod f.name then
      match f, y with
      | .maximum, .atom ov od => .ok (.atom (Atom.maximum_aa_value sv sd ov od) (Atom.maximum_aa_diff sv sd ov od))
      | .maximum, .num o => .ok (.atom (Atom.maximum_an_value sv sd o) (Atom.maximum_an_diff sv sd o))
      | _, _ => .error .unmodelled
    else .error .typeError

/-- `Context.eval` on one equation tree, one derivative direction -/
def adEval (c : Ctx α) : Expr α → Except Err (Val α)
  | .const k => .ok (.num k)
  | .tok q s => .ok (.atom (c.data q s) (Atom.diffProp (c.seed q s) (c.data q s) (c.logly q)))
  | .neg e => do unop true (← adEval c e)
  | .pos e => do unop false (← adEval c e)
  | .bin op a b => do binop op (← adEval c a) (← adEval c b)
  | .call1 f a => do call1 c.ext f (← adEval c a)
  | .call2 f a b => do call2 f (← adEval c a) (← adEval c b)

/-- `finite_differentiators._partial_two_sided_derivative` in one argument: the two-sided difference quotient with step `eps`
    that differentiates user context functions (`eps = 1e-6 * max(|x|, 1)` in the code) -/
def centralDiff (f : α → α) (x eps : α) : α :=
  (f (x + eps) - f (x - eps)) / (((2 : Nat) : α) * eps)

/-- `finite_differentiators._calculate_finite_derivatives` for a one-argument user function `f` applied to an Atom `(v, d)`:
    value `f v`, derivative = two-sided difference quotient of `f` at `v` times the inner derivative -/
def userCall1Value (f : α → α) (v _d _eps : α) : α := f v
def userCall1Diff (f : α → α) (v d eps : α) : α := centralDiff f v eps * d

/-- two arguments: the total derivative, each partial by a two-sided difference quotient in its own argument -/
def userCall2Diff (f : α → α → α) (v1 d1 eps1 v2 d2 eps2 : α) : α :=
  centralDiff (fun y => f y v2) v1 eps1 * d1 + centralDiff (fun y => f v1 y) v2 eps2 * d2

/-- `_adapt_equation_for_aldi` appends `+ Atom.zero(shape)` to every equation -/
def adEquation (c : Ctx α) (e : Expr α) : Except Err (Val α) := do
  binop .add (← adEval c e) (.atom ((0 : Nat) : α) ((0 : Nat) : α))

end

/-! ### seeds (`create_diff_for_token`) -/

abbrev Token := Nat × Int

section
variable {α : Type} [NatCast α] [IntCast α]

/-- `fords/descriptors.py: _AtomFactory.create_diff_for_token`, component `j` (also the stacked-time factory, per column):
    the unit vector at the position of the token in the equation's wrt-list, `0` (an int) when it is not there -/
def seedSystem (wrt : List Token) (j : Nat) (q : Nat) (s : Int) : α :=
  if wrt.idxOf (q, s) = j then ((1 : Nat) : α) else ((0 : Nat) : α)

/-- `steadiers/_jacobian.py: _flat_create_diff_for_token`, component `j`: every shift of a wrt-quantity is seeded -/
def seedFlat (wrtQ : List Nat) (j : Nat) (q : Nat) (_s : Int) : α :=
  if wrtQ.idxOf q = j then ((1 : Nat) : α) else ((0 : Nat) : α)

/-- `_nonflat_create_diff_for_token`, component `j`, column `col` (0: level, 1: change): `diff[index, :] = 1, shift` -/
def seedNonflat (wrtQ : List Nat) (col : Nat) (j : Nat) (q : Nat) (s : Int) : α :=
  if wrtQ.idxOf q = j then (if col = 0 then ((1 : Nat) : α) else ((s : Int) : α)) else ((0 : Nat) : α)

end

/-! ### scatter maps (`aldi/maps.py`, `fords/descriptors.py: SystemMap`, `stacked_time/_jacobians.py`) -/

/-- one map entry: Jacobian cell `(lhsRow, lhsCol)` receives `diff_array[rhsRow, rhsCol]` -/
structure Entry where
  lhsRow : Nat
  lhsCol : Nat
  rhsRow : Nat
  rhsCol : Nat
  deriving DecidableEq, Repr

/-- running sums `[0, l0, l0+l1, …]` without the total -/
def offsetsFrom (acc : Nat) : List Nat → List Nat
  | [] => []
  | l :: ls => acc :: offsetsFrom (acc + l) ls

/-- `create_eid_to_rhs_offset` by position in `eids`; the code pops from an empty list (IndexError) when there is no equation -/
def rhsOffsets (lens : List Nat) : Option (List Nat) :=
  if lens.isEmpty then none else some (offsetsFrom 0 lens)

/-- `_get_raw_map_for_single_equation` (`rhs_column = 0`, `lhs_column_offset = 0`): the tokens of the equation's wrt-list,
    numbered from `rhsOffset`, that occur among the column tokens (`none` = a column with no token) -/
def rawMapAux (cols : List (Option Token)) (lhsRow : Nat) : Nat → List Token → List Entry
  | _, [] => []
  | r, t :: ts =>
    if cols.contains (some t) then ⟨lhsRow, cols.idxOf (some t), r, 0⟩ :: rawMapAux cols lhsRow (r + 1) ts
    else rawMapAux cols lhsRow (r + 1) ts

/-- `ArrayMap.static`: equations in `eqs` order are the rows; each comes with its wrt-list and its rhs offset -/
def staticMapAux (cols : List (Option Token)) : Nat → List (List Token × Nat) → List Entry
  | _, [] => []
  | row, (wrt, off) :: rest => rawMapAux cols row off wrt ++ staticMapAux cols (row + 1) rest

def staticMap (cols : List (Option Token)) (eqs : List (List Token × Nat)) : List Entry :=
  staticMapAux cols 0 eqs

def shifted (t : Token) (by_ : Int) : Token := (t.1, t.2 + by_)

/-- the lagged transition vector of `SystemMap.__init__`: `t.shifted(-1)` unless that token is itself in the vector -/
def laggedVector (tv : List Token) : List (Option Token) :=
  tv.map (fun t => if tv.contains (shifted t (-1)) then none else some (shifted t (-1)))

/-- `range(lo+1, hi+1)` shifts of one quantity (`_create_system_transition_vector.list_for_qid`) -/
def shiftRange (q : Nat) (lo : Int) : Nat → List Token
  | 0 => []
  | n + 1 => shiftRange q lo n ++ [(q, lo + 1 + (n : Int))]

/-- tokens `(q, lo+1) … (q, hi)` where `lo = min(min shift, -1)`, `hi = max shift` of the quantity -/
def tokensForQid (q : Nat) (minShift maxShift : Int) : List Token :=
  let lo := if minShift < -1 then minShift else -1
  shiftRange q lo (maxShift - lo).toNat

/-- insertion into a list sorted by `sort_tokens`' key `(-shift, qid)` -/
def tokenLe (a b : Token) : Bool := a.2 > b.2 || (a.2 = b.2 && a.1 ≤ b.1)

def insertToken (t : Token) : List Token → List Token
  | [] => [t]
  | x :: xs => if tokenLe t x then t :: x :: xs else x :: insertToken t xs

def sortTokens (l : List Token) : List Token := l.foldr insertToken []

/-- `_create_system_transition_vector` followed by `sort_tokens`; input: `(qid, min shift, max shift)` per transition variable -/
def transitionVector (ranges : List (Nat × Int × Int)) : List Token :=
  sortTokens (ranges.flatMap (fun r => tokensForQid r.1 r.2.1 r.2.2))

/-- `_create_dynid_matrices`: rows `(row, i, j)` meaning `A[row, i] = 1`, `B[row, j] = -1` with `tv[j] = tv[i].shifted(+1)`;
    a token with the largest shift of its quantity (no `tv` member one period later) gets no row -/
def dynidAux (tv : List Token) : Nat → Nat → List Token → List (Nat × Nat × Nat)
  | _, _, [] => []
  | row, i, t :: ts =>
    if tv.contains (shifted t 1) then (row, i, tv.idxOf (shifted t 1)) :: dynidAux tv (row + 1) (i + 1) ts
    else dynidAux tv row (i + 1) ts

def dynid (tv : List Token) : List (Nat × Nat × Nat) := dynidAux tv 0 0 tv

/-- all maps of `SystemMap`; `teqs`/`meqs`: wrt-lists of the transition / measurement equations in system order -/
structure SystemMaps where
  A : List Entry
  B : List Entry
  D : List Entry
  F : List Entry
  G : List Entry
  J : List Entry
  deriving Repr

def systemMaps (teqs meqs : List (List Token)) (tv shocks mvars mshocks : List Token) : Option SystemMaps := do
  let offs ← rhsOffsets ((teqs ++ meqs).map List.length)
  let t := teqs.zip (offs.take teqs.length)
  let m := meqs.zip (offs.drop teqs.length)
  pure {
    A := staticMap (tv.map some) t
    B := staticMap (laggedVector tv) t
    D := staticMap (shocks.map some) t
    F := staticMap (mvars.map some) m
    G := staticMap (tv.map some) m
    J := staticMap (mshocks.map some) m }

/-- `stacked_time/_jacobians.py: Jacobian._populate_map`: `spots` are the column tokens `(qid, data column)`;
    `cols` the data columns evaluated; entry rows are `eqn + numEqs * columnIndex` -/
def stackedForToken (spots : List Token) (numEqs eqn rhsRow : Nat) (tok : Token) : Nat → List Int → List Entry
  | _, [] => []
  | k, c :: cs =>
    if spots.contains (shifted tok c) then
      ⟨eqn + numEqs * k, spots.idxOf (shifted tok c), rhsRow, k⟩ :: stackedForToken spots numEqs eqn rhsRow tok (k + 1) cs
    else stackedForToken spots numEqs eqn rhsRow tok (k + 1) cs

def stackedForEq (spots : List Token) (cols : List Int) (numEqs eqn : Nat) : Nat → List Token → List Entry
  | _, [] => []
  | r, t :: ts => stackedForToken spots numEqs eqn r t 0 cols ++ stackedForEq spots cols numEqs eqn (r + 1) ts

def stackedAux (spots : List Token) (cols : List Int) (numEqs : Nat) : Nat → Nat → List (List Token) → List Entry
  | _, _, [] => []
  | eqn, off, wrt :: rest =>
    stackedForEq spots cols numEqs eqn off wrt ++ stackedAux spots cols numEqs (eqn + 1) (off + wrt.length) rest

def stackedMap (spots : List Token) (cols : List Int) (eqs : List (List Token)) : List Entry :=
  stackedAux spots cols eqs.length 0 0 eqs

/-! ### terminal condition bookkeeping (`fords/terminators.py`) -/

/-- one terminal column: the kept quantities with their running index -/
def termForCol (keep : Nat → Int → Bool) (c : Int) : Nat → List Nat → List (Nat × Token)
  | _, [] => []
  | inx, q :: qs =>
    if keep q c then (inx, (q, c)) :: termForCol keep c (inx + 1) qs else termForCol keep c (inx + 1) qs

/-- `enumerate(product(terminal_columns, curr_xi_qids))` filtered: column-major running index -/
def termSpotsAux (qids : List Nat) (keep : Nat → Int → Bool) : Nat → List Int → List (Nat × Token)
  | _, [] => []
  | inx, c :: cs => termForCol keep c inx qids ++ termSpotsAux qids keep (inx + qids.length) cs

/-- `Terminator.__init__`: `(terminal_column_index, terminal_wrt_spots)`; a spot `(qid, column)` is kept when
    `column ≤ last_simulation + max shift of the quantity` -/
def terminalSpots (termCols : List Int) (qids : List Nat) (maxShift : Nat → Int) (last : Int) : List (Nat × Token) :=
  termSpotsAux qids (fun q c => decide (c ≤ last + maxShift q)) 0 termCols

/-- `create_terminal_jacobian_map`: pairs `(lhs column, rhs column)`: the `r`-th entry of the terminal-initial vector
    (`Token(qid, last_simulation + shift)` of the solution's transition vector) that is a wrt-spot at position `l` -/
def terminalJacMapAux (wrtSpots : List Token) : Nat → List Token → List (Nat × Nat)
  | _, [] => []
  | r, t :: ts =>
    if wrtSpots.contains t then (wrtSpots.idxOf t, r) :: terminalJacMapAux wrtSpots (r + 1) ts
    else terminalJacMapAux wrtSpots (r + 1) ts

def terminalJacMap (wrtSpots terminit : List Token) : List (Nat × Nat) := terminalJacMapAux wrtSpots 0 terminit

end IrisVerif.AD
