/-
Minimal heap model for the isolation clause of C10: which data buffer every pool slot holds.

A buffer id stands for an *ownership class*: a numpy array together with the views cut out of it (`trim()` slices).
The table `Op.target` records, per operation of the protocol, what the code does with buffers:
* functional forms (`irispie.f(x)`, `x[k]`, `x(dates)`, `+x`, `-x`, operators, `copy()`, `hstack`) build their result in a
  deep copy (`new = self.copy()` in FUNC_STRING, `_binop`'s `Series(...)`) — a *fresh* buffer;
* in-place methods (`set_data`, `shift`, `clip`, `overlay`, `trim`, `empty`, `replace_where`, statistics, moving windows,
  `fill_missing`, `extrapolate` as methods) replace `self.data` by an array derived from the receiver's own buffer or newly
  allocated (`np.pad`, fancy indexing) — the slot stays in its *own* class;
* `underlay` is the special case: `new_self = other.copy(); new_self.overlay(self); self._shallow_copy_data(new_self)` —
  the receiver ends up holding the buffer of the temporary deep copy of `other`: *fresh*, never `other`'s own.
Reads allocate nothing that stays in the pool.
-/
import IrisVerif.Model.Series

namespace IrisVerif.Series

inductive Alloc where
  | fresh     -- the target slot holds a buffer that did not exist before the op
  | own       -- the target slot keeps (a view of / a replacement derived from) its own buffer
  deriving Repr, DecidableEq

/-- target slot and what it holds afterwards; `none` for read-only operations -/
def Op.target : Op → Option (Nat × Alloc)
  | .new k _ _ => some (k, .fresh)
  | .init k _ _ _ _ => some (k, .fresh)
  | .set i _ _ _ => some (i, .own)
  | .get _ _ _ => none
  | .gfu _ _ _ _ => none
  | .call k _ _ _ => some (k, .fresh)
  | .shift i _ => some (i, .own)
  | .fshift k _ _ => some (k, .fresh)
  | .clip i _ _ => some (i, .own)
  | .overlay i _ => some (i, .own)
  | .underlay i _ => some (i, .fresh)          -- the buffer of `other.copy()`
  | .foverlay k _ _ => some (k, .fresh)
  | .funderlay k _ _ => some (k, .fresh)
  | .hstack k _ => some (k, .fresh)
  | .binop k _ _ _ => some (k, .fresh)
  | .cmp _ _ _ => none
  | .scalar k _ _ _ _ => some (k, .fresh)
  | .unary k _ _ => some (k, .fresh)
  | .trim i => some (i, .own)
  | .empty i => some (i, .own)
  | .copy k _ => some (k, .fresh)
  | .stat k i _ => some (k, if k = i then .own else .fresh)         -- `mstat i` is `stat i i` in the protocol
  | .mov k i _ _ => some (k, if k = i then .own else .fresh)
  | .fill k i _ _ => some (k, if k = i then .own else .fresh)
  | .replaceWhere i _ _ => some (i, .own)
  | .extrap k i _ _ _ => some (k, if k = i then .own else .fresh)

structure Heap where
  arrs : List Nat      -- buffer class held by each pool slot
  next : Nat           -- the next fresh class
  deriving Repr

def Heap.init (n : Nat) : Heap := ⟨List.range n, n⟩

/-- the heap after a successful op -/
def Heap.step (h : Heap) (op : Op) : Heap :=
  match op.target with
  | some (k, .fresh) => if k < h.arrs.length then ⟨h.arrs.set k h.next, h.next + 1⟩ else h
  | _ => h

def Heap.run (h : Heap) : List Op → Heap
  | [] => h
  | op :: rest => (h.step op).run rest

/-- for every slot the first slot holding the same buffer class (what the harness computes with `np.shares_memory`) -/
def Heap.classes (h : Heap) : List Nat :=
  h.arrs.map (fun a => (h.arrs.idxOf a))

end IrisVerif.Series
