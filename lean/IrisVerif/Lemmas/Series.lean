/-
Helper lemmas for the Series model (property C10): cells of padded / sliced / assigned blocks,
leading and trailing all-NaN rows, positions computed by `getDatePositions`.
Core Lean only.
-/
import IrisVerif.Model.Series

namespace IrisVerif.Series
open IrisVerif.Dates

/-! ### predicates -/

/-- every row has exactly `nv` cells -/
def Rect (s : Series) : Prop := ∀ r ∈ s.rows, r.length = s.nv

/-- a series without a start has no rows (values without a period cannot exist) -/
def WF (s : Series) : Prop := s.start = none → s.rows = []

def Inv (s : Series) : Prop := Rect s ∧ WF s

/-- no all-missing leading or trailing period; the all-missing series is the empty one, without a start -/
def Trimmed (s : Series) : Prop :=
  (s.start = none ∧ s.rows = []) ∨
  (s.start.isSome = true ∧ ∃ r r', s.rows.head? = some r ∧ s.rows.getLast? = some r' ∧
    allNan r = false ∧ allNan r' = false)

/-- the reported span `[start, start + rows - 1]` -/
def InSpan (s : Series) (t : Int) : Prop :=
  ∃ st, s.start = some st ∧ st ≤ t ∧ t ≤ st + (s.rows.length : Int) - 1

/-! ### Except plumbing -/

theorem bind_ok {ε α β} (x : Except ε α) (f : α → Except ε β) (b : β) :
    (x >>= f) = .ok b ↔ ∃ a, x = .ok a ∧ f a = .ok b := by
  cases x <;> simp [bind, Except.bind]

/-! ### cells -/

theorem cellAt_none_of_ge (rows : List Row) (i v : Nat) (h : rows.length ≤ i) : cellAt rows i v = none := by
  simp [cellAt, List.getElem?_eq_none h]

theorem allNan_get (r : Row) (v : Nat) (h : allNan r = true) : (r[v]?).getD none = none := by
  cases hv : r[v]? with
  | none => rfl
  | some c =>
    have hm : c ∈ r := List.mem_of_getElem? hv
    have := (List.all_eq_true.mp h) c hm
    cases c <;> simp_all

theorem cellAt_allNan (rows : List Row) (i v : Nat) (r : Row) (h : rows[i]? = some r) (hn : allNan r = true) :
    cellAt rows i v = none := by
  simp [cellAt, h, allNan_get r v hn]

theorem allNan_nanRow (nv : Nat) : allNan (nanRow nv) = true := by
  simp [allNan, nanRow]

theorem cellAt_nanRows (n nv i v : Nat) : cellAt (nanRows n nv) i v = none := by
  unfold cellAt nanRows
  rw [List.getElem?_replicate]
  by_cases h : i < n
  · simp only [h, if_true]; exact allNan_get _ _ (allNan_nanRow nv)
  · simp only [h, if_false]

theorem cellAt_expand (nv : Nat) (rows : List Row) (b a i v : Nat) :
    cellAt (expand nv rows b a) i v = if i < b then none else cellAt rows (i - b) v := by
  unfold expand
  have hb : (nanRows b nv).length = b := by simp [nanRows]
  split
  · rename_i h
    unfold cellAt
    rw [List.append_assoc, List.getElem?_append_left (by omega)]
    exact cellAt_nanRows b nv i v
  · rename_i h
    unfold cellAt
    rw [List.append_assoc, List.getElem?_append_right (by omega), hb]
    by_cases h2 : i - b < rows.length
    · rw [List.getElem?_append_left h2]
    · rw [List.getElem?_append_right (by omega), List.getElem?_eq_none (l := rows) (by omega)]
      exact cellAt_nanRows a nv _ v

theorem length_expand (nv : Nat) (rows : List Row) (b a : Nat) :
    (expand nv rows b a).length = b + rows.length + a := by
  simp [expand, nanRows]; omega

theorem cellAt_drop_take (rows : List Row) (d k j v : Nat) :
    cellAt ((rows.drop d).take k) j v = if j < k then cellAt rows (d + j) v else none := by
  unfold cellAt
  rw [List.getElem?_take]
  by_cases h : j < k
  · simp only [h, if_true]; rw [List.getElem?_drop]
  · simp only [h, if_false]

/-! ### leading / trailing all-NaN rows -/

theorem numLeading_le (l : List Row) : numLeading l ≤ l.length := by
  induction l with
  | nil => simp [numLeading]
  | cons r rs ih => simp only [numLeading]; split <;> simp <;> omega

theorem numLeading_spec (l : List Row) (i : Nat) (h : i < numLeading l) :
    ∃ r, l[i]? = some r ∧ allNan r = true := by
  induction l generalizing i with
  | nil => simp [numLeading] at h
  | cons r rs ih =>
    simp only [numLeading] at h
    split at h
    · rename_i hr
      cases i with
      | zero => exact ⟨r, by simp, hr⟩
      | succ j => simpa using ih j (by omega)
    · omega

theorem numLeading_stop (l : List Row) (h : numLeading l < l.length) :
    ∃ r, l[numLeading l]? = some r ∧ allNan r = false := by
  induction l with
  | nil => simp at h
  | cons r rs ih =>
    simp only [numLeading] at h ⊢
    split
    · rename_i hr
      simp only [hr, if_true, List.length_cons] at h
      simpa using ih (by omega)
    · rename_i hr
      exact ⟨r, by simp, by simpa using hr⟩

theorem numLeading_all (l : List Row) (h : numLeading l = l.length) : ∀ r ∈ l, allNan r = true := by
  intro r hr
  obtain ⟨i, hi⟩ := List.mem_iff_getElem?.mp hr
  have hlt : i < l.length := by
    rcases List.getElem?_eq_some_iff.mp hi with ⟨h', _⟩; exact h'
  obtain ⟨r', h1, h2⟩ := numLeading_spec l i (by omega)
  rw [hi] at h1; cases h1; exact h2

/-- a row counted as trailing is all-NaN -/
theorem trailing_spec (l : List Row) (i : Nat) (hi : i < l.length) (h : l.length - numLeading l.reverse ≤ i) :
    ∃ r, l[i]? = some r ∧ allNan r = true := by
  have hlen : l.reverse.length = l.length := List.length_reverse
  obtain ⟨r, h1, h2⟩ := numLeading_spec l.reverse (l.length - 1 - i) (by omega)
  rw [List.getElem?_reverse (by omega)] at h1
  have : l.length - 1 - (l.length - 1 - i) = i := by omega
  rw [this] at h1
  exact ⟨r, h1, h2⟩

/-- the last row not counted as trailing holds a value -/
theorem trailing_stop (l : List Row) (h : numLeading l.reverse < l.length) :
    ∃ r, l[l.length - 1 - numLeading l.reverse]? = some r ∧ allNan r = false := by
  have hlen : l.reverse.length = l.length := List.length_reverse
  obtain ⟨r, h1, h2⟩ := numLeading_stop l.reverse (by omega)
  rw [List.getElem?_reverse (by omega)] at h1
  exact ⟨r, h1, h2⟩

/-- leading and trailing all-NaN blocks do not overlap unless every row is all-NaN -/
theorem lead_add_trail_lt (l : List Row) (h : numLeading l.reverse < l.length) :
    numLeading l + numLeading l.reverse < l.length := by
  obtain ⟨r, h1, h2⟩ := trailing_stop l h
  by_cases hc : l.length - 1 - numLeading l.reverse < numLeading l
  · obtain ⟨r', h3, h4⟩ := numLeading_spec l _ hc
    rw [h1] at h3; cases h3; simp_all
  · omega

/-! ### trim -/

theorem abs_eq_none_of_cells (s : Series) (t : Int) (v : Nat) (h : ∀ i, cellAt s.rows i v = none) :
    s.abs t v = none := by
  unfold Series.abs
  cases s.start with
  | none => rfl
  | some st => simp only; split <;> simp [h]

theorem abs_reset (s : Series) (t : Int) (v : Nat) : s.reset.abs t v = none := by
  simp [Series.reset, Series.abs]

theorem cells_none_of_size_zero (s : Series) (hR : Rect s) (h0 : s.rows.length * s.nv = 0) (i v : Nat) :
    cellAt s.rows i v = none := by
  unfold cellAt
  cases hi : s.rows[i]? with
  | none => rfl
  | some r =>
    have hm : r ∈ s.rows := List.mem_of_getElem? hi
    have hl := hR r hm
    have hne : s.rows.length ≠ 0 := by
      intro h; have := List.eq_nil_of_length_eq_zero h; simp [this] at hm
    have hnv : s.nv = 0 := by
      rcases Nat.mul_eq_zero.mp h0 with h | h
      · exact absurd h hne
      · exact h
    have : r = [] := List.eq_nil_of_length_eq_zero (by omega)
    simp [this]

theorem cells_none_of_allNan (rows : List Row) (h : ∀ r ∈ rows, allNan r = true) (i v : Nat) :
    cellAt rows i v = none := by
  cases hi : rows[i]? with
  | none => simp [cellAt, hi]
  | some r => exact cellAt_allNan rows i v r hi (h r (List.mem_of_getElem? hi))

/-- trimming never changes the map -/
theorem abs_trim (s : Series) (hR : Rect s) (t : Int) (v : Nat) : s.trim.abs t v = s.abs t v := by
  unfold Series.trim
  by_cases h0 : s.rows.length * s.nv = 0
  · simp only [h0, if_true]
    rw [abs_reset, abs_eq_none_of_cells s t v (fun i => cells_none_of_size_zero s hR h0 i v)]
  · simp only [h0, if_false]
    by_cases h1 : numLeading s.rows.reverse = s.rows.length
    · simp only [h1, if_true]
      have hall : ∀ r ∈ s.rows, allNan r = true := by
        intro r hr
        exact numLeading_all s.rows.reverse (by simpa using h1) r (List.mem_reverse.mpr hr)
      rw [abs_reset, abs_eq_none_of_cells s t v (fun i => cells_none_of_allNan s.rows hall i v)]
    · simp only [h1, if_false]
      have hT : numLeading s.rows.reverse < s.rows.length := by
        have := numLeading_le s.rows.reverse
        simp only [List.length_reverse] at this
        omega
      have hLT := lead_add_trail_lt s.rows hT
      unfold Series.abs
      cases hs : s.start with
      | none => simp
      | some st =>
        simp only [Option.map_some]
        by_cases c1 : st ≤ t
        · simp only [c1, if_true]
          by_cases c2 : st + (numLeading s.rows : Int) ≤ t
          · simp only [c2, if_true]
            rw [cellAt_drop_take]
            have e : numLeading s.rows + (t - (st + (numLeading s.rows : Int))).toNat = (t - st).toNat := by omega
            rw [e]
            split
            · rfl
            · rename_i c3
              by_cases c4 : (t - st).toNat < s.rows.length
              · obtain ⟨r, h3, h4⟩ := trailing_spec s.rows (t - st).toNat c4 (by omega)
                exact (cellAt_allNan _ _ v r h3 h4).symm
              · exact (cellAt_none_of_ge _ _ v (by omega)).symm
          · simp only [c2, if_false]
            obtain ⟨r, h3, h4⟩ := numLeading_spec s.rows (t - st).toNat (by omega)
            exact (cellAt_allNan _ _ v r h3 h4).symm
        · have c2 : ¬ st + (numLeading s.rows : Int) ≤ t := by omega
          simp only [c1, c2, if_false]

theorem rect_trim (s : Series) (hR : Rect s) : Rect s.trim := by
  unfold Series.trim
  by_cases h0 : s.rows.length * s.nv = 0
  · simp only [h0, if_true]; intro r hr; simp [Series.reset] at hr
  · simp only [h0, if_false]
    by_cases h1 : numLeading s.rows.reverse = s.rows.length
    · simp only [h1, if_true]; intro r hr; simp [Series.reset] at hr
    · simp only [h1, if_false]
      intro r hr
      exact hR r (List.mem_of_mem_drop (List.mem_of_mem_take hr))

/-- `trim` establishes `Trimmed` (given a start whenever there are rows) -/
theorem trimmed_trim (s : Series) (hW : s.rows ≠ [] → s.start.isSome = true) : Trimmed s.trim := by
  unfold Series.trim
  by_cases h0 : s.rows.length * s.nv = 0
  · simp only [h0, if_true]; left; simp [Series.reset]
  · simp only [h0, if_false]
    by_cases h1 : numLeading s.rows.reverse = s.rows.length
    · simp only [h1, if_true]; left; simp [Series.reset]
    · simp only [h1, if_false]
      right
      have hT : numLeading s.rows.reverse < s.rows.length := by
        have := numLeading_le s.rows.reverse
        simp only [List.length_reverse] at this
        omega
      have hLT := lead_add_trail_lt s.rows hT
      have hne : s.rows ≠ [] := by
        intro h; simp [h] at hT
      have hst := hW hne
      obtain ⟨r, h3, h4⟩ := numLeading_stop s.rows (by omega)
      obtain ⟨r', h5, h6⟩ := trailing_stop s.rows hT
      refine ⟨?_, r, r', ?_, ?_, h4, h6⟩
      · cases hs : s.start <;> simp_all
      · simp only [List.head?_eq_getElem?, List.getElem?_take, List.getElem?_drop]
        rw [if_pos (by omega)]; simpa using h3
      · simp only [List.getLast?_eq_getElem?, List.getElem?_take, List.getElem?_drop, List.length_take,
          List.length_drop]
        rw [if_pos (by omega)]
        have e : numLeading s.rows + (min (s.rows.length - numLeading s.rows - numLeading s.rows.reverse)
            (s.rows.length - numLeading s.rows) - 1) = s.rows.length - 1 - numLeading s.rows.reverse := by omega
        rw [e]; exact h5

theorem wf_trim (s : Series) (hW : s.rows ≠ [] → s.start.isSome = true) : WF s.trim := by
  intro h
  rcases trimmed_trim s hW with ⟨_, h2⟩ | ⟨h1, _⟩
  · exact h2
  · rw [h] at h1; simp at h1

theorem inv_trim (s : Series) (hR : Rect s) (hW : s.rows ≠ [] → s.start.isSome = true) : Inv s.trim :=
  ⟨rect_trim s hR, wf_trim s hW⟩

/-! ### positions -/

theorem foldr_min_le (ys : List Int) (y x : Int) (h : x ∈ y :: ys) : ys.foldr min y ≤ x := by
  induction ys with
  | nil => simp at h; simp [h]
  | cons z zs ih =>
    simp only [List.foldr_cons]
    rcases List.mem_cons.mp h with h | h
    · have := ih (by simp [h]); omega
    · rcases List.mem_cons.mp h with h | h
      · omega
      · have := ih (List.mem_cons_of_mem _ h); omega

theorem le_foldr_max (ys : List Int) (y x : Int) (h : x ∈ y :: ys) : x ≤ ys.foldr max y := by
  induction ys with
  | nil => simp at h; simp [h]
  | cons z zs ih =>
    simp only [List.foldr_cons]
    rcases List.mem_cons.mp h with h | h
    · have := ih (by simp [h]); omega
    · rcases List.mem_cons.mp h with h | h
      · omega
      · have := ih (List.mem_cons_of_mem _ h); omega

theorem minOr0_le (l : List Int) (x : Int) (h : x ∈ l) : minOr0 l ≤ x := by
  cases l with
  | nil => simp at h
  | cons y ys => exact foldr_min_le ys y x h

theorem le_maxOr0 (l : List Int) (x : Int) (h : x ∈ l) : x ≤ maxOr0 l := by
  cases l with
  | nil => simp at h
  | cons y ys => exact le_foldr_max ys y x h

/-- every addressed period lands inside the padded block, at its own offset from the new start -/
theorem positions_spec (serials : List Int) (base : Int) (n : Nat) :
    let P := getDatePositions serials base n
    P.pos = serials.map (fun t => (t - (base - (P.addBefore : Int))).toNat) ∧
    ∀ t ∈ serials, base - (P.addBefore : Int) ≤ t ∧ (t - (base - (P.addBefore : Int))).toNat < P.addBefore + n + P.addAfter := by
  intro P
  refine ⟨?_, ?_⟩
  · simp only [P, getDatePositions, List.map_map]
    apply List.map_congr_left
    intro t _
    simp only [Function.comp]
    congr 1; omega
  · intro t ht
    have hm : t - base ∈ serials.map (fun t => t - base) := List.mem_map.mpr ⟨t, ht, rfl⟩
    have h1 := minOr0_le _ _ hm
    have h2 := le_maxOr0 _ _ hm
    simp only [P, getDatePositions]
    omega

/-! ### the abstract side: maps and elementary writes -/

abbrev Map := Int → Nat → Cell

def Map.write (m : Map) (t : Int) (v : Nat) (c : Cell) : Map :=
  fun t' v' => if t' = t ∧ v' = v then c else m t' v'

/-- one variant: the listed periods receive the listed values, in order (a repeated period keeps the last) -/
def Map.writeCol (m : Map) (v : Nat) : List (Int × Cell) → Map
  | [] => m
  | (t, c) :: rest => (m.write t v c).writeCol v rest

/-- `set_data(dates, data, variants)` on maps: for the k-th addressed variant the k-th item of
`iter_variants(data)` (exhaust-then-last), broadcast over the dates by numpy's rule; `none` = the code raises -/
def Map.writeAll (m : Map) (nv : Nat) (serials : List Int) (data : DataArg) : List Int → Nat → Option Map
  | [], _ => some m
  | c :: cs, k =>
    match normIdx nv c, (data.variant k).values serials.length with
    | some v, some vals => Map.writeAll (m.writeCol v (serials.zip vals)) nv serials data cs (k + 1)
    | _, _ => none

theorem normIdx_lt (n : Nat) (c : Int) (v : Nat) (h : normIdx n c = some v) : v < n := by
  unfold normIdx at h
  split at h
  · cases h; omega
  · split at h
    · cases h; omega
    · cases h

/-! ### blocks: a start and rows -/

theorem abs_mk (f : Freq) (st : Int) (nv : Nat) (rows : List Row) (t : Int) (v : Nat) :
    (⟨f, some st, nv, rows⟩ : Series).abs t v = if st ≤ t then cellAt rows (t - st).toNat v else none := rfl

/-- padding in front moves the start back and changes no cell of the map -/
theorem abs_expand (f : Freq) (st : Int) (nv : Nat) (rows : List Row) (b a : Nat) (t : Int) (v : Nat) :
    (⟨f, some (st - (b : Int)), nv, expand nv rows b a⟩ : Series).abs t v = (⟨f, some st, nv, rows⟩ : Series).abs t v := by
  rw [abs_mk, abs_mk, cellAt_expand]
  by_cases c1 : st - (b : Int) ≤ t
  · simp only [c1, if_true]
    by_cases c2 : (t - (st - (b : Int))).toNat < b
    · have : ¬ st ≤ t := by omega
      simp only [c2, this, if_true, if_false]
    · have c3 : st ≤ t := by omega
      simp only [c2, c3, if_true, if_false]
      congr 1; omega
  · have : ¬ st ≤ t := by omega
    simp only [c1, this, if_false]

theorem cellAt_setCell (rows : List Row) (i v : Nat) (c : Cell) (i' v' : Nat) (r : Row)
    (hr : rows[i]? = some r) (hv : v < r.length) :
    cellAt (setCell rows i v c) i' v' = if i' = i ∧ v' = v then c else cellAt rows i' v' := by
  have hi : i < rows.length := by
    rcases List.getElem?_eq_some_iff.mp hr with ⟨h, _⟩; exact h
  unfold setCell cellAt
  simp only [hr, List.getElem?_set]
  by_cases e1 : i = i'
  · subst e1
    simp only [hi, if_true, hr, List.getElem?_set]
    by_cases e2 : v = v'
    · subst e2; simp [hv]
    · have : ¬ (v' = v) := fun h => e2 h.symm
      simp [e2, this]
  · have : ¬ (i' = i) := fun h => e1 h.symm
    simp [e1, this]

theorem setCell_length (rows : List Row) (i v : Nat) (c : Cell) : (setCell rows i v c).length = rows.length := by
  unfold setCell; split <;> simp

theorem setCell_rect (nv : Nat) (rows : List Row) (i v : Nat) (c : Cell) (h : ∀ r ∈ rows, r.length = nv) :
    ∀ r ∈ setCell rows i v c, r.length = nv := by
  unfold setCell
  split
  · exact h
  · rename_i r0 hr0
    intro r hr
    rcases List.mem_or_eq_of_mem_set hr with h1 | h1
    · exact h r h1
    · rw [h1, List.length_set]; exact h r0 (List.mem_of_getElem? hr0)

theorem assignCells_length (rows : List Row) (v : Nat) (pcs : List (Nat × Cell)) :
    (assignCells rows v pcs).length = rows.length := by
  induction pcs generalizing rows with
  | nil => rfl
  | cons pc rest ih => obtain ⟨p, c⟩ := pc; simp only [assignCells]; rw [ih, setCell_length]

theorem assignCells_rect (nv : Nat) (rows : List Row) (v : Nat) (pcs : List (Nat × Cell))
    (h : ∀ r ∈ rows, r.length = nv) : ∀ r ∈ assignCells rows v pcs, r.length = nv := by
  induction pcs generalizing rows with
  | nil => exact h
  | cons pc rest ih => obtain ⟨p, c⟩ := pc; simp only [assignCells]; exact ih _ (setCell_rect nv rows p v c h)

/-- the fancy assignment of one variant is the sequence of elementary writes at `start + position` -/
theorem abs_assignCells (f : Freq) (st : Int) (nv : Nat) (rows : List Row) (v : Nat) (pcs : List (Nat × Cell))
    (hR : ∀ r ∈ rows, r.length = nv) (hv : v < nv) (hp : ∀ pc ∈ pcs, pc.1 < rows.length) (t : Int) (v' : Nat) :
    (⟨f, some st, nv, assignCells rows v pcs⟩ : Series).abs t v' =
      Map.writeCol (⟨f, some st, nv, rows⟩ : Series).abs v (pcs.map (fun pc => (st + (pc.1 : Int), pc.2))) t v' := by
  induction pcs generalizing rows with
  | nil => rfl
  | cons pc rest ih =>
    obtain ⟨p, c⟩ := pc
    simp only [assignCells, List.map_cons, Map.writeCol]
    have hpl : p < rows.length := hp (p, c) (by simp)
    rw [ih (setCell rows p v c) (setCell_rect nv rows p v c hR)
      (by intro pc hpc; rw [setCell_length]; exact hp pc (List.mem_cons_of_mem _ hpc))]
    congr 1
    funext t v'
    obtain ⟨r, hr⟩ : ∃ r, rows[p]? = some r := ⟨rows[p], by simp [hpl]⟩
    have hrl : v < r.length := by rw [hR r (List.mem_of_getElem? hr)]; exact hv
    rw [abs_mk]
    unfold Map.write
    rw [abs_mk]
    by_cases c1 : st ≤ t
    · simp only [c1, if_true]
      rw [cellAt_setCell rows p v c _ _ r hr hrl]
      have : ((t - st).toNat = p) ↔ (t = st + (p : Int)) := by omega
      simp only [this]
    · have : ¬ (t = st + (p : Int)) := by omega
      simp [c1, this]

theorem zip_pos_eq (serials : List Int) (st : Int) (vals : List Cell) (h : ∀ t ∈ serials, st ≤ t) :
    ((serials.map (fun t => (t - st).toNat)).zip vals).map (fun pc => (st + (pc.1 : Int), pc.2)) = serials.zip vals := by
  induction serials generalizing vals with
  | nil => simp
  | cons t ts ih =>
    cases vals with
    | nil => simp
    | cons c cs =>
      simp only [List.map_cons, List.zip_cons_cons, List.cons.injEq, Prod.mk.injEq, and_true]
      refine ⟨?_, ih cs (fun t' ht' => h t' (List.mem_cons_of_mem _ ht'))⟩
      have := h t (by simp); omega

/-- the whole assignment loop of `set_data` is `Map.writeAll` -/
theorem abs_assignAll (f : Freq) (st : Int) (nv : Nat) (serials : List Int) (data : DataArg) (vids : List Int) :
    ∀ (rows : List Row) (k : Nat) (rows' : List Row),
    (∀ r ∈ rows, r.length = nv) → (∀ t ∈ serials, st ≤ t ∧ (t - st).toNat < rows.length) →
    assignAll nv rows (serials.map (fun t => (t - st).toNat)) data vids k = .ok rows' →
    (∀ r ∈ rows', r.length = nv) ∧ rows'.length = rows.length ∧
    ∃ m, Map.writeAll (⟨f, some st, nv, rows⟩ : Series).abs nv serials data vids k = some m ∧
      ∀ t v, (⟨f, some st, nv, rows'⟩ : Series).abs t v = m t v := by
  induction vids with
  | nil =>
    intro rows k rows' hR _ h
    simp only [assignAll, pure, Except.pure, Except.ok.injEq] at h
    subst h
    exact ⟨hR, rfl, _, rfl, fun _ _ => rfl⟩
  | cons c cs ih =>
    intro rows k rows' hR hs h
    simp only [assignAll, List.length_map] at h
    simp only [Map.writeAll]
    cases hn : normIdx nv c with
    | none => simp [hn] at h
    | some v =>
      cases hvals : (data.variant k).values serials.length with
      | none => simp [hn, hvals] at h
      | some vals =>
        simp only [hn, hvals] at h
        have hv := normIdx_lt nv c v hn
        have hp : ∀ pc ∈ (serials.map (fun t => (t - st).toNat)).zip vals, pc.1 < rows.length := by
          intro pc hpc
          obtain ⟨p, c'⟩ := pc
          have := (List.of_mem_zip hpc).1
          obtain ⟨t, ht, rfl⟩ := List.mem_map.mp this
          exact (hs t ht).2
        obtain ⟨h1, h2, m, h3, h4⟩ := ih (assignCells rows v ((serials.map (fun t => (t - st).toNat)).zip vals)) (k + 1) rows'
          (assignCells_rect nv rows v _ hR)
          (by intro t ht; rw [assignCells_length]; exact hs t ht) h
        refine ⟨h1, by rw [h2, assignCells_length], m, ?_, h4⟩
        rw [← h3]
        have e : (⟨f, some st, nv, assignCells rows v ((serials.map (fun t => (t - st).toNat)).zip vals)⟩ : Series).abs
            = Map.writeCol (⟨f, some st, nv, rows⟩ : Series).abs v (serials.zip vals) := by
          funext t v'
          rw [abs_assignCells f st nv rows v _ hR hv hp, zip_pos_eq serials st vals (fun t ht => (hs t ht).1)]
        rw [e]

theorem assignAll_nil_pos (nv : Nat) (data : DataArg) (vids : List Int) :
    ∀ (rows : List Row) (k : Nat) (rows' : List Row), assignAll nv rows [] data vids k = .ok rows' → rows' = rows := by
  induction vids with
  | nil => intro rows k rows' h; simp only [assignAll, pure, Except.pure, Except.ok.injEq] at h; exact h.symm
  | cons c cs ih =>
    intro rows k rows' h
    simp only [assignAll] at h
    split at h
    · rename_i v vals _ _
      simp only [List.zip_nil_left, assignCells] at h
      exact ih rows (k + 1) rows' h
    · cases h

theorem writeAll_nil (nv : Nat) (data : DataArg) (vids : List Int) :
    ∀ (m : Map) (k : Nat) (m' : Map), Map.writeAll m nv [] data vids k = some m' → m' = m := by
  induction vids with
  | nil => intro m k m' h; simp only [Map.writeAll, Option.some.injEq] at h; exact h.symm
  | cons c cs ih =>
    intro m k m' h
    simp only [Map.writeAll] at h
    split at h
    · simp only [List.zip_nil_left, Map.writeCol] at h
      exact ih m (k + 1) m' h
    · cases h

theorem nv_trim (s : Series) : s.trim.nv = s.nv := by
  unfold Series.trim
  by_cases h0 : s.rows.length * s.nv = 0
  · simp [h0, Series.reset]
  · simp only [h0, if_false]
    by_cases h1 : numLeading s.rows.reverse = s.rows.length
    · simp [h1, Series.reset]
    · simp [h1]

theorem freq_trim (s : Series) : s.trim.freq = s.freq := by
  unfold Series.trim
  by_cases h0 : s.rows.length * s.nv = 0
  · simp [h0, Series.reset]
  · simp only [h0, if_false]
    by_cases h1 : numLeading s.rows.reverse = s.rows.length
    · simp [h1, Series.reset]
    · simp [h1]

theorem numLeading_of_all (l : List Row) (h : ∀ r ∈ l, allNan r = true) : numLeading l = l.length := by
  induction l with
  | nil => rfl
  | cons r rs ih =>
    simp only [numLeading, h r (by simp), if_true, List.length_cons]
    rw [ih (fun r' hr' => h r' (List.mem_cons_of_mem _ hr'))]

theorem trim_of_allNan (s : Series) (h : ∀ r ∈ s.rows, allNan r = true) : s.trim = s.reset := by
  unfold Series.trim
  by_cases h0 : s.rows.length * s.nv = 0
  · simp [h0]
  · simp only [h0, if_false]
    have : numLeading s.rows.reverse = s.rows.length := by
      rw [numLeading_of_all s.rows.reverse (fun r hr => h r (List.mem_reverse.mp hr)), List.length_reverse]
    simp [this]

theorem inv_reset (s : Series) : Inv s.reset := by
  constructor
  · intro r hr; simp [Series.reset] at hr
  · intro _; simp [Series.reset]

theorem rect_expand (nv : Nat) (rows : List Row) (b a : Nat) (h : ∀ r ∈ rows, r.length = nv) :
    ∀ r ∈ expand nv rows b a, r.length = nv := by
  intro r hr
  simp only [expand, nanRows, List.mem_append, List.mem_replicate] at hr
  rcases hr with (⟨_, rfl⟩ | hr) | ⟨_, rfl⟩
  · simp [nanRow]
  · exact h r hr
  · simp [nanRow]

/-- the write path of `set_data` once the series has a start: pad, assign, trim -/
theorem setData_core (s1 : Series) (st : Int) (hst : s1.start = some st) (hR : Rect s1)
    (serials : List Int) (data : DataArg) (vids : List Int) (rows' : List Row)
    (hA : assignAll s1.nv
      (expand s1.nv s1.rows (getDatePositions serials st s1.rows.length).addBefore (getDatePositions serials st s1.rows.length).addAfter)
      (getDatePositions serials st s1.rows.length).pos data vids 0 = .ok rows') :
    let s' := ({ s1 with start := some (st - ((getDatePositions serials st s1.rows.length).addBefore : Int)), rows := rows' } : Series).trim
    Inv s' ∧ Trimmed s' ∧ s'.nv = s1.nv ∧ s'.freq = s1.freq ∧
      ∃ m, Map.writeAll s1.abs s1.nv serials data vids 0 = some m ∧ ∀ t v, s'.abs t v = m t v := by
  intro s'
  obtain ⟨hpos, hb⟩ := positions_spec serials st s1.rows.length
  rw [hpos] at hA
  obtain ⟨h1, _, m, h3, h4⟩ := abs_assignAll s1.freq (st - ((getDatePositions serials st s1.rows.length).addBefore : Int)) s1.nv
    serials data vids _ 0 rows' (rect_expand s1.nv s1.rows _ _ hR)
    (by intro t ht; rw [length_expand]; exact hb t ht) hA
  have hRpre : Rect ({ s1 with start := some (st - ((getDatePositions serials st s1.rows.length).addBefore : Int)), rows := rows' } : Series) := h1
  refine ⟨inv_trim _ hRpre (by intro _; rfl), trimmed_trim _ (by intro _; rfl), nv_trim _, freq_trim _, m, ?_, ?_⟩
  · rw [← h3]
    congr 1
    funext t v
    rw [abs_expand]
    obtain ⟨f, start, nv, rows⟩ := s1
    simp only at hst
    subst hst
    rfl
  · intro t v
    show (Series.trim _).abs t v = m t v
    rw [abs_trim _ hRpre]
    exact h4 t v

/-- `set_data` refines the sequence of elementary map writes (`Map.writeAll`), keeps the invariant and trims -/
theorem setData_spec (s : Series) (serials : List Int) (data : DataArg) (vids : List Int) (s' : Series)
    (hI : Inv s) (h : s.setData serials data vids = .ok s') :
    Inv s' ∧ s'.nv = s.nv ∧ s'.freq = s.freq ∧
    ((serials = [] ∧ ∀ t v, s'.abs t v = s.abs t v) ∨
     (serials ≠ [] ∧ Trimmed s' ∧
       ∃ m, Map.writeAll s.abs s.nv serials data vids 0 = some m ∧ ∀ t v, s'.abs t v = m t v)) := by
  unfold Series.setData at h
  by_cases c1 : serials.isEmpty = true ∧ data.isEmptyData = true
  · rw [if_pos c1] at h
    simp only [pure, Except.pure, Except.ok.injEq] at h
    subst h
    exact ⟨hI, rfl, rfl, Or.inl ⟨List.isEmpty_iff.mp c1.1, fun _ _ => rfl⟩⟩
  · rw [if_neg c1] at h
    by_cases c2 : data.isEmptyData = true ∧ data ≠ .pyNone
    · rw [if_pos c2] at h; cases h
    · rw [if_neg c2] at h
      cases hs : s.start with
      | some st =>
        simp only [hs, Option.getD_some, Option.map_some] at h
        split at h
        · cases h
        · rename_i rows' hA
          simp only [pure, Except.pure, Except.ok.injEq] at h
          obtain ⟨i1, i2, i3, i4, m, i5, i6⟩ := setData_core s st hs hI.1 serials data vids rows' hA
          subst h
          refine ⟨i1, i3, i4, ?_⟩
          by_cases hn : serials = []
          · left
            refine ⟨hn, fun t v => ?_⟩
            subst hn
            rw [i6 t v, writeAll_nil s.nv data vids s.abs 0 m i5]
          · right; exact ⟨hn, i2, m, i5, i6⟩
      | none =>
        have hrows : s.rows = [] := hI.2 hs
        have habs : ∀ t v, s.abs t v = none := by intro t v; simp [Series.abs, hs]
        cases hser : serials with
        | nil =>
          simp only [hs, hser, List.head?_nil, Option.getD_none, Option.map_none] at h
          split at h
          · cases h
          · rename_i rows' hA
            simp only [pure, Except.pure, Except.ok.injEq] at h
            have hp : (getDatePositions [] 0 [nanRow s.nv].length).pos = [] := by simp [getDatePositions]
            rw [hp] at hA
            have hrows' := assignAll_nil_pos _ _ _ _ _ _ hA
            have hall : ∀ r ∈ rows', allNan r = true := by
              intro r hr
              rw [hrows'] at hr
              simp only [getDatePositions, expand, nanRows, List.mem_append, List.mem_replicate, List.mem_singleton] at hr
              rcases hr with (⟨_, rfl⟩ | rfl) | ⟨_, rfl⟩ <;> exact allNan_nanRow _
            rw [trim_of_allNan _ hall] at h
            subst h
            refine ⟨inv_reset _, rfl, rfl, Or.inl ⟨rfl, fun t v => ?_⟩⟩
            rw [abs_reset, habs]
        | cons t0 ts =>
          simp only [hs, hser, List.head?_cons, Option.getD_some, Option.map_some] at h
          split at h
          · cases h
          · rename_i rows' hA
            simp only [pure, Except.pure, Except.ok.injEq] at h
            have hR1 : Rect ({ s with start := some t0, rows := [nanRow s.nv] } : Series) := by
              intro r hr
              simp only [List.mem_singleton] at hr
              subst hr; simp [nanRow]
            obtain ⟨i1, i2, i3, i4, m, i5, i6⟩ := setData_core ({ s with start := some t0, rows := [nanRow s.nv] } : Series) t0 rfl hR1
              (t0 :: ts) data vids rows' hA
            subst h
            refine ⟨i1, i3, i4, Or.inr ⟨by simp, i2, m, ?_, i6⟩⟩
            rw [← i5]
            congr 1
            funext t v
            rw [habs, abs_mk]
            split
            · have := cellAt_nanRows 1 s.nv (t - t0).toNat v
              simpa [nanRows] using this.symm
            · rfl

/-! ### consequences of `Map.writeAll`: frame and scalar closed form -/

theorem writeCol_other (v : Nat) (l : List (Int × Cell)) (t : Int) (v' : Nat) :
    ∀ (m : Map), (v' ≠ v ∨ ∀ p ∈ l, p.1 ≠ t) → Map.writeCol m v l t v' = m t v' := by
  induction l with
  | nil => intro m _; rfl
  | cons p rest ih =>
    intro m h
    obtain ⟨t0, c⟩ := p
    simp only [Map.writeCol]
    rw [ih (m.write t0 v c) (by
      rcases h with h | h
      · exact Or.inl h
      · exact Or.inr (fun p hp => h p (List.mem_cons_of_mem _ hp)))]
    unfold Map.write
    have : ¬ (t = t0 ∧ v' = v) := by
      rintro ⟨h1, h2⟩
      rcases h with h | h
      · exact h h2
      · exact h (t0, c) (by simp) h1.symm
    simp [this]

theorem writeAll_frame (nv : Nat) (serials : List Int) (data : DataArg) (vids : List Int) :
    ∀ (m : Map) (k : Nat) (m' : Map), Map.writeAll m nv serials data vids k = some m' →
    ∀ t v, (t ∉ serials ∨ ∀ c ∈ vids, normIdx nv c ≠ some v) → m' t v = m t v := by
  induction vids with
  | nil => intro m k m' h t v _; simp only [Map.writeAll, Option.some.injEq] at h; rw [h]
  | cons c cs ih =>
    intro m k m' h t v hf
    simp only [Map.writeAll] at h
    split at h
    · rename_i v0 vals hn _
      rw [ih _ _ _ h t v (by
        rcases hf with hf | hf
        · exact Or.inl hf
        · exact Or.inr (fun c' hc' => hf c' (List.mem_cons_of_mem _ hc')))]
      apply writeCol_other
      rcases hf with hf | hf
      · right
        intro p hp hpt
        obtain ⟨t', c'⟩ := p
        have := (List.of_mem_zip hp).1
        simp only at hpt; subst hpt; exact hf this
      · left
        intro hv; subst hv
        exact hf c (by simp) hn
    · cases h

theorem writeCol_scalar (v : Nat) (c : Cell) (serials : List Int) (t : Int) (v' : Nat) :
    ∀ (m : Map), Map.writeCol m v (serials.zip (List.replicate serials.length c)) t v' =
      if t ∈ serials ∧ v' = v then c else m t v' := by
  induction serials with
  | nil => intro m; simp [Map.writeCol]
  | cons t0 ts ih =>
    intro m
    simp only [List.length_cons, List.replicate_succ, List.zip_cons_cons, Map.writeCol]
    rw [ih]
    unfold Map.write
    by_cases h1 : v' = v
    · by_cases h2 : t ∈ ts
      · simp [h1, h2]
      · by_cases h3 : t = t0
        · simp [h1, h2, h3]
        · simp [h1, h2, h3]
    · simp [h1]

theorem writeAll_scalar (nv : Nat) (serials : List Int) (c : Cell) (vids : List Int) :
    ∀ (m : Map) (k : Nat) (m' : Map), Map.writeAll m nv serials (.scalar c) vids k = some m' →
    ∀ t v, m' t v = if t ∈ serials ∧ ∃ c' ∈ vids, normIdx nv c' = some v then c else m t v := by
  induction vids with
  | nil => intro m k m' h t v; simp only [Map.writeAll, Option.some.injEq] at h; simp [h]
  | cons c0 cs ih =>
    intro m k m' h t v
    simp only [Map.writeAll, DataArg.variant, Col.values] at h
    split at h
    · rename_i v0 vals hn hv
      simp only [Option.some.injEq] at hv
      subst hv
      rw [ih _ _ _ h t v, writeCol_scalar]
      by_cases h1 : t ∈ serials
      · by_cases h2 : ∃ c' ∈ cs, normIdx nv c' = some v
        · have : ∃ c' ∈ c0 :: cs, normIdx nv c' = some v := by
            obtain ⟨c', hc', h'⟩ := h2; exact ⟨c', List.mem_cons_of_mem _ hc', h'⟩
          rw [if_pos ⟨h1, h2⟩, if_pos ⟨h1, this⟩]
        · rw [if_neg (fun hh => h2 hh.2)]
          by_cases h3 : v = v0
          · subst h3
            have : ∃ c' ∈ c0 :: cs, normIdx nv c' = some v := ⟨c0, by simp, hn⟩
            rw [if_pos ⟨h1, rfl⟩, if_pos ⟨h1, this⟩]
          · have : ¬ ∃ c' ∈ c0 :: cs, normIdx nv c' = some v := by
              rintro ⟨c', hc', h'⟩
              rcases List.mem_cons.mp hc' with rfl | hc'
              · rw [hn] at h'; cases h'; exact h3 rfl
              · exact h2 ⟨c', hc', h'⟩
            rw [if_neg (fun hh => h3 hh.2), if_neg (fun hh => this hh.2)]
      · rw [if_neg (fun hh => h1 hh.1), if_neg (fun hh => h1 hh.1), if_neg (fun hh => h1 hh.1)]
    · cases h

/-! ### the invariant is preserved by every operation -/

theorem inv_new (f : Freq) (nv : Nat) : Inv (Series.new f nv) := by
  constructor
  · intro r hr; simp [Series.new] at hr
  · intro _; rfl

theorem isSome_of_wf (s : Series) (h : WF s) : s.rows ≠ [] → s.start.isSome = true := by
  intro hne
  cases hs : s.start with
  | none => exact absurd (h hs) hne
  | some _ => rfl

theorem inv_trim' (s : Series) (h : Inv s) : Inv s.trim := inv_trim s h.1 (isSome_of_wf s h.2)

theorem inv_empty (s : Series) : Inv s.empty := by
  constructor
  · intro r hr; simp [Series.empty] at hr
  · intro _; rfl

theorem inv_shift (s : Series) (k : Int) (h : Inv s) : Inv (s.shift k) := by
  refine ⟨h.1, ?_⟩
  intro hs
  apply h.2
  cases hst : s.start with
  | none => rfl
  | some st => simp [Series.shift, hst] at hs

theorem inv_mapCells (g : Cell → Cell) (s : Series) (h : Inv s) : Inv (mapCells g s) := by
  constructor
  · intro r hr
    simp only [mapCells, List.mem_map] at hr
    obtain ⟨r0, hr0, rfl⟩ := hr
    simp only [List.length_map]; exact h.1 r0 hr0
  · intro hs
    have := h.2 hs
    simp [mapCells, this]

theorem inv_apply (g : Cell → Cell) (s : Series) (h : Inv s) : Inv (s.apply g) :=
  inv_trim' _ (inv_mapCells g s h)

theorem inv_withFreq (s : Series) (f : Freq) (h : Inv s) : Inv ({ s with freq := f } : Series) := h

theorem inv_setDataP (s : Series) (ps : List Period) (data : DataArg) (vars : VarArg) (s' : Series)
    (hI : Inv s) (h : s.setDataP ps data vars = .ok s') : Inv s' := by
  unfold Series.setDataP at h
  split at h
  · simp only [pure, Except.pure, Except.ok.injEq] at h; subst h; exact hI
  · simp only [bind_ok] at h
    obtain ⟨serials, _, h2⟩ := h
    exact (setData_spec _ serials data _ s' (inv_withFreq s _ hI) h2).1

theorem inv_recreateP (s : Series) (ps : List Period) (vars : VarArg) (s' : Series)
    (h : s.recreateP ps vars = .ok s') : Inv s' := by
  unfold Series.recreateP at h
  simp only [bind_ok] at h
  obtain ⟨data, _, h2⟩ := h
  split at h2
  · simp only [pure, Except.pure, Except.ok.injEq] at h2; subst h2; exact inv_new _ _
  · exact inv_setDataP _ ps _ .all s' (inv_new _ _) h2

theorem inv_broadcastVariants (s : Series) (n : Nat) (s' : Series) (hI : Inv s)
    (h : s.broadcastVariants n = .ok s') : Inv s' := by
  unfold Series.broadcastVariants at h
  split at h
  · simp only [pure, Except.pure, Except.ok.injEq] at h; subst h; exact hI
  · split at h
    · simp only [pure, Except.pure, Except.ok.injEq] at h
      subst h
      constructor
      · intro r hr
        simp only [List.mem_map] at hr
        obtain ⟨r0, _, rfl⟩ := hr
        simp
      · intro hs
        have := hI.2 hs
        simp [this]
    · cases h

theorem inv_broadcastPair (a b a' b' : Series) (ha : Inv a) (hb : Inv b)
    (h : broadcastPair a b = .ok (a', b')) : Inv a' ∧ Inv b' := by
  unfold broadcastPair at h
  split at h
  · simp only [pure, Except.pure, Except.ok.injEq, Prod.mk.injEq] at h
    obtain ⟨rfl, rfl⟩ := h; exact ⟨ha, hb⟩
  · split at h
    · simp only [bind_ok, pure, Except.pure, Except.ok.injEq, Prod.mk.injEq] at h
      obtain ⟨x, hx, rfl, rfl⟩ := h
      exact ⟨inv_broadcastVariants a _ _ ha hx, hb⟩
    · split at h
      · simp only [bind_ok, pure, Except.pure, Except.ok.injEq, Prod.mk.injEq] at h
        obtain ⟨x, hx, rfl, rfl⟩ := h
        exact ⟨ha, inv_broadcastVariants b _ _ hb hx⟩
      · cases h

theorem inv_overlayCore (a b r : Series) (ha : Inv a) (h : a.overlayCore b = .ok r) : Inv r := by
  unfold Series.overlayCore at h
  simp only [bind_ok, pure, Except.pure, Except.ok.injEq] at h
  obtain ⟨x, hx, rfl⟩ := h
  exact inv_trim' _ (setData_spec _ _ _ _ x ha hx).1

theorem inv_overlayS (a b r : Series) (ha : Inv a) (hb : Inv b) (h : a.overlayS b = .ok r) : Inv r := by
  unfold Series.overlayS at h
  simp only [bind_ok] at h
  obtain ⟨⟨s, o⟩, hp, h2⟩ := h
  obtain ⟨hs, _⟩ := inv_broadcastPair a b s o ha hb hp
  simp only at h2
  split at h2
  · exact inv_overlayCore s o r hs h2
  · split at h2
    · cases h2
    · exact inv_overlayCore _ o r (inv_withFreq s _ hs) h2

theorem inv_underlayS (a b r : Series) (ha : Inv a) (hb : Inv b) (h : a.underlayS b = .ok r) : Inv r := by
  unfold Series.underlayS at h
  simp only [bind_ok] at h
  obtain ⟨⟨s, o⟩, hp, h2⟩ := h
  obtain ⟨hs, ho⟩ := inv_broadcastPair a b s o ha hb hp
  exact inv_overlayS o s r ho hs h2

theorem rect_slice (s : Series) (a b : Int) (hR : Rect s) : ∀ r ∈ s.sliceFromUntil a b, r.length = s.nv := by
  intro r hr
  unfold Series.sliceFromUntil at hr
  exact rect_expand s.nv s.rows _ _ hR r (List.mem_of_mem_drop (List.mem_of_mem_take hr))

theorem inv_clip (s : Series) (a b : Option Int) (s' : Series) (hI : Inv s) (h : s.clip a b = .ok s') : Inv s' := by
  unfold Series.clip at h
  cases hs : s.start with
  | none =>
    simp only [hs] at h
    split at h
    · simp only [pure, Except.pure, Except.ok.injEq] at h; subst h; exact hI
    · cases h
  | some st =>
    simp only [hs] at h
    split at h
    · simp only [pure, Except.pure, Except.ok.injEq] at h; subst h; exact hI
    · simp only [pure, Except.pure, Except.ok.injEq] at h
      subst h
      exact ⟨rect_slice s _ _ hI.1, by intro hs; cases hs⟩

theorem inv_clipP (s : Series) (a b : Option Period) (s' : Series) (hI : Inv s) (h : s.clipP a b = .ok s') : Inv s' := by
  unfold Series.clipP at h
  simp only [bind_ok] at h
  obtain ⟨a', _, b', _, h2⟩ := h
  exact inv_clip s a' b' s' hI h2

theorem length_zipRow (f : Cell → Cell → Cell) (nv : Nat) (a b : Row) : (zipRow f nv a b).length = nv := by
  simp [zipRow]

theorem inv_binop (f : Cell → Cell → Cell) (a b r : Series) (h : a.binop f b = .ok r) : Inv r := by
  unfold Series.binop at h
  split at h
  · cases h
  · rename_i nv _
    split at h
    · simp only [pure, Except.pure, Except.ok.injEq] at h
      subst h
      apply inv_trim
      · intro r hr
        simp only at hr
        obtain ⟨i, hi⟩ := List.mem_iff_getElem?.mp hr
        rw [List.getElem?_zipWith] at hi
        split at hi
        · simp only [Option.some.injEq] at hi; subst hi; exact length_zipRow _ _ _ _
        · cases hi
      · intro _; rfl
    · simp only [pure, Except.pure, Except.ok.injEq] at h
      subst h; exact inv_new _ _

theorem inv_binopS (f : Cell → Cell → Cell) (a b r : Series) (h : a.binopS f b = .ok r) : Inv r := by
  unfold Series.binopS at h
  split at h
  · exact inv_binop f a b r h
  · cases h

theorem inv_hstack (f : Freq) (l : List Series) (r : Series) (h : hstack f l = .ok r) : Inv r := by
  unfold hstack at h
  simp only at h
  split at h
  · simp only [pure, Except.pure, Except.ok.injEq] at h; subst h; exact inv_new _ _
  · split at h
    · exact (setData_spec _ _ _ _ r (inv_new _ _) h).1
    · cases h

theorem inv_hstackS (l : List Series) (r : Series) (hl : ∀ s ∈ l, Inv s) (h : hstackS l = .ok r) : Inv r := by
  unfold hstackS at h
  split at h
  · cases h
  · simp only [pure, Except.pure, Except.ok.injEq] at h; subst h; exact hl _ (by simp)
  · split at h
    · exact inv_hstack _ _ r h
    · split at h
      · exact inv_hstack _ _ r h
      · cases h

theorem mapM_ok_spec {α β : Type} (f : α → R β) :
    ∀ (l : List α) (l' : List β), l.mapM f = .ok l' →
      l'.length = l.length ∧ ∀ y ∈ l', ∃ x ∈ l, f x = .ok y := by
  intro l
  induction l with
  | nil => intro l' h; simp only [List.mapM_nil, pure, Except.pure, Except.ok.injEq] at h; subst h; simp
  | cons a as ih =>
    intro l' h
    rw [List.mapM_cons] at h
    simp only [bind_ok, pure, Except.pure, Except.ok.injEq] at h
    obtain ⟨b, hb, bs, hbs, rfl⟩ := h
    obtain ⟨h1, h2⟩ := ih bs hbs
    refine ⟨by simp [h1], ?_⟩
    intro y hy
    rcases List.mem_cons.mp hy with rfl | hy
    · exact ⟨a, by simp, hb⟩
    · obtain ⟨x, hx, hfx⟩ := h2 y hy
      exact ⟨x, List.mem_cons_of_mem _ hx, hfx⟩

theorem pickRow_length (nv : Nat) (row : Row) (vids : List Int) (r : Row) (h : pickRow nv row vids = .ok r) :
    r.length = vids.length := (mapM_ok_spec _ vids r h).1

theorem getData_rows (s : Series) (serials : List Int) (vids : List Int) (d : List Row)
    (h : s.getData serials vids = .ok d) : (∀ r ∈ d, r.length = vids.length) ∧ (serials = [] → d = []) := by
  unfold Series.getData at h
  split at h
  · simp only [bind_ok, pure, Except.pure, Except.ok.injEq] at h
    obtain ⟨_, _, rfl⟩ := h
    simp
  · rename_i hne
    refine ⟨?_, fun h0 => absurd (by simp [h0]) hne⟩
    intro r hr
    obtain ⟨p, _, hp⟩ := (mapM_ok_spec _ _ d h).2 r hr
    exact pickRow_length _ _ _ _ hp

theorem getDataP_all_rows (s : Series) (ps : List Period) (d : List Row) (h : s.getDataP ps .all = .ok d) :
    (∀ r ∈ d, r.length = s.nv) ∧ (ps = [] → d = []) := by
  unfold Series.getDataP at h
  simp only [bind_ok] at h
  obtain ⟨serials, h1, h2⟩ := h
  obtain ⟨h3, h4⟩ := getData_rows s serials _ d h2
  refine ⟨?_, ?_⟩
  · intro r hr; rw [h3 r hr]; simp [resolveVariants]
  · intro h0
    subst h0
    apply h4
    have := (mapM_ok_spec _ _ serials h1).1
    simpa using this

theorem inv_keyword_rows (s : Series) (ps : List Period) (d : List Row) (hI : Inv s)
    (hps : s.start = none → ps = []) (h : s.getDataP ps .all = .ok d) : Inv ({ s with rows := d } : Series).trim := by
  obtain ⟨h1, h2⟩ := getDataP_all_rows s ps d h
  apply inv_trim
  · exact h1
  · intro hne
    cases hs : s.start with
    | none => exact absurd (h2 (hps hs)) hne
    | some _ => rfl

theorem spanSerials_nil (s : Series) (h : s.start = none) : s.spanSerials = [] := by
  simp [Series.spanSerials, h]

theorem inv_shiftBy (s : Series) (b : ShiftBy) (s' : Series) (hI : Inv s) (h : s.shiftBy b = .ok s') : Inv s' := by
  cases b with
  | by_ k => simp only [Series.shiftBy, pure, Except.pure, Except.ok.injEq] at h; subst h; exact inv_shift s k hI
  | yoy => simp only [Series.shiftBy, pure, Except.pure, Except.ok.injEq] at h; subst h; exact inv_shift s _ hI
  | soy =>
    simp only [Series.shiftBy, bind_ok, pure, Except.pure, Except.ok.injEq] at h
    obtain ⟨ps, h1, d, h2, rfl⟩ := h
    refine inv_keyword_rows s ps d hI ?_ h2
    intro hs
    rw [spanSerials_nil s hs] at h1
    simp only [List.mapM_nil, pure, Except.pure, Except.ok.injEq] at h1
    exact h1.symm
  | eopy =>
    simp only [Series.shiftBy, bind_ok, pure, Except.pure, Except.ok.injEq] at h
    obtain ⟨ps, h1, d, h2, rfl⟩ := h
    refine inv_keyword_rows s ps d hI ?_ h2
    intro hs
    rw [spanSerials_nil s hs] at h1
    simp only [List.mapM_nil, pure, Except.pure, Except.ok.injEq] at h1
    exact h1.symm
  | tty =>
    simp only [Series.shiftBy, bind_ok] at h
    obtain ⟨_, _, d, _, s1, h3, h4⟩ := h
    exact inv_setDataP s1 _ _ _ s' (inv_setDataP s _ _ _ s1 hI h3) h4

/-! ### element-wise functions, slices, binary operators -/


theorem cellAt_map (g : Cell → Cell) (hg : g none = none) (rows : List Row) (i v : Nat) :
    cellAt (rows.map (fun r => r.map g)) i v = g (cellAt rows i v) := by
  unfold cellAt
  rw [List.getElem?_map]
  cases rows[i]? with
  | none => simp [hg]
  | some r =>
    simp only [Option.map_some, List.getElem?_map]
    cases r[v]? with
    | none => simp [hg]
    | some c => simp

theorem abs_mapCells (g : Cell → Cell) (hg : g none = none) (s : Series) (t : Int) (v : Nat) :
    (mapCells g s).abs t v = g (s.abs t v) := by
  unfold Series.abs mapCells
  cases s.start with
  | none => simp [hg]
  | some st =>
    simp only
    split
    · exact cellAt_map g hg _ _ _
    · exact hg.symm

/-- the slice `[a, b]` of a well-formed series holds exactly the cells `abs (a + i)` -/
theorem cellAt_slice (s : Series) (hW : WF s) (a b : Int) (i v : Nat) :
    cellAt (s.sliceFromUntil a b) i v = if (i : Int) < b - a + 1 then s.abs (a + i) v else none := by
  unfold Series.sliceFromUntil
  simp only
  rw [cellAt_drop_take, cellAt_expand]
  cases hs : s.start with
  | none =>
    have hr : s.rows = [] := hW hs
    have habs : s.abs (a + i) v = none := by simp [Series.abs, hs]
    simp only [Option.getD_none, habs, hr]
    have : ∀ k, cellAt ([] : List Row) k v = none := fun k => by simp [cellAt]
    simp [this]
  | some st =>
    simp only [Option.getD_some]
    obtain ⟨_, hb⟩ := positions_spec [a, b] st s.rows.length
    have ha := hb a (by simp)
    have hbb := hb b (by simp)
    generalize (getDatePositions [a, b] st s.rows.length).addBefore = B at ha hbb ⊢
    generalize (getDatePositions [a, b] st s.rows.length).addAfter = A at ha hbb ⊢
    unfold Series.abs
    simp only [hs]
    by_cases c1 : (i : Int) < b - a + 1
    · have c2 : i < (b - st + (B : Int)).toNat + 1 - (a - st + (B : Int)).toNat := by omega
      simp only [c1, c2, if_true]
      by_cases c3 : (a - st + (B : Int)).toNat + i < B
      · have : ¬ st ≤ a + (i : Int) := by omega
        simp only [c3, this, if_true, if_false]
      · have c4 : st ≤ a + (i : Int) := by omega
        simp only [c3, c4, if_true, if_false]
        congr 1; omega
    · have c2 : ¬ i < (b - st + (B : Int)).toNat + 1 - (a - st + (B : Int)).toNat := by omega
      simp only [c1, c2, if_false]



theorem abs_none_of_lt_start (s : Series) (t : Int) (v : Nat) (h : ∀ st, s.start = some st → t < st) : s.abs t v = none := by
  unfold Series.abs
  cases hs : s.start with
  | none => rfl
  | some st => have := h st hs; simp only; rw [if_neg (by omega)]

theorem abs_none_of_gt_end (s : Series) (t : Int) (v : Nat) (h : ∀ e, s.endSerial = some e → e < t) : s.abs t v = none := by
  unfold Series.abs
  cases hs : s.start with
  | none => rfl
  | some st =>
    have := h (st + s.rows.length - 1) (by simp [Series.endSerial, hs])
    simp only
    split
    · exact cellAt_none_of_ge _ _ _ (by omega)
    · rfl

theorem optMin_le (x y : Option Int) (lo : Int) (h : optMin x y = some lo) :
    (∀ a, x = some a → lo ≤ a) ∧ (∀ b, y = some b → lo ≤ b) := by
  cases x <;> cases y <;> simp [optMin] at h <;> (try subst h) <;> constructor <;> intro c hc <;> simp at hc <;> (try subst hc) <;> omega

theorem le_optMax (x y : Option Int) (hi : Int) (h : optMax x y = some hi) :
    (∀ a, x = some a → a ≤ hi) ∧ (∀ b, y = some b → b ≤ hi) := by
  cases x <;> cases y <;> simp [optMax] at h <;> (try subst h) <;> constructor <;> intro c hc <;> simp at hc <;> (try subst hc) <;> omega

theorem optMin_none (x y : Option Int) (h : optMin x y = none) : x = none ∧ y = none := by
  cases x <;> cases y <;> simp [optMin] at h <;> simp

theorem optMax_none (x y : Option Int) (h : optMax x y = none) : x = none ∧ y = none := by
  cases x <;> cases y <;> simp [optMax] at h <;> simp

theorem cellAt_zipWith (f : Cell → Cell → Cell) (hf : ∀ x, f none x = none ∧ f x none = none) (nv : Nat)
    (da db : List Row) (hda : ∀ r ∈ da, r.length = nv) (hdb : ∀ r ∈ db, r.length = nv) (i v : Nat) (hv : v < nv) :
    cellAt (List.zipWith (zipRow f nv) da db) i v = f (cellAt da i v) (cellAt db i v) := by
  unfold cellAt
  rw [List.getElem?_zipWith]
  cases h1 : da[i]? with
  | none => simp [(hf _).1]
  | some ra =>
    cases h2 : db[i]? with
    | none => simp [(hf _).2]
    | some rb =>
      have la := hda ra (List.mem_of_getElem? h1)
      have lb := hdb rb (List.mem_of_getElem? h2)
      simp only [zipRow, List.getElem?_map, List.getElem?_range hv, Option.map_some, Option.getD_some]
      have e1 : (if ra.length = 1 then 0 else v) = v := by split <;> omega
      have e2 : (if rb.length = 1 then 0 else v) = v := by split <;> omega
      rw [e1, e2]


/-- **Alignment.** A NaN-strict binary operator on two series with the same number of variants acts period by
period on the maps, whatever the two spans are (overlapping, disjoint, empty) -/
theorem abs_binop (f : Cell → Cell → Cell) (hf : ∀ x, f none x = none ∧ f x none = none) (a b r : Series)
    (ha : Inv a) (hb : Inv b) (hnv : a.nv = b.nv) (h : a.binop f b = .ok r) (t : Int) (v : Nat) (hv : v < a.nv) :
    r.abs t v = f (a.abs t v) (b.abs t v) := by
  unfold Series.binop at h
  have hbc : bcastNv a.nv b.nv = some a.nv := by simp [bcastNv, hnv]
  rw [hbc] at h
  simp only at h
  cases hlo : optMin a.start b.start with
  | none =>
    obtain ⟨h1, h2⟩ := optMin_none _ _ hlo
    simp only [hlo, pure, Except.pure, Except.ok.injEq] at h
    subst h
    simp [Series.abs, Series.new, h1, h2, (hf none).1]
  | some lo =>
    cases hhi : optMax a.endSerial b.endSerial with
    | none =>
      obtain ⟨h1, h2⟩ := optMax_none _ _ hhi
      have h1' : a.start = none := by cases hs : a.start <;> simp [Series.endSerial, hs] at h1 ⊢
      have h2' : b.start = none := by cases hs : b.start <;> simp [Series.endSerial, hs] at h2 ⊢
      simp [optMin, h1', h2'] at hlo
    | some hi =>
      simp only [hlo, hhi, pure, Except.pure, Except.ok.injEq] at h
      subst h
      obtain ⟨m1, m2⟩ := optMin_le _ _ lo hlo
      obtain ⟨x1, x2⟩ := le_optMax _ _ hi hhi
      have hRa := rect_slice a lo hi ha.1
      have hRb : ∀ r ∈ b.sliceFromUntil lo hi, r.length = a.nv := by rw [hnv]; exact rect_slice b lo hi hb.1
      rw [abs_trim]
      · rw [abs_mk]
        by_cases c1 : lo ≤ t
        · simp only [c1, if_true]
          rw [cellAt_zipWith f hf a.nv _ _ hRa hRb _ _ hv, cellAt_slice a ha.2, cellAt_slice b hb.2]
          have e : lo + (((t - lo).toNat : Nat) : Int) = t := by omega
          rw [e]
          by_cases c2 : (((t - lo).toNat : Nat) : Int) < hi - lo + 1
          · simp only [c2, if_true]
          · simp only [c2, if_false]
            rw [abs_none_of_gt_end a t v (fun e he => by have := x1 e he; omega), (hf _).1, (hf _).1]
        · simp only [c1, if_false]
          rw [abs_none_of_lt_start a t v (fun st hst => by have := m1 st hst; omega)]
          exact ((hf _).1).symm
      · intro r hr
        simp only at hr
        obtain ⟨i, hi'⟩ := List.mem_iff_getElem?.mp hr
        rw [List.getElem?_zipWith] at hi'
        split at hi'
        · simp only [Option.some.injEq] at hi'; subst hi'; exact length_zipRow _ _ _ _
        · cases hi'

/-- arithmetic operators return a trimmed series -/
theorem trimmed_binop (f : Cell → Cell → Cell) (a b r : Series) (h : a.binop f b = .ok r) : Trimmed r := by
  unfold Series.binop at h
  split at h
  · cases h
  · split at h
    · simp only [pure, Except.pure, Except.ok.injEq] at h
      subst h
      exact trimmed_trim _ (by intro _; rfl)
    · simp only [pure, Except.pure, Except.ok.injEq] at h
      subst h; left; simp [Series.new]


/-! ### reads, clip, overlay frame -/


theorem mapM_eq_map {α β : Type} (f : α → R β) (g : α → β) :
    ∀ (l : List α), (∀ x ∈ l, f x = .ok (g x)) → l.mapM f = .ok (l.map g) := by
  intro l
  induction l with
  | nil => intro _; rfl
  | cons a as ih =>
    intro h
    rw [List.mapM_cons, h a (by simp), ih (fun x hx => h x (List.mem_cons_of_mem _ hx))]
    rfl

theorem normIdx_nat (nv v : Nat) (h : v < nv) : normIdx nv (v : Int) = some v := by
  unfold normIdx
  rw [if_pos (by omega)]
  simp

theorem pickRow_valid (nv : Nat) (row : Row) (vs : List Nat) (hv : ∀ v ∈ vs, v < nv) :
    pickRow nv row (vs.map (fun (v : Nat) => (v : Int))) = .ok (vs.map (fun v => (row[v]?).getD none)) := by
  unfold pickRow
  rw [mapM_eq_map _ (fun c => (row[c.toNat]?).getD none)]
  · simp [List.map_map, Function.comp]
  · intro c hc
    obtain ⟨v, hvm, rfl⟩ := List.mem_map.mp hc
    simp [normIdx_nat nv v (hv v hvm), pure, Except.pure]

theorem getD_nanRow_eq_cellAt (nv : Nat) (data : List Row) (p v : Nat) :
    (((data[p]?).getD (nanRow nv))[v]?).getD none = cellAt data p v := by
  unfold cellAt
  cases data[p]? with
  | none => simp only [Option.getD_none]; exact allNan_get _ _ (allNan_nanRow nv)
  | some r => rfl

/-- **A read returns the map.** `get_data(dates, variants)` is the matrix of `abs` over dates × variants -/
theorem getData_eq_abs (s : Series) (hW : WF s) (serials : List Int) (vs : List Nat) (hv : ∀ v ∈ vs, v < s.nv) :
    s.getData serials (vs.map (fun (v : Nat) => (v : Int))) = .ok (serials.map (fun t => vs.map (fun v => s.abs t v))) := by
  unfold Series.getData
  by_cases he : serials.isEmpty = true
  · rw [if_pos he]
    have : serials = [] := List.isEmpty_iff.mp he
    subst this
    rw [pickRow_valid _ _ _ hv]
    rfl
  · rw [if_neg he]
    simp only
    obtain ⟨hpos, hb⟩ := positions_spec serials (s.start.getD (minOr0 serials)) s.rows.length
    rw [mapM_eq_map _ (fun p => vs.map (fun v =>
      (((expand s.nv s.rows (getDatePositions serials (s.start.getD (minOr0 serials)) s.rows.length).addBefore
        (getDatePositions serials (s.start.getD (minOr0 serials)) s.rows.length).addAfter)[p]?).getD (nanRow s.nv))[v]?.getD none))]
    · congr 1
      rw [hpos, List.map_map]
      apply List.map_congr_left
      intro t ht
      simp only [Function.comp]
      apply List.map_congr_left
      intro v _
      rw [getD_nanRow_eq_cellAt, cellAt_expand]
      have hbt := hb t ht
      generalize (getDatePositions serials (s.start.getD (minOr0 serials)) s.rows.length).addBefore = B at hbt ⊢
      generalize (getDatePositions serials (s.start.getD (minOr0 serials)) s.rows.length).addAfter = A at hbt ⊢
      cases hs : s.start with
      | none =>
        have hr : s.rows = [] := hW hs
        simp [Series.abs, hs, hr, cellAt]
      | some st =>
        simp only [hs, Option.getD_some] at hbt ⊢
        unfold Series.abs
        simp only [hs]
        by_cases c : (t - (st - (B : Int))).toNat < B
        · have : ¬ st ≤ t := by omega
          simp only [c, this, if_true, if_false]
        · have c2 : st ≤ t := by omega
          simp only [c, c2, if_true, if_false]
          congr 1; omega
    · intro p _
      exact pickRow_valid _ _ _ hv



/-- `clip(a, b)` restricts the map to the clamped window and changes nothing inside it -/
theorem abs_clip (s : Series) (hI : Inv s) (st : Int) (hs : s.start = some st) (a b : Option Int) (s' : Series)
    (h : s.clip a b = .ok s') (t : Int) (v : Nat) :
    s'.abs t v = if clampLo st a ≤ t ∧ t ≤ clampHi (st + (s.rows.length : Int) - 1) b then s.abs t v else none := by
  unfold Series.clip at h
  simp only [hs] at h
  by_cases c : clampLo st a = st ∧ clampHi (st + (s.rows.length : Int) - 1) b = st + (s.rows.length : Int) - 1
  · rw [if_pos c] at h
    simp only [pure, Except.pure, Except.ok.injEq] at h
    subst h
    rw [c.1, c.2]
    by_cases c2 : st ≤ t ∧ t ≤ st + (s.rows.length : Int) - 1
    · rw [if_pos c2]
    · rw [if_neg c2]
      by_cases c3 : st ≤ t
      · exact abs_none_of_gt_end s t v (fun e he => by
          simp [Series.endSerial, hs] at he; omega)
      · exact abs_none_of_lt_start s t v (fun st' hst' => by rw [hs] at hst'; cases hst'; omega)
  · rw [if_neg c] at h
    simp only [pure, Except.pure, Except.ok.injEq] at h
    subst h
    generalize clampLo st a = ns
    generalize clampHi (st + (s.rows.length : Int) - 1) b = ne
    show (⟨s.freq, some ns, s.nv, s.sliceFromUntil ns ne⟩ : Series).abs t v = _
    rw [abs_mk]
    by_cases c1 : ns ≤ t
    · simp only [c1, true_and, if_true]
      rw [cellAt_slice s hI.2]
      have e : ns + (((t - ns).toNat : Nat) : Int) = t := by omega
      rw [e]
      by_cases c2 : t ≤ ne
      · rw [if_pos (by omega), if_pos c2]
      · rw [if_neg (by omega), if_neg c2]
    · simp only [c1, false_and, if_false]

/-- overlay, the part proved: the result is well-formed and trimmed, and no period outside `other`'s span changes -/
theorem overlayCore_frame (self other r : Series) (hI : Inv self) (h : self.overlayCore other = .ok r) :
    Inv r ∧ Trimmed r ∧ ∀ t v, t ∉ other.spanSerials → r.abs t v = self.abs t v := by
  unfold Series.overlayCore at h
  simp only [bind_ok, pure, Except.pure, Except.ok.injEq] at h
  obtain ⟨x, hx, rfl⟩ := h
  obtain ⟨hIx, _, _, h4⟩ := setData_spec _ _ _ _ x hI hx
  refine ⟨inv_trim' _ hIx, trimmed_trim _ (isSome_of_wf _ hIx.2), ?_⟩
  intro t v ht
  rw [abs_trim _ hIx.1]
  rcases h4 with ⟨_, h5⟩ | ⟨_, _, m, h6, h7⟩
  · exact h5 t v
  · rw [h7 t v]; exact writeAll_frame _ _ _ _ _ _ _ h6 t v (Or.inl ht)


/-! ### statistics, moving windows, fill, replace_where: invariant -/

theorem inv_rowStat (f : StatFn) (s r : Series) (hI : Inv s) (h : s.rowStat f = .ok r) : Inv r := by
  unfold Series.rowStat at h
  split at h
  · cases h
  · simp only [pure, Except.pure, Except.ok.injEq] at h
    subst h
    apply inv_trim
    · intro r hr
      simp only [List.mem_map] at hr
      obtain ⟨r0, _, rfl⟩ := hr
      rfl
    · intro hne
      apply isSome_of_wf s hI.2
      intro h0; apply hne; simp [h0]

theorem length_movRows (f : MovFn) (wl nv : Nat) (rows : List Row) : (movRows f wl nv rows).length = rows.length := by
  simp [movRows]

theorem inv_movWindow (f : MovFn) (w : Option Int) (s r : Series) (hI : Inv s) (h : s.movWindow f w = .ok r) : Inv r := by
  unfold Series.movWindow at h
  simp only at h
  split at h
  · cases h
  · simp only [pure, Except.pure, Except.ok.injEq] at h
    subst h
    apply inv_trim
    · intro r hr
      simp only [movRows, List.mem_map] at hr
      obtain ⟨i, _, rfl⟩ := hr
      simp
    · intro hne
      apply isSome_of_wf s hI.2
      intro h0; apply hne
      apply List.eq_nil_of_length_eq_zero
      rw [length_movRows]; simp [h0]

theorem inv_fillMissingP (s : Series) (m : FillMethod) (ps : List Period) (r : Series) (hI : Inv s)
    (h : s.fillMissingP m ps = .ok r) : Inv r := by
  unfold Series.fillMissingP at h
  simp only [bind_ok] at h
  obtain ⟨d, _, h2⟩ := h
  exact inv_setDataP s ps _ .all r hI h2

theorem inv_replaceWhere (t : TestFn) (new : Cell) (s : Series) (hI : Inv s) : Inv (s.replaceWhere t new) :=
  inv_apply _ s hI

/-! ### contiguous-span writes: overlay / underlay -/


/-- the contiguous span `st, st+1, …, st+n-1` -/
def spanList (st : Int) (n : Nat) : List Int := (List.range n).map (fun (i : Nat) => st + (i : Int))

theorem spanList_succ (st : Int) (n : Nat) : spanList st (n + 1) = st :: spanList (st + 1) n := by
  unfold spanList
  rw [List.range_succ_eq_map]
  simp only [List.map_cons, List.map_map]
  congr 1
  · simp
  · apply List.map_congr_left
    intro i _
    simp only [Function.comp]
    omega

theorem spanSerials_eq (s : Series) (st : Int) (h : s.start = some st) : s.spanSerials = spanList st s.rows.length := by
  simp [Series.spanSerials, h, spanList]

/-- writing one variant over a contiguous span: inside the span the cell reads the written column, elsewhere nothing changes -/
theorem writeCol_span (v : Nat) (n : Nat) : ∀ (st : Int) (vals : List Cell) (m : Map) (t : Int) (v' : Nat),
    vals.length = n →
    Map.writeCol m v ((spanList st n).zip vals) t v' =
      if v' = v ∧ st ≤ t ∧ t < st + (n : Int) then (vals[(t - st).toNat]?).getD none else m t v' := by
  induction n with
  | zero =>
    intro st vals m t v' _
    have : ¬ (v' = v ∧ st ≤ t ∧ t < st + ((0 : Nat) : Int)) := by omega
    rw [if_neg this]
    simp [spanList, Map.writeCol]
  | succ n ih =>
    intro st vals m t v' hl
    cases vals with
    | nil => simp at hl
    | cons c cs =>
      rw [spanList_succ]
      simp only [List.zip_cons_cons, Map.writeCol]
      rw [ih (st + 1) cs _ t v' (by simpa using hl)]
      unfold Map.write
      by_cases h1 : v' = v
      · by_cases h2 : st + 1 ≤ t ∧ t < st + 1 + (n : Int)
        · have h3 : st ≤ t ∧ t < st + ((n + 1 : Nat) : Int) := by omega
          rw [if_pos ⟨h1, h2⟩, if_pos ⟨h1, h3⟩]
          have : (t - st).toNat = (t - (st + 1)).toNat + 1 := by omega
          rw [this]; simp
        · rw [if_neg (fun h => h2 h.2)]
          by_cases h4 : t = st
          · have h3 : st ≤ t ∧ t < st + ((n + 1 : Nat) : Int) := by omega
            rw [if_pos ⟨h4, h1⟩, if_pos ⟨h1, h3⟩]
            subst h4; simp
          · have h3 : ¬ (st ≤ t ∧ t < st + ((n + 1 : Nat) : Int)) := by omega
            rw [if_neg (fun h => h4 h.1), if_neg (fun h => h3 h.2)]
      · rw [if_neg (fun h => h1 h.1), if_neg (fun h => h1 h.2), if_neg (fun h => h1 h.1)]

/-- writing the variants `k, k+1, …, k+j-1` from per-variant columns over a contiguous span -/
theorem writeAll_span (nv n : Nat) (st : Int) (data : DataArg) (colf : Nat → List Cell)
    (hcol : ∀ k, k < nv → (data.variant k).values n = some (colf k) ∧ (colf k).length = n) :
    ∀ (j k : Nat) (m : Map), k + j = nv →
      ∃ m', Map.writeAll m nv (spanList st n) data ((List.range' k j).map (fun (i : Nat) => (i : Int))) k = some m' ∧
        ∀ t v, m' t v = if (k ≤ v ∧ v < nv) ∧ st ≤ t ∧ t < st + (n : Int) then ((colf v)[(t - st).toNat]?).getD none else m t v := by
  intro j
  induction j with
  | zero =>
    intro k m hk
    refine ⟨m, by simp [Map.writeAll], ?_⟩
    intro t v
    have : ¬ ((k ≤ v ∧ v < nv) ∧ st ≤ t ∧ t < st + (n : Int)) := by omega
    rw [if_neg this]
  | succ j ih =>
    intro k m hk
    have hk' : k < nv := by omega
    obtain ⟨hv, hl⟩ := hcol k hk'
    have hlen : (spanList st n).length = n := by simp [spanList]
    simp only [List.range'_succ, List.map_cons, Map.writeAll, normIdx_nat nv k hk', hlen, hv]
    obtain ⟨m', h1, h2⟩ := ih (k + 1) (m.writeCol k ((spanList st n).zip (colf k))) (by omega)
    refine ⟨m', h1, ?_⟩
    intro t v
    rw [h2 t v, writeCol_span k n st (colf k) m t v hl]
    by_cases c1 : st ≤ t ∧ t < st + (n : Int)
    · by_cases c2 : k + 1 ≤ v ∧ v < nv
      · rw [if_pos ⟨c2, c1⟩, if_pos ⟨⟨by omega, c2.2⟩, c1⟩]
      · rw [if_neg (fun h => c2 h.1)]
        by_cases c3 : v = k
        · rw [if_pos ⟨c3, c1⟩, if_pos ⟨⟨by omega, by omega⟩, c1⟩, c3]
        · rw [if_neg (fun h => c3 h.1), if_neg (fun h => by have := h.1; omega)]
    · rw [if_neg (fun h => c1 h.2), if_neg (fun h => c1 h.2), if_neg (fun h => c1 h.2)]


theorem exhaustThenLast_get {α} (l : List α) (d x : α) (k : Nat) (h : l[k]? = some x) : exhaustThenLast l d k = x := by
  simp [exhaustThenLast, h]

theorem inSpan_iff (s : Series) (t : Int) : InSpan s t ↔ ∃ st, s.start = some st ∧ st ≤ t ∧ t < st + (s.rows.length : Int) := by
  unfold InSpan
  constructor
  · rintro ⟨st, h1, h2, h3⟩; exact ⟨st, h1, h2, by omega⟩
  · rintro ⟨st, h1, h2, h3⟩; exact ⟨st, h1, h2, by omega⟩

theorem not_mem_spanSerials (s : Series) (t : Int) (h : ¬ InSpan s t) : t ∉ s.spanSerials := by
  intro hm
  apply h
  unfold Series.spanSerials at hm
  cases hs : s.start with
  | none => simp [hs] at hm
  | some st =>
    simp only [hs, List.mem_map, List.mem_range] at hm
    obtain ⟨i, hi, rfl⟩ := hm
    exact ⟨st, hs, by omega, by omega⟩

/-- **overlay by span**: inside `other`'s reported span the result is `other` (missing values included), outside it is `self` -/
theorem abs_overlayCore (self other r : Series) (hI : Inv self) (hO : Inv other) (hnv : self.nv = other.nv)
    (h : self.overlayCore other = .ok r) (t : Int) (v : Nat) :
    (InSpan other t → v < other.nv → r.abs t v = other.abs t v) ∧ (¬ InSpan other t → r.abs t v = self.abs t v) := by
  refine ⟨?_, fun hn => (overlayCore_frame self other r hI h).2.2 t v (not_mem_spanSerials other t hn)⟩
  intro hin hv
  obtain ⟨so, hso, h1, h2⟩ := (inSpan_iff other t).mp hin
  unfold Series.overlayCore at h
  simp only [bind_ok, pure, Except.pure, Except.ok.injEq] at h
  obtain ⟨x, hx, rfl⟩ := h
  obtain ⟨hIx, _, _, h4⟩ := setData_spec _ _ _ _ x hI hx
  rw [abs_trim _ hIx.1]
  rw [spanSerials_eq other so hso] at h4
  have hne : spanList so other.rows.length ≠ [] := by
    intro h0
    have : (spanList so other.rows.length).length = 0 := by rw [h0]; rfl
    rw [spanList, List.length_map, List.length_range] at this
    omega
  rcases h4 with ⟨h0, _⟩ | ⟨_, _, m, h6, h7⟩
  · exact absurd h0 hne
  · rw [h7 t v]
    let colf : Nat → List Cell := fun k => other.rows.map (fun r => (r[k]?).getD none)
    have hcol : ∀ k, k < self.nv →
        ((DataArg.array (transpose other.nv other.rows)).variant k).values other.rows.length = some (colf k) ∧
        (colf k).length = other.rows.length := by
      intro k hk
      have hk' : k < other.nv := by omega
      have e : ((transpose other.nv other.rows).map Col.column)[k]? = some (Col.column (colf k)) := by
        simp [transpose, List.getElem?_map, List.getElem?_range hk', colf]
      refine ⟨?_, by simp [colf]⟩
      simp only [DataArg.variant]
      rw [exhaustThenLast_get _ _ _ k e]
      simp [Col.values, colf]
    obtain ⟨m', h8, h9⟩ := writeAll_span self.nv other.rows.length so _ colf hcol self.nv 0 self.abs (by omega)
    have hv0 : allVids self = (List.range' 0 self.nv).map (fun (i : Nat) => (i : Int)) := by
      simp [allVids, resolveVariants, List.range_eq_range']
    rw [hv0, h8] at h6
    simp only [Option.some.injEq] at h6
    subst h6
    rw [h9 t v, if_pos ⟨⟨by omega, by omega⟩, h1, h2⟩]
    simp only [colf, List.getElem?_map]
    unfold Series.abs
    simp only [hso, h1, if_true]
    unfold cellAt
    cases other.rows[(t - so).toNat]? <;> simp

theorem broadcastPair_eq (a b : Series) (h : a.nv = b.nv) : broadcastPair a b = .ok (a, b) := by
  unfold broadcastPair
  rw [if_pos h]; rfl

/-- `overlay` / `underlay` for equal numbers of variants -/
theorem abs_overlay (self other r : Series) (hI : Inv self) (hO : Inv other) (hnv : self.nv = other.nv)
    (h : self.overlay other = .ok r) (t : Int) (v : Nat) :
    (InSpan other t → v < other.nv → r.abs t v = other.abs t v) ∧ (¬ InSpan other t → r.abs t v = self.abs t v) := by
  unfold Series.overlay at h
  rw [broadcastPair_eq _ _ hnv] at h
  exact abs_overlayCore _ _ r hI hO hnv h t v

theorem abs_underlay (self other r : Series) (hI : Inv self) (hO : Inv other) (hnv : self.nv = other.nv)
    (h : self.underlay other = .ok r) (t : Int) (v : Nat) :
    (InSpan self t → v < self.nv → r.abs t v = self.abs t v) ∧ (¬ InSpan self t → r.abs t v = other.abs t v) := by
  unfold Series.underlay at h
  rw [broadcastPair_eq _ _ hnv] at h
  simp only [bind_ok, pure, Except.pure, Except.ok.injEq] at h
  obtain ⟨x, h2, h3⟩ := h
  subst h2
  exact abs_overlay _ _ _ hO hI hnv.symm h3 t v


/-! ### binary operators with variant broadcasting -/


/-- the variant of an operand that numpy broadcasting pairs with variant `v` of the result -/
def bidx (nv v : Nat) : Nat := if nv = 1 then 0 else v

theorem cellAt_zipWith_bcast (f : Cell → Cell → Cell) (hf : ∀ x, f none x = none ∧ f x none = none) (na nb nv : Nat)
    (da db : List Row) (hda : ∀ r ∈ da, r.length = na) (hdb : ∀ r ∈ db, r.length = nb) (i v : Nat) (hv : v < nv) :
    cellAt (List.zipWith (zipRow f nv) da db) i v = f (cellAt da i (bidx na v)) (cellAt db i (bidx nb v)) := by
  unfold cellAt
  rw [List.getElem?_zipWith]
  cases h1 : da[i]? with
  | none => simp [(hf _).1]
  | some ra =>
    cases h2 : db[i]? with
    | none => simp [(hf _).2]
    | some rb =>
      have la := hda ra (List.mem_of_getElem? h1)
      have lb := hdb rb (List.mem_of_getElem? h2)
      simp only [zipRow, List.getElem?_map, List.getElem?_range hv, Option.map_some, Option.getD_some, la, lb, bidx]

theorem abs_none_of_ge_nv (s : Series) (hR : Rect s) (t : Int) (v : Nat) (hv : s.nv ≤ v) : s.abs t v = none := by
  apply abs_eq_none_of_cells
  intro i
  unfold cellAt
  cases hi : s.rows[i]? with
  | none => rfl
  | some r =>
    have := hR r (List.mem_of_getElem? hi)
    simp only
    rw [List.getElem?_eq_none (by omega)]; rfl

/-- **Alignment with variant broadcasting** (numpy rule: equal numbers of variants, or one operand with a single
variant that is paired with every variant of the other) -/
theorem abs_binop_bcast (f : Cell → Cell → Cell) (hf : ∀ x, f none x = none ∧ f x none = none) (a b r : Series) (nv : Nat)
    (ha : Inv a) (hb : Inv b) (hbc : bcastNv a.nv b.nv = some nv) (h : a.binop f b = .ok r) (t : Int) (v : Nat) (hv : v < nv) :
    r.nv = nv ∧ r.abs t v = f (a.abs t (bidx a.nv v)) (b.abs t (bidx b.nv v)) := by
  unfold Series.binop at h
  rw [hbc] at h
  simp only at h
  cases hlo : optMin a.start b.start with
  | none =>
    obtain ⟨h1, h2⟩ := optMin_none _ _ hlo
    simp only [hlo, pure, Except.pure, Except.ok.injEq] at h
    subst h
    simp [Series.abs, Series.new, h1, h2, (hf none).1]
  | some lo =>
    cases hhi : optMax a.endSerial b.endSerial with
    | none =>
      obtain ⟨h1, h2⟩ := optMax_none _ _ hhi
      have h1' : a.start = none := by cases hs : a.start <;> simp [Series.endSerial, hs] at h1 ⊢
      have h2' : b.start = none := by cases hs : b.start <;> simp [Series.endSerial, hs] at h2 ⊢
      simp [optMin, h1', h2'] at hlo
    | some hi =>
      simp only [hlo, hhi, pure, Except.pure, Except.ok.injEq] at h
      subst h
      obtain ⟨m1, m2⟩ := optMin_le _ _ lo hlo
      obtain ⟨x1, x2⟩ := le_optMax _ _ hi hhi
      have hRa := rect_slice a lo hi ha.1
      have hRb := rect_slice b lo hi hb.1
      refine ⟨nv_trim _, ?_⟩
      rw [abs_trim]
      · rw [abs_mk]
        by_cases c1 : lo ≤ t
        · simp only [c1, if_true]
          rw [cellAt_zipWith_bcast f hf a.nv b.nv nv _ _ hRa hRb _ _ hv, cellAt_slice a ha.2, cellAt_slice b hb.2]
          have e : lo + (((t - lo).toNat : Nat) : Int) = t := by omega
          rw [e]
          by_cases c2 : (((t - lo).toNat : Nat) : Int) < hi - lo + 1
          · simp only [c2, if_true]
          · simp only [c2, if_false]
            rw [abs_none_of_gt_end a t _ (fun e he => by have := x1 e he; omega), (hf _).1, (hf _).1]
        · simp only [c1, if_false]
          rw [abs_none_of_lt_start a t _ (fun st hst => by have := m1 st hst; omega)]
          exact ((hf _).1).symm
      · intro r hr
        simp only at hr
        obtain ⟨i, hi'⟩ := List.mem_iff_getElem?.mp hr
        rw [List.getElem?_zipWith] at hi'
        split at hi'
        · simp only [Option.some.injEq] at hi'; subst hi'; exact length_zipRow _ _ _ _
        · cases hi'


/-! ### row statistics -/

/-- in a rectangular block a row is the list of its cells -/
theorem row_eq_cells (rows : List Row) (nv : Nat) (hR : ∀ r ∈ rows, r.length = nv) (i : Nat) (row : Row)
    (h : rows[i]? = some row) : row = (List.range nv).map (fun v => cellAt rows i v) := by
  have hl := hR row (List.mem_of_getElem? h)
  apply List.ext_getElem?
  intro v
  by_cases hv : v < nv
  · rw [List.getElem?_map, List.getElem?_range hv]
    simp only [Option.map_some, cellAt, h]
    have : v < row.length := by omega
    simp [List.getElem?_eq_getElem this]
  · rw [List.getElem?_eq_none (by omega), List.getElem?_eq_none (by simp; omega)]

/-- **row statistics**: at every period of the span the single variant of the result is the statistic of that period's
cells (a fold over the variants, with the function's own NaN rule); outside the span there is nothing -/
theorem abs_rowStat (f : StatFn) (s r : Series) (hI : Inv s) (h : s.rowStat f = .ok r) (t : Int) :
    r.nv = 1 ∧ (InSpan s t → r.abs t 0 = f.eval ((List.range s.nv).map (fun v => s.abs t v))) ∧
    (¬ InSpan s t → r.abs t 0 = none) := by
  unfold Series.rowStat at h
  split at h
  · cases h
  · simp only [pure, Except.pure, Except.ok.injEq] at h
    subst h
    have hRpre : Rect ({ s with nv := 1, rows := s.rows.map (fun r => [f.eval r]) } : Series) := by
      intro r hr
      simp only [List.mem_map] at hr
      obtain ⟨r0, _, rfl⟩ := hr
      rfl
    refine ⟨nv_trim _, ?_, ?_⟩
    · intro hin
      obtain ⟨st, hst, h1, h2⟩ := (inSpan_iff s t).mp hin
      rw [abs_trim _ hRpre]
      have hlt : (t - st).toNat < s.rows.length := by omega
      obtain ⟨row, hrow⟩ : ∃ row, s.rows[(t - st).toNat]? = some row := ⟨s.rows[(t - st).toNat], by simp [hlt]⟩
      have e1 : ({ s with nv := 1, rows := s.rows.map (fun r => [f.eval r]) } : Series).abs t 0 = f.eval row := by
        simp [Series.abs, hst, h1, cellAt, hrow]
      rw [e1, row_eq_cells s.rows s.nv hI.1 _ row hrow]
      congr 1
      apply List.map_congr_left
      intro v _
      simp [Series.abs, hst, h1]
    · intro hn
      rw [abs_trim _ hRpre]
      unfold Series.abs
      cases hst : s.start with
      | none => rfl
      | some st =>
        simp only
        split
        · rename_i c
          have : s.rows.length ≤ (t - st).toNat := by
            apply Nat.le_of_not_lt
            intro hlt
            exact hn ((inSpan_iff s t).mpr ⟨st, hst, c, by omega⟩)
          exact cellAt_none_of_ge _ _ _ (by simpa using this)
        · rfl


/-! ### moving windows -/

theorem strictVals_none_of_mem (l : List Cell) (h : none ∈ l) : strictVals l = none := by
  induction l with
  | nil => simp at h
  | cons c cs ih =>
    cases c with
    | none => rfl
    | some x =>
      simp only [strictVals]
      rw [ih (by simpa using h)]; rfl

theorem movEval_none_of_mem (f : MovFn) (l : List Cell) (h : none ∈ l) : f.eval l = none := by
  cases f <;> simp [MovFn.eval, strictVals_none_of_mem l h]

/-- the window ending at `t`, oldest value first -/
def windowOf (s : Series) (wl : Nat) (t : Int) (v : Nat) : List Cell :=
  (List.range wl).map (fun (k : Nat) => s.abs (t - ((wl : Int) - 1) + (k : Int)) v)

theorem window_none (f : MovFn) (s : Series) (wl : Nat) (hwl : 1 ≤ wl) (t : Int) (v : Nat) (h : s.abs t v = none) :
    f.eval (windowOf s wl t v) = none := by
  apply movEval_none_of_mem
  unfold windowOf
  rw [List.mem_map]
  refine ⟨wl - 1, List.mem_range.mpr (by omega), ?_⟩
  rw [← h]
  congr 1
  omega

/-- **moving windows**: at every period `t` and variant `v` the result is the function of the window
`abs s (t-wl+1) v, …, abs s t v` (missing-strict: one missing value, also before the start, makes it missing) -/
theorem abs_movWindow (f : MovFn) (w : Option Int) (s r : Series) (hI : Inv s) (h : s.movWindow f w = .ok r)
    (t : Int) (v : Nat) :
    1 ≤ (-(w.getD s.defaultWindow)).toNat ∧
    r.abs t v = f.eval (windowOf s (-(w.getD s.defaultWindow)).toNat t v) := by
  unfold Series.movWindow at h
  simp only at h
  split at h
  · cases h
  · rename_i hw
    simp only [pure, Except.pure, Except.ok.injEq] at h
    subst h
    generalize hwl : (-(w.getD s.defaultWindow)).toNat = wl at *
    have hwl1 : 1 ≤ wl := by omega
    refine ⟨hwl1, ?_⟩
    have hRpre : Rect ({ s with rows := movRows f wl s.nv s.rows } : Series) := by
      intro r hr
      simp only [movRows, List.mem_map] at hr
      obtain ⟨i, _, rfl⟩ := hr
      simp
    rw [abs_trim _ hRpre]
    by_cases hv : v < s.nv
    · unfold Series.abs
      cases hst : s.start with
      | none =>
        simp only
        exact (window_none f s wl hwl1 t v (by simp [Series.abs, hst])).symm
      | some st =>
        simp only
        by_cases c1 : st ≤ t
        · simp only [c1, if_true]
          by_cases c2 : (t - st).toNat < s.rows.length
          · have e : cellAt (movRows f wl s.nv s.rows) (t - st).toNat v =
                f.eval ((List.range wl).map (fun k => cellAt (expand s.nv s.rows (wl - 1) 0) ((t - st).toNat + k) v)) := by
              simp [movRows, cellAt, List.getElem?_map, List.getElem?_range c2, List.getElem?_range hv]
            rw [e]
            congr 1
            unfold windowOf
            apply List.map_congr_left
            intro k hk
            have hk' := List.mem_range.mp hk
            rw [cellAt_expand]
            show _ = Series.abs s _ v
            unfold Series.abs
            simp only [hst]
            by_cases c3 : (t - st).toNat + k < wl - 1
            · have : ¬ st ≤ t - ((wl : Int) - 1) + (k : Int) := by omega
              simp only [c3, this, if_true, if_false]
            · have c4 : st ≤ t - ((wl : Int) - 1) + (k : Int) := by omega
              simp only [c3, c4, if_true, if_false]
              congr 1; omega
          · have e : cellAt (movRows f wl s.nv s.rows) (t - st).toNat v = none :=
              cellAt_none_of_ge _ _ _ (by rw [length_movRows]; omega)
            rw [e]
            exact (window_none f s wl hwl1 t v (by
              simp only [Series.abs, hst, c1, if_true]
              exact cellAt_none_of_ge _ _ _ (by omega))).symm
        · simp only [c1, if_false]
          exact (window_none f s wl hwl1 t v (by simp [Series.abs, hst, c1])).symm
    · rw [abs_none_of_ge_nv _ hRpre t v (by simpa using Nat.le_of_not_lt hv)]
      exact (window_none f s wl hwl1 t v (abs_none_of_ge_nv s hI.1 t v (Nat.le_of_not_lt hv))).symm


/-! ### replace_where, fill_missing (column level) -/


theorem cellAt_map_in (g : Cell → Cell) (rows : List Row) (i v : Nat) (row : Row) (h : rows[i]? = some row)
    (hv : v < row.length) : cellAt (rows.map (fun r => r.map g)) i v = g (cellAt rows i v) := by
  unfold cellAt
  rw [List.getElem?_map, h]
  simp only [Option.map_some, List.getElem?_map]
  rw [List.getElem?_eq_getElem hv]
  simp

/-- **replace_where**: inside the span every cell `x` becomes `new` when `test x` holds and stays `x` otherwise (a
NaN-testing `test` fills in-span holes); outside the span nothing appears; the result is trimmed -/
theorem abs_replaceWhere (tf : TestFn) (new : Cell) (s : Series) (hI : Inv s) (t : Int) (v : Nat) :
    (InSpan s t → v < s.nv → (s.replaceWhere tf new).abs t v = if tf.eval (s.abs t v) then new else s.abs t v) ∧
    (¬ InSpan s t → (s.replaceWhere tf new).abs t v = none) ∧ Trimmed (s.replaceWhere tf new) := by
  have hIm := inv_mapCells (fun x => if tf.eval x then new else x) s hI
  refine ⟨?_, ?_, trimmed_trim _ (isSome_of_wf _ hIm.2)⟩
  · intro hin hv
    obtain ⟨st, hst, h1, h2⟩ := (inSpan_iff s t).mp hin
    unfold Series.replaceWhere
    rw [abs_trim _ hIm.1]
    have hlt : (t - st).toNat < s.rows.length := by omega
    obtain ⟨row, hrow⟩ : ∃ row, s.rows[(t - st).toNat]? = some row := ⟨s.rows[(t - st).toNat], by simp [hlt]⟩
    have hl := hI.1 row (List.mem_of_getElem? hrow)
    simp only [Series.abs, mapCells, hst, h1, if_true]
    exact cellAt_map_in _ s.rows _ v row hrow (by omega)
  · intro hn
    unfold Series.replaceWhere
    rw [abs_trim _ hIm.1]
    simp only [Series.abs, mapCells]
    cases hst : s.start with
    | none => rfl
    | some st =>
      simp only
      split
      · rename_i c
        have : s.rows.length ≤ (t - st).toNat := by
          apply Nat.le_of_not_lt
          intro hlt
          exact hn ((inSpan_iff s t).mpr ⟨st, hst, c, by omega⟩)
        exact cellAt_none_of_ge _ _ _ (by simpa using this)
      · rfl

/-! fill_missing, column level -/

theorem fillColumn_length (m : FillMethod) (col : List Cell) : (fillColumn m col).length = col.length := by
  simp [fillColumn]

/-- observed cells are never touched -/
theorem fillColumn_obs (m : FillMethod) (col : List Cell) (i : Nat) (x : Num) (h : colAt col i = some x) :
    colAt (fillColumn m col) i = some x := by
  have hi : i < col.length := by
    apply Nat.lt_of_not_le
    intro hge
    simp [colAt, List.getElem?_eq_none hge] at h
  simp [colAt, fillColumn, List.getElem?_map, List.getElem?_range hi]
  simp [colAt] at h
  simp [h]

/-- a missing cell inside the column receives exactly the method's value `fillAt` -/
theorem fillColumn_missing (m : FillMethod) (col : List Cell) (i : Nat) (hi : i < col.length) (h : colAt col i = none) :
    colAt (fillColumn m col) i = fillAt m col i := by
  simp only [colAt, fillColumn, List.getElem?_map, List.getElem?_range hi, Option.map_some, Option.getD_some]
  simp only [colAt] at h
  rw [h]



/-- the head of the filtered `range` is the least index satisfying the predicate -/
theorem head_filter_range (p : Nat → Bool) (n j : Nat) (h : ((List.range n).filter p).head? = some j) :
    j < n ∧ p j = true ∧ ∀ j', j' < j → p j' = false := by
  induction n with
  | zero => simp at h
  | succ n ih =>
    rw [List.range_succ, List.filter_append] at h
    by_cases hne : ((List.range n).filter p) = []
    · rw [hne, List.nil_append] at h
      by_cases hp : p n = true
      · simp [List.filter, hp] at h
        subst h
        refine ⟨by omega, hp, ?_⟩
        intro j' hj'
        have : j' ∉ (List.range n).filter p := by rw [hne]; simp
        simp only [List.mem_filter, List.mem_range, not_and] at this
        have := this hj'
        simpa using this
      · simp [List.filter, hp] at h
    · have e : ((List.range n).filter p ++ [n].filter p).head? = ((List.range n).filter p).head? := by
        cases hl : (List.range n).filter p with
        | nil => exact absurd hl hne
        | cons a as => rfl
      rw [e] at h
      obtain ⟨h1, h2, h3⟩ := ih h
      exact ⟨by omega, h2, h3⟩

/-- the last element of the filtered `range` is the greatest index satisfying the predicate -/
theorem last_filter_range (p : Nat → Bool) (n j : Nat) (h : ((List.range n).filter p).getLast? = some j) :
    j < n ∧ p j = true ∧ ∀ j', j < j' → j' < n → p j' = false := by
  induction n with
  | zero => simp at h
  | succ n ih =>
    rw [List.range_succ, List.filter_append] at h
    rw [List.getLast?_append] at h
    by_cases hp : p n = true
    · have e : ([n].filter p).getLast? = some n := by simp [List.filter, hp]
      rw [e] at h
      simp only [Option.some_or, Option.some.injEq] at h
      subst h
      exact ⟨by omega, hp, fun j' h1 h2 => by omega⟩
    · have e : ([n].filter p).getLast? = none := by simp [List.filter, hp]
      rw [e] at h
      simp only [Option.none_or] at h
      obtain ⟨h1, h2, h3⟩ := ih h
      refine ⟨by omega, h2, ?_⟩
      intro j' hj1 hj2
      by_cases e : j' = n
      · subst e; simpa using hp
      · exact h3 j' hj1 (by omega)

/-- `next`: the value comes from the closest observed index at or after `i` -/
theorem nextObs_spec (col : List Cell) (i j : Nat) (h : nextObs col i = some j) :
    j < col.length ∧ i ≤ j ∧ colAt col j ≠ none ∧ ∀ j', i ≤ j' → j' < j → colAt col j' = none := by
  unfold nextObs at h
  obtain ⟨h1, h2, h3⟩ := head_filter_range _ _ _ h
  simp only [decide_eq_true_eq] at h2
  refine ⟨h1, h2.1, h2.2, ?_⟩
  intro j' hj1 hj2
  have := h3 j' hj2
  simp only [decide_eq_false_iff_not, not_and, ne_eq, Decidable.not_not] at this
  exact this hj1

/-- `previous`: the value comes from the closest observed index at or before `i` -/
theorem prevObs_spec (col : List Cell) (i j : Nat) (h : prevObs col i = some j) :
    j < col.length ∧ j ≤ i ∧ colAt col j ≠ none ∧ ∀ j', j < j' → j' ≤ i → j' < col.length → colAt col j' = none := by
  unfold prevObs at h
  obtain ⟨h1, h2, h3⟩ := last_filter_range _ _ _ h
  simp only [decide_eq_true_eq] at h2
  refine ⟨h1, h2.1, h2.2, ?_⟩
  intro j' hj1 hj2 hj3
  have := h3 j' hj1 hj3
  simp only [decide_eq_false_iff_not, not_and, ne_eq, Decidable.not_not] at this
  exact this hj2


/-! ### extrapolate: invariant -/

theorem inv_extrapolate (s : Series) (coeffs : List Rat) (c : Rat) (serials : List Int) (r : Series) (hI : Inv s)
    (h : s.extrapolate coeffs c serials = .ok r) : Inv r := by
  unfold Series.extrapolate at h
  split at h
  · simp only [pure, Except.pure, Except.ok.injEq] at h; subst h; exact hI
  · simp only [pure, Except.pure, Except.ok.injEq] at h; subst h; exact hI
  · split at h
    · cases h
    · exact (setData_spec _ _ _ _ r hI h).1

theorem inv_extrapolateP (s : Series) (coeffs : List Rat) (c : Rat) (ps : List Period) (r : Series) (hI : Inv s)
    (h : s.extrapolateP coeffs c ps = .ok r) : Inv r := by
  unfold Series.extrapolateP at h
  split at h
  · simp only [pure, Except.pure, Except.ok.injEq] at h; subst h; exact hI
  · simp only [bind_ok] at h
    obtain ⟨serials, _, h2⟩ := h
    exact inv_extrapolate s coeffs c serials r hI h2

/-! ### extrapolate: the recursion on `abs` -/


/-- every output of the recursion is one step from the outputs before it (most recent first) followed by the initial lags -/
theorem arRun_get (coeffs : List Rat) (c : Rat) : ∀ (n : Nat) (hist : List Cell) (k : Nat), k < n →
    (arRun coeffs c n hist)[k]? = some (arStep coeffs c (((arRun coeffs c n hist).take k).reverse ++ hist)) := by
  intro n
  induction n with
  | zero => intro hist k hk; omega
  | succ n ih =>
    intro hist k hk
    cases k with
    | zero => simp [arRun]
    | succ k =>
      simp only [arRun, List.getElem?_cons_succ, List.take_succ_cons, List.reverse_cons, List.append_assoc,
        List.singleton_append]
      exact ih _ k (by omega)

theorem length_arRun (coeffs : List Rat) (c : Rat) : ∀ (n : Nat) (hist : List Cell), (arRun coeffs c n hist).length = n := by
  intro n
  induction n with
  | zero => intro _; rfl
  | succ n ih => intro hist; simp [arRun, ih]

theorem length_slice (s : Series) (st : Int) (hs : s.start = some st) (a : Int) (p : Nat) :
    (s.sliceFromUntil (a - (p : Int)) (a - 1)).length = p := by
  unfold Series.sliceFromUntil
  simp only [hs, Option.getD_some]
  obtain ⟨_, hb⟩ := positions_spec [a - (p : Int), a - 1] st s.rows.length
  have h1 := hb (a - (p : Int)) (by simp)
  have h2 := hb (a - 1) (by simp)
  rw [List.length_take, List.length_drop, length_expand]
  generalize (getDatePositions [a - (p : Int), a - 1] st s.rows.length).addBefore = B at h1 h2 ⊢
  generalize (getDatePositions [a - (p : Int), a - 1] st s.rows.length).addAfter = A at h1 h2 ⊢
  omega


/-- the observed lags before period `a`, most recent first: `abs s (a-1) v, …, abs s (a-p) v` -/
def lagsBefore (s : Series) (a : Int) (p : Nat) (v : Nat) : List Cell :=
  ((List.range p).map (fun (i : Nat) => s.abs (a - (p : Int) + (i : Int)) v)).reverse

theorem initCol_eq (s : Series) (hW : WF s) (st : Int) (hs : s.start = some st) (a : Int) (p v : Nat) :
    (s.sliceFromUntil (a - (p : Int)) (a - 1)).map (fun r => (r[v]?).getD none) =
      (List.range p).map (fun (i : Nat) => s.abs (a - (p : Int) + (i : Int)) v) := by
  apply List.ext_getElem?
  intro i
  have hl := length_slice s st hs a p
  by_cases hi : i < p
  · rw [List.getElem?_map, List.getElem?_map, List.getElem?_range hi]
    have e := cellAt_slice s hW (a - (p : Int)) (a - 1) i v
    rw [if_pos (by omega)] at e
    simp only [Option.map_some]
    rw [← e]
    unfold cellAt
    have : i < (s.sliceFromUntil (a - (p : Int)) (a - 1)).length := by omega
    rw [List.getElem?_eq_getElem this]
    simp
  · rw [List.getElem?_eq_none (by simp; omega), List.getElem?_eq_none (by simp; omega)]

/-- **extrapolate** over a span of `n` consecutive periods starting at `a`, AR coefficients `ρ_1 … ρ_p`, intercept `c`:
(1) no cell outside the span changes — in particular the observed history before the span is untouched;
(2) every cell of the span satisfies the recursion `x_t = ρ_1 x_{t-1} + … + ρ_p x_{t-p} + c` (missing-strict), the lags being
    the cells already extrapolated in the result, `abs r (a+k-1) v … abs r a v`, followed by the observed cells of the input
    before the span, `abs s (a-1) v … abs s (a-p) v`. -/
theorem abs_extrapolate (s r : Series) (coeffs : List Rat) (c : Rat) (a : Int) (n : Nat) (hn : 1 ≤ n) (hI : Inv s)
    (st : Int) (hs : s.start = some st) (h : s.extrapolate coeffs c (spanList a n) = .ok r) :
    (∀ t v, ¬ (a ≤ t ∧ t < a + (n : Int)) → r.abs t v = s.abs t v) ∧
    (∀ k v, k < n → v < s.nv →
      r.abs (a + (k : Int)) v = arStep coeffs c
        (((List.range k).map (fun (j : Nat) => r.abs (a + (j : Int)) v)).reverse ++ lagsBefore s a coeffs.length v)) := by
  unfold Series.extrapolate at h
  obtain ⟨n', rfl⟩ : ∃ n', n = n' + 1 := ⟨n - 1, by omega⟩
  rw [spanList_succ] at h
  simp only [hs] at h
  split at h
  · cases h
  · rename_i hnv
    rw [← spanList_succ] at h
    obtain ⟨_, _, _, h4⟩ := setData_spec _ _ _ _ r hI h
    have hne : spanList a (n' + 1) ≠ [] := by rw [spanList_succ]; simp
    rcases h4 with ⟨h0, _⟩ | ⟨_, _, m, h6, h7⟩
    · exact absurd h0 hne
    · let p := coeffs.length
      let colf : Nat → List Cell := fun v => arRun coeffs c (n' + 1) (lagsBefore s a p v)
      have hlen : (spanList a (n' + 1)).length = n' + 1 := by simp [spanList]
      have hcol : ∀ k, k < s.nv →
          ((DataArg.array ((transpose s.nv (s.sliceFromUntil (a - (p : Int)) (a - 1))).map
            (fun col => arRun coeffs c (spanList a (n' + 1)).length col.reverse))).variant k).values (n' + 1) = some (colf k) ∧
          (colf k).length = n' + 1 := by
        intro k hk
        refine ⟨?_, length_arRun _ _ _ _⟩
        have e : (((transpose s.nv (s.sliceFromUntil (a - (p : Int)) (a - 1))).map
            (fun col => arRun coeffs c (spanList a (n' + 1)).length col.reverse)).map Col.column)[k]? =
            some (Col.column (colf k)) := by
          simp only [transpose, List.getElem?_map, List.getElem?_range hk, Option.map_some, hlen]
          rw [initCol_eq s hI.2 st hs a p k]
          rfl
        simp only [DataArg.variant]
        rw [exhaustThenLast_get _ _ _ k e]
        simp [Col.values, colf, length_arRun]
      obtain ⟨m', h8, h9⟩ := writeAll_span s.nv (n' + 1) a _ colf hcol s.nv 0 s.abs (by omega)
      have hv0 : allVids s = (List.range' 0 s.nv).map (fun (i : Nat) => (i : Int)) := by
        simp [allVids, resolveVariants, List.range_eq_range']
      rw [hv0, h8] at h6
      simp only [Option.some.injEq] at h6
      subst h6
      have hspan : ∀ k v, k < n' + 1 → v < s.nv → r.abs (a + (k : Int)) v = ((colf v)[k]?).getD none := by
        intro k v hk hv
        rw [h7, h9, if_pos ⟨⟨by omega, hv⟩, by omega, by omega⟩]
        congr 2; omega
      refine ⟨?_, ?_⟩
      · intro t v hout
        rw [h7, h9, if_neg (fun hh => hout hh.2)]
      · intro k v hk hv
        rw [hspan k v hk hv, arRun_get coeffs c (n' + 1) _ k hk]
        simp only [Option.getD_some]
        have e : (arRun coeffs c (n' + 1) (lagsBefore s a p v)).take k =
            (List.range k).map (fun (j : Nat) => r.abs (a + (j : Int)) v) := by
          apply List.ext_getElem?
          intro j
          by_cases hj : j < k
          · rw [List.getElem?_take, if_pos hj, List.getElem?_map, List.getElem?_range hj]
            simp only [Option.map_some]
            rw [hspan j v (by omega) hv]
            have : j < (colf v).length := by rw [length_arRun]; omega
            show (colf v)[j]? = _
            rw [List.getElem?_eq_getElem this]
            simp
          · rw [List.getElem?_take, if_neg hj, List.getElem?_eq_none (by simp; omega)]
        rw [e]


/-! ### hstack of two series -/


theorem length_sliceFromUntil (s : Series) (a b : Int) : (s.sliceFromUntil a b).length = (b - a + 1).toNat := by
  unfold Series.sliceFromUntil
  simp only
  obtain ⟨_, hb⟩ := positions_spec [a, b] (s.start.getD (min a b)) s.rows.length
  have h1 := hb a (by simp)
  have h2 := hb b (by simp)
  rw [List.length_take, List.length_drop, length_expand]
  generalize (getDatePositions [a, b] (s.start.getD (min a b)) s.rows.length).addBefore = B at h1 h2 ⊢
  generalize (getDatePositions [a, b] (s.start.getD (min a b)) s.rows.length).addAfter = A at h1 h2 ⊢
  generalize s.start.getD (min a b) = base at h1 h2 ⊢
  omega

/-- outside the encompassing window a series has nothing -/
theorem abs_none_outside (s : Series) (lo hi : Int) (hlo : ∀ st, s.start = some st → lo ≤ st)
    (hhi : ∀ e, s.endSerial = some e → e ≤ hi) (t : Int) (v : Nat) (h : ¬ (lo ≤ t ∧ t ≤ hi)) : s.abs t v = none := by
  by_cases c : lo ≤ t
  · exact abs_none_of_gt_end s t v (fun e he => by have := hhi e he; omega)
  · exact abs_none_of_lt_start s t v (fun st hst => by have := hlo st hst; omega)

theorem abs_none_of_isEmpty (s : Series) (hR : Rect s) (h : s.isEmpty = true) (t : Int) (v : Nat) : s.abs t v = none := by
  apply abs_eq_none_of_cells
  intro i
  exact cells_none_of_size_zero s hR (by simpa [Series.isEmpty] using h) i v

/-- a cell of a row of the horizontally stacked block -/
theorem hrow_get (ra rb : Row) (v : Nat) :
    (([ra, rb].flatten)[v]?).getD none = if v < ra.length then (ra[v]?).getD none else (rb[v - ra.length]?).getD none := by
  simp only [List.flatten_cons, List.flatten_nil, List.append_nil]
  by_cases h : v < ra.length
  · rw [if_pos h, List.getElem?_append_left h]
  · rw [if_neg h, List.getElem?_append_right (by omega)]

/-- **hstack of two series**: the result has `a.nv + b.nv` variants; variant `v < a.nv` reads `a`, variant `v ≥ a.nv` reads `b`
at `v - a.nv`, at every period (the encompassing span is implicit: outside it both sides are missing) -/
theorem abs_hstack2 (f : Freq) (a b r : Series) (ha : Inv a) (hb : Inv b) (h : hstack f [a, b] = .ok r) (t : Int) (v : Nat) :
    r.nv = a.nv + b.nv ∧ r.abs t v = if v < a.nv then a.abs t v else b.abs t (v - a.nv) := by
  have hbv : a.nv ≤ v → b.nv ≤ v - a.nv → b.abs t (v - a.nv) = none := fun _ h2 => abs_none_of_ge_nv b hb.1 t _ h2
  unfold hstack at h
  simp only [List.map_cons, List.map_nil, List.foldl_cons, List.foldl_nil, Nat.zero_add] at h
  by_cases hall : ([a, b].all fun s => s.isEmpty) = true
  · rw [if_pos hall] at h
    simp only [pure, Except.pure, Except.ok.injEq] at h
    subst h
    simp only [List.all_cons, List.all_nil, Bool.and_true, Bool.and_eq_true] at hall
    refine ⟨rfl, ?_⟩
    have e1 : (Series.new f (a.nv + b.nv)).abs t v = none := by simp [Series.abs, Series.new]
    rw [e1]
    split
    · exact (abs_none_of_isEmpty a ha.1 hall.1 t v).symm
    · exact (abs_none_of_isEmpty b hb.1 hall.2 t _).symm
  · rw [if_neg hall] at h
    have eo : optMin (optMin none a.start) b.start = optMin a.start b.start := by simp [optMin]
    have ex : optMax (optMax none a.endSerial) b.endSerial = optMax a.endSerial b.endSerial := by simp [optMax]
    rw [eo, ex] at h
    cases hlo : optMin a.start b.start with
    | none => simp [hlo] at h
    | some lo =>
      cases hhi : optMax a.endSerial b.endSerial with
      | none => simp [hlo, hhi] at h
      | some hi =>
        simp only [hlo, hhi] at h
        obtain ⟨m1, m2⟩ := optMin_le _ _ lo hlo
        obtain ⟨x1, x2⟩ := le_optMax _ _ hi hhi
        have hnew : Inv (Series.new f (a.nv + b.nv)) := inv_new _ _
        obtain ⟨_, hnv, _, h4⟩ := setData_spec _ _ _ _ r hnew h
        refine ⟨hnv, ?_⟩
        have hout : ¬ (lo ≤ t ∧ t ≤ hi) → (if v < a.nv then a.abs t v else b.abs t (v - a.nv)) = none := by
          intro ho
          split
          · exact abs_none_outside a lo hi m1 x1 t v ho
          · exact abs_none_outside b lo hi m2 x2 t _ ho
        have hnone : ∀ t v, (Series.new f (a.nv + b.nv)).abs t v = none := by intro t v; simp [Series.abs, Series.new]
        generalize hn : (hi - lo + 1).toNat = n at h4
        rcases h4 with ⟨h0, h5⟩ | ⟨_, _, m, h6, h7⟩
        · -- empty span: hi < lo
          rw [h5 t v, hnone]
          have : n = 0 := by
            have := congrArg List.length h0
            simpa using this
          exact (hout (by omega)).symm
        · let rows : List Row := (List.range n).map (fun i =>
            [((a.sliceFromUntil lo hi)[i]?).getD [], ((b.sliceFromUntil lo hi)[i]?).getD []].flatten)
          let colf : Nat → List Cell := fun k => rows.map (fun r => (r[k]?).getD none)
          have hcol : ∀ k, k < a.nv + b.nv →
              ((DataArg.array (transpose (a.nv + b.nv) rows)).variant k).values n = some (colf k) ∧ (colf k).length = n := by
            intro k hk
            have e : ((transpose (a.nv + b.nv) rows).map Col.column)[k]? = some (Col.column (colf k)) := by
              simp [transpose, List.getElem?_map, List.getElem?_range hk, colf]
            refine ⟨?_, by simp [colf, rows]⟩
            simp only [DataArg.variant]
            rw [exhaustThenLast_get _ _ _ k e]
            simp [Col.values, colf, rows]
          obtain ⟨m', h8, h9⟩ := writeAll_span (a.nv + b.nv) n lo _ colf hcol (a.nv + b.nv) 0
            (Series.new f (a.nv + b.nv)).abs (by omega)
          have hv0 : allVids (Series.new f (a.nv + b.nv)) = (List.range' 0 (a.nv + b.nv)).map (fun (i : Nat) => (i : Int)) := by
            simp [allVids, resolveVariants, List.range_eq_range', Series.new]
          have hsp : (List.range n).map (fun (i : Nat) => lo + (i : Int)) = spanList lo n := rfl
          rw [hsp, hv0] at h6
          have hnvnew : (Series.new f (a.nv + b.nv)).nv = a.nv + b.nv := rfl
          rw [hnvnew, h8] at h6
          simp only [Option.some.injEq] at h6
          subst h6
          rw [h7 t v, h9 t v]
          by_cases cin : lo ≤ t ∧ t < lo + (n : Int)
          · by_cases cv : v < a.nv + b.nv
            · rw [if_pos ⟨⟨by omega, cv⟩, cin⟩]
              have hi' : (t - lo).toNat < n := by omega
              have hla := length_sliceFromUntil a lo hi
              have hlb := length_sliceFromUntil b lo hi
              obtain ⟨ra, hra⟩ : ∃ ra, (a.sliceFromUntil lo hi)[(t - lo).toNat]? = some ra :=
                ⟨(a.sliceFromUntil lo hi)[(t - lo).toNat]'(by omega), by simp⟩
              obtain ⟨rb, hrb⟩ : ∃ rb, (b.sliceFromUntil lo hi)[(t - lo).toNat]? = some rb :=
                ⟨(b.sliceFromUntil lo hi)[(t - lo).toNat]'(by omega), by simp⟩
              have lra := rect_slice a lo hi ha.1 ra (List.mem_of_getElem? hra)
              have e1 : ((colf v)[(t - lo).toNat]?).getD none = (([ra, rb].flatten)[v]?).getD none := by
                simp [colf, rows, List.getElem?_map, List.getElem?_range hi', hra, hrb]
              rw [e1, hrow_get, lra]
              have ea := cellAt_slice a ha.2 lo hi (t - lo).toNat
              have eb := cellAt_slice b hb.2 lo hi (t - lo).toNat
              have et : lo + (((t - lo).toNat : Nat) : Int) = t := by omega
              split
              · have := ea v
                rw [if_pos (by omega), et] at this
                rw [← this]; simp [cellAt, hra]
              · have := eb (v - a.nv)
                rw [if_pos (by omega), et] at this
                rw [← this]; simp [cellAt, hrb]
            · rw [if_neg (fun hh => cv hh.1.2), hnone]
              rw [if_neg (by omega)]
              exact (hbv (by omega) (by omega)).symm
          · rw [if_neg (fun hh => cin hh.2), hnone]
            exact (hout (by omega)).symm


/-! ### overlay / underlay with variant broadcasting -/


/-- `_broadcast_variants(n)` of a one-variant series: every variant reads the single one; span unchanged -/
theorem broadcastVariants_spec (s s' : Series) (n : Nat) (hI : Inv s) (h1 : s.nv = 1) (h : s.broadcastVariants n = .ok s') :
    Inv s' ∧ s'.nv = n ∧ (∀ t, InSpan s' t ↔ InSpan s t) ∧ ∀ t v, v < n → s'.abs t v = s.abs t 0 := by
  have hinv := inv_broadcastVariants s n s' hI h
  unfold Series.broadcastVariants at h
  by_cases c : s.nv = n
  · rw [if_pos c] at h
    simp only [pure, Except.pure, Except.ok.injEq] at h
    subst h
    refine ⟨hinv, c, fun _ => Iff.rfl, ?_⟩
    intro t v hv
    have : v = 0 := by omega
    rw [this]
  · rw [if_neg c, if_pos h1] at h
    simp only [pure, Except.pure, Except.ok.injEq] at h
    subst h
    refine ⟨hinv, rfl, ?_, ?_⟩
    · intro t; unfold InSpan; simp
    · intro t v hv
      unfold Series.abs
      cases s.start with
      | none => rfl
      | some st =>
        simp only
        split
        · unfold cellAt
          rw [List.getElem?_map]
          cases s.rows[(t - st).toNat]? with
          | none => rfl
          | some r => simp [List.getElem?_replicate, hv]
        · rfl

/-- `_broadcast_variants_if_needed` (as repaired: `other` is broadcast as a copy): both sides end up with the broadcast
number of variants, the same spans, and variant `v` of a side reads its variant `bidx nv v` -/
theorem broadcastPair_spec (a b a' b' : Series) (nv : Nat) (ha : Inv a) (hb : Inv b) (hbc : bcastNv a.nv b.nv = some nv)
    (h : broadcastPair a b = .ok (a', b')) :
    Inv a' ∧ Inv b' ∧ a'.nv = nv ∧ b'.nv = nv ∧ (∀ t, InSpan a' t ↔ InSpan a t) ∧ (∀ t, InSpan b' t ↔ InSpan b t) ∧
    (∀ t v, v < nv → a'.abs t v = a.abs t (bidx a.nv v)) ∧ (∀ t v, v < nv → b'.abs t v = b.abs t (bidx b.nv v)) := by
  unfold broadcastPair at h
  unfold bcastNv at hbc
  by_cases c1 : a.nv = b.nv
  · rw [if_pos c1] at h hbc
    simp only [pure, Except.pure, Except.ok.injEq, Prod.mk.injEq, Option.some.injEq] at h hbc
    obtain ⟨rfl, rfl⟩ := h
    refine ⟨ha, hb, hbc, by omega, fun _ => Iff.rfl, fun _ => Iff.rfl, ?_, ?_⟩
    · intro t v hv; unfold bidx; split
      · have : v = 0 := by omega
        rw [this]
      · rfl
    · intro t v hv; unfold bidx; split
      · have : v = 0 := by omega
        rw [this]
      · rfl
  · rw [if_neg c1] at h hbc
    by_cases c2 : a.nv = 1
    · rw [if_pos c2] at h hbc
      simp only [bind_ok, pure, Except.pure, Except.ok.injEq, Prod.mk.injEq, Option.some.injEq] at h hbc
      obtain ⟨x, hx, rfl, rfl⟩ := h
      obtain ⟨i1, i2, i3, i4⟩ := broadcastVariants_spec a x b.nv ha c2 hx
      refine ⟨i1, hb, by omega, hbc, i3, fun _ => Iff.rfl, ?_, ?_⟩
      · intro t v hv; rw [i4 t v (by omega)]; simp [bidx, c2]
      · intro t v hv
        have : b.nv ≠ 1 := by omega
        simp [bidx, this]
    · rw [if_neg c2] at h hbc
      by_cases c3 : b.nv = 1
      · rw [if_pos c3] at h hbc
        simp only [bind_ok, pure, Except.pure, Except.ok.injEq, Prod.mk.injEq, Option.some.injEq] at h hbc
        obtain ⟨x, hx, rfl, rfl⟩ := h
        obtain ⟨i1, i2, i3, i4⟩ := broadcastVariants_spec b x a.nv hb c3 hx
        refine ⟨ha, i1, hbc, by omega, fun _ => Iff.rfl, i3, ?_, ?_⟩
        · intro t v hv; simp [bidx, c2]
        · intro t v hv; rw [i4 t v (by omega)]; simp [bidx, c3]
      · rw [if_neg c3] at hbc; cases hbc

/-- **overlay with variant broadcasting** (n vs n, 1 vs n, n vs 1) -/
theorem abs_overlay_bcast (self other r : Series) (nv : Nat) (hI : Inv self) (hO : Inv other)
    (hbc : bcastNv self.nv other.nv = some nv) (h : self.overlay other = .ok r) (t : Int) (v : Nat) (hv : v < nv) :
    (InSpan other t → r.abs t v = other.abs t (bidx other.nv v)) ∧
    (¬ InSpan other t → r.abs t v = self.abs t (bidx self.nv v)) := by
  unfold Series.overlay at h
  simp only [bind_ok] at h
  obtain ⟨⟨s, o⟩, hp, h2⟩ := h
  obtain ⟨i1, i2, i3, i4, i5, i6, i7, i8⟩ := broadcastPair_spec self other s o nv hI hO hbc hp
  obtain ⟨j1, j2⟩ := abs_overlayCore s o r i1 i2 (by omega) h2 t v
  constructor
  · intro hin
    rw [j1 ((i6 t).mpr hin) (by omega), i8 t v hv]
  · intro hn
    rw [j2 (fun hh => hn ((i6 t).mp hh)), i7 t v hv]

theorem underlay_ok (self other r : Series) (h : self.underlay other = .ok r) :
    ∃ s o, broadcastPair self other = .ok (s, o) ∧ o.overlay s = .ok r := by
  unfold Series.underlay at h
  cases hp : broadcastPair self other with
  | error e => rw [hp] at h; cases h
  | ok p =>
    obtain ⟨s, o⟩ := p
    rw [hp] at h
    refine ⟨s, o, rfl, ?_⟩
    cases ho : o.overlay s with
    | error e =>
      have : (Except.error e : R Series) = .ok r := by
        have h' := h
        simp only [bind, Except.bind, ho] at h'
        exact h'
      cases this
    | ok x =>
      have h' := h
      simp only [bind, Except.bind, ho, pure, Except.pure] at h'
      exact h'

/-- **underlay with variant broadcasting** -/
theorem abs_underlay_bcast (self other r : Series) (nv : Nat) (hI : Inv self) (hO : Inv other)
    (hbc : bcastNv self.nv other.nv = some nv) (h : self.underlay other = .ok r) (t : Int) (v : Nat) (hv : v < nv) :
    (InSpan self t → r.abs t v = self.abs t (bidx self.nv v)) ∧
    (¬ InSpan self t → r.abs t v = other.abs t (bidx other.nv v)) := by
  obtain ⟨s, o, hp, h2⟩ := underlay_ok self other r h
  obtain ⟨i1, i2, i3, i4, i5, i6, i7, i8⟩ := broadcastPair_spec self other s o nv hI hO hbc hp
  obtain ⟨j1, j2⟩ := abs_overlay o s r i2 i1 (by omega) h2 t v
  constructor
  · intro hin
    rw [j1 ((i5 t).mpr hin) (by omega), i7 t v hv]
  · intro hn
    rw [j2 (fun hh => hn ((i5 t).mp hh)), i8 t v hv]


/-! ### fill_missing on `abs` -/


theorem serialsOf_same (f : Freq) (l : List Int) : serialsOf f (l.map (fun x => (⟨f, x⟩ : Period))) = .ok l := by
  unfold serialsOf
  rw [mapM_eq_map _ (fun p => p.serial)]
  · have e : ((fun p : Period => p.serial) ∘ fun x => (⟨f, x⟩ : Period)) = id := rfl
    rw [List.map_map, e, List.map_id]
  · intro p hp
    obtain ⟨x, _, rfl⟩ := List.mem_map.mp hp
    simp [pure, Except.pure]

theorem withFreq_self (s : Series) : ({ s with freq := s.freq } : Series) = s := by cases s; rfl

/-- the column of variant `v` over the span `a, …, a+n-1`, as the fill functions see it -/
def spanCol (s : Series) (a : Int) (n v : Nat) : List Cell := (spanList a n).map (fun u => s.abs u v)

theorem spanList_get (a : Int) (n i : Nat) (h : i < n) : (spanList a n)[i]? = some (a + (i : Int)) := by
  simp [spanList, List.getElem?_map, List.getElem?_range h]

/-- **fill_missing over a span of consecutive periods**: nothing outside the span changes; inside it an observed cell is kept
and a missing cell receives `fillAt method (column of abs over the span) (position in the span)` -/
theorem abs_fillMissing (s r : Series) (m : FillMethod) (a : Int) (n : Nat) (hn : 1 ≤ n) (hI : Inv s)
    (st : Int) (hs : s.start = some st)
    (h : s.fillMissingP m ((spanList a n).map (fun x => (⟨s.freq, x⟩ : Period))) = .ok r) (t : Int) (v : Nat) :
    (¬ (a ≤ t ∧ t < a + (n : Int)) → r.abs t v = s.abs t v) ∧
    (a ≤ t → t < a + (n : Int) → v < s.nv →
      r.abs t v = match s.abs t v with
        | some x => some x
        | none => fillAt m (spanCol s a n v) (t - a).toNat) := by
  unfold Series.fillMissingP at h
  simp only [bind_ok] at h
  obtain ⟨data, hd, h2⟩ := h
  have hne : spanList a n ≠ [] := by
    intro h0
    have := congrArg List.length h0
    simp [spanList] at this
    omega
  have hpsne : ((spanList a n).map (fun x => (⟨s.freq, x⟩ : Period))) ≠ [] := by simpa using hne
  have hff : s.freqFor ((spanList a n).map (fun x => (⟨s.freq, x⟩ : Period))) = s.freq := by
    simp [Series.freqFor, hs]
  -- the read
  have hdata : data = (spanList a n).map (fun t => (List.range s.nv).map (fun v => s.abs t v)) := by
    unfold Series.getDataP at hd
    rw [hff] at hd
    dsimp only at hd
    rw [serialsOf_same] at hd
    simp only [bind, Except.bind] at hd
    have := getData_eq_abs s hI.2 (spanList a n) (List.range s.nv) (fun v hv => List.mem_range.mp hv)
    simp only [resolveVariants] at hd
    rw [this] at hd
    exact (Except.ok.inj hd).symm
  -- the write
  unfold Series.setDataP at h2
  rw [if_neg (by
    intro hh
    exact hpsne (List.isEmpty_iff.mp hh.1))] at h2
  rw [hff] at h2
  dsimp only at h2
  rw [serialsOf_same] at h2
  have hwf : ({ freq := s.freq, start := s.start, nv := s.nv, rows := s.rows } : Series) = s := by cases s; rfl
  rw [hwf] at h2
  simp only [bind, Except.bind] at h2
  obtain ⟨_, _, _, h4⟩ := setData_spec _ _ _ _ r hI h2
  rcases h4 with ⟨h0, _⟩ | ⟨_, _, mm, h6, h7⟩
  · exact absurd h0 hne
  · let colf : Nat → List Cell := fun k => fillColumn m (spanCol s a n k)
    have hcols : ∀ k, k < s.nv → (transpose s.nv data)[k]? = some (spanCol s a n k) := by
      intro k hk
      simp only [transpose, List.getElem?_map, List.getElem?_range hk, Option.map_some, hdata, List.map_map, spanCol]
      congr 1
      apply List.map_congr_left
      intro u _
      simp [Function.comp, List.getElem?_map, List.getElem?_range hk]
    have hcol : ∀ k, k < s.nv →
        ((DataArg.variants ((transpose s.nv data).map (fun c => Col.column (fillColumn m c)))).variant k).values n =
          some (colf k) ∧ (colf k).length = n := by
      intro k hk
      have hl : (colf k).length = n := by simp [colf, fillColumn_length, spanCol, spanList]
      have e : ((transpose s.nv data).map (fun c => Col.column (fillColumn m c)))[k]? = some (Col.column (colf k)) := by
        rw [List.getElem?_map, hcols k hk]; rfl
      refine ⟨?_, hl⟩
      simp only [DataArg.variant]
      rw [exhaustThenLast_get _ _ _ k e]
      simp [Col.values, hl]
    obtain ⟨m', h8, h9⟩ := writeAll_span s.nv n a _ colf hcol s.nv 0 s.abs (by omega)
    have hv0 : resolveVariants s.nv .all = (List.range' 0 s.nv).map (fun (i : Nat) => (i : Int)) := by
      simp [resolveVariants, List.range_eq_range']
    rw [hv0, h8] at h6
    simp only [Option.some.injEq] at h6
    subst h6
    refine ⟨?_, ?_⟩
    · intro hout
      rw [h7, h9, if_neg (fun hh => hout hh.2)]
    · intro h1 h2' hv
      rw [h7, h9, if_pos ⟨⟨by omega, hv⟩, h1, h2'⟩]
      have hi : (t - a).toNat < n := by omega
      have hcolAt : colAt (spanCol s a n v) (t - a).toNat = s.abs t v := by
        simp only [colAt, spanCol, List.getElem?_map, spanList_get a n _ hi, Option.map_some, Option.getD_some]
        congr 1; omega
      show colAt (fillColumn m (spanCol s a n v)) (t - a).toNat = _
      cases hx : s.abs t v with
      | some x => exact fillColumn_obs m _ _ x (by rw [hcolAt, hx])
      | none =>
        exact fillColumn_missing m _ _ (by simp [spanCol, spanList]; omega) (by rw [hcolAt, hx])


theorem colAt_spanCol (s : Series) (a : Int) (n v j : Nat) (h : j < n) : colAt (spanCol s a n v) j = s.abs (a + (j : Int)) v := by
  simp [colAt, spanCol, List.getElem?_map, spanList_get a n j h]

theorem length_spanCol (s : Series) (a : Int) (n v : Nat) : (spanCol s a n v).length = n := by simp [spanCol, spanList]

theorem nextObs_none (col : List Cell) (i : Nat) (h : nextObs col i = none) :
    ∀ j, i ≤ j → j < col.length → colAt col j = none := by
  unfold nextObs at h
  rw [List.head?_eq_none_iff, List.filter_eq_nil_iff] at h
  intro j h1 h2
  have := h j (List.mem_range.mpr h2)
  simp only [decide_eq_true_eq, not_and, ne_eq, Decidable.not_not] at this
  exact this h1

theorem prevObs_none (col : List Cell) (i : Nat) (h : prevObs col i = none) :
    ∀ j, j ≤ i → j < col.length → colAt col j = none := by
  unfold prevObs at h
  rw [List.getLast?_eq_none_iff, List.filter_eq_nil_iff] at h
  intro j h1 h2
  have := h j (List.mem_range.mpr h2)
  simp only [decide_eq_true_eq, not_and, ne_eq, Decidable.not_not] at this
  exact this h1

/-- `next` on periods: a missing cell at `a+i` takes the value of the first observed period at or after it inside the span,
and stays missing when there is none -/
theorem fillAt_next (s : Series) (a : Int) (n v i : Nat) (hi : i < n) :
    (fillAt .next (spanCol s a n v) i = none ∧ ∀ j, i ≤ j → j < n → s.abs (a + (j : Int)) v = none) ∨
    ∃ j, i ≤ j ∧ j < n ∧ s.abs (a + (j : Int)) v ≠ none ∧ (∀ j', i ≤ j' → j' < j → s.abs (a + (j' : Int)) v = none) ∧
      fillAt .next (spanCol s a n v) i = s.abs (a + (j : Int)) v := by
  cases hq : nextObs (spanCol s a n v) i with
  | none =>
    left
    refine ⟨by simp [fillAt, hq], ?_⟩
    intro j h1 h2
    rw [← colAt_spanCol s a n v j h2]
    exact nextObs_none _ _ hq j h1 (by rw [length_spanCol]; exact h2)
  | some j =>
    right
    obtain ⟨h1, h2, h3, h4⟩ := nextObs_spec _ _ _ hq
    rw [length_spanCol] at h1
    refine ⟨j, h2, h1, by rw [← colAt_spanCol s a n v j h1]; exact h3, ?_, ?_⟩
    · intro j' q1 q2
      rw [← colAt_spanCol s a n v j' (by omega)]
      exact h4 j' q1 q2
    · simp [fillAt, hq, colAt_spanCol s a n v j h1]

/-- `previous` on periods -/
theorem fillAt_previous (s : Series) (a : Int) (n v i : Nat) (hi : i < n) :
    (fillAt .previous (spanCol s a n v) i = none ∧ ∀ j, j ≤ i → s.abs (a + (j : Int)) v = none) ∨
    ∃ j, j ≤ i ∧ s.abs (a + (j : Int)) v ≠ none ∧ (∀ j', j < j' → j' ≤ i → s.abs (a + (j' : Int)) v = none) ∧
      fillAt .previous (spanCol s a n v) i = s.abs (a + (j : Int)) v := by
  cases hq : prevObs (spanCol s a n v) i with
  | none =>
    left
    refine ⟨by simp [fillAt, hq], ?_⟩
    intro j h1
    rw [← colAt_spanCol s a n v j (by omega)]
    exact prevObs_none _ _ hq j h1 (by rw [length_spanCol]; omega)
  | some j =>
    right
    obtain ⟨h1, h2, h3, h4⟩ := prevObs_spec _ _ _ hq
    rw [length_spanCol] at h1
    refine ⟨j, h2, by rw [← colAt_spanCol s a n v j h1]; exact h3, ?_, ?_⟩
    · intro j' q1 q2
      rw [← colAt_spanCol s a n v j' (by omega)]
      exact h4 j' q1 q2 (by rw [length_spanCol]; omega)
    · simp [fillAt, hq, colAt_spanCol s a n v j h1]


/-! ### NaN rules of the statistics -/

theorem obsVals_nil_of_all_none (r : List Cell) (h : ∀ c ∈ r, c = none) : obsVals r = [] := by
  induction r with
  | nil => rfl
  | cons c cs ih =>
    have hc := h c (by simp)
    subst hc
    simpa [obsVals] using ih (fun c' hc' => h c' (List.mem_cons_of_mem _ hc'))

/-! ### writes, fill_missing, extrapolate over arbitrary lists of distinct periods -/


/-- writing one variant over any list of distinct periods: the `i`-th period reads the `i`-th value -/
theorem writeCol_nodup (v : Nat) : ∀ (serials : List Int) (vals : List Cell) (m : Map),
    serials.Nodup → vals.length = serials.length →
    ∀ (i : Nat) (t : Int), serials[i]? = some t → Map.writeCol m v (serials.zip vals) t v = (vals[i]?).getD none := by
  intro serials
  induction serials with
  | nil => intro vals m _ _ i t h; simp at h
  | cons t0 ts ih =>
    intro vals m hnd hl i t h
    cases vals with
    | nil => simp at hl
    | cons c cs =>
      simp only [List.zip_cons_cons, Map.writeCol]
      have hnd' := List.nodup_cons.mp hnd
      cases i with
      | zero =>
        simp only [List.getElem?_cons_zero, Option.some.injEq] at h
        subst h
        rw [writeCol_other v (ts.zip cs) t0 v (m.write t0 v c) (Or.inr (by
          intro p hp hpt
          have := (List.of_mem_zip hp).1
          rw [hpt] at this
          exact hnd'.1 this))]
        simp [Map.write]
      | succ i =>
        simp only [List.getElem?_cons_succ] at h ⊢
        exact ih cs _ hnd'.2 (by simpa using hl) i t h

/-- the assignment loop over any list of distinct periods and the variants `k … nv-1` from per-variant columns -/
theorem writeAll_nodup (nv : Nat) (serials : List Int) (hnd : serials.Nodup) (data : DataArg) (colf : Nat → List Cell)
    (hcol : ∀ k, k < nv → (data.variant k).values serials.length = some (colf k) ∧ (colf k).length = serials.length) :
    ∀ (j k : Nat) (m : Map), k + j = nv →
      ∃ m', Map.writeAll m nv serials data ((List.range' k j).map (fun (i : Nat) => (i : Int))) k = some m' ∧
        (∀ (i : Nat) (t : Int) (v : Nat), serials[i]? = some t → k ≤ v → v < nv → m' t v = ((colf v)[i]?).getD none) ∧
        (∀ t v, (t ∉ serials ∨ ¬ (k ≤ v ∧ v < nv)) → m' t v = m t v) := by
  intro j
  induction j with
  | zero =>
    intro k m hk
    refine ⟨m, by simp [Map.writeAll], ?_, fun _ _ _ => rfl⟩
    intro i t v _ h1 h2; omega
  | succ j ih =>
    intro k m hk
    have hk' : k < nv := by omega
    obtain ⟨hv, hl⟩ := hcol k hk'
    simp only [List.range'_succ, List.map_cons, Map.writeAll, normIdx_nat nv k hk', hv]
    obtain ⟨m', h1, h2, h3⟩ := ih (k + 1) (m.writeCol k (serials.zip (colf k))) (by omega)
    refine ⟨m', h1, ?_, ?_⟩
    · intro i t v hi q1 q2
      by_cases c : k + 1 ≤ v
      · exact h2 i t v hi c q2
      · have e : v = k := by omega
        subst e
        rw [h3 t v (Or.inr (by omega))]
        exact writeCol_nodup v serials (colf v) m hnd hl i t hi
    · intro t v hc
      rw [h3 t v (by
        rcases hc with hc | hc
        · exact Or.inl hc
        · exact Or.inr (by omega))]
      apply writeCol_other
      rcases hc with hc | hc
      · right
        intro p hp hpt
        have := (List.of_mem_zip hp).1
        rw [hpt] at this
        exact hc this
      · left; omega


/-- **fill_missing over any list of distinct periods** (stepped, backward, unordered): the column the fill functions see is
the read in the order of the list, a period outside the list is untouched, the `i`-th period keeps an observed cell and
otherwise receives `fillAt` at position `i` of that column -/
theorem abs_fillMissing_list (s r : Series) (m : FillMethod) (serials : List Int) (hnd : serials.Nodup) (hne : serials ≠ [])
    (hI : Inv s) (st : Int) (hs : s.start = some st)
    (h : s.fillMissingP m (serials.map (fun x => (⟨s.freq, x⟩ : Period))) = .ok r) :
    (∀ t v, t ∉ serials → r.abs t v = s.abs t v) ∧
    (∀ (i : Nat) (t : Int) (v : Nat), serials[i]? = some t → v < s.nv →
      r.abs t v = match s.abs t v with
        | some x => some x
        | none => fillAt m (serials.map (fun u => s.abs u v)) i) := by
  unfold Series.fillMissingP at h
  simp only [bind_ok] at h
  obtain ⟨data, hd, h2⟩ := h
  have hpsne : (serials.map (fun x => (⟨s.freq, x⟩ : Period))) ≠ [] := by simpa using hne
  have hff : s.freqFor (serials.map (fun x => (⟨s.freq, x⟩ : Period))) = s.freq := by
    simp [Series.freqFor, hs]
  have hdata : data = serials.map (fun t => (List.range s.nv).map (fun v => s.abs t v)) := by
    unfold Series.getDataP at hd
    rw [hff] at hd
    dsimp only at hd
    rw [serialsOf_same] at hd
    simp only [bind, Except.bind] at hd
    have := getData_eq_abs s hI.2 serials (List.range s.nv) (fun v hv => List.mem_range.mp hv)
    simp only [resolveVariants] at hd
    rw [this] at hd
    exact (Except.ok.inj hd).symm
  unfold Series.setDataP at h2
  rw [if_neg (by
    intro hh
    exact hpsne (List.isEmpty_iff.mp hh.1))] at h2
  rw [hff] at h2
  dsimp only at h2
  rw [serialsOf_same] at h2
  have hwf : ({ freq := s.freq, start := s.start, nv := s.nv, rows := s.rows } : Series) = s := by cases s; rfl
  rw [hwf] at h2
  simp only [bind, Except.bind] at h2
  obtain ⟨_, _, _, h4⟩ := setData_spec _ _ _ _ r hI h2
  rcases h4 with ⟨h0, _⟩ | ⟨_, _, mm, h6, h7⟩
  · exact absurd h0 hne
  · let colf : Nat → List Cell := fun k => fillColumn m (serials.map (fun u => s.abs u k))
    have hcols : ∀ k, k < s.nv → (transpose s.nv data)[k]? = some (serials.map (fun u => s.abs u k)) := by
      intro k hk
      simp only [transpose, List.getElem?_map, List.getElem?_range hk, Option.map_some, hdata, List.map_map]
      congr 1
      apply List.map_congr_left
      intro u _
      simp [Function.comp, List.getElem?_map, List.getElem?_range hk]
    have hcol : ∀ k, k < s.nv →
        ((DataArg.variants ((transpose s.nv data).map (fun c => Col.column (fillColumn m c)))).variant k).values serials.length =
          some (colf k) ∧ (colf k).length = serials.length := by
      intro k hk
      have hl : (colf k).length = serials.length := by simp [colf, fillColumn_length]
      have e : ((transpose s.nv data).map (fun c => Col.column (fillColumn m c)))[k]? = some (Col.column (colf k)) := by
        rw [List.getElem?_map, hcols k hk]; rfl
      refine ⟨?_, hl⟩
      simp only [DataArg.variant]
      rw [exhaustThenLast_get _ _ _ k e]
      simp [Col.values, hl]
    obtain ⟨m', h8, h9, h10⟩ := writeAll_nodup s.nv serials hnd _ colf hcol s.nv 0 s.abs (by omega)
    have hv0 : resolveVariants s.nv .all = (List.range' 0 s.nv).map (fun (i : Nat) => (i : Int)) := by
      simp [resolveVariants, List.range_eq_range']
    rw [hv0, h8] at h6
    simp only [Option.some.injEq] at h6
    subst h6
    refine ⟨?_, ?_⟩
    · intro t v hout
      rw [h7, h10 t v (Or.inl hout)]
    · intro i t v hi hv
      rw [h7, h9 i t v hi (by omega) hv]
      have hilt : i < serials.length := by
        rcases List.getElem?_eq_some_iff.mp hi with ⟨hh, _⟩; exact hh
      have hcolAt : colAt (serials.map (fun u => s.abs u v)) i = s.abs t v := by
        simp [colAt, List.getElem?_map, hi]
      show colAt (fillColumn m (serials.map (fun u => s.abs u v))) i = _
      cases hx : s.abs t v with
      | some x => exact fillColumn_obs m _ _ x (by rw [hcolAt, hx])
      | none => exact fillColumn_missing m _ _ (by simpa using hilt) (by rw [hcolAt, hx])

/-- **extrapolate over any list of distinct periods**: the recursion is run from the first listed period (`lagsBefore` it) for
`len(list)` steps and the `k`-th value is stored at the `k`-th listed period; nothing else changes -/
theorem abs_extrapolate_list (s r : Series) (coeffs : List Rat) (c : Rat) (a : Int) (rest : List Int)
    (hnd : (a :: rest).Nodup) (hI : Inv s) (st : Int) (hs : s.start = some st)
    (h : s.extrapolate coeffs c (a :: rest) = .ok r) :
    (∀ t v, t ∉ a :: rest → r.abs t v = s.abs t v) ∧
    (∀ (k : Nat) (t : Int) (v : Nat), (a :: rest)[k]? = some t → v < s.nv →
      r.abs t v = ((arRun coeffs c (rest.length + 1) (lagsBefore s a coeffs.length v))[k]?).getD none) := by
  unfold Series.extrapolate at h
  simp only [hs] at h
  split at h
  · cases h
  · obtain ⟨_, _, _, h4⟩ := setData_spec _ _ _ _ r hI h
    rcases h4 with ⟨h0, _⟩ | ⟨_, _, m, h6, h7⟩
    · cases h0
    · let p := coeffs.length
      let colf : Nat → List Cell := fun v => arRun coeffs c (rest.length + 1) (lagsBefore s a p v)
      have hcol : ∀ k, k < s.nv →
          ((DataArg.array ((transpose s.nv (s.sliceFromUntil (a - (p : Int)) (a - 1))).map
            (fun col => arRun coeffs c (a :: rest).length col.reverse))).variant k).values (a :: rest).length = some (colf k) ∧
          (colf k).length = (a :: rest).length := by
        intro k hk
        refine ⟨?_, by simp [colf, length_arRun]⟩
        have e : (((transpose s.nv (s.sliceFromUntil (a - (p : Int)) (a - 1))).map
            (fun col => arRun coeffs c (a :: rest).length col.reverse)).map Col.column)[k]? =
            some (Col.column (colf k)) := by
          simp only [transpose, List.getElem?_map, List.getElem?_range hk, Option.map_some, List.length_cons]
          rw [initCol_eq s hI.2 st hs a p k]
          rfl
        simp only [DataArg.variant]
        rw [exhaustThenLast_get _ _ _ k e]
        simp [Col.values, colf, length_arRun]
      obtain ⟨m', h8, h9, h10⟩ := writeAll_nodup s.nv (a :: rest) hnd _ colf hcol s.nv 0 s.abs (by omega)
      have hv0 : allVids s = (List.range' 0 s.nv).map (fun (i : Nat) => (i : Int)) := by
        simp [allVids, resolveVariants, List.range_eq_range']
      rw [hv0, h8] at h6
      simp only [Option.some.injEq] at h6
      subst h6
      refine ⟨?_, ?_⟩
      · intro t v hout
        rw [h7, h10 t v (Or.inl hout)]
      · intro k t v hk hv
        rw [h7, h9 k t v hk (by omega) hv]


/-! ### general variant requests, rejections, Series on the right-hand side of a write -/


/-- `vs` are the indices numpy normalises the request `vids` to (negative ones count from the back) -/
def Normalises (nv : Nat) (vids : List Int) (vs : List Nat) : Prop :=
  vids.length = vs.length ∧ ∀ (i : Nat) (c : Int) (v : Nat), vids[i]? = some c → vs[i]? = some v → normIdx nv c = some v

/-- `pickRow` for any variant request whose indices numpy accepts -/
theorem pickRow_forall2 (nv : Nat) (row : Row) : ∀ (vids : List Int) (vs : List Nat), Normalises nv vids vs →
    pickRow nv row vids = .ok (vs.map (fun v => (row[v]?).getD none)) := by
  intro vids
  induction vids with
  | nil => intro vs h; cases vs with | nil => rfl | cons _ _ => simp [Normalises] at h
  | cons c cs ih =>
    intro vs h
    cases vs with
    | nil => simp [Normalises] at h
    | cons v vs' =>
      have hc : normIdx nv c = some v := h.2 0 c v (by simp) (by simp)
      have ht : Normalises nv cs vs' := ⟨by simpa using h.1, fun i c' v' h1 h2 => h.2 (i + 1) c' v' (by simpa using h1) (by simpa using h2)⟩
      have := ih vs' ht
      unfold pickRow at this ⊢
      rw [List.mapM_cons, this, hc]
      rfl

/-- an index numpy rejects makes the read raise -/
theorem pickRow_rejects (nv : Nat) (row : Row) : ∀ (vids : List Int), (∃ c ∈ vids, normIdx nv c = none) →
    pickRow nv row vids = .error .badInput := by
  intro vids
  induction vids with
  | nil => rintro ⟨c, hc, _⟩; simp at hc
  | cons c cs ih =>
    rintro ⟨c', hc', hn⟩
    unfold pickRow at ih ⊢
    rw [List.mapM_cons]
    cases hcn : normIdx nv c with
    | none => rfl
    | some v =>
      have : ∃ c'' ∈ cs, normIdx nv c'' = none := by
        rcases List.mem_cons.mp hc' with rfl | h'
        · rw [hcn] at hn; cases hn
        · exact ⟨c', h', hn⟩
      rw [ih this]; rfl

/-- **A read returns the map, for every variant request the code accepts** (bare or listed indices, negative ones, slices —
anything `_resolve_variants` turns into indices that numpy accepts; `vs` are the normalised indices) -/
theorem getData_eq_abs_general (s : Series) (hW : WF s) (serials : List Int) (vids : List Int) (vs : List Nat)
    (h : Normalises s.nv vids vs) :
    s.getData serials vids = .ok (serials.map (fun t => vs.map (fun v => s.abs t v))) := by
  have hvs : ∀ v ∈ vs, v < s.nv := by
    intro v hv
    obtain ⟨i, hi⟩ := List.mem_iff_getElem?.mp hv
    have hil : i < vids.length := by
      rw [h.1]; rcases List.getElem?_eq_some_iff.mp hi with ⟨hh, _⟩; exact hh
    exact normIdx_lt _ _ _ (h.2 i vids[i] v (by simp [hil]) hi)
  have hbase := getData_eq_abs s hW serials vs hvs
  unfold Series.getData at hbase ⊢
  by_cases he : serials.isEmpty = true
  · rw [if_pos he] at hbase ⊢
    rw [pickRow_forall2 _ _ _ _ h]
    rw [pickRow_valid _ _ _ hvs] at hbase
    exact hbase
  · rw [if_neg he] at hbase ⊢
    simp only at hbase ⊢
    rw [← hbase]
    congr 1
    funext p
    rw [pickRow_forall2 _ _ _ _ h, pickRow_valid _ _ _ hvs]

/-- **…and rejects what the code rejects**: a variant index outside `[-nv, nv)` raises, whatever the dates -/
theorem getData_rejects (s : Series) (serials : List Int) (vids : List Int) (h : ∃ c ∈ vids, normIdx s.nv c = none) :
    s.getData serials vids = .error .badInput := by
  unfold Series.getData
  by_cases he : serials.isEmpty = true
  · rw [if_pos he, pickRow_rejects _ _ _ h]; rfl
  · rw [if_neg he]
    simp only
    have hne : (getDatePositions serials (s.start.getD (minOr0 serials)) s.rows.length).pos ≠ [] := by
      simp only [getDatePositions]
      intro h0
      apply he
      simpa using h0
    cases hp : (getDatePositions serials (s.start.getD (minOr0 serials)) s.rows.length).pos with
    | nil => exact absurd hp hne
    | cons p ps =>
      rw [List.mapM_cons, pickRow_rejects _ _ _ h]; rfl

theorem mapM_serialsOf_error (f : Freq) : ∀ (ps : List Period), (∃ p ∈ ps, p.freq ≠ f) → serialsOf f ps = .error .mixedFreq := by
  intro ps
  induction ps with
  | nil => rintro ⟨p, hp, _⟩; simp at hp
  | cons q qs ih =>
    rintro ⟨p, hp, hne⟩
    unfold serialsOf at ih ⊢
    rw [List.mapM_cons]
    by_cases hq : q.freq = f
    · have : ∃ p' ∈ qs, p'.freq ≠ f := by
        rcases List.mem_cons.mp hp with rfl | h'
        · exact absurd hq hne
        · exact ⟨p, h', hne⟩
      rw [ih this]; simp only [hq, if_true]; rfl
    · simp only [hq, if_false]; rfl

/-- **mixing frequencies in a write or a read is rejected**: a date whose frequency differs from the series' (or, on an empty
series, from the first date's) raises `mixedFreq`, as `t - base` does in `_get_date_positions` -/
theorem dates_mixed_rejected (s : Series) (ps : List Period) (data : DataArg) (vars : VarArg)
    (h : ∃ p ∈ ps, p.freq ≠ s.freqFor ps) :
    s.setDataP ps data vars = .error .mixedFreq ∧ s.getDataP ps vars = .error .mixedFreq := by
  have hne : ¬ (ps.isEmpty = true ∧ data.isEmptyData = true) := by
    rintro ⟨h1, _⟩
    obtain ⟨p, hp, _⟩ := h
    rw [List.isEmpty_iff.mp h1] at hp; simp at hp
  constructor
  · unfold Series.setDataP
    rw [if_neg hne]
    simp only [mapM_serialsOf_error _ ps h, bind, Except.bind]
  · unfold Series.getDataP
    simp only [mapM_serialsOf_error _ ps h, bind, Except.bind]


/-- when the map-level write is undefined (a variant index numpy rejects, or a column whose length fits neither the dates nor 1)
the assignment loop of the code raises -/
theorem assignAll_error_of_writeAll_none (nv : Nat) (serials : List Int) (pos : List Nat) (hl : pos.length = serials.length)
    (data : DataArg) : ∀ (vids : List Int) (m : Map) (rows : List Row) (k : Nat),
    Map.writeAll m nv serials data vids k = none → assignAll nv rows pos data vids k = .error .badInput := by
  intro vids
  induction vids with
  | nil => intro m rows k h; simp [Map.writeAll] at h
  | cons c cs ih =>
    intro m rows k h
    simp only [Map.writeAll] at h
    simp only [assignAll, hl]
    cases hn : normIdx nv c with
    | none => rfl
    | some v =>
      cases hv : (data.variant k).values serials.length with
      | none => rfl
      | some vals =>
        simp only [hn, hv] at h
        exact ih _ _ _ h

/-- **a write rejects what the code rejects**: if the elementary writes are undefined (`Map.writeAll = none`) and the call is
not the "no dates, no data" no-op, `set_data` raises -/
theorem setData_rejects (s : Series) (serials : List Int) (data : DataArg) (vids : List Int)
    (hne : ¬ (serials.isEmpty = true ∧ data.isEmptyData = true))
    (h : Map.writeAll s.abs s.nv serials data vids 0 = none) :
    s.setData serials data vids = .error .badInput := by
  unfold Series.setData
  rw [if_neg hne]
  by_cases c2 : data.isEmptyData = true ∧ data ≠ .pyNone
  · rw [if_pos c2]; rfl
  · rw [if_neg c2]
    cases hs : s.start with
    | some st =>
      simp only
      rw [assignAll_error_of_writeAll_none s.nv serials _ (by simp [getDatePositions]) data vids s.abs _ 0 h]
    | none =>
      simp only
      rw [assignAll_error_of_writeAll_none s.nv serials _ (by simp [getDatePositions]) data vids s.abs _ 0 h]



theorem exhaustThenLast_last {α} (l : List α) (d x : α) (k : Nat) (hk : l.length ≤ k) (hl : l[l.length - 1]? = some x) :
    exhaustThenLast l d k = x := by
  simp [exhaustThenLast, List.getElem?_eq_none hk, List.getLast?_eq_getElem?, hl]

/-- **a Series on the right-hand side of a write** (serial level): the values are read from the source period by period over
the addressed dates (`data.get_data(dates)`) and written with the exhaust-then-last rule — variant `v` of the receiver takes
variant `min v (nv_source - 1)` of the source at the same period; every other cell of the receiver is unchanged -/
theorem abs_setFromSeries (s y r : Series) (serials : List Int) (hnd : serials.Nodup) (hne : serials ≠ [])
    (hI : Inv s) (hy : Inv y) (hynv : 0 < y.nv) (d : List Row)
    (hd : y.getData serials (allVids y) = .ok d)
    (h : s.setData serials (.array (transpose y.nv d)) (allVids s) = .ok r) :
    (∀ t v, t ∉ serials → r.abs t v = s.abs t v) ∧
    (∀ (i : Nat) (t : Int) (v : Nat), serials[i]? = some t → v < s.nv → r.abs t v = y.abs t (min v (y.nv - 1))) := by
  have hdata : d = serials.map (fun t => (List.range y.nv).map (fun v => y.abs t v)) := by
    have := getData_eq_abs y hy.2 serials (List.range y.nv) (fun v hv => List.mem_range.mp hv)
    simp only [allVids, resolveVariants] at hd
    rw [this] at hd
    exact (Except.ok.inj hd).symm
  have hcols : ∀ k, k < y.nv → (transpose y.nv d)[k]? = some (serials.map (fun u => y.abs u k)) := by
    intro k hk
    simp only [transpose, List.getElem?_map, List.getElem?_range hk, Option.map_some, hdata, List.map_map]
    congr 1
    apply List.map_congr_left
    intro u _
    simp [Function.comp, List.getElem?_map, List.getElem?_range hk]
  obtain ⟨_, _, _, h4⟩ := setData_spec _ _ _ _ r hI h
  rcases h4 with ⟨h0, _⟩ | ⟨_, _, mm, h6, h7⟩
  · exact absurd h0 hne
  · let colf : Nat → List Cell := fun k => serials.map (fun u => y.abs u (min k (y.nv - 1)))
    have hlen : (transpose y.nv d).length = y.nv := by simp [transpose]
    have hcol : ∀ k, k < s.nv →
        ((DataArg.array (transpose y.nv d)).variant k).values serials.length = some (colf k) ∧
        (colf k).length = serials.length := by
      intro k _
      refine ⟨?_, by simp [colf]⟩
      simp only [DataArg.variant]
      by_cases hk : k < y.nv
      · have e : ((transpose y.nv d).map Col.column)[k]? = some (Col.column (colf k)) := by
          rw [List.getElem?_map, hcols k hk]
          have : min k (y.nv - 1) = k := by omega
          simp [colf, this]
        rw [exhaustThenLast_get _ _ _ k e]
        simp [Col.values, colf]
      · have e : ((transpose y.nv d).map Col.column)[((transpose y.nv d).map Col.column).length - 1]? =
            some (Col.column (colf k)) := by
          rw [List.length_map, hlen, List.getElem?_map, hcols (y.nv - 1) (by omega)]
          have : min k (y.nv - 1) = y.nv - 1 := by omega
          simp [colf, this]
        rw [exhaustThenLast_last _ _ _ k (by rw [List.length_map, hlen]; omega) e]
        simp [Col.values, colf]
    obtain ⟨m', h8, h9, h10⟩ := writeAll_nodup s.nv serials hnd _ colf hcol s.nv 0 s.abs (by omega)
    have hv0 : allVids s = (List.range' 0 s.nv).map (fun (i : Nat) => (i : Int)) := by
      simp [allVids, resolveVariants, List.range_eq_range']
    rw [hv0, h8] at h6
    simp only [Option.some.injEq] at h6
    subst h6
    refine ⟨fun t v hout => by rw [h7, h10 t v (Or.inl hout)], ?_⟩
    intro i t v hi hv
    rw [h7, h9 i t v hi (by omega) hv]
    simp [colf, List.getElem?_map, hi]


/-- **`x[dates] = y` end to end** (one step of the protocol; `dates` may be relative: `...`, `ir.start >> ir.end`,
`Span(None, None, -2)`, …): the request is resolved against the RECEIVER `x` (`hres`), the values are read from the source `y`
at those periods, and afterwards `x` holds `y`'s value at every addressed period (variant `min v (nv_y - 1)`) and its own old
value everywhere else. Hypotheses are about the inputs only. -/
theorem step_set_from_series (p p' : Pool) (out : Output) (i j : Nat) (dates : DatesArg) (s y : Series) (serials : List Int)
    (hs : p.get i = .ok s) (hy : p.get j = .ok y) (hIs : Inv s) (hIy : Inv y)
    (st sy : Int) (hst : s.start = some st) (hsy : y.start = some sy) (hf : y.freq = s.freq) (hynv : 0 < y.nv)
    (hres : s.resolveDates dates = .ok (serials.map (fun x => (⟨s.freq, x⟩ : Period))))
    (hnd : serials.Nodup) (hne : serials ≠ [])
    (h : step p (.set i dates .all (.series j)) = .ok (p', out)) :
    ∃ r, p'[i]? = some r ∧ (∀ t v, t ∉ serials → r.abs t v = s.abs t v) ∧
      (∀ (k : Nat) (t : Int) (v : Nat), serials[k]? = some t → v < s.nv → r.abs t v = y.abs t (min v (y.nv - 1))) := by
  simp only [step, bind_ok, pure, Except.pure, Except.ok.injEq, Prod.mk.injEq] at h
  obtain ⟨s0, hs0, ps, hps, dat, hdat, r, hr, q, hq, rfl, _⟩ := h
  rw [hs] at hs0; cases hs0
  rw [hres] at hps; cases hps
  -- the read from the source
  unfold dataOf at hdat
  simp only [bind_ok] at hdat
  obtain ⟨y0, hy0, ps', hps', d, hd, hd2⟩ := hdat
  rw [hy] at hy0; cases hy0
  rw [hres] at hps'; cases hps'
  have hpsne : (serials.map (fun x => (⟨s.freq, x⟩ : Period))) ≠ [] := by simpa using hne
  have hdne : d.isEmpty = false := by
    cases hdd : d.isEmpty with
    | false => rfl
    | true => rw [hdd] at hd2; simp at hd2; cases hd2
  rw [hdne] at hd2
  simp only [Bool.false_eq_true, if_false, pure, Except.pure, Except.ok.injEq] at hd2
  subst hd2
  have hffy : y.freqFor (serials.map (fun x => (⟨s.freq, x⟩ : Period))) = s.freq := by
    simp [Series.freqFor, hsy, hf]
  unfold Series.getDataP at hd
  rw [hffy] at hd
  dsimp only at hd
  rw [serialsOf_same] at hd
  simp only [bind, Except.bind] at hd
  -- the write into the receiver
  have hffs : s.freqFor (serials.map (fun x => (⟨s.freq, x⟩ : Period))) = s.freq := by
    simp [Series.freqFor, hst]
  unfold Series.setDataP at hr
  rw [if_neg (by
    intro hh
    exact hpsne (List.isEmpty_iff.mp hh.1))] at hr
  rw [hffs] at hr
  dsimp only at hr
  rw [serialsOf_same] at hr
  have hwf : ({ freq := s.freq, start := s.start, nv := s.nv, rows := s.rows } : Series) = s := by cases s; rfl
  rw [hwf] at hr
  simp only [bind, Except.bind] at hr
  obtain ⟨e1, e2⟩ := abs_setFromSeries s y r serials hnd hne hIs hIy hynv d hd hr
  refine ⟨r, ?_, e1, e2⟩
  unfold Pool.put at hq
  split at hq
  · rename_i hlt
    simp only [pure, Except.pure, Except.ok.injEq] at hq
    subst hq
    simp [List.getElem?_set, hlt]
  · cases hq


end IrisVerif.Series
