/-
Property C19 -- Databox, dataslate and CSV conversions are lossless on selected names and span.
Theorems about the models in IrisVerif/Model/{Databox,Grid,Dataslate}.lean (helper lemmas:
IrisVerif/Lemmas/{GridCodec,DataboxFrame}.lean).
-/
import IrisVerif.Model.Grid
import IrisVerif.Model.Dataslate
import IrisVerif.Lemmas.DataboxFrame
import IrisVerif.Lemmas.GridCodec

namespace IrisVerif.C19
open IrisVerif.Databox IrisVerif.Grid IrisVerif.Dataslate
open IrisVerif.Dates (Err R)

/-! ### CSV grid codec

Full statement (the `csv_roundtrip_partial_*` theorems below are its proved components: the block iterator on the first row
of the grid actually exported, the column iterator on each block's own slice of the concatenated header rows, `trim` on the
padded rows; what is missing is the same locality for the *data* rows through `zipRowsN` (date column and cell slices of
`decodeBlock`), `setData` on consecutive periods, and `dictOfList` on distinct names -- covered by the exact correspondence
run on real files only):

  theorem csv_roundtrip (c : Codec V) (d : Bool) (db : Box (Ser V) V)
      (hdate : ∀ f n, f ≠ .U → f ≠ .W → c.parseDate f (c.fmtDate f n) = some n ∧ c.fmtDate f n ≠ "")
      (hcell : ∀ x, c.parseCell (c.fmtCell x) = x)
      (hwf : WellFormedDatabox db) :      -- distinct names; GoodNames; rows of length nv; Trimmed or empty-with-U; freq ∈ blockOrder
      importGrid c d (exportGrid c d db)
        = .ok ((blockOrder.flatMap (withFreq (seriesOf db))).map
                 (fun p => (p.1, if d then p.2 else { p.2 with desc := "" })))
-/

/-- the block marks the exporter writes are recognised by the importer, with the right frequency; the cells the exporter
writes between them (`*`, the empty cell) never end a block -/
theorem mark_is_start (f : BFreq) : isEnd (mark f) = true ∧ startFreq (mark f) = some f := by
  cases f <;> decide

theorem filler_cells_are_neutral : isEnd "*" = false ∧ isEnd "" = false ∧ startFreq "__" = none := by decide

/-- scalars and lists are not exported, whatever periods are selected: the grid depends on the series items only -/
theorem nonseries_not_exported_with {V : Type} (c : Codec V) (d : Bool) (fs : FSpan) (db : Box (Ser V) V) :
    exportGridWith c d fs db = exportGridWith c d fs (db.filter (fun p => isSer p.2)) := by
  have h : seriesOf (db.filter (fun p => isSer p.2)) = seriesOf db := by
    induction db with
    | nil => rfl
    | cons p rest ih =>
      obtain ⟨n, it⟩ := p
      cases it <;> simp_all [seriesOf, isSer]
  simp [exportGridWith, h]

theorem nonseries_not_exported {V : Type} (c : Codec V) (d : Bool) (db : Box (Ser V) V) :
    exportGrid c d db = exportGrid c d (db.filter (fun p => isSer p.2)) :=
  nonseries_not_exported_with c d defaultFSpan db

/-- a databox without series writes nothing, and nothing is read back from an empty grid -/
theorem empty_export_import {V : Type} (c : Codec V) (d : Bool) (fs : FSpan) (db : Box (Ser V) V) (h : seriesOf db = []) :
    exportGridWith c d fs db = [] ∧ importGrid c d (exportGridWith c d fs db) = .ok [] := by
  have : exportGridWith c d fs db = [] := by simp [exportGridWith, h, exportBlocksWith, withFreq]
  exact ⟨this, by rw [this]; rfl⟩

/-- **Explicitly selected periods**: whatever the order, step or repetition of the periods handed to `to_csv_file(span=…)`,
the cells written next to a date are the series' own row of that very period (`rowAt`), NaN where the series has none -/
theorem dataRow_is_own_period {V : Type} (c : Codec V) (b : Block V) (t : Int) :
    b.dataRow c t = c.fmtDate b.freq t :: (b.members.flatMap (fun p => (p.2.rowAt t).map c.fmtCell) ++ [""]) := rfl

theorem explicit_span_rows {V : Type} (c : Codec V) (d : Bool) (total : Nat) (b : Block V) :
    ((b.rows c d total).drop (headerRows d)).take b.periods.length = b.periods.map (b.dataRow c) := by
  cases d <;> simp [Block.rows, headerRows]

section Csv
variable {V : Type}

/-- **The block iterator finds exactly the exported blocks**: frequency, date column and width, for any number of blocks,
series and variants. -/
theorem csv_roundtrip_partial_blocks (Bs : List (Block V)) (h : ∀ b ∈ Bs, GoodNames b.members) :
    blockIterator (Bs.flatMap Block.nameRow) = rawOf 0 Bs := scan_export Bs h 0

/-- **The column iterator recovers every series of a block**: its first column, its number of variants, its name and
its description, for any number of series and variants. -/
theorem csv_roundtrip_partial_columns (m : List (String × Ser V)) (h : GoodNames m) :
    columnIterator (m.flatMap (fun p => starCont p.1 p.2.nv) ++ [""]) (m.flatMap (fun p => starCont p.2.desc p.2.nv) ++ [""])
      = colsOf 0 m := by
  unfold columnIterator
  rw [List.append_assoc, List.append_assoc, zip_flatMap_starCont]
  exact colScan_export m h 0

theorem trim_of_trimmed {V : Type} (s : Ser V) (h : Trimmed s) : s.trim = s := by
  obtain ⟨⟨r, hr, h1⟩, ⟨l, hl, h2⟩⟩ := h
  obtain ⟨f, st, nv, rows, d⟩ := s
  simp only at hr hl
  have hrev : rows.reverse.head? = some l := by rw [List.head?_reverse]; exact hl
  have hne : rows ≠ [] := by intro e; subst e; simp at hr
  unfold Ser.trim
  simp only [takeWhile_of_head _ _ _ hr h1, dropWhile_of_head _ _ _ hr h1, dropWhile_of_head _ _ _ hrev h2,
    List.reverse_reverse, List.length_nil]
  simp [hne]


/-- **Padding to the block's span is undone by `trim()`**: a trimmed series exported with `a` NaN rows before and `b` NaN
rows after it (the rows of a block start at the earliest and end at the latest series of its frequency) is read back
with its own start and rows. -/
theorem csv_roundtrip_partial_trim {V : Type} (s : Ser V) (h : Trimmed s) (a b : Nat) :
    Ser.trim ⟨s.freq, s.start - a, s.nv, List.replicate a (nanRow s.nv) ++ s.rows ++ List.replicate b (nanRow s.nv), s.desc⟩
      = s := by
  obtain ⟨⟨r, hr, h1⟩, ⟨l, hl, h2⟩⟩ := h
  obtain ⟨f, st, nv, rows, d⟩ := s
  simp only at hr hl ⊢
  have hrev : rows.reverse.head? = some l := by rw [List.head?_reverse]; exact hl
  have hne : rows ≠ [] := by intro e; subst e; simp at hr
  have hr' : (rows ++ List.replicate b (nanRow nv)).head? = some r := by
    cases rows with
    | nil => simp at hr
    | cons x t => simpa using hr
  unfold Ser.trim
  simp only [List.append_assoc, takeWhile_replicate_append _ _ (allNan_nanRow nv), dropWhile_replicate_append _ _ (allNan_nanRow nv),
    takeWhile_of_head _ _ _ hr' h1, dropWhile_of_head _ _ _ hr' h1, List.reverse_append, List.reverse_replicate,
    dropWhile_of_head _ _ _ hrev h2, List.reverse_reverse, List.append_nil, List.length_replicate]
  simp [hne]



/-- **On the grid actually exported** (the default export or any selection of frequencies and periods) the importer's block
iterator, run on the grid's first row, finds exactly the exported blocks -/
theorem csv_roundtrip_partial_grid_blocks (c : Codec V) (d : Bool) (fs : FSpan) (db : Box (Ser V) V)
    (h : GoodNames (seriesOf db)) (hne : (exportBlocksWith fs (seriesOf db)).isEmpty = false) :
    ∃ nameRow rest, exportGridWith c d fs db = nameRow :: rest
      ∧ blockIterator nameRow = rawOf 0 (exportBlocksWith fs (seriesOf db)) := by
  obtain ⟨rest, hr⟩ := exportGridWith_nameRow c d fs db hne
  exact ⟨_, rest, hr, scan_export _ (goodNames_exportBlocksWith fs _ h) 0⟩

/-- **and the column iterator, run on a block's own slice of the concatenated header rows** (name row and description
row of any list of blocks), recovers that block's series: first column, variants, name, description -/
theorem csv_roundtrip_partial_grid_columns (B1 B2 : List (Block V)) (b : Block V)
    (h : ∀ x ∈ B1 ++ b :: B2, GoodNames x.members) :
    columnIterator
        (sliceRow ⟨b.freq, (B1.flatMap Block.nameRow).length, b.width - 1⟩ ((B1 ++ b :: B2).flatMap Block.nameRow))
        (sliceRow ⟨b.freq, (B1.flatMap Block.nameRow).length, b.width - 1⟩ ((B1 ++ b :: B2).flatMap Block.descRow))
      = colsOf 0 b.members := by
  have hs := header_slices B1 B2 b h
  rw [hs.1, hs.2]
  exact csv_roundtrip_partial_columns b.members (h b (by simp))

/-- the format reserves exactly this much of a name: non-empty, not the continuation mark, not starting with the block mark -/
example : GoodNames [("gdp, real", (⟨.Q, 8080, 2, [[some 1, none], [none, some 2]], "a \"desc\", *"⟩ : Ser Nat)), ("x y", ⟨.Q, 8079, 1, [[some 3]], "*"⟩)] := by
  intro p hp
  simp only [List.mem_cons, List.mem_nil_iff, or_false] at hp
  rcases hp with rfl | rfl <;> decide

example : Trimmed (⟨.Q, 8080, 2, [[some 1, none], [none, none], [none, some 2]], ""⟩ : Ser Nat) :=
  ⟨⟨[some 1, none], rfl, by decide⟩, ⟨[none, some 2], rfl, by decide⟩⟩

end Csv

/-! ### Dataslates -/

section Slate
variable {V : Type}

/-- **Dataslate, selected series, no fills.** The record of a series of the slate's frequency (or an empty one) is the
series' own column `min v (k-1)` on the span: cell `i` is the input cell of period `start + i`, NaN outside the series. -/
theorem record_of_series (db : Box (Ser V) V) (f : BFreq) (start : Int) (len : Nat) (base : List Nat) (v : Nat)
    (n : String) (s : Ser V) (hl : lookup db n = some (.ser s)) (hf : s.freq = .U ∨ s.freq = f) (hnv : 1 ≤ s.nv) :
    recordOf db f start len [] [] false base v n = .ok (serColumn s (min v (s.nv - 1)) start len) := by
  have h1 : ¬ (s.freq ≠ .U ∧ s.freq ≠ f) := by
    rcases hf with h | h <;> simp [h]
  have h2 : ¬ s.nv = 0 := by omega
  simp [recordOf, hl, variantRow, h1, h2, fillFor, lookup, applyFallback, applyOverwrite, clipRow, bind, Except.bind,
    pure, Except.pure]

/-- a series of another frequency is rejected, not silently misaligned -/
theorem record_mixed_frequency (db : Box (Ser V) V) (f : BFreq) (start : Int) (len : Nat) (fb ow : Box (Ser V) V)
    (clip : Bool) (base : List Nat) (v : Nat) (n : String) (s : Ser V) (hl : lookup db n = some (.ser s))
    (h1 : s.freq ≠ .U) (h2 : s.freq ≠ f) :
    recordOf db f start len fb ow clip base v n = .error .mixedFreq := by
  simp [recordOf, hl, variantRow, h1, h2, bind, Except.bind, throw, throwThe, MonadExceptOf.throw]

/-- **Names that are not in the databox** give NaN on the whole span (no fills declared) -/
theorem record_absent (db : Box (Ser V) V) (f : BFreq) (start : Int) (len : Nat) (base : List Nat) (v : Nat)
    (n : String) (hl : lookup db n = none) :
    recordOf db f start len [] [] false base v n = .ok (List.replicate len none) := by
  simp [recordOf, hl, nanVec, fillFor, lookup, applyFallback, applyOverwrite, clipRow, bind, Except.bind, pure, Except.pure]

/-- **Fallbacks fill NaN cells only**: an observed cell is never changed, a NaN cell becomes the declared value -/
theorem fallback_fills_only_nan (x : Option V) (row : List (Option V)) (i : Nat) :
    (applyFallback (some x) row)[i]? = (row[i]?).map (fun c => match c with | none => x | some y => some y) := by
  simp only [applyFallback, List.getElem?_map]
  cases row[i]? with
  | none => rfl
  | some c => cases c <;> rfl

theorem no_fallback_no_change (row : List (Option V)) : applyFallback (none : Option (Option V)) row = row := rfl

/-- **Overwrites replace every cell of the record** (and nothing is invented without one) -/
theorem overwrite_all (x : Option V) (row : List (Option V)) (i : Nat) :
    (applyOverwrite (some x) row)[i]? = (row[i]?).map (fun _ => x) := by
  simp [applyOverwrite]

theorem no_overwrite_no_change (row : List (Option V)) : applyOverwrite (none : Option (Option V)) row = row := rfl

/-- a fallback / overwrite table only acts on the names it declares -/
theorem fill_only_declared (tbl : Box (Ser V) V) (v : Nat) (n : String) (h : lookup tbl n = none) :
    fillFor tbl v n = .ok none := by
  simp [fillFor, h, pure, Except.pure]

/-- **Clipping to the base span** keeps the base columns and blanks the others -/
theorem clipRow_cell (base : List Nat) (row : List (Option V)) (i : Nat) (hi : i < row.length) :
    (clipRow true base row)[i]? = some (if base.contains i then row[i] else none) := by
  simp [clipRow, hi]

/-- `to_databox` transposes back: row `i`, variant `v` of the output series is cell `i` of the record in variant `v` -/
theorem rowsOf_cell (len : Nat) (cols : List (List (Option V))) (i v : Nat) (hi : i < len) (hv : v < cols.length) :
    ((rowsOf len cols)[i]?.bind (·[v]?)) = some ((cols[v][i]?).getD none) := by
  simp [rowsOf, hi, hv]

/-- variants beyond those of the input repeat the last one (`exhaust_then_last`) -/
theorem exhaustThenLast_spec {α : Type} (l : List α) (hl : l ≠ []) (v : Nat) :
    exhaustThenLast l v = l[min v (l.length - 1)]? := by
  cases l with
  | nil => exact absurd rfl hl
  | cons x xs =>
    unfold exhaustThenLast
    by_cases h : v < (x :: xs).length
    · have : min v ((x :: xs).length - 1) = v := by simp at h ⊢; omega
      simp only [h, if_true, this]
    · have : min v ((x :: xs).length - 1) = (x :: xs).length - 1 := by simp at h ⊢; omega
      simp only [h, if_false, this]
      rw [List.getLast_eq_getElem]
      simp


example : recordOf [("a", Item.ser (⟨.Q, 8080, 2, [[some 1, some 2], [none, some 3]], ""⟩ : Ser Nat))] .Q 8079 4 [] [] false [] 5 "a"
    = .ok [none, some 2, some 3, none] := by decide

/-- **Removing periods from the start keeps exactly the base periods that remain**: a base period is dropped iff it is one
of the removed periods; in particular removing precisely the presample periods leaves the base span untouched -/
theorem removeFromStart_basePeriods (sl : Slate V) (n : Nat) :
    (sl.removeFromStart n).basePeriods = sl.basePeriods.filter (fun p => sl.start + (n : Int) ≤ p) := by
  unfold Slate.basePeriods Slate.removeFromStart
  simp only [List.map_map, List.filter_map]
  have hf : sl.baseCols.filter ((fun p => decide (sl.start + (n : Int) ≤ p)) ∘ fun (i : Nat) => sl.start + (i : Int))
      = sl.baseCols.filter (fun i => decide (n ≤ i)) := by
    apply List.filter_congr
    intro i _
    simp only [Function.comp, decide_eq_decide]
    omega
  rw [hf]
  apply List.map_congr_left
  intro i hi
  have : n ≤ i := by simpa using (List.mem_filter.mp hi).2
  simp only [Function.comp]
  omega

theorem removeFromStart_presample (sl : Slate V) (n : Nat) (h : ∀ i ∈ sl.baseCols, n ≤ i) :
    (sl.removeFromStart n).basePeriods = sl.basePeriods := by
  rw [removeFromStart_basePeriods]
  apply List.filter_eq_self.mpr
  intro p hp
  unfold Slate.basePeriods at hp
  obtain ⟨i, hi, rfl⟩ := List.mem_map.mp hp
  have := h i hi
  simp only [decide_eq_true_eq]
  omega

/-- removing periods from the end keeps exactly the base periods that remain -/
theorem removeFromEnd_basePeriods (sl : Slate V) (n : Nat) :
    (sl.removeFromEnd n).basePeriods = sl.basePeriods.filter (fun p => p < sl.start + ((sl.len - n : Nat) : Int)) := by
  unfold Slate.basePeriods Slate.removeFromEnd
  simp only [List.filter_map]
  congr 1
  apply List.filter_congr
  intro i _
  simp only [Function.comp, decide_eq_decide]
  omega

/-- adding periods at the end changes neither the start nor the base periods, and the new cells are NaN -/
theorem addToEnd_basePeriods (sl : Slate V) (n : Nat) :
    (sl.addToEnd n).basePeriods = sl.basePeriods ∧ (sl.addToEnd n).start = sl.start ∧ (sl.addToEnd n).len = sl.len + n :=
  ⟨rfl, rfl, rfl⟩

example : (Slate.removeFromStart
    (Slate.mk ["a"] BFreq.Q 8076 8 [2, 3, 5] [[[some 1, some 2, some 3, some 4, some 5, some 6, some 7, some (8 : Nat)]]] (-2) 1)
    2).basePeriods = [8078, 8079, 8081] := by
  decide

end Slate

/-! ### Databox operations: the frame condition -/

section Frame
variable {S V : Type}

/-- **Frame condition, one operation.** Whatever a databox operation does, the entries whose names are outside the
operation's selected set (`touched`) are the same, in the same order, before and after. -/
theorem applyOp_frame (o : SOps S) (db db' : Box S V) (op : Op S V) (h : applyOp o db op = .ok db') :
    frame (touched o db op) db' = frame (touched o db op) db := by
  cases op with
  | rename s t b =>
    simp only [applyOp, rename] at h
    simp only [touched]
    apply renamePairs_frame _ _ _ _ _ h
    intro p hp
    exact ⟨List.mem_append_left _ (List.mem_map_of_mem (f := (·.1)) hp),
      List.mem_append_right _ (List.mem_map_of_mem (f := (·.2)) hp)⟩
  | remove s b =>
    cases s with
    | none => simp [applyOp, remove, pure, Except.pure] at h; subst h; rfl
    | some sel =>
      simp only [applyOp, remove] at h
      simp only [touched]
      exact removeNames_frame _ _ (fun n hn => hn) _ _ h
  | keep s b =>
    cases s with
    | none => simp [applyOp, keep, pure, Except.pure] at h; subst h; rfl
    | some sel =>
      simp only [applyOp, keep, pure, Except.pure, Except.ok.injEq] at h
      subst h
      simp only [touched]
      exact keep_frame db _
  | copy s t b => exact copy_frame o db db' s t b h
  | overlay other ns b => exact lay_frame o o.overlay db other db' ns b h
  | underlay other ns b => exact lay_frame o o.underlay db other db' ns b h
  | clip f lo hi =>
    simp only [applyOp, pure, Except.pure, Except.ok.injEq] at h
    subst h
    exact clip_frame o db f lo hi
  | prepend other f stop => exact lay_frame o o.underlay db _ db' none false h
  | merge others st => exact merge_frame o st others db db' h

/-- **Frame condition, any sequence of operations** (induction on the sequence): entries whose names no operation of
the sequence selects -- each selection resolved in the state it runs in -- come out as they went in, in order. -/
theorem applyOps_frame (o : SOps S) (ops : List (Op S V)) (db db' : Box S V) (h : applyOps o db ops = .ok db') :
    frame (touchedSeq o db ops) db' = frame (touchedSeq o db ops) db := by
  induction ops generalizing db with
  | nil => simp [applyOps, pure, Except.pure] at h; subst h; rfl
  | cons op rest ih =>
    unfold applyOps at h
    cases h1 : applyOp o db op with
    | error e => simp [h1, bind, Except.bind] at h
    | ok db1 =>
      simp only [h1, bind, Except.bind] at h
      simp only [touchedSeq, h1]
      rw [frame_mono' _ (ih db1 h), frame_mono _ (applyOp_frame o db db1 op h1)]

/-- the same in terms of look-ups: a name that no operation selects is bound to the same value afterwards -/
theorem applyOps_lookup (o : SOps S) (ops : List (Op S V)) (db db' : Box S V) (h : applyOps o db ops = .ok db')
    (n : String) (hn : n ∉ touchedSeq o db ops) : lookup db' n = lookup db n := by
  rw [← lookup_frame hn db', ← lookup_frame hn db, applyOps_frame o ops db db' h]

/-- the hypotheses are met by a non-trivial sequence: two operations succeed, `a`/`z` are touched, `b` and `c` are the frame -/
example : applyOps (V := Nat) ⟨fun _ => BFreq.Q, fun a b => a + b, fun a b => a * b, fun a _ _ => a, fun a b => a + b⟩
    [("a", .ser 1), ("b", .ser 2), ("c", .scalar (some 3))]
    [.rename (.names ["a"]) (.names ["z"]) false, .overlay [("z", .ser 10), ("c", .ser 5)] none false]
      = .ok [("b", .ser 2), ("c", .scalar (some 3)), ("z", .ser 11)] := by decide

end Frame

end IrisVerif.C19
