/-
Helper lemmas about the civil-calendar model (IrisVerif.Model.Dates). Core Lean only.
-/
import IrisVerif.Model.Dates

namespace IrisVerif.Dates

theorem dby_mono {a b : Int} (h : a ≤ b) : dby a ≤ dby b := by
  unfold dby; omega

theorem dby_succ (y : Int) : dby (y + 1) = dby y + yearLen y := by
  unfold dby yearLen isLeap
  by_cases h4 : y % 4 = 0 <;> by_cases h100 : y % 100 = 0 <;> by_cases h400 : y % 400 = 0 <;>
    simp [h4, h100, h400] <;> omega

theorem yearLen_cases (y : Int) : yearLen y = 365 ∨ yearLen y = 366 := by
  unfold yearLen; split <;> simp

theorem yearOf_spec (n : Int) : dby (yearOf n) < n ∧ n ≤ dby (yearOf n + 1) := by
  unfold yearOf
  simp only
  split
  · unfold dby at *; omega
  · split
    · unfold dby at *; omega
    · unfold dby at *; omega

theorem yearOf_unique (n y : Int) (h1 : dby y < n) (h2 : n ≤ dby (y + 1)) : yearOf n = y := by
  have hs := yearOf_spec n
  rcases Int.lt_trichotomy (yearOf n) y with h | h | h
  · have := @dby_mono (yearOf n + 1) y (by omega); omega
  · exact h
  · have := @dby_mono (y + 1) (yearOf n) (by omega); omega

/-- month lengths add up: `dbm y (m+1) = dbm y m + daysInMonth y m` for `1 ≤ m ≤ 11`, and December closes the year. -/
theorem dbm_succ (y m : Int) (h1 : 1 ≤ m) (h2 : m ≤ 11) : dbm y (m + 1) = dbm y m + daysInMonth y m := by
  have hm : m = 1 ∨ m = 2 ∨ m = 3 ∨ m = 4 ∨ m = 5 ∨ m = 6 ∨ m = 7 ∨ m = 8 ∨ m = 9 ∨ m = 10 ∨ m = 11 := by omega
  rcases hm with h | h | h | h | h | h | h | h | h | h | h <;> subst h <;>
    cases hl : isLeap y <;> simp [dbm, daysInMonth, hl]

theorem dbm_dec (y : Int) : dbm y 12 + daysInMonth y 12 = yearLen y := by
  cases hl : isLeap y <;> simp [dbm, daysInMonth, yearLen, hl]

theorem dbm_one (y : Int) : dbm y 1 = 0 := by simp [dbm]

theorem daysInMonth_pos (y m : Int) : 28 ≤ daysInMonth y m ∧ daysInMonth y m ≤ 31 := by
  unfold daysInMonth; repeat' split <;> omega

/-- For a valid date, the day-of-year lies strictly inside month `m`'s slot. -/
theorem doy_bounds (y m d : Int) (h : ValidYmd y m d) :
    dbm y m < dbm y m + d ∧ dbm y m + d ≤ dbm y m + daysInMonth y m := by
  obtain ⟨_, _, h3, h4⟩ := h; omega

theorem monthOf_of_valid (y m d : Int) (h : ValidYmd y m d) : monthOf y (dbm y m + d) = m := by
  obtain ⟨h1, h2, h3, h4⟩ := h
  have hm : m = 1 ∨ m = 2 ∨ m = 3 ∨ m = 4 ∨ m = 5 ∨ m = 6 ∨ m = 7 ∨ m = 8 ∨ m = 9 ∨ m = 10 ∨ m = 11 ∨ m = 12 := by omega
  rcases hm with h | h | h | h | h | h | h | h | h | h | h | h <;> subst h <;>
    cases hl : isLeap y <;> simp [dbm, daysInMonth, hl] at h4 ⊢ <;> simp [monthOf, dbm, hl] <;> omega

theorem doy_le_yearLen (y m d : Int) (h : ValidYmd y m d) : 1 ≤ dbm y m + d ∧ dbm y m + d ≤ yearLen y := by
  obtain ⟨h1, h2, h3, h4⟩ := h
  have hm : m = 1 ∨ m = 2 ∨ m = 3 ∨ m = 4 ∨ m = 5 ∨ m = 6 ∨ m = 7 ∨ m = 8 ∨ m = 9 ∨ m = 10 ∨ m = 11 ∨ m = 12 := by omega
  rcases hm with h | h | h | h | h | h | h | h | h | h | h | h <;> subst h <;>
    cases hl : isLeap y <;> simp [dbm, daysInMonth, yearLen, hl] at h4 ⊢ <;> omega

/-- month and day recovered from a day-of-year in `1 … yearLen y` form a valid date. -/
theorem monthOf_valid (y doy : Int) (h1 : 1 ≤ doy) (h2 : doy ≤ yearLen y) :
    ValidYmd y (monthOf y doy) (doy - dbm y (monthOf y doy)) := by
  unfold ValidYmd
  cases hl : isLeap y <;> simp [yearLen, hl] at h2 <;> simp only [monthOf, dbm, hl] <;>
    (repeat' split) <;> simp [daysInMonth, hl] <;> omega

end IrisVerif.Dates
