/-
Line-protocol driver for the steady-state model (property C05).

Requests (sections separated by `;`, rationals as `num/den`, missing values as `nan`):
  consts
  path <0|1 logly> <level> <change> <s0> <n>
  wrt ; <canExo qids> ; <exogenized> ; <endogenized> ; <fixed level> ; <fixed change>
  steady <0|1 flat> ; <codes: p|v|l per qid> ; <levels> ; <changes> ; <expr> | <expr> … ; <fixed level qids> ;
         <fixed change qids> ; <eids> : <qids> : <guess> | … ; <qid> <expr> | …      (autovalues; may be empty)
  lin <0|1 flat> ; <A> ; <B> ; <C>
  linchk ; <A> ; <B> ; <C> ; <xi> ; <dxi> ; <tmin> <tmax>
  measchk ; <F> ; <G> ; <H> ; <xi> ; <dxi> ; <y> ; <dy> ; <tmin> <tmax>
Expressions are in prefix form: `n <rat>`, `t <qid> <shift>`, `~ a`, `+ a b`, `- a b`, `* a b`, `/ a b`, `^ a <nat>`.
-/
import IrisVerif.Model.Steady
import IrisVerif.Driver.Util

open IrisVerif IrisVerif.Steady IrisVerif.Driver

namespace IrisVerif.Driver.C05

def showCell : Cell → String
  | some q => QMat.showRat q
  | none => "nan"

def cell? (s : String) : Option Cell :=
  if s = "nan" then some none else (QMat.parseRat? s).map some

def showCells (l : List Cell) : String := " ".intercalate (l.map showCell)
def showNats (l : List Nat) : String := ",".intercalate (l.map toString)

def sections (s : String) : List (List String) := (s.splitOn ";").map words

def nats? (ws : List String) : Option (List Nat) := ws.mapM (·.toNat?)
def rats? (ws : List String) : Option (List Rat) := ws.mapM QMat.parseRat?

/-- prefix-form expression parser; returns the rest of the words -/
partial def expr? : List String → Option (Expr × List String)
  | "n" :: q :: rest => (QMat.parseRat? q).map (fun q => (Expr.num q, rest))
  | "t" :: q :: s :: rest => do
    let q ← q.toNat?; let s ← s.toInt?
    pure (Expr.tok q s, rest)
  | "~" :: rest => do
    let (a, rest) ← expr? rest
    pure (Expr.neg a, rest)
  | "^" :: rest => do
    let (a, rest) ← expr? rest
    match rest with
    | n :: rest => do let n ← n.toNat?; pure (Expr.pow a n, rest)
    | [] => none
  | op :: rest =>
    if op = "+" || op = "-" || op = "*" || op = "/" then do
      let (a, rest) ← expr? rest
      let (b, rest) ← expr? rest
      let e := if op = "+" then Expr.add a b else if op = "-" then Expr.sub a b
        else if op = "*" then Expr.mul a b else Expr.div a b
      pure (e, rest)
    else none
  | [] => none

def exprAll? (ws : List String) : Option Expr :=
  match expr? ws with
  | some (e, []) => some e
  | _ => none

def splitBar (ws : List String) : List (List String) :=
  if ws.isEmpty then [] else ((" ".intercalate ws).splitOn "|").map words

def fnOf (l : List Cell) : Nat → Cell := fun q => (l[q]?).getD none

def stepPath : List String → String
  | [lg, l, c, s0, n] =>
    match cell? l, cell? c, s0.toInt?, n.toNat? with
    | some l, some c, some s0, some n =>
      showCells ((List.range n).map (fun (i : Nat) => steadyCell (lg = "1") l c (s0 + Int.ofNat i)))
    | _, _, _, _ => "bad-op"
  | _ => "bad-op"

def stepWrt (secs : List (List String)) : String :=
  match secs with
  | [canExo, exo, endo, fl, fc] =>
    match nats? canExo, nats? exo, nats? endo, nats? fl, nats? fc with
    | some canExo, some exo, some endo, some fl, some fc =>
      let w := resolveWrt canExo { exogenized := exo, endogenized := endo, fixedLevel := fl, fixedChange := fc }
      showNats w.qids ++ " ; " ++ showNats w.fixedLevel ++ " ; " ++ showNats w.fixedChange
    | _, _, _, _, _ => "bad-op"
  | _ => "bad-op"

structure BlockReq where
  block : Block
  guess : Option (List Rat)

def blockReq? (ws : List String) : Option BlockReq :=
  match ((" ".intercalate ws).splitOn ":").map words with
  | [e, q, g] => do
    let e ← nats? e; let q ← nats? q
    if g = ["-"] then pure ⟨⟨e, q⟩, none⟩ else do
      let g ← rats? g
      pure ⟨⟨e, q⟩, some g⟩
  | _ => none

def auto? (ws : List String) : Option (Nat × Expr) :=
  match ws with
  | q :: rest => do let q ← q.toNat?; let e ← exprAll? rest; pure (q, e)
  | [] => none

/-- replay of the loop with the implementation's final guesses as the solver; reports per block the
wrt lists, the residual vector at the final guess and the exit test, then the variant -/
def runBlocks (cfg : Config) (tol : Rat) : Nat → List BlockReq → Variant → List String → (List String × Variant)
  | _, [], v, acc => (acc.reverse, v)
  | bid, r :: rest, v, acc =>
    if blockSkipped cfg r.block then runBlocks cfg tol (bid + 1) rest v ("skip" :: acc)
    else
      let ev := mkEvaluator cfg r.block v
      match r.guess with
      | none => (("noguess" :: acc).reverse, v)
      | some g =>
        let res := ev.resid g
        let line := "WL " ++ showNats ev.wrtLevel ++ " WC " ++ showNats ev.wrtChange ++ " R " ++ showCells res
          ++ " X " ++ showBool (exitTest tol res) ++ " X2 " ++ showBool (exitTest2 tol res)
          ++ " G " ++ showBool (goodGuess? cfg.loggable ev g)
        match blockStep cfg (fun _ _ => some g) bid r.block v with
        | .ok v' => runBlocks cfg tol (bid + 1) rest v' (line :: acc)
        | .error _ => ((line :: acc).reverse, v)

def stepSteady (flat : String) (secs : List (List String)) : String :=
  match secs with
  | [codes, ls, cs, es, fl, fc, bs, as] =>
    let codes : List Char := (codes.headD "").toList
    let n := codes.length
    match ls.mapM cell?, cs.mapM cell?, (splitBar es).mapM exprAll?, nats? fl, nats? fc,
          (splitBar bs).mapM blockReq?, (splitBar as).mapM auto? with
    | some ls, some cs, some es, some fl, some fc, some bs, some as =>
      let code : Nat → Char := fun q => (codes[q]?).getD 'p'
      let cfg : Config := {
        flat := flat = "1", logly := fun q => code q = 'l', isVar := fun q => code q ≠ 'p',
        loggable := fun q => code q ≠ 'p', eqs := es, fixedLevel := fl, fixedChange := fc }
      let v0 : Variant := ⟨fnOf ls, fnOf cs⟩
      let (lines, v) := runBlocks cfg (1 / 1000000000000) 0 bs v0 []
      let va := updateAutovalues cfg.logly as v
      let dump (f : Nat → Cell) := showCells ((List.range n).map f)
      " | ".intercalate lines ++ " ; " ++ dump v.level ++ " ; " ++ dump v.change ++ " ; " ++ dump va.level
    | _, _, _, _, _, _, _ => "bad-op"
  | _ => "bad-op"

def mat? (ws : List String) : Option QMat :=
  match QMat.parse? ws with
  | some (m, []) => some m
  | _ => none

def showVec (m : QMat) : String := " ".intercalate (m.toVec.toList.map QMat.showRat)

def stepLin (flat : String) (secs : List (List String)) : String :=
  match secs with
  | [a, b, c] =>
    match mat? a, mat? b, mat? c with
    | some A, some B, some C =>
      if flat = "1" then
        match Linear.solveFlat A B C with
        | some xi => "xi " ++ showVec xi
        | none => "singular"
      else
        match Linear.solveNonflat A B C with
        | some (xi, dxi) => "xi " ++ showVec xi ++ " dxi " ++ showVec dxi
        | none => "singular"
    | _, _, _ => "bad-op"
  | _ => "bad-op"

def tRange (tmin tmax : Int) : List Int := (List.range (tmax - tmin + 1).toNat).map (fun (i : Nat) => tmin + Int.ofNat i)

def stepLinchk (secs : List (List String)) : String :=
  match secs with
  | [a, b, c, xi, dxi, [tmin, tmax]] =>
    match mat? a, mat? b, mat? c, mat? xi, mat? dxi, tmin.toInt?, tmax.toInt? with
    | some A, some B, some C, some xi, some dxi, some tmin, some tmax =>
      let stacked := (Linear.stackedAB A B 1 * QMat.vstack xi dxi + QMat.vstack C C).maxAbs
      let ms := (tRange tmin tmax).map (fun (t : Int) => (Linear.residAt A B C xi dxi (t : Rat)).maxAbs)
      "stacked " ++ QMat.showRat stacked ++ " path " ++ QMat.showRat (ms.foldl (fun m x => if m < x then x else m) 0)
    | _, _, _, _, _, _, _ => "bad-op"
  | _ => "bad-op"

def stepMeaschk (secs : List (List String)) : String :=
  match secs with
  | [f, g, h, xi, dxi, y, dy, [tmin, tmax]] =>
    match mat? f, mat? g, mat? h, mat? xi, mat? dxi, mat? y, mat? dy, tmin.toInt?, tmax.toInt? with
    | some F, some G, some H, some xi, some dxi, some y, some dy, some tmin, some tmax =>
      let ms := (tRange tmin tmax).map (fun (t : Int) => (Linear.measResidAt F G H xi dxi y dy (t : Rat)).maxAbs)
      "path " ++ QMat.showRat (ms.foldl (fun m x => if m < x then x else m) 0)
    | _, _, _, _, _, _, _, _, _ => "bad-op"
  | _ => "bad-op"

def optBool? (s : String) : Option (Option Bool) :=
  if s = "-" then some none else if s = "1" then some (some true) else if s = "0" then some (some false) else none

/-- `flags <created linear> <created flat> <override linear> <override flat>` (overrides `-`, `0`, `1`) -/
def stepFlags : List String → String
  | [cl, cf, ol, of_] =>
    match optBool? cl, optBool? cf, optBool? ol, optBool? of_ with
    | some (some cl), some (some cf), some ol, some of_ =>
      let f := resolveFlags ⟨cl, cf⟩ ol of_
      (if f.linear then "1" else "0") ++ " " ++ (if f.flat then "1" else "0")
    | _, _, _, _ => "bad-op"
  | _ => "bad-op"

/-- `tol <user tolerance or -> <equality tolerance>` -/
def stepTol : List String → String
  | [u, e] =>
    match (if u = "-" then some none else (QMat.parseRat? u).map some), QMat.parseRat? e with
    | some u, some e => QMat.showRat (tolInForce u e)
    | _, _ => "bad-op"
  | _ => "bad-op"

/-- `meas ; F ; G ; H ; xi ; dxi`: the model's measurement block (two checked solves) -/
def stepMeas (secs : List (List String)) : String :=
  match secs with
  | [f, g, h, xi, dxi] =>
    match mat? f, mat? g, mat? h, mat? xi, mat? dxi with
    | some F, some G, some H, some xi, some dxi =>
      match Linear.solveMeasurementNonflat F G H xi dxi with
      | some (y, dy) => "y " ++ showVec y ++ " dy " ++ showVec dy
      | none => "singular"
    | _, _, _, _, _ => "bad-op"
  | _ => "bad-op"

def planOp? : List String → Option PlanOp
  | ["exogenize", q] => q.toNat?.map .exogenize
  | ["unexogenize", q] => q.toNat?.map .unexogenize
  | ["endogenize", q] => q.toNat?.map .endogenize
  | ["unendogenize", q] => q.toNat?.map .unendogenize
  | ["fix_level", q] => q.toNat?.map .fixLevel
  | ["unfix_level", q] => q.toNat?.map .unfixLevel
  | ["fix_change", q] => q.toNat?.map .fixChange
  | ["unfix_change", q] => q.toNat?.map .unfixChange
  | ["fix", q] => q.toNat?.map .fix
  | ["unfix", q] => q.toNat?.map .unfix
  | ["swap", x, q] => do let x ← x.toNat?; let q ← q.toNat?; pure (.swap x q)
  | ["unswap", x, q] => do let x ← x.toNat?; let q ← q.toNat?; pure (.unswap x q)
  | _ => none

/-- `planops <1|0 growth> ; op q | op q | …` -> the four registers, sorted -/
def stepPlanops (growth : String) (secs : List (List String)) : String :=
  match secs with
  | [ops] =>
    match (splitBar ops).mapM planOp? with
    | some ops =>
      let p := Plan.applyAll (growth = "1") {} ops
      showNats (sortDedup p.exogenized) ++ " ; " ++ showNats (sortDedup p.endogenized) ++ " ; "
        ++ showNats (sortDedup p.fixedLevel) ++ " ; " ++ showNats (sortDedup p.fixedChange)
    | none => "bad-op"
  | _ => "bad-op"

/-- `linconst ; <codes p|v|l> ; <levels> ; <dyn expr> [!! <steady expr>] | …` -> the constants of the first-order system -/
def stepLinconst (secs : List (List String)) : String :=
  match secs with
  | [codes, ls, es] =>
    let codes : List Char := (codes.headD "").toList
    let code : Nat → Char := fun q => (codes[q]?).getD 'p'
    let eq? (ws : List String) : Option Equation :=
      match (" ".intercalate ws).splitOn "!!" with
      | [d] => (exprAll? (words d)).map (fun d => { dynamic := d })
      | [d, st] => do
        let d ← exprAll? (words d); let st ← exprAll? (words st)
        pure { dynamic := d, steady := some st }
      | _ => none
    match ls.mapM cell?, (splitBar es).mapM eq? with
    | some ls, some eqs =>
      showCells (linearConstants (fun q => code q = 'p') (fun q => code q = 'l') (fnOf ls) eqs)
    | _, _ => "bad-op"
  | _ => "bad-op"

def step (line : String) : String :=
  match sections line with
  | ["consts"] :: [] => QMat.showRat IrisVerif.Steady.expNinth
  | ("path" :: args) :: [] => stepPath args
  | ("flags" :: args) :: [] => stepFlags args
  | ("tol" :: args) :: [] => stepTol args
  | ["wrt"] :: rest => stepWrt rest
  | ["planops", growth] :: rest => stepPlanops growth rest
  | ["steady", flat] :: rest => stepSteady flat rest
  | ["lin", flat] :: rest => stepLin flat rest
  | ["linchk"] :: rest => stepLinchk rest
  | ["measchk"] :: rest => stepMeaschk rest
  | ["meas"] :: rest => stepMeas rest
  | ["linconst"] :: rest => stepLinconst rest
  | _ => "bad-op"

end IrisVerif.Driver.C05

def main : IO Unit := IrisVerif.Driver.runMain IrisVerif.Driver.C05.step
