/-
Shared helpers of the line-protocol drivers: one request per input line, one canonical reply
per output line. Run with `lake env lean --run IrisVerif/Driver/<X>.lean < requests > replies`.
-/
namespace IrisVerif.Driver

def words (s : String) : List String :=
  (s.splitOn " ").filter (fun w => w ≠ "")

def parseInt? (s : String) : Option Int := s.toInt?

def parseInts? (ws : List String) : Option (List Int) := ws.mapM parseInt?

def showInts (l : List Int) : String := "[" ++ ",".intercalate (l.map toString) ++ "]"

def showBool (b : Bool) : String := if b then "T" else "F"

/-- rationals cross the pipe as `num/den` (den > 0, lowest terms) or `nan` -/
def showRat (q : Rat) : String := toString q.num ++ "/" ++ toString q.den

def parseRat? (s : String) : Option Rat :=
  match s.splitOn "/" with
  | [n] => n.toInt?.map (fun (i : Int) => (i : Rat))
  | [n, d] => do
    let n ← n.toInt?
    let d ← d.toInt?
    if d = 0 then none else some ((n : Rat) / (d : Rat))
  | _ => none

partial def loop (h : IO.FS.Stream) (out : IO.FS.Stream) (step : String → String) : IO Unit := do
  let line ← h.getLine
  if line.isEmpty then return ()
  let l := (line.dropEndWhile (fun c => c = '\n' || c = '\r')).toString
  out.putStrLn (step l)
  loop h out step

def runMain (step : String → String) : IO Unit := do
  let stdin ← IO.getStdin
  let stdout ← IO.getStdout
  loop stdin stdout step
  stdout.flush

end IrisVerif.Driver
