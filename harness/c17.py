"""
C17 -- Sequential-model simulation makes every equation hold, also when exogenized.

Correspondence: random sequential models are rendered as source text for `irispie.Sequential.from_string` and, as
expression trees, for the Lean model (IrisVerif/Model/Sequential.lean, driver C17); both simulate the same data with the
same plan under both execution orders.  The Lean model is run over exact rationals (mode R) and over IEEE doubles
(mode F, same operation order).  Where both Lean runs agree exactly (no rounding happened) the implementation must equal
the rational result exactly (class D); otherwise it must equal the double result within a tolerance (class T).
Oracle: the residual of every equation is recomputed from the OUTPUT databox by an independent evaluator of the equation
source text (Python `ast`, pseudo-functions by their documented meaning), at every step of the schedule whose inputs were
all computed before they were read and not overwritten afterwards.
"""
from __future__ import annotations
import ast
import json
import math
import os
import struct
from fractions import Fraction

import numpy as np
import irispie as ir

from .common import Ctx, err_kind, rat_of_float, VERIF

DRIVERS = ["C17"]
LEVEL = "proof"
MANIFEST = {
    "category": "proof",
    "text": ("Lean 4 theorems about an executable model of the sequential simulator (explanatories/main.py, _transforms.py, "
             "plans/transforms.py, sequentials/_simulate.py) over any field with abstract exp/log: for each LHS transform "
             "(none, log, diff, diff_log, roc, pct) the level formula inverts the transform (T(level(rhs,lag),lag)=rhs; lag!=0 for "
             "roc/pct, log defined for diff_log); each plan transform returns the level whose transform equals the target; one "
             "simulate step makes its equation hold; one exogenize step sets the LHS to the implied value and, for the code as it is, "
             "makes the equation hold iff the incoming residual is zero (the defect C17-a is proved as a theorem with a witness; the "
             "repaired statement list is proved correct for every residual); frame lemma (an equation depends only on the cells it "
             "reads) and, by induction over an arbitrary schedule, the schedule theorem: every step that is admissible (reads nothing "
             "that it or a later step writes, is not overwritten) has its equation true in the final data; closed-form theorems: "
             "dates_equations is Admissible for every model that is sequentialised with leads only into input cells, equations_dates "
             "under the incomparable condition (counterexamples both ways) that rows written by equations are read only from earlier "
             "equations or own lags; the executable decision admissibleFlags is sound and complete for Admissible; end-to-end theorem "
             "simulate_all_equations_hold with hypotheses on the model text, span and plan only; converse: an Admissible dates/equations "
             "order forces the closed-form condition on LHS rows; _detect_exogenized hits the target for every transform at EVERY shift "
             "<= -1 (Python indexing of values_before modelled, out-of-range = error); the data-source options are modelled (initialCell): parameters come "
             "from the databox iff parameters_from_data, residuals unless shocks_from_data=False, independently, with the option each "
             "Slatable block tests regenerated from the code; every row of CHOOSE_TRANSFORM_CLASS, aliases "
             "included, maps its spelling to the class of the documented transform; the data array's extent nPre/nPost is computed by the "
             "model and every read is proved to land inside it; the returned databox target_db | out_db is modelled as a dict union (fresh "
             "results override, other names carried over, target order kept); the model object is a state machine (reorder / copy / "
             "simulate) whose invariant 'compiled evaluators = finalize of the current order' is proved, and row numbering is proved "
             "immaterial (simulation commutes with any injective renumbering), so simulation after any sequence of re-orderings equals the "
             "name-level simulation in that order. The model is tied to the "
             "code on every run: the transform/level/residual/plan formulas and the statement lists of Explanatory.simulate/exogenize "
             "are regenerated from the Python AST (a changed formula re-checks the proofs), the control flow (schedule orders, "
             "_detect_exogenized incl. when_data and Python indexing, NaN propagation) by differential runs against irispie on random "
             "models x data x plans x both orders, exact over rationals where double arithmetic is exact and to 1e-9 otherwise; an "
             "independent evaluator of the equation text on the output databox supplies the replay."),
    "design": "7/C17",
    "note": ("IEEE rounding and infinities are outside the theorems (values are a field plus NaN); Dataslate construction and the "
             "source preparser are exercised, not modelled (C19/C04)."),
    "technique": "Lean 4 proof over executable model + translator-regenerated formulas + differential correspondence + independent oracle",
}
ASSUMPTIONS = [
    "values are elements of a field plus NaN; IEEE rounding, overflow and signed infinities are not modelled (cases whose output contains an infinity are not compared)",
    "exp/log are abstract partial functions with log(exp x)=x and log(ab)=log a+log b where defined (instantiated by Real.exp/Real.log in an example)",
    "the right-hand sides generated use + - * /, unary minus, exp, log, sqrt on variables, lags, leads, parameters and constants; other functions of the model language are not generated",
    "Dataslate (databox -> array) and the model-source preparser are part of the implementation under test but not of the Lean model",
]

TR_FUNC = {"None": None, "Log": "log", "Diff": "diff", "DiffLog": "diff_log", "Roc": "roc", "Pct": "pct"}
PLAN_KW = {"None": None, "Log": "log", "Diff": "diff", "DiffLog": "diff_log", "Roc": "roc", "Pct": "pct", "Flat": "flat"}
PLAN_FMT = {"None": "{}", "Log": "log_{}", "Diff": "diff_{}", "DiffLog": "diff_log_{}", "Roc": "roc_{}", "Pct": "pct_{}", "Flat": None}
# every documented spelling of the `transform=` keyword of SimulationPlan.exogenize (None = level targets)
PLAN_SPELLINGS = {"None": [None, "none", "level"], "Log": ["log"], "Diff": ["diff"], "DiffLog": ["diff_log", "difflog"],
                  "Roc": ["roc"], "Pct": ["pct"], "Flat": ["flat"]}


def oracle_plan_kind(spelling):
    """the oracle's own reading of a `transform=` keyword, from the documentation: level / log / diff / diff_log (difflog) / roc /
    pct / flat; underscores do not matter"""
    if spelling is None:
        return "None"
    w = spelling.replace("_", "").lower()
    return {"none": "None", "level": "None", "log": "Log", "diff": "Diff", "difflog": "DiffLog", "roc": "Roc", "pct": "Pct",
            "flat": "Flat"}[w]


def plan_spelling(p):
    """the keyword a plan entry passes to exogenize(): `spelling` when the case carries one (older corpus cases do not)"""
    return p["spelling"] if "spelling" in p else PLAN_KW[p["kind"]]


PLAN_USES_LAG = {"None": False, "Log": False, "Diff": True, "DiffLog": True, "Roc": True, "Pct": True, "Flat": True}
FN_NAME = {0: "exp", 1: "log", 2: "sqrt"}
NAN = float("nan")


# ---------------------------------------------------------------------------------------
# expression trees: ("c", float) ("v", name, shift) ("n", e) ("+"|"-"|"*"|"/", a, b) ("f", k, e)
# ---------------------------------------------------------------------------------------

# pseudo-functions of the model language, every documented spelling; node ("p", spelling, ("v", name, shift), k | None)
PSEUDO_SPELLINGS = {"diff": ["diff"], "difflog": ["diff_log", "difflog"], "pct": ["pct"], "roc": ["roc"], "shift": ["shift"],
                    "movsum": ["mov_sum", "movsum"], "movavg": ["mov_avg", "movavg"], "movprod": ["mov_prod", "movprod"]}
PSEUDO_DEFAULT_SHIFT = {"diff": -1, "difflog": -1, "pct": -1, "roc": -1, "shift": -1, "movsum": -4, "movavg": -4, "movprod": -4}


def expand(e):
    """the tree a pseudo-function node MEANS (documented meaning; this is what the Lean model is given):
    diff(a,k)=a-a[k], diff_log=log a-log a[k], pct=100*a/a[k]-100, roc=a/a[k], shift=a[k],
    mov_sum(a,k)=a+a[-1]+...+a[k+1] (|k| terms), mov_avg=mov_sum/|k|, mov_prod likewise with *"""
    k = e[0]
    if k in ("c", "v"):
        return tuple(e)
    if k == "p":
        canon = e[1].replace("_", "")
        a = tuple(e[2])
        sh = PSEUDO_DEFAULT_SHIFT[canon] if e[3] is None else int(e[3])
        lag = ("v", a[1], a[2] + sh)
        if canon == "diff":
            return ("-", a, lag)
        if canon == "difflog":
            return ("-", ("f", 1, a), ("f", 1, lag))
        if canon == "pct":
            return ("-", ("/", ("*", ("c", 100.0), a), lag), ("c", 100.0))
        if canon == "roc":
            return ("/", a, lag)
        if canon == "shift":
            return lag
        terms = [("v", a[1], a[2] - j) for j in range(-sh)]
        acc = terms[0]
        for t_ in terms[1:]:
            acc = ("*" if canon == "movprod" else "+", acc, t_)
        return ("/", acc, ("c", float(-sh))) if canon == "movavg" else acc
    if k == "n":
        return ("n", expand(e[1]))
    if k == "f":
        return ("f", e[1], expand(e[2]))
    return (k, expand(e[1]), expand(e[2]))


def render(e) -> str:
    k = e[0]
    if k == "p":
        return f"{e[1]}({render(e[2])}" + ("" if e[3] is None else f",{int(e[3])}") + ")"
    if k == "c":
        return repr(float(e[1])) if e[1] >= 0 else "(" + repr(float(e[1])) + ")"
    if k == "v":
        return e[1] if e[2] == 0 else f"{e[1]}[{e[2]:+d}]"
    if k == "n":
        return "(-" + render(e[1]) + ")"
    if k == "f":
        return FN_NAME[e[1]] + "(" + render(e[2]) + ")"
    return "(" + render(e[1]) + k + render(e[2]) + ")"


def prefix(e, row) -> str:
    k = e[0]
    if k == "p":
        return prefix(expand(e), row)
    if k == "c":
        return "c " + rat_of_float(e[1])
    if k == "v":
        return f"v {row[e[1]]} {e[2]}"
    if k == "n":
        return "n " + prefix(e[1], row)
    if k == "f":
        return f"f {e[1]} " + prefix(e[2], row)
    return f"{k} {prefix(e[1], row)} {prefix(e[2], row)}"


def tokens_of(e, out):
    if e[0] == "p":
        return tokens_of(expand(e), out)
    if e[0] == "v":
        out.append((e[1], e[2]))
    elif e[0] in ("n",):
        tokens_of(e[1], out)
    elif e[0] == "f":
        tokens_of(e[2], out)
    elif e[0] != "c":
        tokens_of(e[1], out); tokens_of(e[2], out)
    return out


def uses_fn(e) -> bool:
    if e[0] == "p":
        return e[1].replace("_", "") in ("difflog", "pct", "roc")     # log / division by a variable: keep the data positive
    if e[0] == "f":
        return True
    if e[0] in ("c", "v"):
        return False
    return any(uses_fn(x) for x in e[1:] if isinstance(x, (tuple, list)))


# ---------------------------------------------------------------------------------------
# generator
# ---------------------------------------------------------------------------------------

def gen_case(rng, style=None) -> dict:
    """a self-contained case: equations (trees), parameters, data, plan; everything needed to replay it"""
    style = style or rng.weighted([("linear", 5), ("poly", 3), ("general", 4)])
    neq = rng.weighted([(1, 2), (2, 3), (3, 3), (4, 2), (5, 2), (6, 1), (7, 1), (8, 1)])
    nper = rng.randint(1, 7)
    nexo = rng.randint(1, 2)
    npar = rng.randint(0, 2)
    exo = [f"z{i}" for i in range(nexo)]
    pars = {f"p{i}": rng.choice([0.5, -0.5, 0.25, 1.0, 0.75, -0.25, 2.0, 0.125]) for i in range(npar)}
    if style == "general":
        pars = {k: rng.choice([0.3, -0.4, 0.9, 0.05, v]) for k, v in pars.items()}
    lhs_names = [f"x{i}" for i in range(neq)]
    dup = neq >= 2 and rng.chance(0.04)
    if dup:
        lhs_names[rng.randint(1, neq - 1)] = lhs_names[0]
    allow_lead_lhs = rng.chance(0.08)
    allow_forward_same = rng.chance(0.06)      # same-period read of a later equation: not sequential
    allow_self = rng.chance(0.03)
    eqs = []
    for i in range(neq):
        if style == "linear":
            tr = rng.weighted([("None", 6), ("Diff", 4), ("Roc", 1)])
        elif style == "poly":
            tr = rng.weighted([("None", 5), ("Diff", 3), ("Roc", 2), ("Pct", 1)])
        else:
            tr = rng.weighted([("None", 3), ("Log", 2), ("Diff", 2), ("DiffLog", 2), ("Roc", 2), ("Pct", 2)])
        identity = rng.chance(0.2)

        def leaf():
            kind = rng.weighted([("earlier", 4 if i > 0 else 0), ("own", 3), ("later", 2 if i < neq - 1 else 0), ("exo", 3),
                                 ("par", 2 if pars else 0), ("const", 2)])
            if kind == "earlier":
                j = rng.randint(0, i - 1)
                sh = rng.choice([0, 0, 0, -1, -1, -2, -3])
                if allow_lead_lhs and rng.chance(0.3):
                    sh = 1
                return ("v", lhs_names[j], sh)
            if kind == "own":
                if allow_self and rng.chance(0.3):
                    return ("v", lhs_names[i], 0)
                return ("v", lhs_names[i], rng.choice([-1, -1, -2, -3]))
            if kind == "later":
                j = rng.randint(i + 1, neq - 1)
                sh = rng.choice([-1, -1, -2, -3])
                if allow_forward_same and rng.chance(0.4):
                    sh = 0
                if allow_lead_lhs and rng.chance(0.2):
                    sh = 1
                return ("v", lhs_names[j], sh)
            if kind == "exo":
                return ("v", rng.choice(exo), rng.choice([0, 0, 0, -1, -2, 1]))
            if kind == "par":
                return ("v", rng.choice(sorted(pars)), 0)
            return ("c", coef())

        def coef():
            if style == "linear":
                return rng.choice([0.5, -0.5, 1.0, -1.0, 0.25, 2.0, -0.25])
            if style == "poly":
                return rng.choice([0.5, -0.5, 0.25, 0.125, -0.125, 0.375, 1.0, -0.75])
            return rng.choice([0.5, -0.3, 0.1, 0.25, -0.125, 0.07, 0.9, 1.0])

        def pseudo(x):
            """a pseudo-function of the model language applied to a variable, in any of its documented spellings"""
            kinds = [("diff", 3), ("shift", 2), ("movsum", 2), ("movavg", 1)]
            if style != "linear":
                kinds += [("movprod", 1)]
            if style == "general":
                kinds += [("difflog", 3), ("pct", 1), ("roc", 1)]
            canon = rng.weighted(kinds)
            spelling = rng.choice(PSEUDO_SPELLINGS[canon])
            k_ = None
            if canon in ("shift", "movsum", "movavg", "movprod") and rng.chance(0.6):
                k_ = rng.choice([-1, -2, -3]) if canon == "shift" else rng.choice([-2, -3])
            elif canon == "diff" and rng.chance(0.2):
                k_ = -2
            return ("p", spelling, x, k_)

        def term():
            x = leaf()
            if x[0] == "v" and x[1] not in pars and x[2] <= 0 and rng.chance(0.12):
                return ("*", ("c", coef()), pseudo(x))
            if style == "linear":
                return ("*", ("c", coef()), x) if x[0] != "c" else x
            r = rng.random()
            if r < 0.35:
                return ("*", ("c", coef()), x)
            if r < 0.55:
                return ("*", ("*", ("c", rng.choice([0.25, 0.125, -0.125, 0.5])), x), leaf())
            if style == "general" and r < 0.65:
                return ("f", 0, ("*", ("c", rng.choice([0.125, -0.25, 0.1])), x))
            if style == "general" and r < 0.72:
                return ("f", 1, ("+", ("c", 2.0), ("*", x, x)))
            if style == "general" and r < 0.78:
                return ("f", 2, ("+", ("c", 1.0), ("*", x, x)))
            if style == "general" and r < 0.86:
                return ("/", x, ("c", rng.choice([4.0, 3.0, -8.0, 100.0])))
            if r < 0.9:
                return ("n", x)
            return x

        nterms = rng.randint(1, 3)
        rhs = term()
        for _ in range(nterms - 1):
            rhs = (rng.choice(["+", "+", "-"]), rhs, term())
        # keep ratio-type right-hand sides near sensible magnitudes
        if tr == "Roc":
            rhs = ("+", ("c", 1.0), ("*", ("c", 0.125), rhs))
        if tr in ("Log", "DiffLog"):
            rhs = ("*", ("c", 0.125), rhs)
        eqs.append({"lhs": lhs_names[i], "tr": tr, "identity": identity, "rhs": rhs})
        if tr == "DiffLog":
            eqs[-1]["lhs_spelling"] = rng.choice(["diff_log", "difflog"])
    # an identity and a non-identity for the same name would share plan points: keep duplicates of one kind
    if dup:
        for e in eqs:
            if e["lhs"] == lhs_names[0]:
                e["identity"] = eqs[0]["identity"]
    # ---- multi-step use of the model object: written in another order and re-ordered, sequentialized, copied ----------
    prep = []
    if neq >= 2 and rng.chance(0.4):
        can_seq = not dup and not allow_forward_same and not allow_self
        mode = rng.weighted([("shuffled_reorder", 4), ("shuffled_sequentialize", 3 if can_seq else 0), ("random_reorder", 2)])
        perm = list(range(neq))
        rng.shuffle(perm)
        if mode == "random_reorder":
            prep.append(["reorder", perm])
        else:
            eqs = [eqs[p] for p in perm]              # the source lists the equations in a shuffled order ...
            if mode == "shuffled_reorder":
                inv = [0] * neq
                for k, p_ in enumerate(perm):
                    inv[p_] = k
                prep.append(["reorder", inv])         # ... and reorder_equations restores the intended one
            else:
                prep.append(["sequentialize"])        # ... and sequentialize() has to find a valid one
        if rng.chance(0.5):
            prep.insert(0, ["simulate", rng.choice(["de", "ed"])])      # simulate, THEN re-order, then simulate again
        if rng.chance(0.25):
            prep.append(["copy"])
        if rng.chance(0.1):
            if rng.chance(0.5):
                prep.append(["simulate", rng.choice(["de", "ed"])])
            perm2 = list(range(neq))
            rng.shuffle(perm2)
            prep.append(["reorder", perm2])
    elif rng.chance(0.08):
        prep.append(rng.choice([["copy"], ["simulate", "de"], ["simulate", "ed"]]))
    toks = []
    for e in eqs:
        tokens_of(e["rhs"], toks)
        if e["tr"] in ("Diff", "DiffLog", "Roc", "Pct"):
            toks.append((e["lhs"], -1))
    npre = max([0] + [-s for _, s in toks])
    npost = max([0] + [s for _, s in toks])
    ncols = npre + nper + npost
    # ---- plan -----------------------------------------------------------------------------
    plan = []
    exogenizable = sorted(set(e["lhs"] for e in eqs if not e["identity"]))
    if exogenizable and rng.chance(0.75):
        for name in exogenizable:
            if not rng.chance(0.6):
                continue
            for _ in range(rng.randint(1, 2)):
                kind = rng.weighted([("None", 5), ("Log", 1 if style == "general" else 0), ("Diff", 3), ("DiffLog", 1 if style == "general" else 0),
                                     ("Roc", 1), ("Pct", 1), ("Flat", 1)])
                when = rng.chance(0.35)
                shift = -1 if rng.chance(0.8) else rng.choice([-2, -3, -1])
                a = rng.randint(0, nper - 1)
                b = rng.randint(a, min(nper - 1, a + rng.randint(0, 3)))
                plan.append({"name": name, "cols": list(range(a, b + 1)), "kind": kind, "when": when, "shift": shift,
                             "spelling": rng.choice(PLAN_SPELLINGS[kind])})
    # ---- data ---------------------------------------------------------------------------------
    positive = set(e["lhs"] for e in eqs if e["tr"] in ("Log", "DiffLog", "Roc", "Pct"))
    for e in eqs:
        for n, _ in tokens_of(e["rhs"], []):
            if uses_fn(e["rhs"]):
                positive.add(n)

    def val(name):
        if style == "general" and rng.chance(0.3):
            return round(0.5 + 3 * rng.random(), 3)
        if name in positive:
            return rng.randint(4, 32) / 8.0
        return rng.randint(-16, 32) / 8.0
    data = {}
    nan_rate = rng.choice([0.0, 0.0, 0.05, 0.15])
    for name in sorted(set(lhs_names)) + exo:
        col = []
        for c in range(ncols):
            col.append(NAN if rng.chance(nan_rate) else val(name))
        data[name] = col
    res_names = sorted(set("res_" + e["lhs"] for e in eqs if not e["identity"]))
    res_style = rng.weighted([("zero", 3), ("some", 4), ("all", 3)])
    for rn in res_names:
        if res_style == "zero" and rng.chance(0.7):
            continue    # series absent from the databox
        col = []
        for c in range(ncols):
            if res_style == "zero":
                col.append(0.0)
            elif rng.chance(0.15):
                col.append(NAN)
            elif res_style == "some" and rng.chance(0.6):
                col.append(0.0)
            else:
                col.append(rng.randint(-8, 8) / 8.0 if style != "general" else round(rng.random() - 0.5, 2))
        data[rn] = col
    for p in plan:
        fmt = PLAN_FMT[p["kind"]]
        if fmt is None:
            continue
        tname = fmt.format(p["name"])
        if tname in data and p["kind"] != "None":
            continue
        if p["kind"] == "None":
            col = data[tname]
        else:
            col = [NAN] * ncols
            data[tname] = col
        for c in p["cols"]:
            if p["when"] and rng.chance(0.4):
                col[npre + c] = NAN
            elif p["kind"] == "Roc":
                col[npre + c] = rng.choice([1.0, 1.5, 0.5, 1.25, 2.0])
            elif p["kind"] in ("Log", "DiffLog"):
                col[npre + c] = rng.choice([0.0, 0.125, -0.25, 0.5])
            elif p["kind"] == "Pct":
                col[npre + c] = rng.choice([0.0, 25.0, -50.0, 100.0, 12.5, 3.0])
            elif p["kind"] == "None" and p["name"] in positive:
                col[npre + c] = rng.randint(4, 32) / 8.0
            else:
                col[npre + c] = rng.randint(-16, 32) / 8.0
            if not p["when"] and rng.chance(0.12):
                col[npre + c] = NAN           # unconditional exogenization at a date with no observation
    # conditional exogenization through a lag-based transform (or flat) where the transform datum exists but the lagged LEVEL the
    # implied value needs has no observation (typically: no history supplied for a variable whose equation does not read its lag)
    for p in plan:
        if p["when"] and PLAN_USES_LAG[p["kind"]]:
            lagcol = npre + p["cols"][0] + p["shift"]
            if 0 <= lagcol < npre and rng.chance(0.6):
                data[p["name"]][lagcol] = NAN
                if rng.chance(0.5):
                    for cc in range(lagcol):
                        data[p["name"]][cc] = NAN          # no history at all
    # ---- non-default option target_db: the results are collected into an existing databox ---------------------------------
    target = None
    if rng.chance(0.25):
        kind = rng.weighted([("foreign", 1), ("stale", 2), ("baseline", 2), ("input", 1)])
        target = {"kind": kind, "data": {}}
        for on in ("other_a", "other_b")[: rng.randint(1, 2)]:
            target["data"][on] = [NAN if rng.chance(0.1) else rng.randint(-16, 32) / 8.0 for _ in range(ncols + 2)]
        if kind == "stale":
            # the target already holds series under the model's names (say, results collected earlier), with other values
            for name in sorted(set(lhs_names)) + res_names + exo:
                if rng.chance(0.8):
                    target["data"][name] = [NAN if rng.chance(0.05) else rng.randint(4, 40) / 8.0 for _ in range(ncols + 2)]
        target["data"] = {k: [None if v != v else v for v in col] for k, col in target["data"].items()}
    # ---- the two data-source options, and databox items named like the model's parameters -------------------------------
    opts = {k: rng.weighted([(None, 2), (False, 1), (True, 1)]) for k in ("parameters_from_data", "shocks_from_data")}
    pardata = {}
    for pn in sorted(pars):
        if rng.chance(0.45):
            other = [v for v in (0.5, -0.5, 0.25, 1.0, 0.75, 2.0, 0.125, 1.5) if v != pars[pn]]
            if rng.chance(0.4):
                pardata[pn] = ["scalar", rng.choice(other)]
            else:
                pardata[pn] = ["series", [None if rng.chance(0.15) else rng.choice(other) for _ in range(ncols)]]
    return {
        "target": target, "opts": opts, "pardata": pardata,
        "style": style, "eqs": eqs, "prep": prep, "pars": pars, "exo": exo, "npre": npre, "nper": nper, "npost": npost,
        "plan": plan, "data": {k: [None if v != v else v for v in col] for k, col in data.items()},
        "freq": rng.choice(["ii", "qq", "yy"]), "start": rng.randint(5, 40),
    }


# ---------------------------------------------------------------------------------------
# the two sides
# ---------------------------------------------------------------------------------------

def source_of(case) -> str:
    lines = []
    if case["pars"]:
        lines += ["!parameters", "    " + ", ".join(sorted(case["pars"]))]
    lines.append("!equations")
    for e in case["eqs"]:
        f = e.get("lhs_spelling") or TR_FUNC[e["tr"]]
        lhs = e["lhs"] if f is None else f"{f}({e['lhs']})"
        lines.append(f"    {lhs} {'===' if e['identity'] else '='} {render(tuple_tree(e['rhs']))};")
    return "\n".join(lines) + "\n"


def tuple_tree(e):
    return tuple(tuple_tree(x) if isinstance(x, (list, tuple)) else x for x in e)


def period0(case):
    s = case["start"]
    if case["freq"] == "ii":
        return ir.ii(s)
    if case["freq"] == "qq":
        return ir.qq(2000 + s // 4, 1 + s % 4)
    return ir.yy(2000 + s)


def rows_of(case):
    """row numbering shared by the request line and the reply: LHS names, exogenous, parameters, residuals, plan targets"""
    names = []
    for e in case["eqs"]:
        if e["lhs"] not in names:
            names.append(e["lhs"])
    names += [n for n in case["exo"] if n not in names]
    names += sorted(case["pars"])
    for e in case["eqs"]:
        r = "res_" + e["lhs"]
        if not e["identity"] and r not in names:
            names.append(r)
    for p in case["plan"]:
        fmt = PLAN_FMT[p["kind"]]
        if fmt is not None and fmt.format(p["name"]) not in names:
            names.append(fmt.format(p["name"]))
    for n in sorted(case["data"]):
        if n not in names:
            names.append(n)
    return {n: i for i, n in enumerate(names)}


def out_names(case):
    names = []
    for e in case["eqs"]:
        if e["lhs"] not in names:
            names.append(e["lhs"])
    for e in case["eqs"]:
        r = "res_" + e["lhs"]
        if not e["identity"] and r not in names:
            names.append(r)
    return names


def opt_kwargs(case):
    """the data-source options as keyword arguments: an option the case leaves absent is not passed at all"""
    return {k: v for k, v in (case.get("opts") or {}).items() if v is not None}


def pardata_column(case, name, ncols):
    """what the input databox holds under a parameter's name, per column of the data array (NaN: nothing)"""
    item = (case.get("pardata") or {}).get(name)
    if item is None:
        return [NAN] * ncols
    if item[0] == "scalar":
        return [item[1]] * ncols
    return [NAN if v is None else v for v in item[1]]


def in_force(case):
    """the documented rule, as the ORACLE reads it: parameters come from the databox iff parameters_from_data=True (default
    False; the model's value where the databox has none); residuals come from the databox unless shocks_from_data=False (default
    True; 0 where the databox has none) -- each option on its own"""
    o = case.get("opts") or {}
    pfd = o.get("parameters_from_data") is True
    sfd = o.get("shocks_from_data") is not False

    def parameter(name, col):          # col = column of the data array
        if pfd:
            v = pardata_column(case, name, col + 1)[col] if col >= 0 else NAN
            if v == v:
                return v
        return case["pars"][name]

    def residual(name, col):
        if not sfd:
            return 0.0
        colvals = case["data"].get(name)
        v = None if colvals is None or not (0 <= col < len(colvals)) else colvals[col]
        return 0.0 if v is None else v
    return parameter, residual


def request_line(case, mode, order, eff=None) -> str:
    row = rows_of(case)
    npre, nper, npost = case["npre"], case["nper"], case["npost"]
    ncols = npre + nper + npost
    o = case.get("opts") or {}
    fl = lambda v: "-" if v is None else ("1" if v else "0")
    secs = [f"sim {mode} {order} {npre} {nper} {ncols} {fl(o.get('parameters_from_data'))} {fl(o.get('shocks_from_data'))}"]
    for e in ([case["eqs"][i] for i in eff] if eff is not None else case["eqs"]):
        res = row.get("res_" + e["lhs"], 0)
        secs.append(f"E {row[e['lhs']]} {e['tr']} {1 if e['identity'] else 0} {res} {prefix(tuple_tree(e['rhs']), row)}")
    for p in case["plan"]:
        fmt = PLAN_FMT[p["kind"]]
        tgt = "-" if fmt is None else str(row[fmt.format(p["name"])])
        for c in p["cols"]:
            # the model resolves the keyword itself (`@<keyword>`, PlanT.ofSpelling?)
            secs.append(f"P {row[p['name']]} {npre + c} @{plan_spelling(p) or ''} {1 if p['when'] else 0} {p['shift']} {tgt}")
    res_names = set("res_" + e["lhs"] for e in case["eqs"] if not e["identity"])
    for n, i in row.items():
        if n in case["pars"]:
            # the model's value and the databox item of that name: the MODEL decides which one is in force (initialCell)
            secs.append(f"Dp {i} {rat_of_float(case['pars'][n])} " + " ".join(rat_of_float(v) for v in pardata_column(case, n, ncols)))
            continue
        if n in case["data"]:
            vals = [NAN if v is None else v for v in case["data"][n]]
        else:
            vals = [NAN] * ncols
        secs.append(("Dr" if n in res_names else "D") + f" {i} " + " ".join(rat_of_float(v) for v in vals))
    secs.append("O " + " ".join(str(row[n]) for n in out_names(case)))
    return " ; ".join(secs)


def apply_prep(m, case, counts=None, simulate=None, pre_runs=None):
    """the operations a case performs on the model object between construction and simulation (`case["prep"]`):
    ["reorder", perm] = reorder_equations(perm), ["sequentialize"], ["copy"].  Returns (model, effective order) where
    effective order[k] = index in the SOURCE of the equation that is now at position k (for `reorder` computed here from the
    documented meaning `new[k] = old[perm[k]]`; for `sequentialize` the order the call returns, checked to be a permutation)."""
    eff = list(range(len(case["eqs"])))
    perms = case.setdefault("_perms", [])
    perms.clear()
    for op in case.get("prep", []):
        if op[0] == "reorder":
            m.reorder_equations(list(op[1]))
            eff = [eff[i] for i in op[1]]
            perms.append(list(op[1]))
        elif op[0] == "sequentialize":
            try:
                o = [int(i) for i in m.sequentialize()]
            except Exception:
                if counts is not None:
                    counts("prep_sequentialize_refused")
                continue
            if sorted(o) != list(range(len(eff))):
                raise ValueError("sequentialize() did not return a permutation")
            eff = [eff[i] for i in o]
            perms.append(o)
        elif op[0] == "copy":
            m = m.copy()
        elif op[0] == "simulate":
            # a full simulation (with the case's plan and data) on this very object BEFORE the later steps; its output is judged by
            # the oracle like any other, with the equation order the object had at that moment
            if simulate is not None:
                pre_runs.append((list(eff), op[1]) + simulate(m, op[1]))
        else:
            raise ValueError("unknown preparation step")
    return m, eff


def build_impl(case, counts=None):
    m = ir.Sequential.from_string(source_of(case))
    if case["pars"]:
        m.assign(**case["pars"])
    p0 = period0(case)
    npre, nper, npost = case["npre"], case["nper"], case["npost"]
    span = p0 >> (p0 + nper - 1)
    db = ir.Databox()
    for n, col in case["data"].items():
        db[n] = ir.Series(start=p0 - npre, values=np.array([NAN if v is None else v for v in col], dtype=float))
    for n, item in (case.get("pardata") or {}).items():
        # an item of the input databox that is named like a parameter of the model
        db[n] = float(item[1]) if item[0] == "scalar" else ir.Series(
            start=p0 - npre, values=np.array([NAN if v is None else v for v in item[1]], dtype=float))

    def make_plan(model):
        if not case["plan"]:
            return None
        plan = ir.SimulationPlan(model, span)
        for p in case["plan"]:
            kw = {}
            if p["when"]:
                kw["when_data"] = True
            if p["shift"] != -1:
                kw["shift"] = p["shift"]
            plan.exogenize(tuple(p0 + c for c in p["cols"]), p["name"], transform=plan_spelling(p), **kw)
        return plan

    def simulate(model, order):
        try:
            out = model.simulate(db, span, plan=make_plan(model), when_simulates_nan="silent",
                                 execution_order="dates_equations" if order == "de" else "equations_dates", **opt_kwargs(case))
        except Exception as e:
            return err_kind(e), None, None
        return "ok", output_values(case, out, span), out
    pre_runs = []
    m, eff = apply_prep(m, case, counts, simulate, pre_runs)
    return m, db, span, make_plan(m), eff, pre_runs, build_target(case, m, db, span, p0)


def build_target(case, m, db, span, p0):
    """the databox handed to `simulate(..., target_db=)`: foreign names only; the model's names with stale values; the output of
    a baseline run of the same object (no plan, no residuals) plus foreign names; the input databox itself"""
    t = case.get("target")
    if not t:
        return None
    if t["kind"] == "input":
        return db
    tdb = ir.Databox()
    if t["kind"] == "baseline":
        base_in = ir.Databox()
        for n in db.keys():
            if not n.startswith("res_"):
                base_in[n] = db[n]
        try:
            tdb = m.simulate(base_in, span, when_simulates_nan="silent")
        except Exception:
            tdb = ir.Databox()
    for n, col in t["data"].items():
        tdb[n] = ir.Series(start=p0 - case["npre"] - 1, values=np.array([NAN if v is None else v for v in col], dtype=float))
    return tdb


def snapshot(dbx, names):
    out = {}
    for n in names:
        try:
            x = dbx[n]
            out[n] = (str(x.start), tuple(None if v != v else float(v) for v in x.get_data().ravel()))
        except Exception as e:
            out[n] = ("missing", type(e).__name__)
    return out


def output_values(case, out, span):
    vals = {}
    for n in out_names(case):
        try:
            vals[n] = [float(x) for x in out[n].get_data(span).ravel()]
        except Exception:
            vals[n] = [NAN] * case["nper"]
    return vals


def nan_policy_check(ctx: Ctx, case, order, built, vals):
    """non-default `when_simulates_nan="error"` on the same object: the run must be refused when the (silent) output holds a
    missing or infinite value in a cell the simulation wrote, and must go through when every written value is a number"""
    m, db, span, plan, *_ = built
    lhs = sorted(set(e["lhs"] for e in case["eqs"]))
    written = [x for n in lhs for x in vals[n]]
    res = [x for n in vals if n not in lhs for x in vals[n]]
    bad = any(x != x or math.isinf(x) for x in written)
    clean = not bad and not any(x != x or math.isinf(x) for x in res) and len(lhs) == len(case["eqs"])
    if not bad and not clean:
        return
    try:
        m.simulate(db, span, plan=plan, when_simulates_nan="error",
                   execution_order="dates_equations" if order == "de" else "equations_dates", **opt_kwargs(case))
        raised = False
    except Exception:
        raised = True
    ctx.streams_compared["nan-policy"] = ctx.streams_compared.get("nan-policy", 0) + 1
    ctx.count("nan_policy_" + ("refused" if raised else "accepted"))
    if raised != bad:
        ctx.disagree("nan-policy", {"case": case, "order": order}, "raised" if raised else "accepted",
                     "a written value is missing" if bad else "every written value is a number")


def run_impl(case, order, built=None):
    """-> ("ok", {name: [values over the base periods]}) or ("err:bad", None); `built` = result of build_impl (the same model
    object then serves both execution orders) or the exception it raised"""
    try:
        if built is None:
            built = build_impl(case)
        if isinstance(built, BaseException):
            raise built
        m, db, span, plan, *_ = built
        target = built[6] if len(built) > 6 else None
        kw = dict(opt_kwargs(case))
        if target is not None:
            kw["target_db"] = target
        out = m.simulate(db, span, plan=plan, when_simulates_nan="silent",
                         execution_order="dates_equations" if order == "de" else "equations_dates", **kw)
    except Exception as e:
        return err_kind(e), None, None
    return "ok", output_values(case, out, span), out


def parse_reply(case, reply):
    """-> (flags, tags, {name: [Fraction|float|None]})"""
    head, *rows = reply.split(" ; ")
    _, flags, tags, *_ = head.split()
    names = out_names(case)
    vals = {}
    for n, r in zip(names, rows):
        cells = r.split(": ", 1)[1].split() if ": " in r else []
        col = []
        for c in cells:
            if c == "nan":
                col.append(None)
            elif c.startswith("b"):
                col.append(struct.unpack("<d", struct.pack("<Q", int(c[1:])))[0])
            elif len(c) > 600:
                col.append("huge")        # a rational with hundreds of digits: certainly not what the doubles computed exactly
            else:
                col.append(Fraction(c))
        vals[n] = col
    return flags, tags, vals


# ---------------------------------------------------------------------------------------
# independent oracle: evaluator of the equation source text on the output databox
# ---------------------------------------------------------------------------------------

class Skip(Exception):
    pass


# default window / lag of the pseudo-functions as documented (names with underscores removed)
ORACLE_PSEUDO_DEFAULT = {"diff": -1, "difflog": -1, "roc": -1, "pct": -1, "shift": -1, "movsum": -4, "movavg": -4, "movprod": -4}


class TextEval:
    """evaluates one side of an equation text at a period; `name[k]` reads the databox at t+k, pseudo-functions by their
    documented meaning: diff(x)=x-x[-1], diff_log(x)=log(x)-log(x[-1]), roc(x)=x/x[-1], pct(x)=100*(x/x[-1]-1)"""

    def __init__(self, read, pars):
        self.read, self.pars = read, pars
        self.scale = 1.0

    def ev(self, node, shift=0):
        if isinstance(node, ast.Expression):
            return self.ev(node.body, shift)
        if isinstance(node, ast.Constant):
            return float(node.value)
        if isinstance(node, ast.Name):
            return self.value(node.id, shift)
        if isinstance(node, ast.Subscript):
            if not isinstance(node.value, ast.Name):
                raise ValueError("subscript of a non-name")
            k = ast.literal_eval(node.slice)
            return self.value(node.value.id, shift + int(k))
        if isinstance(node, ast.UnaryOp):
            v = self.ev(node.operand, shift)
            return -v if isinstance(node.op, ast.USub) else v
        if isinstance(node, ast.BinOp):
            a, b = self.ev(node.left, shift), self.ev(node.right, shift)
            if isinstance(node.op, ast.Add): r = a + b
            elif isinstance(node.op, ast.Sub): r = a - b
            elif isinstance(node.op, ast.Mult): r = a * b
            elif isinstance(node.op, ast.Div):
                if b == 0:
                    raise Skip()
                r = a / b
            else:
                raise ValueError("operator")
            return self.note(r)
        if isinstance(node, ast.Call) and isinstance(node.func, ast.Name):
            f = node.func.id
            if f in ("exp", "log", "sqrt"):
                x = self.ev(node.args[0], shift)
                if f == "exp":
                    if x > 700: raise Skip()
                    return self.note(math.exp(x))
                if f == "log":
                    if x <= 0: raise Skip()
                    return self.note(math.log(x))
                if x < 0: raise Skip()
                return self.note(math.sqrt(x))
            canon = f.replace("_", "")           # documented alternative spellings: diff_log/difflog, mov_sum/movsum, ...
            if canon in ORACLE_PSEUDO_DEFAULT and len(node.args) in (1, 2):
                k = ORACLE_PSEUDO_DEFAULT[canon] if len(node.args) == 1 else int(ast.literal_eval(node.args[1]))
                arg = node.args[0]
                if canon == "shift":
                    return self.ev(arg, shift + k)
                if canon in ("movsum", "movavg", "movprod"):
                    if k >= 0:
                        raise ValueError("moving window with a non-negative length is not generated")
                    window = [self.ev(arg, shift - j) for j in range(-k)]     # the current and the |k|-1 previous observations
                    if canon == "movprod":
                        r = 1.0
                        for w in window:
                            r = self.note(r * w)
                        return r
                    tot = 0.0
                    for w in window:
                        tot = self.note(tot + w)
                    return tot if canon == "movsum" else self.note(tot / len(window))
                cur, lag = self.ev(arg, shift), self.ev(arg, shift + k)
                if canon == "diff":
                    return self.note(cur - lag)
                if canon == "difflog":
                    if cur <= 0 or lag <= 0: raise Skip()
                    return self.note(math.log(cur) - math.log(lag))
                if lag == 0: raise Skip()
                return self.note(cur / lag) if canon == "roc" else self.note(100 * (cur / lag - 1))
        raise ValueError("unsupported syntax in equation text: " + ast.dump(node)[:60])

    def note(self, r):
        if r != r or r in (float("inf"), float("-inf")):
            raise Skip()
        self.scale = max(self.scale, abs(r))
        return r

    def value(self, name, shift):
        v = self.pars[name] if name in self.pars else self.read(name, shift)
        if v is None or v != v or v in (float("inf"), float("-inf")):
            raise Skip()
        self.scale = max(self.scale, abs(v))
        return v


def text_names(text):
    """(name, shift) incidences of one side of an equation text; pseudo-functions add the lag of their argument"""
    out = []

    def walk(node, shift):
        if isinstance(node, ast.Name):
            out.append((node.id, shift))
        elif isinstance(node, ast.Subscript):
            out.append((node.value.id, shift + int(ast.literal_eval(node.slice))))
        elif isinstance(node, ast.Call):
            canon = node.func.id.replace("_", "")
            if canon in ORACLE_PSEUDO_DEFAULT:
                k = ORACLE_PSEUDO_DEFAULT[canon] if len(node.args) == 1 else int(ast.literal_eval(node.args[1]))
                if canon == "shift":
                    walk(node.args[0], shift + k)
                elif canon.startswith("mov"):
                    for j in range(-k):
                        walk(node.args[0], shift - j)
                else:
                    walk(node.args[0], shift)
                    walk(node.args[0], shift + k)
            else:
                for a in node.args:
                    walk(a, shift)
        else:
            for ch in ast.iter_child_nodes(node):
                if not isinstance(ch, (ast.operator, ast.unaryop, ast.expr_context)):
                    walk(ch, shift)
    walk(ast.parse(text.strip(), mode="eval").body, 0)
    return out


def oracle(ctx: Ctx, case, order, status, vals, out_db, eff=None):
    """the property statement, checked on the implementation's output with nothing from the Lean model"""
    if status != "ok":
        return None, None
    flags = []
    src = source_of(case)
    eq_texts = [l.strip().rstrip(";") for l in src.split("!equations", 1)[1].strip().split("\n") if l.strip()]
    if eff is not None:
        eq_texts = [eq_texts[i] for i in eff]     # the model object was re-ordered before it was simulated
    npre, nper = case["npre"], case["nper"]
    p0 = period0(case)
    span_all = (p0 - npre) >> (p0 + nper - 1 + case["npost"])
    cache = {}

    def read(name, col):          # col relative to the first simulated period
        if col >= nper:            # after the simulated span: input cells (the output databox drops the terminal columns)
            c = case["data"].get(name)
            return None if c is None or col + npre >= len(c) else c[col + npre]
        if name not in cache:
            try:
                cache[name] = [float(x) for x in out_db[name].get_data(span_all).ravel()]
            except Exception:
                cache[name] = None
        c = cache[name]
        if c is None or not (0 <= col + npre < len(c)):
            return None
        return c[col + npre]
    parsed = []
    for t in eq_texts:
        ident = "===" in t
        lhs, rhs = t.split("===" if ident else "=")
        lhs_name = [n for n, s in text_names(lhs) if s == 0][0]
        parsed.append({"ident": ident, "lhs": lhs, "rhs": rhs, "name": lhs_name,
                       "reads": [(n, s) for n, s in text_names(rhs) if n not in case["pars"]] + [(n, s) for n, s in text_names(lhs) if s != 0]})
    # plan points by (name, col): the last exogenize call wins
    points = {}
    for p in case["plan"]:
        for c in p["cols"]:
            points[(p["name"], c)] = {**p, "kind": oracle_plan_kind(plan_spelling(p))}     # the oracle resolves the spelling itself
    closed = static_condition(parsed, order, nper)
    par_in_force, res_in_force = in_force(case)
    sched = ([(c, i) for c in range(nper) for i in range(len(parsed))] if order == "de"
             else [(c, i) for i in range(len(parsed)) for c in range(nper)])
    # which cells does each step write (the LHS cell; the residual cell where the plan has a point)
    writes = []
    for c, i in sched:
        e = parsed[i]
        w = {(e["name"], c)}
        if not e["ident"] and (e["name"], c) in points:
            w.add(("res_" + e["name"], c))
        writes.append(w)
    all_written = set().union(*writes) if writes else set()
    written_later = [set() for _ in sched]
    acc = set()
    for k in range(len(sched) - 1, -1, -1):
        written_later[k] = set(acc)
        acc |= writes[k]
    for k, (c, i) in enumerate(sched):
        e = parsed[i]
        ctx.evaluations += 1
        reads = {(n, c + s) for n, s in e["reads"]}
        if not e["ident"]:
            res_cell = ("res_" + e["name"], c)
        # "whenever that order computes every value before it is read": nothing the equation reads is written by this step's
        # LHS assignment or by a later step, and the step's own results are not overwritten later
        if (e["name"], c) in reads or (reads | writes[k] | ({res_cell} if not e["ident"] else set())) & written_later[k]:
            ctx.count("oracle_step_not_admissible")
            flags.append("F")
            continue
        if not e["ident"] and res_cell in reads:
            ctx.count("oracle_step_not_admissible")
            flags.append("F")
            continue
        flags.append("T")
        point = None if e["ident"] else points.get((e["name"], c))
        # the residual in force at a point that no step writes is the input one (0 where missing) -- or 0 under
        # shocks_from_data=False -- and it is what the output must report as "its residual"
        if not e["ident"] and point is None and res_cell not in all_written:
            out_r, want_r = read("res_" + e["name"], c), res_in_force("res_" + e["name"], npre + c)
            if out_r is None or out_r != out_r or abs(out_r - want_r) > 1e-12 * max(1.0, abs(want_r)):
                ctx.fail("residual-in-force", {"case": case, "order": order},
                         f"order={order} residual of `{eq_texts[i]}` at simulated period #{c}: the output reports {out_r!r}, the residual "
                         f"in force by the data-source options {case.get('opts')} is {want_r!r}")
                continue
            ctx.count("oracle_residual_in_force_checked")
        # parameter values in force at this period, by the documented rule (never read back from the output)
        ev = TextEval(lambda n, s, c=c: read(n, c + s), {pn: par_in_force(pn, npre + c) for pn in case["pars"]})
        site = None
        try:
            rhs_v = ev.ev(ast.parse(e["rhs"].strip(), mode="eval"))
            cur = read(e["name"], c)
            if cur is None or cur != cur:
                # (the residual that a plain simulation uses is the input one; a missing input residual counts as 0)
                res_v = 0.0 if e["ident"] else res_in_force("res_" + e["name"], npre + c)
                # a NaN left-hand side is only excusable when something the equation needs is NaN/undefined, or when the
                # point is exogenized at a NaN target without when_data
                func = e["lhs"].split("(")[0].strip().replace("_", "") if "(" in e["lhs"] else None
                tgt_fmt = None if point is None else PLAN_FMT[point["kind"]]
                tgt_col = None if tgt_fmt is None else case["data"].get(tgt_fmt.format(e["name"]))
                # documented rule for when_data: exogenize only where the implied VALUE is available -- it is not when the transform
                # datum is missing, or when the lagged level the transform refers to is missing (and final); simulate otherwise
                no_data = False
                if point is not None and point["when"]:
                    tgt_missing = tgt_fmt is not None and (tgt_col is None or tgt_col[npre + c] is None)
                    lag_missing = False
                    if PLAN_USES_LAG[point["kind"]]:
                        lc = c + point["shift"]
                        lvv = read(e["name"], lc)
                        lag_missing = (lc < c and npre + lc >= 0 and (e["name"], lc) not in written_later[k]
                                       and (lvv is None or lvv != lvv))
                    no_data = tgt_missing or lag_missing
                demand = e["ident"] or point is None or no_data
                lag_ok = func in (None, "log") or (read(e["name"], c - 1) is not None and read(e["name"], c - 1) == read(e["name"], c - 1))
                if demand and lag_ok and abs(rhs_v + res_v) < 300:
                    ctx.fail("simulated-value-missing", {"case": case, "order": order},
                             f"order={order} equation `{eq_texts[i]}` at simulated period #{c}: rhs={rhs_v!r} + residual={res_v!r} are numbers "
                             f"but `{e['name']}` is NaN in the output")
                raise Skip()
            res_v = 0.0 if e["ident"] else ev.value("res_" + e["name"], 0)
            lhs_v = ev.ev(ast.parse(e["lhs"].strip(), mode="eval"))
            gap = lhs_v - (rhs_v + res_v)
            tol = 1e-8 * ev.scale
            if not abs(gap) <= tol:
                site = "identity-holds" if e["ident"] else ("equation-holds-exogenized" if point is not None else "equation-holds-simulated")
                detail = (f"order={order} equation `{eq_texts[i]}` at simulated period #{c}: transform(lhs)={lhs_v!r} but rhs={rhs_v!r} + residual={res_v!r} "
                          f"(gap {gap!r})")
            else:
                ctx.count("oracle_equation_checked_" + ("identity" if e["ident"] else ("exogenized" if point is not None else "simulated")))
        except Skip:
            ctx.count("oracle_step_nan")
        if site:
            ctx.fail(site, {"case": case, "order": order}, detail)
            continue
        # exogenized: the variable takes the implied value
        if point is not None:
            tname = PLAN_FMT[point["kind"]]
            d = None
            if tname is not None:
                col = case["data"].get(tname.format(e["name"]))
                d = None if col is None else col[npre + c]
            try:
                lagc = c + point["shift"]
                if PLAN_USES_LAG[point["kind"]] and (lagc + npre < 0):
                    raise Skip()
                if PLAN_USES_LAG[point["kind"]] and ((e["name"], lagc) in written_later[k] or lagc >= c):
                    raise Skip()
                lag_missing = False
                if PLAN_USES_LAG[point["kind"]]:
                    lv = read(e["name"], lagc)
                    lag_missing = lv is None or lv != lv
                if (tname is not None and d is None) or lag_missing:
                    if point["when"]:
                        raise Skip()      # no data: plain simulation, already checked above
                    # exogenized unconditionally (no when_data) where the implied value is missing: "the variable takes the implied
                    # value", so it must come out missing -- not silently simulated
                    got_raw = read(e["name"], c)
                    if got_raw is not None and got_raw == got_raw:
                        ctx.fail("exogenized-missing-value", {"case": case, "order": order},
                                 f"order={order} `{e['name']}` is exogenized unconditionally ({point['kind']}, shift {point['shift']}) at simulated "
                                 f"period #{c} where the implied value is missing (target {d!r}, lag missing: {lag_missing}), but the output "
                                 f"holds the number {got_raw!r}")
                    else:
                        ctx.count("oracle_exogenized_missing_value_checked")
                    raise Skip()
                lag = ev.value(e["name"], point["shift"]) if PLAN_USES_LAG[point["kind"]] else None
                kind = point["kind"]
                want = (d if kind == "None" else math.exp(d) if kind == "Log" else lag + d if kind == "Diff"
                        else lag * math.exp(d) if kind == "DiffLog" else lag * d if kind == "Roc"
                        else lag * (1 + d / 100) if kind == "Pct" else lag)
                if want != want or math.isinf(want):
                    raise Skip()
                got = read(e["name"], c)
                if got is None or got != got:
                    got = NAN            # the implied value is a number, so the variable must be one
                elif math.isinf(got):
                    raise Skip()
                if not abs(got - want) <= 1e-9 * max(1.0, abs(want), abs(got)):
                    ctx.fail("exogenized-value", {"case": case, "order": order},
                             f"order={order} `{e['name']}` exogenized ({kind}, target {d!r}, shift {point['shift']}) at simulated period #{c}: "
                             f"value {got!r}, implied value {want!r}")
                else:
                    ctx.count("oracle_exogenized_value_checked")
            except Skip:
                pass
    return "".join(flags), closed


def static_condition(parsed, order, nper) -> str:
    """the hypotheses of the closed-form admissibility theorems, recomputed here from the equation TEXTS: no equation reads its
    own LHS in the same period (nor its residual explicitly); equations write different names; a name written by equation j is
    read by equation i, with both periods inside the span, only
      dates_equations:  at a lag, or in the same period when j is not later than i (sequentialised, leads only into input cells)
      equations_dates:  when j is an earlier equation (any shift), or j = i at a non-positive shift."""
    n = len(parsed)
    writes = [[e["name"]] + ([] if e["ident"] else ["res_" + e["name"]]) for e in parsed]
    toks = [list(e["reads"]) + ([] if e["ident"] else [("res_" + e["name"], 0)]) for e in parsed]
    for i, e in enumerate(parsed):
        if (e["name"], 0) in toks[i]:
            return "N"
        if not e["ident"] and (("res_" + e["name"], 0) in e["reads"] or "res_" + e["name"] == e["name"]):
            return "N"
    for i in range(n):
        for j in range(n):
            if i != j and set(writes[i]) & set(writes[j]):
                return "N"
    for i in range(n):
        for j in range(n):
            for name, k in toks[i]:
                if name not in writes[j]:
                    continue
                if not any(0 <= t + k < nper for t in range(nper)):
                    continue
                ok = (k < 0 or (k == 0 and j <= i)) if order == "de" else (j < i or (j == i and k <= 0))
                if not ok:
                    return "N"
    return "C"


# ---------------------------------------------------------------------------------------
# comparison
# ---------------------------------------------------------------------------------------

def is_nan(x):
    return x is None or (isinstance(x, float) and x != x)


def compare_case(ctx: Ctx, case, order, status, vals, reply_r, reply_f):
    """class D: exact against the rational model where the double model agrees with it exactly; class T: tolerance against the
    double model"""
    key = {"case": case, "order": order}
    if reply_f is None:
        return
    ctx.streams_compared["simulate"] = ctx.streams_compared.get("simulate", 0) + 1
    if reply_f.startswith("err") or reply_f == "bad-op":
        if status != reply_f:
            ctx.disagree("simulate", key, status, reply_f)
        ctx.count("outcome_" + reply_f)
        return
    if status != "ok":
        ctx.disagree("simulate", key, status, reply_f[:80])
        return
    flags, tags, mf = parse_reply(case, reply_f)
    for ch in tags:
        ctx.count("branch_" + {"S": "simulate", "W": "when_data_fallback", "X": "exogenize"}.get(ch, "other"))
    ctx.count("steps_admissible", flags.count("T"))
    ctx.count("steps_not_admissible", flags.count("F"))
    if any(isinstance(x, float) and math.isinf(x) for col in vals.values() for x in col):
        ctx.count("skipped_infinite_output")
        return
    mr = None
    if reply_r is not None and reply_r.startswith("ok"):
        _, _, mr = parse_reply(case, reply_r)
    exact = mr is not None and all(
        (is_nan(a) and is_nan(b)) or (not is_nan(a) and not is_nan(b) and a != "huge" and math.isfinite(b) and Fraction(b) == a)
        for n in mr for a, b in zip(mr[n], mf[n]))
    biggest = max([1.0] + [abs(x) for col in vals.values() for x in col if not is_nan(x)])
    if biggest > 1e12:
        ctx.count("skipped_huge_output")
        return
    if exact:
        ctx.count("class_D_exact")
        for n in mr:
            for c, (a, b) in enumerate(zip(vals[n], mr[n])):
                if is_nan(a) != is_nan(b) or (not is_nan(a) and Fraction(a) != b):
                    ctx.disagree("simulate", key, f"{n}[{c}]={a!r}", f"{n}[{c}]={b} (exact)")
                    return
    else:
        ctx.count("class_T_tolerance")
        tol = 1e-9 * biggest
        for n in mf:
            for c, (a, b) in enumerate(zip(vals[n], mf[n])):
                if is_nan(a) != is_nan(b) or (not is_nan(a) and not abs(a - b) <= tol):
                    ctx.disagree("simulate", key, f"{n}[{c}]={a!r}", f"{n}[{c}]={b!r} (tolerance {tol:g})")
                    return
    if "X" in tags and "S" in tags:
        ctx.nontriv(("sim", order, tuple(op[0] for op in case.get("prep", [])), len(case["eqs"]), case["nper"], tuple(sorted(set(e["tr"] for e in case["eqs"]))),
                     tuple(sorted(set(p["kind"] for p in case["plan"]))), "W" in tags, exact))
    elif len(case["eqs"]) >= 2 and case["nper"] >= 2:
        ctx.nontriv(("sim", order, len(case["eqs"]), case["nper"], tuple(sorted(set(e["tr"] for e in case["eqs"]))), exact))


def run_cases(ctx: Ctx, cases, with_model=True):
    """all cases x both orders: implementation, model (R and F), comparison, oracle"""
    built = []
    for c in cases:
        try:
            built.append(build_impl(c, ctx.count))
        except Exception as e:
            built.append(e)
    effs = [None if isinstance(b, BaseException) else b[4] for b in built]
    jobs = [(ci, o) for ci in range(len(cases)) for o in ("de", "ed")]
    lines_r = [request_line(cases[ci], "R", o, effs[ci]) for ci, o in jobs]
    lines_f = [request_line(cases[ci], "F", o, effs[ci]) for ci, o in jobs]
    rep = ctx.model("C17", lines_r + lines_f) if with_model else None
    for ci, b in enumerate(built):
        if isinstance(b, BaseException):
            continue
        for (eff0, order0, status0, vals0, out0) in b[5]:
            ctx.evaluations += 1
            ctx.count("prep_simulate_judged")
            oracle(ctx, cases[ci], order0, status0, vals0, out0, eff0)
    compare_object_orders(ctx, cases, built, effs, with_model)
    merges = []
    for k, (ci, order) in enumerate(jobs):
        case, eff = cases[ci], effs[ci]
        target = None if isinstance(built[ci], BaseException) else built[ci][6]
        foreign = sorted(n for n in (case.get("target") or {"data": {}})["data"] if n.startswith("other_"))
        before = snapshot(target, foreign) if target is not None else None
        status, vals, out_db = run_impl(case, order, built[ci])
        if target is not None:
            ctx.count("target_db_" + case["target"]["kind"])
            if status == "ok":
                # E-class stream: series of the target that the model does not produce are carried over untouched into the returned
                # databox, and the target itself is left as it was (the equations / exogenized values are judged by the oracle on the
                # RETURNED databox like everything else)
                ctx.streams_compared["target-db"] = ctx.streams_compared.get("target-db", 0) + 1
                got, after = snapshot(out_db, foreign), snapshot(target, foreign)
                if got != before or after != before:
                    ctx.disagree("target-db", {"case": case, "order": order}, str(got)[:300], str(before)[:300])
                # for the `merge` stream: the same simulation without target_db gives the fresh results alone
                if with_model:
                    try:
                        mm, dbb, spn, pln, *_ = built[ci]
                        plain = mm.simulate(dbb, spn, plan=pln, when_simulates_nan="silent", **opt_kwargs(case),
                                            execution_order="dates_equations" if order == "de" else "equations_dates")
                        merges.append((case, order, list(target.keys()), list(plain.keys()), list(out_db.keys()),
                                       snapshot(target, list(target.keys())), snapshot(plain, list(plain.keys())),
                                       snapshot(out_db, list(out_db.keys()))))
                    except Exception:
                        ctx.count("merge_plain_run_failed")
        for op in case.get("prep", []):
            ctx.count("prep_" + op[0])
        if eff is not None and eff != list(range(len(eff))):
            ctx.count("prep_order_changed")
        ctx.evaluations += 1
        ctx.count("order_" + order)
        ctx.count("style_" + case["style"])
        ctx.count(f"equations_{len(case['eqs'])}")
        for e in case["eqs"]:
            ctx.count("lhs_transform_" + e["tr"] + ("_identity" if e["identity"] else ""))
        for p in case["plan"]:
            ctx.count("plan_" + p["kind"] + ("_when_data" if p["when"] else ""))
            ctx.count("plan_keyword_" + str(plan_spelling(p)))
        ctx.count("impl_" + status)
        for ok_, ov_ in sorted((case.get("opts") or {}).items()):
            ctx.count(f"option_{ok_}_{'absent' if ov_ is None else ov_}")
        if case.get("pardata"):
            ctx.count("databox_has_items_named_like_parameters")
        if order == "de":
            src_text = source_of(case)
            for sp in sorted(set(x for v in PSEUDO_SPELLINGS.values() for x in v)):
                if sp + "(" in src_text:
                    ctx.count("source_uses_" + sp)
        if rep is not None:
            compare_case(ctx, case, order, status, vals, rep[k], rep[len(jobs) + k])
        oflags, oclosed = oracle(ctx, case, order, status, vals, out_db, eff)
        if status == "ok" and with_model and (ci + (order == "ed")) % 4 == 0:
            nan_policy_check(ctx, case, order, built[ci], vals)
        if rep is not None and oflags is not None and rep[len(jobs) + k].startswith("ok "):
            # E-class stream: "this step computes its value after everything it reads" as decided by the model (`stepOK`)
            # and, independently, by the oracle from the equation texts
            mflags = rep[len(jobs) + k].split()[1]
            ctx.streams_compared["admissible"] = ctx.streams_compared.get("admissible", 0) + 1
            if mflags != oflags:
                ctx.disagree("admissible", {"case": case, "order": order}, oflags, mflags)
            # E-class stream: do the hypotheses of the closed-form theorems (datesEquations_admissible / equationsDates_admissible)
            # hold for this model text, order and span -- decided by the Lean definitions and, independently, from the texts;
            # where they hold, every step must have been found admissible (what the theorems say)
            head = rep[len(jobs) + k].split(" ; ")[0].split()
            mclosed = head[3] if len(head) > 3 else "?"
            ctx.streams_compared["closed-form"] = ctx.streams_compared.get("closed-form", 0) + 1
            if mclosed != oclosed:
                ctx.disagree("closed-form", {"case": case, "order": order}, oclosed, mclosed)
            elif oclosed == "C" and "F" in oflags:
                ctx.disagree("closed-form", {"case": case, "order": order}, "condition holds but " + oflags, mflags)
            ctx.count("closed_form_condition_" + ("holds" if oclosed == "C" else "fails") + "_" + order)
            # E-class stream: the extent of the data array -- the model's nPreOf/nPostOf (from the equations it was given), the
            # harness's own count of pre/post-sample columns, and irispie's -max_lag / max_lead of the (prepared) model object
            if len(head) > 4 and order == "de":
                ctx.streams_compared["presample"] = ctx.streams_compared.get("presample", 0) + 1
                mobj = built[ci][0]
                impl_ext = f"P{-int(mobj.max_lag)}/{int(mobj.max_lead)}"
                mine = f"P{case['npre']}/{case['npost']}"
                if not (head[4] == impl_ext == mine):
                    ctx.disagree("presample", {"case": case, "order": order}, impl_ext, head[4] + " harness " + mine)
            if oclosed != "C" and "F" not in oflags:
                ctx.count("admissible_without_closed_form_condition_" + order)
        if k == len(jobs) - 1:
            compare_merges(ctx, merges)
        if k % max(1, len(jobs) // 3) == 0:
            ctx.sample({"source": source_of(case), "prep": case.get("prep", []), "order": order, "plan": case["plan"], "status": status,
                        "output": {n: [None if is_nan(x) else x for x in v] for n, v in (vals or {}).items()}})


def compare_object_orders(ctx: Ctx, cases, built, effs, with_model):
    """E-class stream `object-order`: the order of the equations in the model object after its re-orderings -- the Lean model's
    `reorderList` fold (the state machine of Props section 13), the harness's own bookkeeping, and the object itself (the LHS names
    of its equations, when they are distinct)"""
    if not with_model:
        return
    todo = []
    for ci, case in enumerate(cases):
        if isinstance(built[ci], BaseException) or not case.get("_perms"):
            continue
        todo.append(ci)
    if not todo:
        return
    lines = [f"reorder {len(cases[ci]['eqs'])} | " + " | ".join(" ".join(str(i) for i in p_) for p_ in cases[ci]["_perms"]) for ci in todo]
    rep = ctx.model("C17", lines)
    if rep is None:
        return
    for ci, reply in zip(todo, rep):
        case = cases[ci]
        ctx.streams_compared["object-order"] = ctx.streams_compared.get("object-order", 0) + 1
        mine = " ".join(str(i) for i in effs[ci])
        lhs = [e["lhs"] for e in case["eqs"]]
        impl = mine
        if len(set(lhs)) == len(lhs):
            impl = " ".join(str(lhs.index(n)) for n in built[ci][0].lhs_names_in_equations)
        if not (reply == mine == impl):
            ctx.disagree("object-order", {"case": case, "order": "de"}, impl, reply + " harness " + mine)


def compare_merges(ctx: Ctx, merges):
    """E-class stream `merge`: the returned databox against the model's `mergeOutput target out` (Python dict union, right wins,
    left order kept): same names in the same order, and every series is the one of the side the model designates"""
    if not merges:
        return
    lines = ["merge " + " ".join(t) + " | " + " ".join(o) for (_, _, t, o, *_rest) in merges]
    rep = ctx.model("C17", lines)
    if rep is None:
        return
    for (case, order, tkeys, okeys, rkeys, tsnap, osnap, rsnap), reply in zip(merges, rep):
        ctx.streams_compared["merge"] = ctx.streams_compared.get("merge", 0) + 1
        want = [w.split("=") for w in reply.split()]
        ok = [k for k, _ in want] == rkeys
        if ok:
            for k, src in want:
                if rsnap[k] != (tsnap if src == "t" else osnap)[k]:
                    ok = False
                    break
        if not ok:
            ctx.disagree("merge", {"case": case, "order": order}, " ".join(rkeys)[:300], reply[:300])


def probe_rejections(ctx: Ctx, rng, n):
    """plans that must be refused: an identity cannot be exogenized, a date outside the span cannot be planned"""
    for _ in range(n):
        case = gen_case(rng.fork("rej"))
        try:
            m, db, span, *_ = build_impl({**case, "plan": [], "prep": []})
        except Exception:
            continue
        idents = sorted(set(e["lhs"] for e in case["eqs"] if e["identity"]) - set(e["lhs"] for e in case["eqs"] if not e["identity"]))
        if idents:
            try:
                ir.SimulationPlan(m, span).exogenize(span[0], idents[0])
                ctx.count("reject_identity_exogenize_accepted")
            except Exception:
                ctx.count("reject_identity_exogenize_refused")
        names = sorted(set(e["lhs"] for e in case["eqs"] if not e["identity"]))
        if names:
            try:
                ir.SimulationPlan(m, span).exogenize(span[-1] + 1, names[0])
                ctx.count("reject_out_of_span_accepted")
            except Exception:
                ctx.count("reject_out_of_span_refused")


# ---------------------------------------------------------------------------------------
# entry points
# ---------------------------------------------------------------------------------------

RULE = ("random sequential models (1-8 equations; LHS transforms none/log/diff/diff_log/roc/pct; identities; lags <= 3, leads, "
        "occasional duplicate LHS / forward same-period reads / self reads to reach non-admissible steps) x random data with NaNs x "
        "residual paths (absent, sparse, dense, NaN) x plans (exogenize with transforms none/log/diff/diff_log/roc/pct/flat, when_data, "
        "shifts -1..-3) x multi-step use of the model object before simulating (source written in a shuffled order then reorder_equations / "
        "sequentialize(), random re-orderings, copy(), full simulations with the plan before and between the re-orderings; the same "
        "object simulated under both orders) x pseudo-functions in every documented spelling (diff, diff_log/difflog, pct, roc, shift, "
        "mov_sum/movsum, mov_avg/movavg, mov_prod/movprod, with and without explicit window) on right-hand sides, diff_log/difflog on the left "
        "x the data-source options parameters_from_data / shocks_from_data (each absent / False / True) with databox items named like the "
        "model's parameters (scalars or series with gaps, values different from the model's) x the target_db option (absent; foreign names only; the model's names with stale values; a baseline run of the same object; the "
        "input databox itself) x both execution orders. A case is non-trivial when it has >= 2 equations and >= 2 periods or mixes simulated and "
        "exogenized steps; distinct = distinct (order, #equations, #periods, set of LHS transforms, set of plan transforms, fallback seen, exact class)")


def corpus_cases():
    d = os.path.join(VERIF, "corpus", "C17")
    out = []
    if os.path.isdir(d):
        for f in sorted(os.listdir(d)):
            if f.endswith(".json"):
                out.append((f, json.load(open(os.path.join(d, f)))))
    return out


def payload_case(payload):
    c = payload.get("case", payload)
    if isinstance(c, dict) and "case" in c and "eqs" not in c:
        return c["case"], c.get("order")
    return c, payload.get("order")


def run(ctx: Ctx):
    ctx.rule = RULE
    corpus = []
    for name, payload in corpus_cases():
        case, _ = payload_case(payload)
        corpus.append(case)
        ctx.count("corpus_cases")
    if corpus:
        run_cases(ctx, corpus)
    n = ctx.n(600, 7000)
    batch = 250
    done = 0
    while done < n:
        k = min(batch, n - done)
        cases = [gen_case(ctx.rng.fork(f"case{done + i}")) for i in range(k)]
        run_cases(ctx, cases)
        done += k
    probe_rejections(ctx, ctx.rng.fork("rejections"), ctx.n(40, 400))


def search(ctx: Ctx, seeds):
    """failing-input search on the real code when a tie broke: the oracle alone, first on the disagreeing cases"""
    cases = []
    for s in seeds:
        try:
            c, _ = payload_case(s)
            if isinstance(c, dict) and "eqs" in c:
                cases.append(c)
        except Exception:
            pass
    cases += [gen_case(ctx.rng.fork(f"search{i}")) for i in range(2000)]      # capped: about 60 s
    run_cases(ctx, cases, with_model=False)


def replay(ctx: Ctx, payload):
    ctx.rule = RULE
    case, order = payload_case(payload)
    run_cases(ctx, [case])
