"""
py2lean plugin + shared engine: a translator from a whitelisted subset of straight-line numpy code to Lean 4
definitions over the project's exact rational matrix type `QMat` (Model/QMat.lean, helpers in Model/QMatNp.lean).

The engine (`Unit`) is shared by the `npmat_*.py` plugins; this file also registers the C15 pilot
(`fords/covariances.py` -> Generated/AcovGen.lean).

What the generated text means is written at the top of Model/QMatNp.lean (2-D arrays = QMat, int = Int,
float = Rat, Python slice rules, functional update for in-place slice assignment, exceptions/broadcasting not
modelled).  What the engine guarantees:

* nothing is copied by hand: every definition is produced from the Python AST of --repo on every run; the output
  does not depend on line numbers, comments, docstrings, trailing commas or `dtype=` keywords;
* syntax outside the subset raises `Untranslatable` (the tie "no longer checks"); there is no fallback;
* in-place updates are translated to functional updates only when a conservative ownership analysis shows that the
  updated array (or list) has no other live holder (no alias through a name, a view, a list slot or a caller);
  otherwise `Untranslatable`;
* external numerical routines (table `externals` of a Unit) become explicit leading *parameters* of every generated
  definition that (transitively) calls them; attributes of objects (`solution.Ta`) become fields of a generated
  structure, properties of the class that are inside the subset are translated as derived definitions.  The
  table of externals, the declared types of stored attributes and the parameter annotations are the trusted part
  and are written into the header of the generated file.
"""
from __future__ import annotations
import ast, os, re, sys

from py2lean import Source, Untranslatable, HEADER, strip_doc


# ----------------------------------------------------------------------------------------------------------------
# types
# ----------------------------------------------------------------------------------------------------------------

class Ty:
    def __init__(self, kind: str, *args):
        self.kind, self.args = kind, args

    def __eq__(self, other):
        return isinstance(other, Ty) and self.kind == other.kind and self.args == other.args

    def __hash__(self):
        return hash((self.kind, self.args))

    def __repr__(self):
        return self.lean()

    def lean(self) -> str:
        k = self.kind
        if k == "mat": return "QMat"
        if k == "vec": return "QMat"        # a 1-D array, kept as an n × 1 column (no transpose, no mixing with 2-D arrays)
        if k == "nanmat": return "QMatNp.NanMat"
        if k == "int": return "Int"
        if k == "rat": return "Rat"
        if k == "bool": return "Bool"
        if k == "prop": return "Prop"
        if k == "list": return f"List {self.args[0].lean_atom()}"
        if k == "opt": return f"Option {self.args[0].lean_atom()}"
        if k == "tuple": return " × ".join(a.lean_atom() for a in self.args)
        if k == "obj": return self.args[0]
        if k == "none": return "Unit"
        raise Untranslatable(f"type {k}")

    def lean_atom(self) -> str:
        s = self.lean()
        return s if " " not in s else f"({s})"


MAT, NANMAT, INT, RAT, BOOL, PROP, NONE = Ty("mat"), Ty("nanmat"), Ty("int"), Ty("rat"), Ty("bool"), Ty("prop"), Ty("none")
VEC = Ty("vec")
def TList(t): return Ty("list", t)
def TOpt(t): return Ty("opt", t)
def TTuple(*ts): return Ty("tuple", *ts)
def TObj(name): return Ty("obj", name)
SHAPE = TTuple(INT, INT)
MASK = TList(BOOL)

MUTABLE = ("mat", "vec", "nanmat", "list")


LEAN_KEYWORDS = {
    "at", "end", "in", "fun", "let", "do", "then", "else", "if", "have", "show", "by", "match", "with", "open", "from",
    "section", "namespace", "variable", "def", "theorem", "instance", "structure", "class", "where", "deriving", "import",
    "Type", "Prop", "Sort", "set_option", "universe", "mutual", "private", "protected", "partial", "unsafe", "macro",
    "syntax", "notation", "prefix", "infix", "postfix", "attribute", "export", "extends", "forall", "exists", "return",
    "for", "unless", "mut", "try", "catch", "finally", "using", "calc", "obtain", "suffices", "local", "abbrev",
    "inductive", "axiom", "example", "lemma", "noncomputable", "omit", "include", "nomatch", "nofun", "this", "self",
}


def lname(py: str) -> str:
    """Lean identifier for a Python identifier"""
    if py in LEAN_KEYWORDS and py != "self":
        return f"«{py}»"
    return py


def rat_lit(v) -> str:
    if isinstance(v, bool):
        raise Untranslatable(f"boolean {v!r} used as a number")
    if isinstance(v, int):
        return f"({v} : Rat)"
    if v != v or v in (float("inf"), float("-inf")):
        raise Untranslatable(f"non-finite float constant {v!r}")
    num, den = v.as_integer_ratio()
    return f"({num} : Rat)" if den == 1 else f"(({num} : Rat) / ({den} : Rat))"


class Val:
    """a translated expression: Lean text, type, region of the mutable object it denotes (None for immutables),
    `temp` = the object is not held by any name (a fresh temporary), `owned_elems` (lists only) = every element is an
    object of its own that nothing else holds"""
    def __init__(self, text: str, ty: Ty, region=None, temp: bool = False, owned_elems: bool = False):
        self.text, self.ty, self.region, self.temp, self.owned_elems = text, ty, region, temp, owned_elems


EXT = "ext"     # region of everything that lives outside the function being translated (parameters, attributes, captured)


class Var:
    def __init__(self, ty: Ty, region, owned_elems=False, param_index=None):
        self.ty, self.region, self.owned_elems, self.param_index = ty, region, owned_elems, param_index


def occurs(name: str, nodes) -> bool:
    for n in nodes:
        for sub in ast.walk(n):
            if isinstance(sub, ast.Name) and sub.id == name:
                return True
    return False


def assigned_names(stmts) -> list[str]:
    """names (re)bound or updated in place by the statements, in order of first occurrence (nested defs excluded)"""
    out: list[str] = []
    def add(n):
        if n not in out:
            out.append(n)
    def target(t):
        if isinstance(t, ast.Name):
            add(t.id)
        elif isinstance(t, (ast.Tuple, ast.List)):
            for e in t.elts:
                target(e)
        elif isinstance(t, ast.Subscript):
            base = t.value
            while isinstance(base, ast.Subscript):
                base = base.value
            if isinstance(base, ast.Name):
                add(base.id)
        elif isinstance(t, ast.Attribute):
            pass
    def walk(ss):
        for s in ss:
            if isinstance(s, ast.Assign):
                for t in s.targets:
                    target(t)
            elif isinstance(s, (ast.AugAssign, ast.AnnAssign)):
                target(s.target)
            elif isinstance(s, ast.For):
                target(s.target)
                walk(s.body); walk(s.orelse)
            elif isinstance(s, ast.If):
                walk(s.body); walk(s.orelse)
            elif isinstance(s, ast.Expr) and isinstance(s.value, ast.Call) and isinstance(s.value.func, ast.Attribute) \
                    and s.value.func.attr in ("append", "extend", "pop", "insert") and isinstance(s.value.func.value, ast.Name):
                add(s.value.func.value.id)
    walk(stmts)
    return out


def dotted(node) -> str | None:
    if isinstance(node, ast.Name):
        return node.id
    if isinstance(node, ast.Attribute):
        b = dotted(node.value)
        return None if b is None else b + "." + node.attr
    return None


# ----------------------------------------------------------------------------------------------------------------
# configuration of a translation unit
# ----------------------------------------------------------------------------------------------------------------

class External:
    """an external numerical routine: becomes the explicit parameter `lean` (of function type args -> ret) of every
    generated definition that calls it; extra keyword arguments listed in `ignore_kw` are dropped"""
    def __init__(self, lean: str, args: list[Ty], ret: Ty, ignore_kw=(), doc=""):
        self.lean, self.args, self.ret, self.ignore_kw, self.doc = lean, args, ret, tuple(ignore_kw), doc

    def lean_type(self) -> str:
        return " → ".join([a.lean_atom() for a in self.args] + [self.ret.lean_atom()])


class ClassSpec:
    """a Python class whose instances the translated code reads: `fields` are the stored attributes (declared types are
    trusted), every other attribute that is read must be a `@property` of the class inside the subset (translated)"""
    def __init__(self, pyname: str, relpath: str, fields: dict[str, Ty], lean: str | None = None, doc: str = ""):
        self.pyname, self.relpath, self.fields, self.lean, self.doc = pyname, relpath, dict(fields), lean or pyname, doc


class FnInfo:
    def __init__(self):
        self.lean = ""; self.params = []; self.ext_used = []; self.captured = []
        self.ret = None; self.ret_fresh = False; self.ret_param_alias = None; self.ret_owned_elems = False
        self.mutates = set(); self.text = ""


ANNOTATIONS = {
    "_np.ndarray": MAT, "int": INT, "float": RAT, "Real": RAT, "bool": BOOL,
    "tuple[_np.ndarray, ...]": TList(MAT), "list[_np.ndarray]": TList(MAT), "Iterable[_np.ndarray, ...]": TList(MAT),
    "_np.ndarray | None": TOpt(MAT), "list[int]": TList(INT), "tuple[int, ...]": TList(INT),
}
IGNORED_KW = {"dtype"}


class Unit:
    def __init__(self, repo: str, relpath: str, namespace: str, externals: dict[str, External] | None = None,
                 classes: dict[str, ClassSpec] | None = None, annotations: dict[str, Ty] | None = None,
                 param_types: dict[str, dict[str, Ty]] | None = None):
        self.repo, self.relpath, self.namespace = repo, relpath, namespace
        self.src = Source(repo, relpath)
        self.externals = externals or {}
        self.classes = classes or {}          # annotation text / python class name -> ClassSpec
        self.annotations = dict(ANNOTATIONS); self.annotations.update(annotations or {})
        self.param_types = param_types or {}  # function qualname -> {param: Ty}  (overrides / supplies annotations)
        self.fns: dict[str, FnInfo] = {}
        self.in_progress: list[str] = []
        self.defs: list[str] = []             # emitted function definitions, callees first
        self.class_src: dict[str, Source] = {}
        self.props: dict[tuple[str, str], FnInfo] = {}
        self.prop_defs: dict[str, list[str]] = {}
        self.static_notes: list[str] = []
        self.imports: dict[str, tuple["Unit", str]] = {}   # dotted callee -> (unit that defines it, function name there)
        self.dropped: list[str] = []                        # effect-only statements left out of fragments (reported)

    # -- classes ---------------------------------------------------------------------------------------------
    def class_by_annotation(self, text: str) -> ClassSpec | None:
        for key, spec in self.classes.items():
            if text == key or text.endswith("." + key):
                return spec
        return None

    def class_source(self, spec: ClassSpec) -> Source:
        if spec.relpath not in self.class_src:
            self.class_src[spec.relpath] = Source(self.repo, spec.relpath)
        return self.class_src[spec.relpath]

    def attribute(self, spec: ClassSpec, attr: str, where: str) -> tuple[str, Ty]:
        """(kind, type) of `obj.attr`: kind 'field' or 'prop'"""
        if attr in spec.fields:
            return "field", spec.fields[attr]
        key = (spec.pyname, attr)
        if key not in self.props:
            src = self.class_source(spec)
            cls = src.find(spec.pyname)
            node = None
            for n in cls.body:
                if isinstance(n, ast.FunctionDef) and n.name == attr:
                    node = n
            if node is None:
                raise Untranslatable(f"{where}: {spec.pyname}.{attr} is neither a declared stored attribute nor a method")
            if not any(dotted(d) == "property" for d in node.decorator_list):
                raise Untranslatable(f"{where}: {spec.pyname}.{attr} is not a @property")
            if key in self.in_progress:
                raise Untranslatable(f"{where}: recursive property {spec.pyname}.{attr}")
            self.in_progress.append(key)
            tr = FnTr(self, node, f"{spec.pyname}.{attr}", lean_name=f"{spec.lean}.{lname(attr)}", self_spec=spec)
            info = tr.translate()
            self.in_progress.pop()
            if info.ext_used or info.mutates:
                raise Untranslatable(f"{where}: property {spec.pyname}.{attr} calls an external routine or mutates its object")
            self.props[key] = info
            self.prop_defs.setdefault(spec.pyname, []).append(info.text)
        return "prop", self.props[key].ret

    # -- functions ---------------------------------------------------------------------------------------------
    def function(self, name: str) -> FnInfo:
        if name in self.fns:
            return self.fns[name]
        if name in self.in_progress:
            raise Untranslatable(f"{self.relpath}: recursive function {name}")
        node = self.src.find(name)
        if not isinstance(node, ast.FunctionDef):
            raise Untranslatable(f"{self.relpath}: {name} is not a function")
        self.in_progress.append(name)
        info = FnTr(self, node, name, lean_name=lname(name)).translate()
        self.in_progress.pop()
        self.fns[name] = info
        self.defs.append(info.text)
        return info

    def method(self, spec: ClassSpec, name: str) -> FnInfo:
        """a method of a class of this unit's file that reads and stores attributes of `self` (the generated definition
        takes the object and returns the updated object when the method has no return value)"""
        key = f"{spec.pyname}.{name}"
        if key in self.fns:
            return self.fns[key]
        if key in self.in_progress:
            raise Untranslatable(f"{self.relpath}: recursive method {key}")
        src = self.class_source(spec)
        node = src.find(spec.pyname, name)
        if not isinstance(node, ast.FunctionDef):
            raise Untranslatable(f"{spec.relpath}: {key} is not a method")
        if node.decorator_list:
            raise Untranslatable(f"{spec.relpath}: {key} is decorated")
        self.in_progress.append(key)
        info = FnTr(self, node, key, lean_name=f"{spec.lean}.{lname(name)}", self_spec=spec, method=True).translate()
        self.in_progress.pop()
        self.fns[key] = info
        self.defs.append(info.text)
        return info

    def fragment(self, func: str, lean_name: str, first_binds: str, last_binds: str, inputs: dict[str, Ty],
                 outputs: list[str], droppable=None, loop_var: str | None = None) -> FnInfo:
        """a contiguous run of statements of one block of `func` (the function body or the body of a loop/conditional
        inside it) as a definition: from the first statement of the function that binds `first_binds` to the last
        statement of the same block that binds `last_binds`; the free variables are the declared `inputs`, the result is
        the tuple of `outputs`.  Statements for which `droppable(stmt)` holds are left out, provided they bind no local
        name (stores into outside objects and callbacks: they cannot change the values computed by the fragment); they
        are listed in the header of the generated file."""
        node = self.src.find(func)
        if not isinstance(node, ast.FunctionDef):
            raise Untranslatable(f"{self.relpath}: {func} is not a function")
        where = f"{self.relpath}::{func}[{first_binds}..{last_binds}]"
        found = None
        def blocks(stmts):
            yield stmts
            for st in stmts:
                if isinstance(st, (ast.For, ast.While)):
                    yield from blocks(st.body)
                elif isinstance(st, ast.If):
                    yield from blocks(st.body); yield from blocks(st.orelse)
                elif isinstance(st, ast.With):
                    yield from blocks(st.body)
        top = strip_doc(node.body)
        if loop_var is not None:
            loops = [n for n in ast.walk(node) if isinstance(n, ast.For) and isinstance(n.target, ast.Name) and n.target.id == loop_var]
            if len(loops) != 1:
                raise Untranslatable(f"{where}: {len(loops)} loops over `{loop_var}`")
            top = loops[0].body
        for blk in blocks(top):
            # a loop is entered, never taken as a whole; a conditional that binds the name in its branches counts
            idx = [i for i, st in enumerate(blk) if not isinstance(st, (ast.For, ast.While, ast.With)) and first_binds in assigned_names([st])]
            if idx:
                found = (blk, idx[0]); break
        if found is None:
            raise Untranslatable(f"{where}: no statement binds `{first_binds}`")
        blk, i0 = found
        idx = [i for i, st in enumerate(blk) if i >= i0 and last_binds in assigned_names([st])]
        if not idx:
            raise Untranslatable(f"{where}: no later statement of the same block binds `{last_binds}`")
        body = []
        for st in blk[i0: idx[-1] + 1]:
            if droppable is not None and droppable(st):
                bound = assigned_names([st])
                if bound:
                    raise Untranslatable(f"{where}: statement to be dropped binds {bound}: `{ast.unparse(st)[:60]}`")
                self.dropped.append(f"{func}: `" + " ".join(ast.unparse(st).split())[:100] + "`")
                continue
            body.append(st)
        ret = ast.Return(value=ast.Tuple(elts=[ast.Name(id=o, ctx=ast.Load()) for o in outputs], ctx=ast.Load())
                         if len(outputs) > 1 else ast.Name(id=outputs[0], ctx=ast.Load()))
        fn = ast.FunctionDef(name=lean_name, args=ast.arguments(posonlyargs=[], args=[ast.arg(arg=a) for a in inputs],
                                                                 vararg=None, kwonlyargs=[], kw_defaults=[], kwarg=None, defaults=[]),
                             body=body + [ret], decorator_list=[], returns=None, type_params=[])
        ast.fix_missing_locations(fn)
        qual = f"{func}[{first_binds}..{last_binds}]"
        self.param_types[qual] = dict(inputs)
        info = FnTr(self, fn, qual, lean_name=lname(lean_name)).translate()
        self.fns[qual] = info
        self.defs.append(info.text)
        return info

    def is_module_function(self, name: str) -> bool:
        return any(isinstance(n, ast.FunctionDef) and n.name == name for n in self.src.tree.body)

    # -- output ------------------------------------------------------------------------------------------------
    def render(self, title: str) -> str:
        out = [HEADER.format(src=self.relpath + (" (+ " + ", ".join(sorted(self.class_src)) + ")" if self.class_src else ""))]
        out.append("/-")
        out.append(title)
        out.append("")
        out.append("Meaning of the generated text: see Model/QMatNp.lean (2-D arrays = QMat, int = Int, float = Rat, Python slice")
        out.append("rules, in-place slice assignment = functional update after an ownership check, exceptions and broadcasting")
        out.append("not modelled).  TRUSTED / ASSUMED (not derived from the source):")
        used_ext = []
        for info in list(self.fns.values()):
            for e in info.ext_used:
                if e not in used_ext:
                    used_ext.append(e)
        for e in used_ext:
            x = self.externals[e]
            out.append(f"* external routine `{e}` is the parameter `{x.lean} : {x.lean_type()}` (its result is whatever the caller supplies"
                       + (f"; keyword arguments {', '.join(x.ignore_kw)} dropped" if x.ignore_kw else "") + ")" + (f" -- {x.doc}" if x.doc else ""))
        for spec in self.classes.values():
            if spec.pyname in self.used_classes():
                out.append(f"* stored attributes of `{spec.pyname}` ({spec.relpath}) with their declared types: "
                           + ", ".join(f"{k} : {v.lean()}" for k, v in spec.fields.items()) + (f" -- {spec.doc}" if spec.doc else ""))
        out.append("* parameter types come from the Python annotations (`_np.ndarray` = QMat, `int` = Int, `float`/`Real` = Rat);")
        out.append("  `dtype=` keywords are dropped (all numbers are exact rationals).")
        for n in self.static_notes:
            out.append("* " + n)
        for d in self.dropped:
            out.append("* left out of a fragment (binds no local name; a store into an outside object or a callback): " + d)
        out.append("-/")
        out.append("import IrisVerif.Model.QMatNp\n")
        out.append("set_option linter.unusedVariables false\n")
        out.append(f"namespace {self.namespace}")
        out.append("open IrisVerif\n")
        for spec in self.classes.values():
            if spec.pyname not in self.used_classes():
                continue
            out.append(f"/-- the stored attributes of `{spec.pyname}` ({spec.relpath}) that the translated code may read -/")
            out.append(f"structure {spec.lean} where")
            for k, v in spec.fields.items():
                out.append(f"  {lname(k)} : {v.lean()}")
            out.append("")
            for text in self.prop_defs.get(spec.pyname, []):
                out.append(text)
                out.append("")
        for d in self.defs:
            out.append(d)
            out.append("")
        out.append(f"end {self.namespace}\n")
        return "\n".join(out)

    def render_with(self, title: str, others: list["Unit"]) -> str:
        """one generated file for several units (several source files): this unit's header and body, then the bodies
        (with their own trusted-assumption comment) of the others"""
        text = self.render(title)
        for u in others:
            t = u.render(f"(continued) definitions generated from {u.relpath}")
            head, body = t.split("import IrisVerif.Model.QMatNp\n", 1)
            body = body.replace("set_option linter.unusedVariables false\n\n", "", 1)
            comment = head[head.index("/-"):]
            text = text.rstrip("\n") + "\n\n" + comment + body.lstrip("\n")
        return text

    def used_classes(self) -> set[str]:
        return getattr(self, "_used_classes", set())

    def use_class(self, spec: ClassSpec):
        if not hasattr(self, "_used_classes"):
            self._used_classes = set()
        self._used_classes.add(spec.pyname)


# ----------------------------------------------------------------------------------------------------------------
# one function
# ----------------------------------------------------------------------------------------------------------------

def proj(text: str, i: int, n: int) -> str:
    """i-th component of an n-ary Lean tuple `(a, b, c) = (a, (b, c))`"""
    if n == 1:
        return text
    s = text + ".2" * i
    return s + ".1" if i < n - 1 else s


class FnTr:
    def __init__(self, unit: Unit, node: ast.FunctionDef, qual: str, lean_name: str, self_spec: ClassSpec | None = None,
                 parent: "FnTr | None" = None, parent_env: dict | None = None, method: bool = False):
        self.unit, self.node, self.qual, self.lean_name = unit, node, qual, lean_name
        self.method = method                # a method that may store attributes of `self`; without a return value it returns `self`
        self.self_spec, self.parent, self.parent_env = self_spec, parent, parent_env
        self.info = FnInfo()
        self.info.lean = lean_name
        self.counter = 0
        self.region_counter = 0
        self.shared: set = set()           # regions that some list slot / moved object also holds
        self.after_stack: list[list] = []  # AST nodes that may still execute after the current statement
        self.returns: list[Val] = []
        self.closures: dict[str, FnInfo] = {}
        self.comp_unique: dict[str, int] = {}   # comprehension variables bound to an element nothing else holds

    # -- small helpers -----------------------------------------------------------------------------------------
    def bad(self, msg: str, node=None):
        snippet = ""
        if node is not None:
            try:
                snippet = " `" + ast.unparse(node).replace("\n", " ")[:70] + "`"
            except Exception:
                pass
        raise Untranslatable(f"{self.unit.relpath}::{self.qual}: {msg}{snippet}")

    def fresh_region(self):
        self.region_counter += 1
        return (self.qual, self.region_counter)

    def fresh_name(self) -> str:
        self.counter += 1
        return f"s'{self.counter}"

    def use_ext(self, key: str):
        if key not in self.info.ext_used:
            self.info.ext_used.append(key)

    def later_nodes(self) -> list:
        """statements that may still run after the current one, in temporal order (innermost block first)"""
        return [n for frame in reversed(self.after_stack) for n in frame]

    def holders(self, env: dict, region) -> int:
        return sum(1 for v in env.values() if v.region == region)

    def can_mutate(self, env: dict, name: str) -> bool:
        v = env[name]
        if v.region is None or v.region == EXT or v.region in self.shared:
            return False
        return self.holders(env, v.region) == 1

    def annotation_type(self, ann, pname: str) -> Ty:
        override = self.unit.param_types.get(self.qual, {})
        if pname in override:
            return override[pname]
        if ann is None:
            self.bad(f"parameter `{pname}` has no annotation and no declared type")
        text = ast.unparse(ann)
        if text in self.unit.annotations:
            return self.unit.annotations[text]
        spec = self.unit.class_by_annotation(text)
        if spec is not None:
            self.unit.use_class(spec)
            return TObj(spec.lean)
        self.bad(f"annotation `{text}` of parameter `{pname}` is not in the type table")

    # -- the function ------------------------------------------------------------------------------------------
    def translate(self) -> FnInfo:
        a = self.node.args
        if a.vararg or a.kwarg or a.kwonlyargs:
            self.bad("*args / **kwargs / keyword-only parameters")
        env: dict[str, Var] = {}
        params = []
        allargs = a.posonlyargs + a.args
        for i, p in enumerate(allargs):
            if p.arg == "self":
                if self.self_spec is None:
                    self.bad("method without a class specification")
                self.unit.use_class(self.self_spec)
                ty = TObj(self.self_spec.lean)
            else:
                ty = self.annotation_type(p.annotation, p.arg)
            params.append((p.arg, ty))
            env[p.arg] = Var(ty, ("param", i) if ty.kind in MUTABLE else None, param_index=i)
        # captured variables of a closure: free names of the body bound in the parent at definition time
        captured = []
        if self.parent_env is not None:
            local = set(assigned_names(self.node.body)) | {p for p, _ in params}
            for sub in ast.walk(ast.Module(body=self.node.body, type_ignores=[])):
                if isinstance(sub, (ast.Nonlocal, ast.Global)):
                    self.bad("nonlocal / global")
                if isinstance(sub, ast.Name) and sub.id in self.parent_env and sub.id not in local and sub.id not in captured:
                    captured.append(sub.id)
            for c in captured:
                pv = self.parent_env[c]
                env[c] = Var(pv.ty, EXT if pv.ty.kind in MUTABLE else None)
        self.info.params = params
        self.info.captured = [(c, self.parent_env[c].ty) for c in captured]
        body = strip_doc(self.node.body)
        self.after_stack.append([])
        tail = None
        if self.method:
            def tail(e):
                self.returns.append(Val("self", e["self"].ty, EXT))
                return "self"
        text = self.block(body, env, tail, 1)
        self.after_stack.pop()
        if not self.returns:
            self.bad("function does not return a value")
        ret = self.returns[0]
        for r in self.returns[1:]:
            if r.ty != ret.ty:
                self.bad(f"return statements of different types ({ret.ty} / {r.ty})")
        self.info.ret = ret.ty
        if ret.ty.kind in MUTABLE or ret.ty.kind == "tuple":
            regs = [r.region for r in self.returns]
            if all(isinstance(r, tuple) and r[0] == "param" for r in regs) and len(set(regs)) == 1:
                self.info.ret_param_alias = regs[0][1]
            elif all(r is not None and r != EXT and not (isinstance(r, tuple) and r[0] == "param") and r not in self.shared for r in regs):
                self.info.ret_fresh = True
            self.info.ret_owned_elems = all(r.owned_elems for r in self.returns)
        # parameter list: externals, captured, then the Python parameters
        binders = []
        for e in self.info.ext_used:
            x = self.unit.externals[e]
            binders.append(f"({x.lean} : {x.lean_type()})")
        for c, ty in self.info.captured:
            binders.append(f"({lname(c)} : {ty.lean()})")
        for p, ty in params:
            binders.append(f"({lname(p)} : {ty.lean()})")
        doc = f"/-- `{self.qual}` of {self.unit.relpath if self.self_spec is None else self.self_spec.relpath}"
        if self.info.captured:
            doc += " (closure; captured: " + ", ".join(c for c, _ in self.info.captured) + ")"
        if self.info.mutates:
            doc += "; updates its argument " + ", ".join(params[i][0] for i in sorted(self.info.mutates)) + " in place"
        doc += " -/"
        self.info.text = f"{doc}\ndef {self.lean_name} {' '.join(binders)} : {ret.ty.lean()} :=\n{text}"
        return self.info

    # -- statements --------------------------------------------------------------------------------------------
    def block(self, stmts: list, env: dict, tail, depth: int) -> str:
        """Lean term for the statement list; `tail(env)` gives the final expression when control falls off the end
        (None: the block must end in `return`)"""
        ind = "  " * depth
        lines: list[str] = []
        stmts = [s for s in stmts if not isinstance(s, ast.Pass)
                 and not (isinstance(s, ast.Expr) and isinstance(s.value, ast.Constant) and isinstance(s.value.value, str))]
        for k, st in enumerate(stmts):
            rest = stmts[k + 1:]
            self.after_stack.append(list(rest))
            try:
                if isinstance(st, ast.Return):
                    if rest:
                        self.bad("statements after return", rest[0])
                    if st.value is None:
                        if not self.method:
                            self.bad("bare return")
                        self.returns.append(Val("self", env["self"].ty, EXT))
                        lines.append(ind + "self")
                        return "\n".join(lines)
                    v = self.expr(st.value, env)
                    if isinstance(st.value, ast.Name) and st.value.id in env:
                        vv = env[st.value.id]
                        v = Val(v.text, v.ty, vv.region, False, vv.owned_elems)
                    self.returns.append(v)
                    lines.append(ind + v.text)
                    return "\n".join(lines)
                if isinstance(st, ast.FunctionDef):
                    self.define_closure(st, env)
                    continue
                if isinstance(st, ast.If):
                    text, done = self.if_stmt(st, rest, env, tail, depth)
                    lines.append(text)
                    if done:
                        return "\n".join(lines)
                    continue
                if isinstance(st, ast.For):
                    lines.append(self.for_stmt(st, rest, env, depth))
                    continue
                if isinstance(st, ast.AugAssign):
                    if isinstance(st.target, ast.Name) and st.target.id in env and env[st.target.id].ty.kind in MUTABLE \
                            and not self.can_mutate(env, st.target.id):
                        self.bad(f"in-place `{ast.unparse(st.target)} op= ...` on an array that may have another live holder", st)
                    load = ast.parse(ast.unparse(st.target), mode="eval").body
                    if isinstance(st.target, ast.Name) and st.target.id in env and env[st.target.id].ty.kind in MUTABLE:
                        # numpy's `x op= e` updates the object in place: same object afterwards
                        keep = env[st.target.id].region
                        lines.extend(ind + l for l in self.assign(st.target, ast.BinOp(left=load, op=st.op, right=st.value), env))
                        env[st.target.id].region = keep
                        continue
                    st = ast.Assign(targets=[st.target], value=ast.BinOp(left=load, op=st.op, right=st.value))
                if isinstance(st, ast.AnnAssign) and st.value is not None:
                    st = ast.Assign(targets=[st.target], value=st.value)
                if isinstance(st, ast.Assign):
                    if len(st.targets) != 1:
                        self.bad("chained assignment", st)
                    lines.extend(ind + l for l in self.assign(st.targets[0], st.value, env))
                    continue
                if isinstance(st, ast.Expr) and isinstance(st.value, ast.Call):
                    lines.extend(ind + l for l in self.call_stmt(st.value, env))
                    continue
                self.bad("statement outside the subset", st)
            finally:
                self.after_stack.pop()
        if tail is None:
            self.bad("control reaches the end of the function without return")
        lines.append(ind + tail(env))
        return "\n".join(lines)

    def bind(self, env: dict, name: str, v: Val) -> str:
        """`let name : T := v`; ownership bookkeeping for the new holder"""
        if v.ty == NONE:
            self.bad(f"`{name} = None` (untyped None)")
        region, owned = v.region, v.owned_elems
        if v.ty.kind in MUTABLE:
            if region is None:
                region = EXT
            if isinstance(region, tuple) and region[0] == "elem":
                region = EXT
        else:
            region = None
        env[name] = Var(v.ty, region, owned)
        return f"let {lname(name)} : {v.ty.lean()} := {v.text}"

    def callable_name(self, node, env: dict) -> str | None:
        """the dotted name a callee expression stands for, through local function aliases"""
        d = dotted(node)
        if d is None:
            return None
        head = d.split(".")[0]
        if head in env and env[head].ty.kind == "fn":
            return env[head].ty.args[0] + d[len(head):]
        return d

    NUMPY_FUNCTIONS = ("_np.zeros", "_np.zeros_like", "_np.eye", "_np.copy", "_np.block", "_np.hstack", "_np.vstack",
                       "_np.concatenate")

    def assign(self, target, value, env: dict) -> list[str]:
        if isinstance(target, ast.Name) and dotted(value) is not None and dotted(value).split(".")[0] not in env \
                and (dotted(value) in self.unit.externals or dotted(value) in self.NUMPY_FUNCTIONS):
            # a local alias of a known function: no code, calls through the alias are resolved statically
            env[target.id] = Var(Ty("fn", dotted(value)), None)
            return []
        if isinstance(target, ast.Name):
            v = self.expr(value, env)
            if isinstance(value, ast.Name) and value.id in env and env[value.id].ty.kind == "list":
                # two names for one list: neither may claim sole ownership of the elements any more
                env[value.id].owned_elems = False
                v.owned_elems = False
            if isinstance(value, ast.Subscript) and isinstance(value.value, ast.Name) and value.value.id in env \
                    and env[value.value.id].ty.kind == "list":
                env[value.value.id].owned_elems = False
            return [self.bind(env, target.id, v)]
        if isinstance(target, (ast.Tuple, ast.List)):
            if not all(isinstance(e, ast.Name) for e in target.elts):
                self.bad("unpacking into something other than names", target)
            if isinstance(value, ast.Tuple) and len(value.elts) == len(target.elts) \
                    and not any(occurs(e.id, [value]) for e in target.elts):
                # a, b = e1, e2 where no target occurs on the right: the same as a = e1; b = e2
                out = []
                for e, val in zip(target.elts, value.elts):
                    out.extend(self.assign(e, val, env))
                return out
            v = self.expr(value, env)
            n = len(target.elts)
            if v.ty.kind != "tuple" or len(v.ty.args) != n:
                self.bad(f"unpacking a value of type {v.ty} into {n} names", target)
            tmp = self.fresh_name()
            out = [f"let {tmp} : {v.ty.lean()} := {v.text}"]
            parts = getattr(v, "parts", None)
            for i, e in enumerate(target.elts):
                pv = Val(proj(tmp, i, n), v.ty.args[i], None)
                if parts is not None:
                    pv.region, pv.owned_elems = parts[i].region, parts[i].owned_elems
                elif v.temp and v.region not in (None, EXT):
                    pv.region = self.fresh_region()     # components of a fresh tuple of fresh arrays
                out.append(self.bind(env, e.id, pv))
            return out
        if isinstance(target, ast.Subscript) and isinstance(target.value, ast.Name):
            return self.subscript_assign(target, value, env)
        if isinstance(target, ast.Attribute) and isinstance(target.value, ast.Name) and target.value.id == "self" \
                and self.method and "self" in env and env["self"].ty.kind == "obj":
            spec = self.self_spec
            if target.attr not in spec.fields:
                self.bad(f"store to `self.{target.attr}`, which is not a declared stored attribute of {spec.pyname}", target)
            v = self.coerce(self.expr(value, env), spec.fields[target.attr], value)
            if v.ty.kind in MUTABLE and not v.temp and v.region is not None:
                self.shared.add(v.region)      # the object now holds the array as well
            return [f"let self : {spec.lean} := {{ self with {lname(target.attr)} := {v.text} }}"]
        self.bad("assignment target outside the subset", target)

    def subscript_assign(self, target: ast.Subscript, value, env: dict) -> list[str]:
        name = target.value.id
        if name not in env:
            self.bad(f"`{name}` is not a local variable", target)
        var = env[name]
        if var.ty.kind not in MUTABLE:
            self.bad(f"item assignment on a value of type {var.ty}", target)
        # ownership: the object must have no other live holder
        if isinstance(var.region, tuple) and var.region[0] == "param" and self.holders(env, var.region) == 1 \
                and var.region not in self.shared:
            self.info.mutates.add(var.region[1])
        elif not self.can_mutate(env, name):
            self.bad(f"in-place update of `{name}`, which may have another live holder (alias, view, list slot or caller)", target)
        L = lname(name)
        if var.ty.kind == "list":
            idx = self.expr(target.slice, env)
            if idx.ty != INT:
                self.bad("list index is not an int", target)
            elem_ty = var.ty.args[0]
            v = self.expr(value, env)
            v = self.coerce(v, elem_ty, value)
            # does the list keep sole ownership of its elements?
            keeps = v.ty.kind not in MUTABLE and not (v.ty.kind == "opt" and v.ty.args[0].kind in MUTABLE)
            if not keeps:
                if v.temp and v.region not in (None, EXT):
                    keeps = True
                elif isinstance(value, ast.Name) and value.id in env and self.can_mutate(env, value.id) \
                        and not occurs(value.id, self.later_nodes()):
                    keeps = True
                    del env[value.id]          # moved into the list (no later use, checked above)
                elif v.region not in (None,):
                    self.shared.add(v.region)
            var.owned_elems = var.owned_elems and keeps
            return [f"let {L} : {var.ty.lean()} := QMatNp.listSet {L} {idx.text} {v.text}"]
        # arrays
        sl = target.slice
        elts = list(sl.elts) if isinstance(sl, ast.Tuple) else [sl]
        if len(elts) == 1:
            elts.append(ast.Slice(lower=None, upper=None, step=None))
        if len(elts) != 2:
            self.bad("more than two subscripts", target)
        r, c = elts
        is_nan = dotted(value) in ("_np.nan", "_np.NaN")
        if is_nan:
            # X[mask, :] = nan / X[:, mask] = nan : the array becomes an array with NaN cells
            def full(s): return isinstance(s, ast.Slice) and s.lower is None and s.upper is None and s.step is None
            if full(c) and not isinstance(r, ast.Slice):
                m = self.expr(r, env)
                fn = "QMatNp.NanMat.nanRows"
            elif full(r) and not isinstance(c, ast.Slice):
                m = self.expr(c, env)
                fn = "QMatNp.NanMat.nanCols"
            else:
                self.bad("NaN assignment other than X[mask, :] / X[:, mask]", target)
            if m.ty != MASK:
                self.bad("NaN assignment with a subscript that is not a boolean vector", target)
            base = L if var.ty == NANMAT else f"(QMatNp.NanMat.ofQMat {L})"
            env[name] = Var(NANMAT, var.region, False, var.param_index)
            return [f"let {L} : QMatNp.NanMat := {fn} {base} {m.text}"]
        if var.ty.kind == "nanmat":
            self.bad("item assignment on an array with NaN cells", target)
        if isinstance(r, ast.Slice) and isinstance(c, ast.Slice):
            b = self.slice_bounds(r, env) + self.slice_bounds(c, env)
            v = self.expr(value, env)
            if v.ty in (INT, RAT):
                return [f"let {L} : QMat := QMatNp.fillSlice {L} {' '.join(b)} {self.to_rat(v)}"]
            v = self.as_mat(v, value)
            return [f"let {L} : QMat := QMatNp.setSlice {L} {' '.join(b)} {v.text}"]
        if (isinstance(r, ast.List) or isinstance(c, ast.List)) and not (isinstance(r, ast.List) and isinstance(c, ast.List)) \
                and not isinstance(r, ast.Slice) and not isinstance(c, ast.Slice) and isinstance(value, ast.Tuple):
            # X[i, [a, b]] = (u, v)  /  X[[a, b], i] = (u, v): element assignments, left to right
            idxs = r.elts if isinstance(r, ast.List) else c.elts
            if len(idxs) != len(value.elts) or not idxs:
                self.bad("index list and value tuple of different lengths", target)
            out = []
            for ix, val in zip(idxs, value.elts):
                i = self.expr(ix if isinstance(r, ast.List) else r, env)
                j = self.expr(c if isinstance(r, ast.List) else ix, env)
                v = self.expr(val, env)
                if i.ty != INT or j.ty != INT or v.ty not in (INT, RAT):
                    self.bad("element subscripts are not ints or the value is not a scalar", target)
                out.append(f"let {L} : QMat := QMatNp.setEntry {L} {i.text} {j.text} {self.to_rat(v)}")
            return out
        if not isinstance(r, ast.Slice) and not isinstance(c, ast.Slice):
            i, j = self.expr(r, env), self.expr(c, env)
            if i.ty != INT or j.ty != INT:
                self.bad("element subscripts are not ints", target)
            v = self.expr(value, env)
            if v.ty not in (INT, RAT):
                self.bad("element assignment of a non-scalar", target)
            return [f"let {L} : QMat := QMatNp.setEntry {L} {i.text} {j.text} {self.to_rat(v)}"]
        self.bad("mixed index/slice assignment", target)

    def call_stmt(self, call: ast.Call, env: dict) -> list[str]:
        f = call.func
        if isinstance(f, ast.Attribute) and f.attr == "append" and isinstance(f.value, ast.Name) and f.value.id in env \
                and env[f.value.id].ty.kind == "list" and len(call.args) == 1 and not call.keywords:
            name = f.value.id
            var = env[name]
            if not self.can_mutate(env, name):
                self.bad(f"`{name}.append` on a list that may have another live holder", call)
            v = self.coerce(self.expr(call.args[0], env), var.ty.args[0], call)
            if v.ty.kind in MUTABLE and not (v.temp and v.region not in (None, EXT)):
                var.owned_elems = False
                if v.region is not None:
                    self.shared.add(v.region)
            return [f"let {lname(name)} : {var.ty.lean()} := {lname(name)} ++ [{v.text}]"]
        self.bad("expression statement outside the subset", call)

    # -- conditionals --------------------------------------------------------------------------------------------
    @staticmethod
    def is_none_compare(test) -> bool:
        return (isinstance(test, ast.Compare) and len(test.ops) == 1 and isinstance(test.ops[0], (ast.Is, ast.IsNot))
                and isinstance(test.comparators[0], ast.Constant) and test.comparators[0].value is None)

    def none_test(self, test, env: dict):
        """(name, positive) for `name is not None` / `name is None`, else None"""
        if isinstance(test, ast.Compare) and len(test.ops) == 1 and isinstance(test.left, ast.Name) \
                and isinstance(test.comparators[0], ast.Constant) and test.comparators[0].value is None \
                and isinstance(test.ops[0], (ast.Is, ast.IsNot)):
            return test.left.id, isinstance(test.ops[0], ast.IsNot)
        return None

    def branch(self, test, env: dict, then_fn, else_fn, depth: int) -> str:
        """Lean term `if test then then_fn(env) else else_fn(env)`; the two callbacks get their own copy of env and
        return text indented at depth+1"""
        ind = "  " * depth
        if isinstance(test, ast.BoolOp) and isinstance(test.op, ast.And) and len(test.values) >= 2 \
                and any(self.is_none_compare(v) for v in test.values):
            # `a and b`: test a, then b; the else-branch is taken from either
            first, rest = test.values[0], test.values[1:]
            rest_test = rest[0] if len(rest) == 1 else ast.BoolOp(op=ast.And(), values=rest)
            inner = lambda e: ind + "  (\n" + self.branch(rest_test, e, then_fn, else_fn, depth + 1) + ")"
            return self.branch(first, env, inner, else_fn, depth)
        if self.is_none_compare(test) and not isinstance(test.left, ast.Name):
            # `<expr> is [not] None` for an Option-valued expression: no refinement, the branches re-evaluate the expression
            v = self.expr(test.left, env)
            if v.ty.kind != "opt":
                self.bad(f"`is None` test of a value of type {v.ty}", test)
            positive = isinstance(test.ops[0], ast.IsNot)
            some_fn, none_fn = (then_fn, else_fn) if positive else (else_fn, then_fn)
            e1, e2 = dict(env), dict(env)
            a, b = some_fn(e1), none_fn(e2)
            self.merge_back(env, [e1, e2])
            return f"{ind}match {v.text} with\n{ind}| some _ =>\n{a}\n{ind}| none =>\n{b}"
        nt = self.none_test(test, env)
        if nt is not None:
            name, positive = nt
            if name not in env:
                self.bad(f"`{name}` is not a local variable", test)
            var = env[name]
            some_fn, none_fn = (then_fn, else_fn) if positive else (else_fn, then_fn)
            if var.ty.kind == "opt":
                e1 = dict(env); e1[name] = Var(var.ty.args[0], EXT if var.ty.args[0].kind in MUTABLE else None)
                e2 = dict(env)
                a, b = some_fn(e1), none_fn(e2)
                self.merge_back(env, [e1, e2], skip={name})
                return f"{ind}match {lname(name)} with\n{ind}| some {lname(name)} =>\n{a}\n{ind}| none =>\n{b}"
            # not an Option: the value is never None (Python would have raised where it was produced)
            note = (f"`{name} is{' not' if positive else ''} None` in {self.qual}: `{name}` has type {var.ty.lean()} "
                    f"(never None), the test is resolved statically")
            if note not in self.unit.static_notes:
                self.unit.static_notes.append(note)
            e1 = dict(env)
            a = some_fn(e1)
            self.merge_back(env, [e1])
            return a
        c = self.expr(test, env)
        if c.ty not in (BOOL, PROP):
            self.bad(f"condition of type {c.ty} (truthiness of non-booleans is outside the subset)", test)
        cond = c.text if c.ty == PROP else f"{c.text} = true"
        e1, e2 = dict(env), dict(env)
        a, b = then_fn(e1), else_fn(e2)
        self.merge_back(env, [e1, e2])
        return f"{ind}if {cond} then\n{a}\n{ind}else\n{b}"

    def merge_back(self, env: dict, branches: list[dict], skip=()):
        """after a conditional: ownership facts are the conjunction over the branches"""
        for name in list(env):
            if name in skip:
                continue
            if env[name].ty == NONE:
                continue
            for b in branches:
                if name not in b:
                    del env[name]; break
                bv = b[name]
                if bv.ty != env[name].ty:
                    self.bad(f"`{name}` has different types on the two sides of a conditional")
                if bv.region != env[name].region:
                    env[name] = Var(bv.ty, EXT if bv.ty.kind in MUTABLE else None, False, env[name].param_index)
                env[name].owned_elems = env[name].owned_elems and bv.owned_elems

    @staticmethod
    def has_return(stmts) -> bool:
        return any(isinstance(n, ast.Return) for s in stmts for n in ast.walk(s) if not isinstance(s, ast.FunctionDef))

    def if_stmt(self, st: ast.If, rest: list, env: dict, tail, depth: int):
        body_ret = bool(st.body) and isinstance(st.body[-1], ast.Return)
        else_ret = bool(st.orelse) and isinstance(st.orelse[-1], ast.Return)
        if body_ret and not st.orelse:
            text = self.branch(st.test, env, lambda e: self.block(st.body, e, None, depth + 1),
                               lambda e: self.block(rest, e, tail, depth + 1), depth)
            return text, True
        if body_ret and else_ret:
            if rest:
                self.bad("statements after an if/else that returns on both sides", rest[0])
            text = self.branch(st.test, env, lambda e: self.block(st.body, e, None, depth + 1),
                               lambda e: self.block(st.orelse, e, None, depth + 1), depth)
            return text, True
        if self.has_return(st.body) or self.has_return(st.orelse):
            self.bad("return inside a conditional that is not in tail position", st)
        # assignment-style conditional: the names it (re)binds are the carried state
        carried = [n for n in assigned_names(st.body + st.orelse)
                   if n in env or (n in assigned_names(st.body) and n in assigned_names(st.orelse))]
        for n in assigned_names(st.body + st.orelse):
            if n not in carried and occurs(n, self.later_nodes()):
                self.bad(f"`{n}` is bound on one side of a conditional only and used later", st)
        if not carried:
            self.bad("conditional without effect", st)
        types: dict[str, Ty] = {}
        def fin(e):
            for n in carried:
                if n not in e:
                    self.bad(f"`{n}` is not bound on every path of the conditional", st)
                if n in types and types[n] != e[n].ty:
                    self.bad(f"`{n}` has different types on the two sides of a conditional", st)
                types[n] = e[n].ty
            return "(" + ", ".join(lname(n) for n in carried) + ")" if len(carried) > 1 else lname(carried[0])
        pre = dict(env)
        new_envs = []
        def then_fn(e):
            t = self.block(st.body, e, fin, depth + 2); new_envs.append(e); return t
        def else_fn(e):
            t = self.block(st.orelse, e, fin, depth + 2); new_envs.append(e); return t
        for n in carried:                       # names bound for the first time here
            if n not in env:
                env[n] = Var(NONE, None)
        inner = self.branch(st.test, env, then_fn, else_fn, depth + 1)
        for n in carried:
            if env.get(n) is not None and env[n].ty == NONE:
                del env[n]
        ind = "  " * depth
        tmp = self.fresh_name()
        tys = [types[n] for n in carried]
        sty = TTuple(*tys).lean() if len(tys) > 1 else tys[0].lean()
        lines = [f"{ind}let {tmp} : {sty} :=\n{inner}"]
        for i, n in enumerate(carried):
            regs = {e[n].region for e in new_envs}
            owned = all(e[n].owned_elems for e in new_envs)
            region = regs.pop() if len(regs) == 1 else (EXT if types[n].kind in MUTABLE else None)
            env[n] = Var(types[n], region, owned, pre[n].param_index if n in pre else None)
            lines.append(f"{ind}let {lname(n)} : {types[n].lean()} := {proj(tmp, i, len(carried))}")
        return "\n".join(lines), False

    # -- loops ---------------------------------------------------------------------------------------------------
    def for_stmt(self, st: ast.For, rest: list, env: dict, depth: int) -> str:
        if st.orelse:
            self.bad("for/else", st)
        if self.has_return(st.body):
            self.bad("return inside a loop", st)
        ind = "  " * depth
        # iteration space
        it = st.iter
        if isinstance(it, ast.Call) and dotted(it.func) == "range" and len(it.args) == 1 and not it.keywords:
            n = self.expr(it.args[0], env)
            if n.ty != INT:
                self.bad("range() of a non-int", it)
            space, loop_tys = f"(QMatNp.range {n.text})", [INT]
        elif isinstance(it, ast.Call) and dotted(it.func) == "enumerate" and len(it.args) == 1 and not it.keywords:
            xs = self.expr(it.args[0], env)
            if xs.ty.kind != "list":
                self.bad("enumerate() of a non-list", it)
            space, loop_tys = f"(QMatNp.enumerate {xs.text})", [INT, xs.ty.args[0]]
        else:
            xs = self.expr(it, env)
            if xs.ty.kind != "list":
                self.bad("loop over something that is neither range(n), enumerate(list) nor a list", it)
            space, loop_tys = xs.text, [xs.ty.args[0]]
        tgt = st.target
        names = [tgt.id] if isinstance(tgt, ast.Name) else ([e.id for e in tgt.elts] if isinstance(tgt, ast.Tuple) and all(isinstance(e, ast.Name) for e in tgt.elts) else None)
        if names is None or len(names) != len(loop_tys):
            self.bad("loop target does not match the iteration space", st)
        carried = [v for v in assigned_names(st.body) if v in env and v not in names]
        for v in assigned_names(st.body) + names:
            if v not in carried and self.loads(v, self.later_nodes()):
                self.bad(f"`{v}` is bound inside a loop and read after it", st)
        if not carried:
            self.bad("loop without effect on the variables of the function", st)
        for v in names:
            if v in env:
                self.bad(f"loop variable `{v}` shadows a local variable", st)
        tys = [env[v].ty for v in carried]
        def fin(e):
            for v, t in zip(carried, tys):
                if v not in e or e[v].ty != t:
                    self.bad(f"`{v}` changes type inside a loop", st)
            return "(" + ", ".join(lname(v) for v in carried) + ")" if len(carried) > 1 else lname(carried[0])
        def run(e):
            for v, t in zip(names, loop_tys):
                e[v] = Var(t, EXT if t.kind in MUTABLE else None)
            self.after_stack.append(list(st.body))      # the body runs again: everything in it is "later"
            try:
                return self.block(st.body, e, fin, depth + 2)
            finally:
                self.after_stack.pop()
        saved_counter = self.counter
        e1 = dict((k, Var(v.ty, v.region, v.owned_elems, v.param_index)) for k, v in env.items())
        body = run(e1)
        # second pass from the state after one iteration: catches aliases that only appear across iterations
        e2 = dict((k, Var(v.ty, v.region, v.owned_elems, v.param_index)) for k, v in e1.items() if k not in names)
        c2 = self.counter; self.counter = saved_counter
        run(e2)
        self.counter = c2
        sty = TTuple(*tys).lean() if len(tys) > 1 else tys[0].lean()
        lty = TTuple(*loop_tys).lean() if len(loop_tys) > 1 else loop_tys[0].lean()
        lines = []
        if len(carried) == 1 and len(names) == 1:
            v = carried[0]
            lines.append(f"{ind}let {lname(v)} : {sty} := {space}.foldl (fun ({lname(v)} : {sty}) ({lname(names[0])} : {lty}) =>\n{body}) {lname(v)}")
        else:
            tmp, it_tmp = self.fresh_name(), self.fresh_name()
            pre = [f"{ind}    let {lname(v)} : {t.lean()} := {proj(tmp, i, len(carried))}" for i, (v, t) in enumerate(zip(carried, tys))]
            pre += [f"{ind}    let {lname(v)} : {t.lean()} := {proj(it_tmp, i, len(names))}" for i, (v, t) in enumerate(zip(names, loop_tys))]
            init = "(" + ", ".join(lname(v) for v in carried) + ")" if len(carried) > 1 else lname(carried[0])
            lines.append(f"{ind}let {tmp} : {sty} := {space}.foldl (fun ({tmp} : {sty}) ({it_tmp} : {lty}) =>\n" + "\n".join(pre) + f"\n{body}) {init}")
            for i, (v, t) in enumerate(zip(carried, tys)):
                lines.append(f"{ind}let {lname(v)} : {t.lean()} := {proj(tmp, i, len(carried))}")
        for v in carried:
            a, b = e1[v], e2.get(v, e1[v])
            # updated in place only: same object; rebound inside the loop: after zero iterations it is still the old one
            env[v] = Var(a.ty, a.region if a.region == env[v].region and b.region == a.region else EXT,
                         a.owned_elems and b.owned_elems, env[v].param_index)
            if env[v].ty.kind not in MUTABLE:
                env[v].region = None
        for v in list(env):
            if v not in e1:
                del env[v]                      # moved away inside the loop
        return "\n".join(lines)

    @staticmethod
    def loads(name: str, stmts) -> bool:
        """may `name` be read by the statements before they (re)bind it?  (conservative, in execution order)"""
        def reads(node) -> bool:
            return any(isinstance(sub, ast.Name) and sub.id == name and isinstance(sub.ctx, ast.Load) for sub in ast.walk(node))
        def binds(t) -> bool:
            return (isinstance(t, ast.Name) and t.id == name) or (isinstance(t, (ast.Tuple, ast.List)) and any(binds(e) for e in t.elts))
        def go(ss):
            """True: read first; False: bound first; None: neither"""
            for st in ss:
                if isinstance(st, ast.Assign):
                    if reads(st.value) or any(reads(t) for t in st.targets if not binds(t)):
                        return True
                    if any(binds(t) for t in st.targets):
                        return False
                elif isinstance(st, ast.For):
                    if reads(st.iter):
                        return True
                    if binds(st.target):
                        return False
                    if reads(st):
                        return True      # the body may not run at all, so a binding inside it does not count
                elif reads(st):
                    return True
            return None
        return go(list(stmts)) is True

    # -- closures ------------------------------------------------------------------------------------------------
    def define_closure(self, node: ast.FunctionDef, env: dict):
        if node.decorator_list:
            self.bad("decorated local function", node)
        sub = FnTr(self.unit, node, f"{self.qual}.{node.name}", lean_name=f"{self.lean_name}_{node.name}".replace("«", "").replace("»", ""),
                   parent=self, parent_env=env)
        info = sub.translate()
        self.closures[node.name] = info
        self.unit.defs.append(info.text)

    # -- expressions ---------------------------------------------------------------------------------------------
    def to_rat(self, v: Val) -> str:
        if v.ty == RAT:
            return v.text
        if v.ty == INT:
            m = re.fullmatch(r"\((-?\d+) : Int\)", v.text)
            if m:
                return f"({m.group(1)} : Rat)"
            return f"(({v.text} : Int) : Rat)"
        self.bad(f"a value of type {v.ty} where a number is needed")

    def as_mat(self, v: Val, node=None) -> Val:
        if v.ty == MAT:
            return v
        if v.ty == TOpt(MAT):
            return Val(f"(QMatNp.unwrap {v.text})", MAT, v.region, v.temp)
        self.bad(f"a value of type {v.ty} where an array is needed", node)

    def coerce(self, v: Val, ty: Ty, node=None) -> Val:
        if v.ty == ty:
            return v
        if ty.kind == "opt" and v.ty == ty.args[0]:
            return Val(f"(some {v.text})", ty, v.region, v.temp, v.owned_elems)
        if ty.kind == "opt" and v.ty == NONE:
            return Val("none", ty)
        if ty == MAT and v.ty == TOpt(MAT):
            return self.as_mat(v, node)
        if ty == VEC and v.ty == TOpt(VEC):
            return Val(f"(QMatNp.unwrap {v.text})", VEC, v.region, v.temp)
        if ty == RAT and v.ty == INT:
            return Val(self.to_rat(v), RAT)
        self.bad(f"a value of type {v.ty} where {ty} is needed", node)

    def slice_bounds(self, s: ast.Slice, env: dict) -> list[str]:
        if s.step is not None:
            self.bad("slice with a step", s)
        out = []
        for b in (s.lower, s.upper):
            if b is None:
                out.append("none")
            else:
                v = self.expr(b, env)
                if v.ty != INT:
                    self.bad("slice bound is not an int", b)
                out.append(f"(some {v.text})")
        return out

    def expr(self, node, env: dict) -> Val:
        if isinstance(node, ast.Constant):
            v = node.value
            if v is None:
                return Val("()", NONE)
            if isinstance(v, bool):
                return Val("true" if v else "false", BOOL)
            if isinstance(v, int):
                return Val(f"({v} : Int)", INT)
            if isinstance(v, float):
                return Val(rat_lit(v), RAT)
            self.bad("constant outside the subset", node)
        if isinstance(node, ast.Name):
            if node.id in env:
                var = env[node.id]
                if var.ty == NONE:
                    self.bad(f"`{node.id}` may be unbound here", node)
                if var.ty.kind == "fn":
                    self.bad(f"function alias `{node.id}` used as a value", node)
                return Val(lname(node.id), var.ty, var.region, False, var.owned_elems)
            self.bad(f"free name `{node.id}` resolves to nothing", node)
        if isinstance(node, ast.Attribute):
            return self.attribute(node, env)
        if isinstance(node, ast.UnaryOp):
            if isinstance(node.op, ast.USub) and isinstance(node.operand, ast.Constant) and isinstance(node.operand.value, int) \
                    and not isinstance(node.operand.value, bool):
                return Val(f"(-{node.operand.value} : Int)", INT)
            v = self.expr(node.operand, env)
            if isinstance(node.op, ast.USub):
                if v.ty in (INT, RAT):
                    return Val(f"(-{v.text})", v.ty)
                m = self.as_mat(v, node)
                return Val(f"(-{m.text})", MAT, self.fresh_region(), True)
            if isinstance(node.op, ast.Invert) and v.ty == MASK:
                return Val(f"(QMatNp.maskNot {v.text})", MASK, self.fresh_region(), True)
            if isinstance(node.op, ast.Not) and v.ty.kind == "list":
                return Val(f"({v.text}.isEmpty = true)", PROP)
            if isinstance(node.op, ast.Not) and v.ty in (BOOL, PROP):
                return Val(f"(!{v.text})", BOOL) if v.ty == BOOL else Val(f"(¬ {v.text})", PROP)
            self.bad("unary operator outside the subset", node)
        if isinstance(node, ast.BinOp):
            return self.binop(node, env)
        if isinstance(node, ast.Compare):
            return self.compare(node, env)
        if isinstance(node, ast.BoolOp):
            vs = [self.expr(x, env) for x in node.values]
            if not all(v.ty in (BOOL, PROP) for v in vs):
                self.bad("and/or of non-booleans", node)
            ps = [v.text if v.ty == PROP else f"({v.text} = true)" for v in vs]
            return Val("(" + (" ∧ " if isinstance(node.op, ast.And) else " ∨ ").join(ps) + ")", PROP)
        if isinstance(node, ast.IfExp):
            return self.ifexp(node, env)
        if isinstance(node, ast.Subscript):
            return self.subscript(node, env)
        if isinstance(node, ast.Tuple):
            vs = [self.expr(e, env) for e in node.elts]
            if len(vs) < 2:
                self.bad("tuple with fewer than two elements", node)
            out = Val("(" + ", ".join(v.text for v in vs) + ")", TTuple(*[v.ty for v in vs]), None, True)
            out.parts = vs
            regs = [v.region for v in vs if v.ty.kind in MUTABLE]
            if regs:
                ok = all(r not in (None, EXT) and not (isinstance(r, tuple) and r[0] in ("param", "elem")) for r in regs) and len(set(regs)) == len(regs)
                out.region = self.fresh_region() if ok else EXT
            return out
        if isinstance(node, ast.List):
            if not node.elts:
                # an empty list literal is a list of arrays (anything else appended to it is rejected)
                return Val("([] : List QMat)", TList(MAT), self.fresh_region(), True, True)
            vs = [self.expr(e, env) for e in node.elts]
            if len({v.ty for v in vs}) != 1:
                self.bad("list literal with elements of different types", node)
            owned = all(v.ty.kind not in MUTABLE or (v.temp and v.region not in (None, EXT)) for v in vs)
            return Val("[" + ", ".join(v.text for v in vs) + "]", TList(vs[0].ty), self.fresh_region(), True, owned)
        if isinstance(node, (ast.ListComp, ast.GeneratorExp)):
            return self.comprehension(node, env)
        if isinstance(node, ast.Call):
            return self.call(node, env)
        self.bad("expression outside the subset", node)

    def attribute(self, node: ast.Attribute, env: dict) -> Val:
        base = self.expr(node.value, env) if not (isinstance(node.value, ast.Name) and node.value.id not in env) else None
        if base is None:
            self.bad(f"free name `{dotted(node)}` resolves to nothing", node)
        if base.ty in (MAT, TOpt(MAT)):
            m = self.as_mat(base, node)
            if node.attr == "T":
                return Val(f"(QMat.transpose {m.text})", MAT, m.region, m.temp)      # a view
            if node.attr == "shape":
                return Val(f"(QMatNp.shape {m.text})", SHAPE)
            self.bad(f"array attribute `.{node.attr}`", node)
        if base.ty.kind == "obj":
            spec = next(s for s in self.unit.classes.values() if s.lean == base.ty.args[0])
            kind, ty = self.unit.attribute(spec, node.attr, self.qual)
            return Val(f"{base.text}.{lname(node.attr)}", ty, EXT if ty.kind in MUTABLE else None)
        self.bad(f"attribute of a value of type {base.ty}", node)

    def binop(self, node: ast.BinOp, env: dict) -> Val:
        if isinstance(node.op, ast.Mult) and isinstance(node.left, ast.List) and len(node.left.elts) == 1 \
                and isinstance(node.left.elts[0], ast.Constant) and node.left.elts[0].value is None:
            # [None] * n : a list of n empty slots for arrays
            n = self.expr(node.right, env)
            if n.ty != INT:
                self.bad("[None] * (non-int)", node)
            return Val(f"(QMatNp.replicate {n.text} (none : Option QMat))", TList(TOpt(MAT)), self.fresh_region(), True, True)
        for side in ("right", "left"):
            sub = getattr(node, side)
            if isinstance(sub, ast.IfExp):
                try:
                    self.ifexp(sub, dict(env))
                except Untranslatable:
                    # x op (u if c else v)  ==  (x op u) if c else (x op v)
                    mk = lambda branch: ast.BinOp(left=node.left if side == "right" else branch, op=node.op,
                                                  right=branch if side == "right" else node.right)
                    return self.ifexp(ast.IfExp(test=sub.test, body=mk(sub.body), orelse=mk(sub.orelse)), env)
        a, b = self.expr(node.left, env), self.expr(node.right, env)
        op = node.op
        num = lambda v: v.ty in (INT, RAT)
        matlike = lambda v: v.ty in (MAT, TOpt(MAT))
        fresh = lambda text: Val(text, MAT, self.fresh_region(), True)
        if num(a) and num(b):
            if a.ty == INT and b.ty == INT:
                if isinstance(op, ast.Add): return Val(f"({a.text} + {b.text})", INT)
                if isinstance(op, ast.Sub): return Val(f"({a.text} - {b.text})", INT)
                if isinstance(op, ast.Mult): return Val(f"({a.text} * {b.text})", INT)
                if isinstance(op, ast.FloorDiv): return Val(f"(Int.fdiv {a.text} {b.text})", INT)
                if isinstance(op, ast.Mod): return Val(f"(Int.fmod {a.text} {b.text})", INT)
                if isinstance(op, ast.Div): return Val(f"({self.to_rat(a)} / {self.to_rat(b)})", RAT)
                self.bad("integer operator outside the subset", node)
            x, y = self.to_rat(a), self.to_rat(b)
            if isinstance(op, ast.Add): return Val(f"({x} + {y})", RAT)
            if isinstance(op, ast.Sub): return Val(f"({x} - {y})", RAT)
            if isinstance(op, ast.Mult): return Val(f"({x} * {y})", RAT)
            if isinstance(op, ast.Div): return Val(f"({x} / {y})", RAT)
            self.bad("scalar operator outside the subset", node)
        veclike = lambda v: v.ty in (VEC, TOpt(VEC))
        if veclike(a) or veclike(b):
            freshv = lambda text: Val(text, VEC, self.fresh_region(), True)
            if veclike(b) and matlike(a) and isinstance(op, ast.MatMult):
                return freshv(f"({self.as_mat(a, node).text} * {self.coerce(b, VEC, node).text})")
            if veclike(a) and veclike(b) and isinstance(op, (ast.Add, ast.Sub)):
                sym = "+" if isinstance(op, ast.Add) else "-"
                return freshv(f"({self.coerce(a, VEC, node).text} {sym} {self.coerce(b, VEC, node).text})")
            if num(a) and veclike(b) and isinstance(op, ast.Mult):
                return freshv(f"(QMat.smul {self.to_rat(a)} {self.coerce(b, VEC, node).text})")
            if veclike(a) and num(b) and isinstance(op, ast.Mult):
                return freshv(f"(QMat.smul {self.to_rat(b)} {self.coerce(a, VEC, node).text})")
            self.bad(f"operator on a 1-D array and a value of type {b.ty if veclike(a) else a.ty} (would broadcast or is outside the subset)", node)
        if matlike(a) and matlike(b):
            x, y = self.as_mat(a, node).text, self.as_mat(b, node).text
            if isinstance(op, ast.MatMult): return fresh(f"({x} * {y})")
            if isinstance(op, ast.Add): return fresh(f"({x} + {y})")
            if isinstance(op, ast.Sub): return fresh(f"({x} - {y})")
            if isinstance(op, ast.Mult): return fresh(f"(QMatNp.hadamard {x} {y})")
            if isinstance(op, ast.Div): return fresh(f"(QMatNp.divElem {x} {y})")
            self.bad("array operator outside the subset", node)
        if num(a) and matlike(b):
            y = self.as_mat(b, node).text
            if isinstance(op, ast.Mult): return fresh(f"(QMat.smul {self.to_rat(a)} {y})")
            if isinstance(op, ast.Add): return fresh(f"(QMatNp.addScalar {y} {self.to_rat(a)})")
            self.bad("scalar-array operator outside the subset", node)
        if matlike(a) and num(b):
            x = self.as_mat(a, node).text
            if isinstance(op, ast.Mult): return fresh(f"(QMat.smul {self.to_rat(b)} {x})")
            if isinstance(op, ast.Div): return fresh(f"(QMatNp.divScalar {x} {self.to_rat(b)})")
            if isinstance(op, ast.Add): return fresh(f"(QMatNp.addScalar {x} {self.to_rat(b)})")
            if isinstance(op, ast.Sub): return fresh(f"(QMatNp.addScalar {x} (-{self.to_rat(b)}))")
            self.bad("array-scalar operator outside the subset", node)
        self.bad(f"operator on values of types {a.ty} and {b.ty}", node)

    def compare(self, node: ast.Compare, env: dict) -> Val:
        if len(node.ops) != 1:
            self.bad("chained comparison", node)
        if isinstance(node.ops[0], (ast.Is, ast.IsNot)):
            self.bad("`is` / `is not` outside a conditional on a local name", node)
        a, b = self.expr(node.left, env), self.expr(node.comparators[0], env)
        if a.ty not in (INT, RAT) or b.ty not in (INT, RAT):
            self.bad(f"comparison of values of types {a.ty} and {b.ty}", node)
        if a.ty != b.ty:
            a, b = Val(self.to_rat(a), RAT), Val(self.to_rat(b), RAT)
        sym = {ast.Lt: "<", ast.LtE: "≤", ast.Gt: ">", ast.GtE: "≥", ast.Eq: "=", ast.NotEq: "≠"}.get(type(node.ops[0]))
        if sym is None:
            self.bad("comparison operator outside the subset", node)
        return Val(f"({a.text} {sym} {b.text})", PROP)

    def ifexp(self, node: ast.IfExp, env: dict) -> Val:
        got: list[Val] = []
        def mk(sub):
            def f(e):
                v = self.expr(sub, e); got.append(v); return "    " + v.text
            return f
        text = self.branch(node.test, env, mk(node.body), mk(node.orelse), 2)
        tys = {v.ty for v in got}
        if len(tys) != 1:
            self.bad(f"conditional expression with branches of types {sorted(map(str, tys))}", node)
        ty = got[0].ty
        if len(got) == 1:       # statically resolved
            return got[0]
        return Val("(\n" + text + ")", ty, EXT if ty.kind in MUTABLE else None)

    def subscript(self, node: ast.Subscript, env: dict) -> Val:
        base = self.expr(node.value, env)
        sl = node.slice
        if base.ty.kind == "tuple":
            if not (isinstance(sl, ast.Constant) and isinstance(sl.value, int) and 0 <= sl.value < len(base.ty.args)):
                self.bad("tuple subscript that is not a literal index in range", node)
            return Val(proj(base.text, sl.value, len(base.ty.args)), base.ty.args[sl.value], EXT if base.ty.args[sl.value].kind in MUTABLE else None)
        if base.ty.kind == "list":
            if isinstance(sl, ast.Slice):
                self.bad("list slice", node)
            i = self.expr(sl, env)
            if i.ty != INT:
                self.bad("list index is not an int", node)
            et = base.ty.args[0]
            default = {"opt": "none", "mat": "(QMat.zero 0 0)", "vec": "(QMat.zero 0 0)", "int": "0", "rat": "0", "bool": "false"}.get(et.kind)
            if default is None:
                self.bad(f"indexing a list of {et}", node)
            return Val(f"(QMatNp.listGet {base.text} {i.text} {default})", et, ("elem", base.region) if et.kind in MUTABLE or et.kind == "opt" else None)
        if base.ty in (MAT, TOpt(MAT)):
            m = self.as_mat(base, node)
            elts = list(sl.elts) if isinstance(sl, ast.Tuple) else [sl]
            if len(elts) == 1 and isinstance(elts[0], ast.Slice):
                elts.append(ast.Slice(lower=None, upper=None, step=None))
            if len(elts) != 2:
                self.bad("array subscript that is not [rows, cols]", node)
            r, c = elts
            if isinstance(c, ast.Constant) and c.value is Ellipsis:
                c = ast.Slice(lower=None, upper=None, step=None)      # X[a:b, ...] on a 2-D array
            if isinstance(r, ast.Slice) and isinstance(c, ast.Slice):
                b = self.slice_bounds(r, env) + self.slice_bounds(c, env)
                return Val(f"(QMatNp.slice {m.text} {' '.join(b)})", MAT, m.region, m.temp)     # a view
            if not isinstance(r, ast.Slice) and not isinstance(c, ast.Slice):
                i, j = self.expr(r, env), self.expr(c, env)
                if i.ty == INT and j.ty == INT:
                    return Val(f"(QMatNp.entry {m.text} {i.text} {j.text})", RAT)
            if isinstance(r, ast.Slice) and r.lower is None and r.upper is None and r.step is None and not isinstance(c, ast.Slice):
                j = self.expr(c, env)
                if j.ty == INT:
                    return Val(f"(QMatNp.colAt {m.text} {j.text})", VEC, m.region, m.temp)      # X[:, t]: a 1-D view
            self.bad("array subscript mixing an index and a slice (would change the rank), or a fancy index", node)
        self.bad(f"subscript of a value of type {base.ty}", node)

    def comprehension(self, node, env: dict) -> Val:
        if len(node.generators) != 1:
            self.bad("nested comprehension", node)
        g = node.generators[0]
        if g.ifs or g.is_async or not isinstance(g.target, ast.Name):
            self.bad("comprehension with a filter or a non-name target", node)
        var = g.target.id
        if var in env:
            self.bad(f"comprehension variable `{var}` shadows a local variable", node)
        e = dict(env)
        if isinstance(g.iter, ast.Call) and dotted(g.iter.func) == "range" and len(g.iter.args) == 1:
            n = self.expr(g.iter.args[0], env)
            if n.ty != INT:
                self.bad("range() of a non-int", node)
            space, vt, unique = f"(QMatNp.range {n.text})", INT, False
        else:
            xs = self.expr(g.iter, env)
            if xs.ty.kind != "list":
                self.bad("comprehension over a non-list", node)
            space, vt = xs.text, xs.ty.args[0]
            # each element is an object nothing else holds: the iterated list is a temporary that owns its elements
            unique = xs.temp and xs.owned_elems and not isinstance(g.iter, ast.Name)
        if unique and sum(1 for s in ast.walk(node.elt) if isinstance(s, ast.Name) and s.id == var) == 1:
            e[var] = Var(vt, self.fresh_region())
            self.comp_unique[var] = 1
        else:
            e[var] = Var(vt, EXT if (vt.kind in MUTABLE or vt.kind == "opt") else None)
        v = self.expr(node.elt, e)
        self.comp_unique.pop(var, None)
        owned = v.ty.kind not in MUTABLE or (v.region not in (None, EXT) and not (isinstance(v.region, tuple) and v.region[0] in ("param", "elem"))
                                              and v.region not in self.shared and (v.temp or v.region == e[var].region))
        return Val(f"({space}.map (fun ({lname(var)} : {vt.lean()}) => {v.text}))", TList(v.ty), self.fresh_region(), True, owned)

    # -- calls ---------------------------------------------------------------------------------------------------
    def kw_ok(self, call: ast.Call, allowed=()):
        for k in call.keywords:
            if k.arg is None or (k.arg not in IGNORED_KW and k.arg not in allowed):
                self.bad(f"keyword argument `{k.arg}`", call)

    def seq_args(self, node, env: dict) -> list[Val] | Val:
        """elements of a literal tuple/list argument, or the list-typed value"""
        if isinstance(node, (ast.Tuple, ast.List)):
            return [self.expr(e, env) for e in node.elts]
        v = self.expr(node, env)
        if v.ty.kind != "list":
            self.bad("argument is neither a literal sequence nor a list", node)
        return v

    def stack(self, fn: str, vals: list[Val], node) -> str:
        if not vals:
            self.bad("stacking an empty sequence", node)
        ms = [self.as_mat(v, node).text for v in vals]
        text = ms[0]
        for m in ms[1:]:
            text = f"(QMat.{fn} {text} {m})"
        return text

    def call(self, node: ast.Call, env: dict) -> Val:
        f = node.func
        name = self.callable_name(f, env)
        if isinstance(f, ast.Name) and f.id in env and env[f.id].ty.kind == "fn":
            f = ast.parse(name, mode="eval").body
        fresh = lambda text, ty=MAT, owned=False: Val(text, ty, self.fresh_region(), True, owned)
        # ---- methods of values
        if isinstance(f, ast.Attribute) and not (isinstance(f.value, ast.Name) and f.value.id not in env) and name not in self.unit.externals:
            base = self.expr(f.value, env)
            if base.ty in (MAT, TOpt(MAT)):
                m = self.as_mat(base, node)
                if f.attr == "copy" and not node.args and not node.keywords:
                    return fresh(m.text)
                self.bad(f"array method `.{f.attr}`", node)
            self.bad(f"method `.{f.attr}` of a value of type {base.ty}", node)
        if name is None:
            self.bad("call of a computed function", node)
        # ---- builtins
        if name in ("tuple", "list") and len(node.args) == 1 and not node.keywords:
            a = node.args[0]
            v = self.expr(a, env)
            if v.ty.kind != "list":
                self.bad(f"{name}() of a value of type {v.ty}", node)
            if isinstance(a, ast.Name):
                # a new container with the same elements: it owns them only if the old container is dead
                dead = not occurs(a.id, self.later_nodes()) and self.holders(env, env[a.id].region) == 1
                if not dead:
                    env[a.id].owned_elems = False
                return Val(v.text, v.ty, self.fresh_region(), True, v.owned_elems and dead)
            return v
        if name == "len" and len(node.args) == 1 and not node.keywords:
            v = self.expr(node.args[0], env)
            if v.ty.kind != "list":
                self.bad(f"len() of a value of type {v.ty}", node)
            return Val(f"(({v.text}.length : Nat) : Int)", INT)
        # ---- numpy constructors
        if name in self.NUMPY_FUNCTIONS:
            self.kw_ok(node)
            args = node.args
            if name == "_np.zeros" and len(args) == 1:
                if isinstance(args[0], ast.Tuple) and len(args[0].elts) == 2:
                    m, n = (self.expr(e, env) for e in args[0].elts)
                    if m.ty != INT or n.ty != INT:
                        self.bad("_np.zeros with non-int dimensions", node)
                    return fresh(f"(QMatNp.zeros ({m.text}, {n.text}))")
                s = self.expr(args[0], env)
                if s.ty != SHAPE:
                    self.bad("_np.zeros of something that is not a 2-D shape", node)
                return fresh(f"(QMatNp.zeros {s.text})")
            if name == "_np.zeros_like" and len(args) == 1:
                return fresh(f"(QMatNp.zeros (QMatNp.shape {self.as_mat(self.expr(args[0], env), node).text}))")
            if name == "_np.copy" and len(args) == 1:
                return fresh(self.as_mat(self.expr(args[0], env), node).text)
            if name == "_np.eye" and len(args) in (1, 2):
                vs = [self.expr(a, env) for a in args]
                if any(v.ty != INT for v in vs):
                    self.bad("_np.eye with non-int dimensions", node)
                return fresh(f"(QMatNp.eye {vs[0].text})" if len(vs) == 1 else f"(QMatNp.eye2 {vs[0].text} {vs[1].text})")
            if name == "_np.block" and len(args) == 1 and isinstance(args[0], ast.List) and args[0].elts \
                    and all(isinstance(r, ast.List) for r in args[0].elts):
                rows = [self.stack("hstack", [self.expr(e, env) for e in r.elts], node) for r in args[0].elts]
                text = rows[0]
                for r in rows[1:]:
                    text = f"(QMat.vstack {text} {r})"
                return fresh(text)
            if name in ("_np.hstack", "_np.vstack", "_np.concatenate") and len(args) == 1:
                fn = "vstack" if name == "_np.concatenate" else name[4:]      # concatenate: axis 0
                seq = self.seq_args(args[0], env)
                if isinstance(seq, list):
                    if all(v.ty == MASK for v in seq) and fn == "hstack":
                        return Val("(" + " ++ ".join(v.text for v in seq) + ")", MASK, self.fresh_region(), True)
                    return fresh(self.stack(fn, seq, node))
                if seq.ty != TList(MAT):
                    self.bad(f"{name} of a list of {seq.ty.args[0]}", node)
                return fresh(f"(QMatNp.{fn}List {seq.text})")
            self.bad(f"call of {name} outside the subset", node)
        # ---- external routines: explicit parameters
        if name in self.unit.externals:
            x = self.unit.externals[name]
            self.kw_ok(node, x.ignore_kw)
            if len(node.args) != len(x.args):
                self.bad(f"external routine {name} called with {len(node.args)} positional arguments", node)
            args = [self.coerce(self.expr(a, env), t, node).text for a, t in zip(node.args, x.args)]
            self.use_ext(name)
            text = f"({x.lean} {' '.join(args)})" if args else x.lean
            return Val(text, x.ret, self.fresh_region() if x.ret.kind in MUTABLE else None, True)
        # ---- closures and functions of the module
        info = None
        tr: FnTr | None = self
        while tr is not None and info is None:
            info = tr.closures.get(name)
            tr = tr.parent
        if info is None and "." not in name and name not in env and self.unit.is_module_function(name):
            info = self.unit.function(name)
        if info is None and name in self.unit.imports:
            other, fname = self.unit.imports[name]
            base = other.function(fname)
            info = FnInfo()
            info.__dict__.update(base.__dict__)
            info.lean = f"{other.namespace}.{base.lean}"
            if base.ext_used:
                self.bad(f"imported function `{name}` calls an external routine", node)
        if info is None:
            self.bad(f"call to `{name}` resolves to nothing", node)
        return self.user_call(info, node, env)

    def user_call(self, info: FnInfo, node: ast.Call, env: dict) -> Val:
        pnames = [p for p, _ in info.params]
        if len(node.args) > len(pnames):
            self.bad("too many positional arguments", node)
        given: dict[str, ast.AST] = dict(zip(pnames, node.args))
        for k in node.keywords:
            if k.arg is None or k.arg not in pnames or k.arg in given:
                self.bad(f"keyword argument `{k.arg}`", node)
            given[k.arg] = k.value
        if set(given) != set(pnames):
            self.bad("default parameter values are outside the subset (every argument must be given)", node)
        args = []
        vals = []
        for i, (p, ty) in enumerate(info.params):
            v = self.coerce(self.expr(given[p], env), ty, node)
            vals.append(v)
            args.append(v.text)
            if i in info.mutates:
                a = given[p]
                ok = v.region not in (None, EXT) and v.region not in self.shared and not (isinstance(v.region, tuple) and v.region[0] in ("param", "elem"))
                if ok and not v.temp:
                    # a name: it must be the only holder and dead after the call
                    ok = isinstance(a, ast.Name) and self.holders(env, v.region) == 1 and \
                        (a.id in self.comp_unique or not occurs(a.id, self.later_nodes()))
                if not ok:
                    self.bad(f"argument `{p}` is updated in place by the callee but may have another live holder", node)
        for e in info.ext_used:
            self.use_ext(e)
        cap = []
        for c, ty in info.captured:
            if c not in env or env[c].ty != ty:
                self.bad(f"captured variable `{c}` is not in scope with the type it had at the definition", node)
            cap.append(lname(c))
        ext = [self.unit.externals[e].lean for e in info.ext_used]
        text = "(" + " ".join([info.lean] + ext + cap + args) + ")"
        ty = info.ret
        if ty.kind in MUTABLE or ty.kind == "tuple":
            if info.ret_param_alias is not None:
                v = vals[info.ret_param_alias]
                return Val(text, ty, v.region, v.temp or (v.region not in (None, EXT)), info.ret_owned_elems)
            if info.ret_fresh:
                return Val(text, ty, self.fresh_region(), True, info.ret_owned_elems)
            return Val(text, ty, EXT, False, False)
        return Val(text, ty)


# ----------------------------------------------------------------------------------------------------------------
# C15 pilot: fords/covariances.py -> Generated/AcovGen.lean
# ----------------------------------------------------------------------------------------------------------------

SOLUTION = ClassSpec(
    "Solution", "src/irispie/fords/solutions.py",
    {"Ta": MAT, "Pa": MAT, "Za": MAT, "Ua": MAT, "H": MAT, "Z": MAT, "num_unit_roots": INT,
     "boolex_stable_transition_vector": MASK, "boolex_stable_measurement_vector": MASK},
    doc="`num_unit_roots` (a count over the eigenvalue classification) and the two `boolex_stable_*` vectors (derived from the "
        "stored stability classification) are properties outside the subset and are taken as opaque stored values",
)

ACOV_FUNCTIONS = ["get_cov_alpha_00", "get_cov_triangular_00", "get_autocov_triangular_00", "get_autocov_square_00",
                  "get_autocov_square"]


def gen_acov(repo: str) -> str:
    unit = Unit(
        repo, "src/irispie/fords/covariances.py", "IrisVerif.Gen.Acov",
        externals={"_sp.linalg.solve_discrete_lyapunov":
                   External("solve_discrete_lyapunov", [MAT, MAT], MAT, doc="scipy's solver of X = A X Aᵀ + Q")},
        classes={"Solution": SOLUTION},
        param_types={"get_autocov_square.fill_nans": {"cov": MAT}},
    )
    for f in ACOV_FUNCTIONS:
        unit.function(f)
    return unit.render("Straight-line numpy code of fords/covariances.py (model-implied autocovariances, property C15) "
                       "as definitions over QMat.")


GENERATORS = {
    "AcovGen.lean": (gen_acov, {"C15"}),
}
